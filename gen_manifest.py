#!/usr/bin/env python3
"""Regenerates MANIFEST.json from the table below (kept as code so that it stays valid)."""
import json, os
HERE = os.path.dirname(os.path.abspath(__file__))
BASE = json.load(open("/root/.vp/BASELINE.json"))["cmd"] if os.path.exists("/root/.vp/BASELINE.json") else ""

SEQ_NOTE = ("Trusted: Coq kernel; extraction (ExtrOcamlBasic), OCaml drivers incl. a hand-written SHA-256 that only instantiates the model's hash parameter; "
            "the Go harness (simulated stores with fault/crash/hold gates, canonicalisation); Ctlog/Model.v is a hand transcription of internal/ctlog/ctlog.go tied by "
            "differential histories (every storage/lock operation incl. payload digests, acknowledgements, load/create results must match); trees/tiles are kept at "
            "specification level in the model; load-time tile authentication is a verifying-reader specification; lock store assumed a CAS register (C05); "
            "S3 eventual consistency, names-tile JSON and x509 parsing not modelled.")
CHECKS = {
 "C01": dict(
   text="Proof (Coq, all event lists: any submissions, rounds, fault placements applied or not, crashes, restarts, clocks, any number of instances, tampering): the lock-store checkpoint history is append-only (sizes, prefix roots, strictly increasing timestamps) and every published checkpoint was committed first; the invariant is inductive over a small-step model of CreateLog/LoadLog/sequencePool. Tie: generated histories run against real ctlog.Log instances and replayed by the extracted model (operation-level equality incl. payload digests) plus independent-tree monitors.",
   ref="5 (C01), 5.0", note=SEQ_NOTE + " The published-history clause is a theorem only for the lock store; for object storage it is exercised by monitors (and false with two live instances: known finding under C06).",
   technique="Coq inductive invariant over a small-step sequencer model + extracted-model differential histories against real ctlog.Log"),
 "C02": dict(
   text="Proof (Coq, all event lists incl. crashes right after an acknowledgement, cache loss/rollback/take-over, faults, any number of instances): every acknowledgement (sequenced or served from the dedup cache) names an index that in every committed tree large enough holds an entry with the same dedup identity, that timestamp and that index, and acknowledgements are never retracted (second inductive invariant layer Inv2 + monotonicity). Partial: coverage by the checkpoint READABLE in object storage at that moment is decided per run by the monitor C02.ack (it is false with two live instances: known finding C06); SCT signature verification by ct-go is exercised in C09.",
   ref="5 (C02)", note=SEQ_NOTE, technique="Coq inductive invariant (acks/caches name committed leaves) + differential histories with a per-acknowledgement storage monitor"),
 "C03": dict(
   text="Proof (Coq): crashes are ordinary events (between any two operations of a round or of a recovery, any subset of the parallel batch applied, repeatedly), so the all-event-list theorems cover every crash point at every size. Proved without any hash assumption, for all untampered event lists: whenever an instance has loaded (incl. after crashes during sequencing or during an earlier recovery) every tile of the tree it loaded is present with exactly the prescribed bytes (third invariant layer Inv3, C03_loaded_complete); every committed tree is complete or completable from its present staging bundle (C03_staging_bundles); no acknowledged entry is ever lost; only staging bundles are discarded. Not theorems: termination of LoadLog after a crash (liveness) and 'discard only after the published checkpoint caught up' — decided per run by crash-point histories (thorough: every crash position of a round x every crash position of the recovery), audit and monitor C03.discard.",
   ref="5 (C03), 9.2", note=SEQ_NOTE, technique="Coq inductive invariants (Inv, Inv2, Inv3: storage completeness/exactness) over all event lists with crash events + crash-point differential histories with storage audit"),
 "C04": dict(
   text="Proof (Coq, every hash function, all untampered event lists = every intermediate storage state of every history, any number of instances, all faults/crashes): the published checkpoint's tree is fully backed by hash, data and names tiles with exactly the bytes prescribed for the leaf sequence (C04_complete_exact); every object under any tile path is the canonical rendering of the committed leaf sequence (C04_exact_everything); only staging bundles are discarded; immutable objects are never replaced by different bytes. The invariant (Inv3) rests on immutability, not on collision-freeness (which is shown to be unavailable for the uncovered fields). Tie: the extracted model predicts the digest of every uploaded object (operation-level equality) and monitor C04.audit re-reads everything behind every effective checkpoint upload (incl. issuers) against an independent RFC 6962 tree.",
   ref="5 (C04), 9.2", note=SEQ_NOTE + " Theorems are stated for fewer than 2^63 events (tile paths are injective on int64 coordinates only). Referenced issuers and names-tile JSON are monitor/correspondence-checked, not theorems.", technique="Coq inductive invariant Inv3 (storage completeness and exactness) + byte-level digest correspondence of every upload + full storage audit monitor"),
 "C05": dict(
   text="Proof (Coq) on the protocol model, partial: for all schedules of any number of clients (lost replies, dropped requests, pending calls, reopen) each backend — the SQLite, DynamoDB and ETag clients (content-hash ETags for any injective hash, or version-counter ETags) as client protocols over a server with atomic requests — simulates the by-value compare-and-swap register, so every schedule has a real-time-respecting linearization; the property's five sentences are corollaries; refutations for the pre-fix ETag client, reads without ConsistentRead, by-value comparison under version ETags and SDK retry after A->B->A. An executable linearizability checker is proved sound and complete, extracted, and run window by window on recorded histories of a real SQLite file hammered by goroutines, connections and a killed/restarted child process. Line-level differential of the three real backends (DynamoDB/S3 through protocol-level fake endpoints that also log the wire requests).",
   ref="5 (C05), 0.3", note="Assumed (trusted base): atomicity and durability of single SQLite statements, DynamoDB conditional writes/consistent reads and S3-compatible If-Match (SQLite additionally exercised); empty If-Match = create-only is Tigris-specific; one request per call; the fake endpoints transcribe the Coq server models; Coq kernel, extraction, OCaml/Go drivers. Known finding C05-sdk-retry-aba; ETag missing-log fix b39ed72.",
   technique="Coq simulation/refinement proof of client protocols against a CAS register + proved-sound extracted linearizability checker on real SQLite histories + wire-level differential"),
 "C06": dict(
   text="Proof (Coq, all interleavings at operation granularity of any number of instances): lock history has no repeated value, the lock is its last element, a refused compare-and-swap changes nothing, is fatal and acknowledges nothing, CreateLog never overwrites, LoadLog refuses storage-ahead / same-size-other-root / foreign key or name / extension. Tie: two gated real instances with hold points, start-up state scenarios. The rollback of the *published* checkpoint by a superseded instance is a confirmed known finding.",
   ref="5 (C06), 0.3", note=SEQ_NOTE, technique="Coq invariant + step lemmas over the multi-instance sequencer model + differential two-instance histories"),
 "C07": dict(
   text="Proof (Coq): a resubmission of a pending/in-sequencing entry joins the original waiter and adds no leaf; a cached entry is answered from the cache and adds no leaf; every acknowledgement incl. those from a cache, a taken-over cache file or a rolled-back cache names an index that really holds that entry (all event lists); the dedup identity depends only on (type, issuer key hash, certificate). Tie: duplicate patterns against every phase of real rounds, cache loss/keep across restarts; monitor C07.dup compares each duplicate's answer with the original's.",
   ref="5 (C07)", note=SEQ_NOTE + " Legacy 128-bit table, recompute-cache tool and SCT byte-identity are not modelled (exercised elsewhere or not at all: see DESIGN).", technique="Coq theorems over the admission function and the ack/cache invariant + differential duplicate/cache histories"),
 "C08": dict(
   text="Proof (Coq): tampering events (any object replaced by anything or deleted, anywhere in the event list) are part of the quantified event lists of the invariant: the committed history stays one append-only chain. Partial: the verifying tile reader is a specification in the model; the tamper stream of the harness (delete, truncate, bit-flip, substitute, checkpoint rollback, then restart and further rounds) checks the real reader against it.",
   ref="5 (C08)", note=SEQ_NOTE, technique="Coq invariant closed under arbitrary EvTamper events (C08_partial) + differential tamper histories"),
 "C09": dict(
   text="Proof (Coq) on the decision model, partial: over abstract certificates and for all oracle behaviours meeting an explicit contract of ctfe.ValidateChain/BuildPrecertTBS, the handler logic reaches the pool exactly for acceptable requests, with exactly the RFC 6962 3.1/3.2 entry written separately from the transcription (x509 / defanged TBS; issuer key hash from chain[1] or chain[2] behind a precertificate signing certificate; issuers = chain[1..]), rejects everything else with a 4xx before the pool (full strength after fixes ac90d60/48383da; the pre-fix handler is kept with refutation witnesses), get-roots = parse of the last accepted PEM over all reload histories and restarts. Tie: ~640 real DER chains per run from a stdlib-generated CA hierarchy posted to the real handler of a real log with the real sequencer; ct-go independent leaf, SCT signature, stdlib twin-TBS, issuer objects, get-roots and no-leaf monitors.",
   ref="5 (C09)", note="Everything inside ctfe.ValidateChain, x509.ParseCertificate, x509.BuildPrecertTBS, json, PEM parsing is an oracle modelled by contract only (contract checked per case against the generator); ct-go shares BuildPrecertTBS with sunlight, hence the stdlib-built twin; pool admission is C17's; Coq kernel, extraction, OCaml SHA-256, Go harness trusted.",
   technique="Coq theorems relating a transcription of the handler to a separately written RFC 6962 entry specification under oracle premises + extracted-model differential and independent-implementation monitors on generated real chains"),
 "C10": dict(
   text="Proof (Coq, all inputs): the leaf/extension/tile-path codec model is a canonical bijection (9 theorems, closed under the global context); the model is tied to tile.go/extensions.go by a differential run of the extracted model against the Go functions on ~20k generated and mutated inputs per quick run, plus implementation-side monitors of every clause.",
   ref="5 (C10)",
   note="Trusted: Coq kernel; extraction (ExtrOcamlBasic) and the OCaml/Go drivers; the hand transcription Codec/Leaf.v (tied only by differential testing); cryptobyte and x/mod tlog path functions are modelled, not verified.",
   technique="Coq proof of round-trip/canonicity theorems over an executable Gallina codec model + extracted-model differential against the Go implementation"),
 "C18": dict(
   text="Proof (Coq, all directories and sizes, both path flavours, Go int wrap-around included): every path the cleanup removes is a partial tile (or its emptied .p directory) whose non-empty full tile exists strictly left of the right edge of the tree of the given size; no tile of any tree of size >= that size is ever removed (superseded_safe arithmetic), so a complete published tree, a lock-store tree ahead of it, and mirror trees stay complete. Tie: the UNMODIFIED partial-aftersun binary on real sequencer-built LocalBackend directories at sizes around level-0/level-1 boundaries (incl. 65535..65537), lock-ahead states, planted leftovers, mirror directories and synthetic directories; deleted set and exit class reproduced by the extracted model; audit + LoadLog + one more round after cleaning.",
   ref="5 (C18), 2.4", note="Trusted: Coq kernel, extraction + OCaml/Go drivers, the transcription GC/Model.v of cleanDir/overrideImmutable; os.Root, ReadDir order, unlink and the immutable-flag ioctl are specified not modelled; symlinks and concurrent writers out of scope; 'can restart and sequence' is shown by monitors, not a theorem. Observations outside C18's quantifier (stray directory named with level 2^61-1 wraps the tile size; levels 7..2^60 panic; any unparsable entry such as a durable.WriteFile temp leftover stops the walk with exit 1, deleting nothing wrongly) are recorded in DESIGN.md.",
   technique="Coq proof about an executable transcription of cleanDir + differential run of the unmodified partial-aftersun binary on real and synthetic directories with audit/reload monitors"),
 "C11": dict(
   text="Proof (Coq, all messages, blobs, names, sizes, roots, timestamps, key kinds and raw signature primitives): exact characterisation of the RFC 6962 note verifier (verifier_iff), injectivity of the STH signature input, strictness corollaries (origin, extension, trailing bytes, algorithm, changed tuple => different signed bytes), checkpoint text codec round trip and the exact extent of its non-canonicity (refuted converse with witnesses), every signTreeHead result opens with both verifiers, embeds the time and passes the independent verifier, signing is a function of its inputs (19 theorems, closed). Tie: extracted-model differential (~15k lines per run incl. every verifier-closure call made by note.Open on ~9k byte-level mutants) plus monitors against certificate-transparency-go's verifier and filippo.io/mldsa on real signatures.",
   ref="5 (C11), 0.2", note="Unforgeability of ECDSA/RSA/ML-DSA appears only as explicit hypotheses; RFC 6979 determinism is observed, not proved; note, torchwood, base64, cryptobyte, ct-go serialisation are modelled dependencies tied differentially; note.Sign/Open modelled at the signature-line level; Coq kernel, extraction, drivers trusted. Known finding C11-ctl-origin.",
   technique="Coq proofs over an executable Gallina model with symbolic signatures + extracted-model differential and independent-verifier monitors on real signatures"),
 "C17": dict(
   text="Proof (Coq, all pools/arrival orders/victim choices): the admission function (mutex-protected part of addLeafToPool) keeps the pool within its size, rejects low priority when full, evicts exactly one pending low-priority entry for a high-priority one (else rejects), and rejects everything once closed; the stop paths are part of the sequencer model. Tie: pool-size 1..3 scenarios, clock-stall fatal stops and cancellations against real RunSequencer goroutines; every waiter outcome compared.",
   ref="5 (C17)", note=SEQ_NOTE + " 'Promptly' is checked by the harness only as 'returns within the quiescence window'.", technique="Coq theorems about the admission function + differential pool/stop histories"),
}
NOT_APPLICABLE = []

def main():
    all_ids = [json.loads(l)["id"] for l in open(os.path.join(HERE, "properties.jsonl"))]
    m = {
      "version": 1,
      "setup_cmd": "./setup.sh",
      "hooks": {"guard": "verif",
                "enable": "go build -tags verif -modfile=<scratch go.mod> -overlay=<generated overlay.json> ./internal/verifharness/<area>, run from /repo: harness sources live under /verif/harness and are mapped into the module by the overlay; nothing is committed in /repo for hooks",
                "baseline_off_cmd": BASE,
                "source_commits": [],
                "add_only": True},
      "engines": [
        {"name": "coq-model", "path": "coq/", "serves_properties": sorted(CHECKS), "kind_free_text": "Coq 8.16.1 development: executable Gallina models, proofs, Properties/Cxx.v statement files"},
        {"name": "extracted-model", "path": "ocaml/", "serves_properties": sorted(CHECKS), "kind_free_text": "OCaml drivers around the extracted models (correspondence check)"},
        {"name": "verifharness", "path": "harness/", "serves_properties": sorted(CHECKS), "kind_free_text": "Go drivers compiled from /repo's working tree via -overlay, tag verif"},
      ],
      "checks": [], "notes": "See DESIGN.md. Properties not yet listed under checks are listed under not_applicable with the reason 'machinery not built yet' until their check runs green.",
      "not_applicable": [],
    }
    for pid in sorted(CHECKS):
        c = CHECKS[pid]
        m["checks"].append({
          "property_id": pid, "quick_cmd": "./check %s --tier quick" % pid, "thorough_cmd": "./check %s --tier thorough" % pid,
          "evidence_file": "evidence/%s.json" % pid, "replay_cmd_template": "./check %s --replay {path}" % pid,
          "engine": "coq-model", "level_claimed": {"category": c.get("category", "proof"), "text": c["text"], "design_ref": c["ref"]},
          "level_note": c["note"], "technique": c["technique"]})
    na = dict(NOT_APPLICABLE)
    for pid in all_ids:
        if pid not in CHECKS:
            m["not_applicable"].append({"property_id": pid, "reason": na.get(pid, "not claimed yet: the model/theorems/correspondence check for this property are not built yet (in progress, see DESIGN.md section 7)")})
    json.dump(m, open(os.path.join(HERE, "MANIFEST.json"), "w"), indent=1)
if __name__ == "__main__":
    main()
