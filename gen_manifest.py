#!/usr/bin/env python3
"""Regenerates MANIFEST.json from the table below (kept as code so that it stays valid)."""
import json, os
HERE = os.path.dirname(os.path.abspath(__file__))
BASE = json.load(open("/root/.vp/BASELINE.json"))["cmd"] if os.path.exists("/root/.vp/BASELINE.json") else ""

CHECKS = {
 "C10": dict(
   text="Proof (Coq, all inputs): the leaf/extension/tile-path codec model is a canonical bijection (8+ theorems, closed under the global context); the model is tied to tile.go/extensions.go by a differential run of the extracted model against the Go functions on ~20k generated and mutated inputs per quick run, plus implementation-side monitors of every clause.",
   ref="5 (C10)",
   note="Trusted: Coq kernel; extraction (ExtrOcamlBasic) and the OCaml/Go drivers; the hand transcription Codec/Leaf.v (tied only by differential testing); cryptobyte and x/mod tlog path functions are modelled, not verified.",
   technique="Coq proof of round-trip/canonicity theorems over an executable Gallina codec model + extracted-model differential against the Go implementation"),
}
NOT_APPLICABLE = []

def main():
    all_ids = [json.loads(l)["id"] for l in open(os.path.join(HERE, "properties.jsonl"))]
    m = {
      "version": 1,
      "setup_cmd": "./setup.sh",
      "hooks": {"guard": "verif",
                "enable": "go build -tags verif -modfile=<scratch go.mod> -overlay=<generated overlay.json> ./internal/verifharness/<area>, run from /repo: harness sources live under /verif/harness and are mapped into the module by the overlay; nothing is committed in /repo for hooks",
                "baseline_off_cmd": BASE,
                "source_commits": [],
                "add_only": True},
      "engines": [
        {"name": "coq-model", "path": "coq/", "serves_properties": sorted(CHECKS), "kind_free_text": "Coq 8.16.1 development: executable Gallina models, proofs, Properties/Cxx.v statement files"},
        {"name": "extracted-model", "path": "ocaml/", "serves_properties": sorted(CHECKS), "kind_free_text": "OCaml drivers around the extracted models (correspondence check)"},
        {"name": "verifharness", "path": "harness/", "serves_properties": sorted(CHECKS), "kind_free_text": "Go drivers compiled from /repo's working tree via -overlay, tag verif"},
      ],
      "checks": [], "notes": "See DESIGN.md. Properties not yet listed under checks are listed under not_applicable with the reason 'machinery not built yet' until their check runs green.",
      "not_applicable": [],
    }
    for pid in sorted(CHECKS):
        c = CHECKS[pid]
        m["checks"].append({
          "property_id": pid, "quick_cmd": "./check %s --tier quick" % pid, "thorough_cmd": "./check %s --tier thorough" % pid,
          "evidence_file": "evidence/%s.json" % pid, "replay_cmd_template": "./check %s --replay {path}" % pid,
          "engine": "coq-model", "level_claimed": {"category": c.get("category", "proof"), "text": c["text"], "design_ref": c["ref"]},
          "level_note": c["note"], "technique": c["technique"]})
    na = dict(NOT_APPLICABLE)
    for pid in all_ids:
        if pid not in CHECKS:
            m["not_applicable"].append({"property_id": pid, "reason": na.get(pid, "not claimed yet: the model/theorems/correspondence check for this property are not built yet (in progress, see DESIGN.md section 7)")})
    json.dump(m, open(os.path.join(HERE, "MANIFEST.json"), "w"), indent=1)
if __name__ == "__main__":
    main()
