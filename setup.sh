#!/bin/sh
# Run once after a fresh restore, offline: builds the Coq development (full .vo build).
set -e
cd "$(dirname "$0")"
export GOFLAGS=-mod=mod GOPROXY=off CARGO_NET_OFFLINE=true PIP_NO_INDEX=1
mkdir -p build evidence
python3 -c "import checklib; checklib.coq_makefile()"
# build everything that builds; each check (re)builds the closure of its own Properties file and
# reports a failure there, so one broken file must not take the whole setup down
(cd coq && timeout 3000 make -k -j8) || echo "setup: some Coq files did not build (the checks that depend on them will say so)"
# warm the Go build cache for the harness (best effort; each check rebuilds from /repo anyway)
python3 - <<'PY' || true
import sys; sys.path.insert(0, '.')
import checklib, os
for a in sorted(os.listdir('harness')):
    if a != 'inject' and os.path.isdir(os.path.join('harness', a)):
        checklib.build_harness(a)
PY
