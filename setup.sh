#!/bin/sh
# Run once after a fresh restore, offline: builds the Coq development (full .vo build).
set -e
cd "$(dirname "$0")"
export GOFLAGS=-mod=mod GOPROXY=off CARGO_NET_OFFLINE=true PIP_NO_INDEX=1
mkdir -p build evidence
python3 -c "import checklib; checklib.coq_makefile()"
(cd coq && timeout 3000 make -j"$(nproc)")
# warm the Go build cache for the harness (best effort; each check rebuilds from /repo anyway)
python3 - <<'PY' || true
import sys; sys.path.insert(0, '.')
import checklib, os
for a in sorted(os.listdir('harness')):
    if a != 'inject' and os.path.isdir(os.path.join('harness', a)):
        checklib.build_harness(a)
PY
