#!/usr/bin/env python3
"""Shared plumbing of the /verif checks (DESIGN.md section 4).

Everything a check needs is rebuilt from files on disk: the Coq development under
/verif/coq (full .vo build, never -vos), the extracted OCaml model drivers, and the Go
correspondence harness, which is compiled from /repo's *current working tree* by
`go build -tags verif -overlay` (harness sources stay under /verif/harness).
"""
import fcntl, hashlib, json, os, re, shutil, subprocess, sys, tempfile, time

VERIF = os.path.dirname(os.path.abspath(__file__))
REPO = os.environ.get("VERIF_REPO", "/repo")
COQ = os.path.join(VERIF, "coq")
BUILD = os.path.join(VERIF, "build")
EVID = os.path.join(VERIF, "evidence")
REPLAY = os.path.join(VERIF, "build", "replay")
NCPU = min(os.cpu_count() or 4, 8)

ALLOWED_AXIOMS = {
    # standard-library axioms that may appear (each is named in DESIGN.md section 6)
    "functional_extensionality_dep", "FunctionalExtensionality.functional_extensionality_dep",
    "Eqdep.Eq_rect_eq.eq_rect_eq", "eq_rect_eq", "JMeq_eq", "proof_irrelevance", "classic",
}

FORBIDDEN = re.compile(
    r"\b(Admitted|admit|Axiom|Axioms|Parameter|Parameters|Conjecture|Conjectures|Abort All)\b"
    r"|Unset\s+Guard|Unset\s+Positivity|Unset\s+Universe|bypass_check|type-in-type|impredicative-set"
    r"|Admit\s+Obligations")


def env():
    e = dict(os.environ)
    e.update({"GOFLAGS": "-mod=mod", "GOPROXY": "off", "CGO_ENABLED": "1",
              "CARGO_NET_OFFLINE": "true", "PIP_NO_INDEX": "1"})
    e.pop("GOSUMDB", None)
    return e


class Lock:
    """serialises the build steps between concurrently running checks"""
    def __init__(self, name="build"):
        os.makedirs(BUILD, exist_ok=True)
        self.path = os.path.join(BUILD, "." + name + ".lock")
    def __enter__(self):
        self.f = open(self.path, "w")
        fcntl.flock(self.f, fcntl.LOCK_EX)
        return self
    def __exit__(self, *a):
        fcntl.flock(self.f, fcntl.LOCK_UN)
        self.f.close()


def run(cmd, cwd=None, timeout=1200, input=None, env_=None, shell=False):
    t0 = time.time()
    try:
        p = subprocess.run(cmd, cwd=cwd, timeout=timeout, input=input, env=env_ or env(),
                           stdout=subprocess.PIPE, stderr=subprocess.STDOUT, shell=shell)
        return p.returncode, p.stdout.decode("utf-8", "replace"), time.time() - t0
    except subprocess.TimeoutExpired as ex:
        out = (ex.stdout or b"").decode("utf-8", "replace")
        return 124, out + "\n[timeout after %ss]" % timeout, time.time() - t0


# ----------------------------------------------------------------------------------------
# Coq
# ----------------------------------------------------------------------------------------

def coq_files():
    fs = []
    for l in open(os.path.join(COQ, "_CoqProject")):
        l = l.strip()
        if l.endswith(".v") and not l.startswith("-"):
            fs.append(l)
    return fs


def grep_gate(files=None):
    """no Admitted/admit/Axiom/Parameter/... anywhere in the development"""
    bad = []
    for root, _, names in os.walk(COQ):
        for n in names:
            if not n.endswith(".v"):
                continue
            p = os.path.join(root, n)
            txt = open(p, encoding="utf-8").read()
            txt_nc = strip_coq_comments(txt)
            for i, line in enumerate(txt_nc.split("\n"), 1):
                if FORBIDDEN.search(line):
                    bad.append("%s:%d: %s" % (os.path.relpath(p, COQ), i, line.strip()))
    return bad


def strip_coq_comments(s):
    out, depth, i, n = [], 0, 0, len(s)
    instr = False
    while i < n:
        if not instr and s.startswith("(*", i):
            depth += 1; i += 2; continue
        if not instr and depth > 0 and s.startswith("*)", i):
            depth -= 1; i += 2; continue
        c = s[i]
        if depth == 0:
            if c == '"':
                instr = not instr
            out.append(c)
        elif c == "\n":
            out.append(c)
        i += 1
    return "".join(out)


def gen_coqproject():
    """_CoqProject lists every .v file under coq/ (except Extract/, which is compiled by build_model)."""
    files = []
    for root, dirs, names in os.walk(COQ):
        dirs.sort()
        rel = os.path.relpath(root, COQ)
        if rel.startswith("Extract") or rel.startswith("."):
            continue
        for n in sorted(names):
            if n.endswith(".v") and not n.startswith("."):
                files.append(os.path.normpath(os.path.join(rel, n)))
    txt = "-Q . SL\n-arg -w -arg -notation-overridden,-deprecated-hint-without-locality,-deprecated-syntactic-definition,-deprecated\n" + "\n".join(files) + "\n"
    cp = os.path.join(COQ, "_CoqProject")
    if not os.path.exists(cp) or open(cp).read() != txt:
        with open(cp, "w") as f:
            f.write(txt)


def coq_makefile():
    gen_coqproject()
    mk = os.path.join(COQ, "Makefile")
    cp = os.path.join(COQ, "_CoqProject")
    if not os.path.exists(mk) or os.path.getmtime(mk) < os.path.getmtime(cp):
        rc, out, _ = run(["coq_makefile", "-f", "_CoqProject", "-o", "Makefile"], cwd=COQ, timeout=120)
        if rc != 0:
            raise RuntimeError("coq_makefile failed: " + out)


def coq_make(targets, timeout=3000, clean=False):
    """make the given .vo targets (and their dependency closure). Returns (ok, log)."""
    with Lock("coq"):
        coq_makefile()
        if clean:
            run(["make", "clean"], cwd=COQ, timeout=300)
            coq_makefile()
        rc, out, dt = run(["make", "-j%d" % NCPU] + targets, cwd=COQ, timeout=timeout)
    return rc == 0, out


def coq_closure(vfile):
    """transitive dependencies (.v files of this development) of vfile, via coqdep"""
    rc, out, _ = run(["coqdep", "-Q", ".", "SL"] + coq_files(), cwd=COQ, timeout=120)
    deps = {}
    for line in out.split("\n"):
        if ":" not in line:
            continue
        lhs, rhs = line.split(":", 1)
        tg = [t for t in lhs.split() if t.endswith(".vo")]
        if not tg:
            continue
        v = tg[0][:-1]
        deps[v] = [d[:-1] for d in rhs.split() if d.endswith(".vo")]
    seen, todo = set(), [vfile]
    while todo:
        v = todo.pop()
        if v in seen:
            continue
        seen.add(v)
        todo.extend(deps.get(v, []))
    return sorted(seen)


def property_theorems(prop_v):
    """statement texts of the Theorems in Properties/Cxx.v"""
    txt = strip_coq_comments(open(os.path.join(COQ, prop_v)).read())
    res = []
    for m in re.finditer(r"\b(Theorem|Corollary)\s+([A-Za-z0-9_']+)\b(.*?)\bProof\.", txt, re.S):
        res.append((m.group(2), " ".join((m.group(1) + " " + m.group(2) + m.group(3)).split())))
    return res


def check_property_file(prop_v, timeout=600):
    """(re)compile Properties/Cxx.v and parse its Print Assumptions blocks.
    Returns dict(ok, log, theorems=[(name, stmt)], assumptions={name: [axioms]}, bad_axioms=[...])"""
    thms = property_theorems(prop_v)
    with Lock("coq"):
        rc, out, dt = run(["coqc", "-Q", ".", "SL", "-w", "-notation-overridden,-deprecated", prop_v],
                          cwd=COQ, timeout=timeout)
    res = {"ok": rc == 0, "log": out, "theorems": thms, "assumptions": {}, "bad_axioms": []}
    if rc != 0:
        return res
    # Print Assumptions output: either "Closed under the global context" or "Axioms:\n name : type ..."
    blocks = re.split(r"(?m)^(?=Closed under the global context|Axioms:)", out)
    blocks = [b for b in blocks if b.startswith("Closed under") or b.startswith("Axioms:")]
    names = [t[0] for t in thms]
    for i, b in enumerate(blocks):
        nm = names[i] if i < len(names) else "block%d" % i
        if b.startswith("Closed under"):
            res["assumptions"][nm] = []
        else:
            axs = re.findall(r"(?m)^([A-Za-z_][A-Za-z0-9_.']*)\s*:", b)
            res["assumptions"][nm] = axs
            for a in axs:
                if a not in ALLOWED_AXIOMS and a.split(".")[-1] not in ALLOWED_AXIOMS:
                    res["bad_axioms"].append((nm, a))
    if len(blocks) < len(names):
        res["ok"] = False
        res["log"] += "\n[check] %d theorems but only %d Print Assumptions blocks" % (len(names), len(blocks))
    return res


# ----------------------------------------------------------------------------------------
# extraction + OCaml model drivers
# ----------------------------------------------------------------------------------------

def build_model(area, extract_v, driver_ml, extra_ml=(), timeout=900):
    """coqc Extract/<X>.v in build/ocaml/<area> (writes <area>_gen.ml there), then link with the driver."""
    d = os.path.join(BUILD, "ocaml", area)
    os.makedirs(d, exist_ok=True)
    exe = os.path.join(BUILD, "bin", "model_" + area)
    os.makedirs(os.path.dirname(exe), exist_ok=True)
    with Lock("ocaml_" + area):
        rc, out, _ = run(["coqc", "-Q", COQ, "SL", "-w", "-extraction,-notation-overridden,-deprecated",
                          os.path.join(COQ, extract_v)], cwd=d, timeout=timeout)
        # coqc leaves .vo/.glob next to the source; that is fine (gitignored)
        if rc != 0:
            return None, "extraction failed:\n" + out
        srcs = []
        for f in sorted(os.listdir(d)):
            if f.endswith("_gen.mli"):
                srcs.append(f)
        for f in sorted(os.listdir(d)):
            if f.endswith("_gen.ml"):
                srcs.append(f)
        gen_mod = [f[:-3].capitalize() for f in srcs if f.endswith("_gen.ml")]
        body = "".join("open %s\n" % m for m in gen_mod)
        for x in ["util.ml"] + list(extra_ml) + [driver_ml]:
            body += "# 1 \"%s\"\n" % x + open(os.path.join(VERIF, "ocaml", x)).read() + "\n"
        with open(os.path.join(d, "driver_main.ml"), "w") as f:
            f.write(body)
        srcs.append("driver_main.ml")
        rc, out2, _ = run(["ocamlfind", "ocamlopt", "-w", "-a", "-package", "str,unix", "-linkpkg"] + srcs + ["-o", exe],
                          cwd=d, timeout=timeout)
        if rc != 0:
            return None, "ocaml build failed:\n" + out2
    return exe, out


# ----------------------------------------------------------------------------------------
# Go harness (overlay build from /repo's working tree)
# ----------------------------------------------------------------------------------------

def build_harness(area, timeout=1500):
    """go build the driver /verif/harness/<area> as package internal/verifharness/<area> of the
    sunlight module, plus add-only //go:build verif files under /verif/harness/inject/<pkg path>/.
    Returns (exe or None, log)."""
    gdir = os.path.join(BUILD, "go")
    os.makedirs(gdir, exist_ok=True)
    exe = os.path.join(BUILD, "bin", "harness_" + area)
    os.makedirs(os.path.dirname(exe), exist_ok=True)
    with Lock("go"):
        for f in ("go.mod", "go.sum"):
            shutil.copy(os.path.join(REPO, f), os.path.join(gdir, f))
        overlay = {"Replace": {}}
        src = os.path.join(VERIF, "harness", area)
        for root, _, names in os.walk(src):
            for n in names:
                if n.endswith(".go"):
                    rel = os.path.relpath(os.path.join(root, n), src)
                    overlay["Replace"][os.path.join(REPO, "internal", "verifharness", area, rel)] = os.path.join(root, n)
        inj = os.path.join(VERIF, "harness", "inject")
        for root, _, names in os.walk(inj):
            for n in names:
                if n.endswith(".go"):
                    rel = os.path.relpath(os.path.join(root, n), inj)
                    overlay["Replace"][os.path.join(REPO, rel)] = os.path.join(root, n)
        ov = os.path.join(gdir, "overlay_%s.json" % area)
        json.dump(overlay, open(ov, "w"), indent=1)
        rc, out, dt = run(["go", "build", "-tags", "verif", "-modfile=" + os.path.join(gdir, "go.mod"),
                           "-overlay=" + ov, "-o", exe, "./internal/verifharness/" + area],
                          cwd=REPO, timeout=timeout)
    if rc != 0:
        return None, out
    return exe, out


def build_repo_binary(pkg, name, timeout=1500):
    gdir = os.path.join(BUILD, "go")
    os.makedirs(gdir, exist_ok=True)
    exe = os.path.join(BUILD, "bin", name)
    with Lock("go"):
        for f in ("go.mod", "go.sum"):
            shutil.copy(os.path.join(REPO, f), os.path.join(gdir, f))
        rc, out, dt = run(["go", "build", "-modfile=" + os.path.join(gdir, "go.mod"), "-o", exe, pkg],
                          cwd=REPO, timeout=timeout)
    return (exe if rc == 0 else None), out


# (output file under coq/, [(go file under REPO, function, Gallina name)]): cryptobyte.Builder code translated
# from /repo's current source before the proofs are built
GENERATED = {
    "Gen/Builders.v": [("internal/ctlog/ctlog.go", "computeCacheHash", "gen_ctlog_cache_key"),
                       ("cmd/recompute-cache/recompute-cache.go", "computeCacheHash", "gen_recompute_cache_key"),
                       ("tile.go", "MerkleTreeLeaf", "gen_merkle_tree_leaf"),
                       ("tile.go", "AppendTileLeaf", "gen_append_tile_leaf")],
    # builders found inside larger functions (translation starts at the declaration of the builder) and
    # MarshalExtensions with its range guard
    "Gen/Builders2.v": [("internal/ctlog/ctlog.go", "digitallySign", "gen_digitally_sign", "fragment"),
                        ("checkpoint.go", "NewRFC6962InjectedSigner", "gen_injected_blob", "fragment"),
                        ("extensions.go", "MarshalExtensions", "gen_marshal_extensions")],
    # cryptobyte.String reader code (translate/reader.go): decision trees over a generated state record
    "Gen/Readers.v": [("tile.go", "readTileLeaf", "gen_rtl", "reader"),
                      ("extensions.go", "ParseExtensions", "gen_pext", "reader"),
                      ("checkpoint.go", "NewRFC6962Verifier", "gen_nsig", "reader"),
                      ("checkpoint.go", "RFC6962SignatureTimestamp", "gen_sigts", "reader")],
}


def regenerate(res=None, prop=None):
    """runs /verif/translate on /repo's current source; returns (ok, log). A failure (construct outside
    the translator's subset, function gone) is a broken tie."""
    exe = os.path.join(BUILD, "bin", "translate")
    os.makedirs(os.path.dirname(exe), exist_ok=True)
    with Lock("go"):
        rc, out, dt = run(["go", "build", "-o", exe, "."], cwd=os.path.join(VERIF, "translate"), timeout=600)
    if rc != 0:
        return False, "translator does not build:\n" + out[-3000:]
    logs = []
    with Lock("coq"):
        for rel, specs in GENERATED.items():
            target = os.path.join(COQ, rel)
            tmp = target + ".new"
            args = [exe, tmp] + [":".join((os.path.join(REPO, sp[0]),) + tuple(sp[1:])) for sp in specs]
            rc, out, dt = run(args, timeout=120)
            if rc != 0:
                if os.path.exists(tmp):
                    os.remove(tmp)
                return False, "translation of %s failed:\n%s" % (rel, out[-3000:])
            new = open(tmp).read()
            old = open(target).read() if os.path.exists(target) else None
            if new != old:
                os.replace(tmp, target)
                logs.append("regenerated " + rel)
            else:
                os.remove(tmp)
    return True, "\n".join(logs)


def repo_rev():
    rc, out, _ = run("git -C %s rev-parse --short HEAD; git -C %s status --porcelain | wc -l" % (REPO, REPO), shell=True)
    return " ".join(out.split())


# ----------------------------------------------------------------------------------------
# verdicts, evidence
# ----------------------------------------------------------------------------------------

def known_findings():
    p = os.path.join(VERIF, "known_findings.json")
    if not os.path.exists(p):
        return []
    return json.load(open(p)).get("findings", [])


def write_replay(prop, name, text):
    os.makedirs(REPLAY, exist_ok=True)
    p = os.path.join(REPLAY, "%s_%s" % (prop, name))
    with open(p, "w") as f:
        f.write(text)
    return p


def write_evidence(prop, tier, seed, coverage, assumptions, wall, violations, level="proof"):
    os.makedirs(EVID, exist_ok=True)
    ev = {"property_id": prop, "tier": tier, "seed": int(seed), "level": level,
          "coverage": coverage, "assumptions": assumptions, "wall_s": round(wall, 2),
          "violations": int(violations)}
    tmp = os.path.join(EVID, prop + ".json.tmp")
    json.dump(ev, open(tmp, "w"), indent=1)
    os.replace(tmp, os.path.join(EVID, prop + ".json"))


class Result:
    """collects what a check run found; decides exit status and prints the interface lines"""
    def __init__(self, prop, tier, seed):
        self.prop, self.tier, self.seed = prop, tier, seed
        self.t0 = time.time()
        if os.path.isdir(REPLAY):
            for f in os.listdir(REPLAY):
                if f.startswith(prop + "_"):
                    os.remove(os.path.join(REPLAY, f))
        self.violations = []      # (replay_path, no_input_found: bool, what)
        self.known = []           # what
        self.notes = []
    def violation(self, replay_path, what, no_input=False):
        self.violations.append((replay_path, no_input, what))
    def finish(self, coverage, assumptions, level="proof"):
        wall = time.time() - self.t0
        write_evidence(self.prop, self.tier, self.seed, coverage, assumptions, wall, len(self.violations), level)
        for k in self.known:
            print("KNOWN-FINDING: property=%s %s" % (self.prop, k))
        concrete = any(not noinp for (_, noinp, _) in self.violations)
        seen = set()
        for (p, noinp, what) in self.violations:
            if noinp and concrete:
                # a failing input WAS found by this run: broken ties/proofs are listed as notes beside it
                print("# also (see %s): %s" % (p, what))
                continue
            print("# %s" % what)
            if (p, noinp) in seen:
                continue
            seen.add((p, noinp))
            print("VIOLATION property=%s replay=%s%s" % (self.prop, p, " no-failing-input-found" if noinp else ""))
        sys.stdout.flush()
        return 1 if self.violations else 0


def proof_stage(res, prop, prop_v, thorough=False):
    """Build the Coq closure of Properties/<prop>.v, enforce the gates, return coverage fields.
    A failure is recorded as a violation (no-failing-input-found unless the caller later
    finds an input); returns (ok, cov)."""
    cov = {"checker_cmd": "coq_makefile -f _CoqProject -o Makefile && make -j%d %so && coqc -Q . SL %s  (Coq 8.16.1, full .vo build)" % (NCPU, prop_v, prop_v),
           "obligations": 0, "discharged": 0}
    bad = grep_gate()
    if bad:
        p = write_replay(prop, "gate.txt", "forbidden constructs in the Coq development:\n" + "\n".join(bad))
        res.violation(p, "Coq development contains forbidden constructs", no_input=True)
        return False, cov
    ok, log = coq_make([prop_v + "o"], clean=False)
    thms = property_theorems(prop_v)
    cov["obligations"] = len(thms)
    cov["theorems"] = [t[1][:400] for t in thms]
    if not ok:
        m = re.search(r'File "\./([^"]+)", line (\d+)', log)
        where = "%s:%s" % (m.group(1), m.group(2)) if m else "?"
        p = write_replay(prop, "coq_failure.txt",
                         "The Coq closure of %s no longer builds (first error at %s).\n"
                         "Theorems no longer checked: %s\n\n%s" % (prop_v, where, ", ".join(t[0] for t in thms), log[-6000:]))
        res.coq_failure = p
        return False, cov
    r = check_property_file(prop_v)
    cov["assumptions_printed"] = r["assumptions"]
    if not r["ok"] or r["bad_axioms"]:
        p = write_replay(prop, "coq_failure.txt",
                         "Properties file %s: ok=%s bad axioms=%s\n\n%s" % (prop_v, r["ok"], r["bad_axioms"], r["log"][-6000:]))
        res.coq_failure = p
        return False, cov
    cov["discharged"] = len(thms)
    if thorough:
        cov["coqchk"] = coqchk(prop_v)
        ck = cov["coqchk"]
        axioms_none = re.search(r"\* Axioms: <none>", ck["output_tail"]) is not None
        ck["axioms_none"] = axioms_none   # axioms of every LOADED library; those a theorem uses are in assumptions_printed
        if ck["rc"] != 0:
            p = write_replay(prop, "coq_failure.txt",
                             "coqchk (independent re-check of the compiled closure of %s) rc=%s, axioms-none=%s\n\n%s"
                             % (prop_v, ck["rc"], axioms_none, ck["output_tail"]))
            res.coq_failure = p
            return False, cov
    return True, cov


def coqchk(prop_v, timeout=3600):
    mod = "SL." + prop_v[:-2].replace("/", ".")
    rc, out, dt = run(["coqchk", "-silent", "-o", "-Q", ".", "SL", mod], cwd=COQ, timeout=timeout)
    tail = out[-3000:]
    return {"rc": rc, "wall_s": round(dt, 1), "output_tail": tail}


def seed_and_tier(argv):
    tier = os.environ.get("VERIF_TIER", "quick")
    replay = None
    a = list(argv)
    while a:
        x = a.pop(0)
        if x == "--tier":
            tier = a.pop(0)
        elif x == "--replay":
            replay = a.pop(0)
    seed = int(os.environ.get("VERIF_SEED", "1") or "1")
    return tier, seed, replay


def digest(s):
    return hashlib.sha256(s.encode() if isinstance(s, str) else s).hexdigest()[:16]


def diff_lines(impl_lines, model_lines):
    """both: list of 'op|args|=>|res'. returns list of (index, impl, model) that differ"""
    bad = []
    if len(impl_lines) != len(model_lines):
        bad.append((-1, "impl has %d lines" % len(impl_lines), "model has %d lines" % len(model_lines)))
    for i, (a, b) in enumerate(zip(impl_lines, model_lines)):
        if a != b:
            bad.append((i, a, b))
    return bad
