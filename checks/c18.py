"""C18 — garbage collection (cmd/partial-aftersun) removes only superseded partial tiles."""
import os, random
import checklib as L
from checks import difflib2 as D

PROP = "C18"
PROP_V = "Properties/C18.v"


def coq_tree(field):
    """the <tree> field of a gc line as a Coq term of type GC.Model.node"""
    if field in ("-", ""):
        return "(Dir [])"
    stack = [[]]
    names = []
    for t in field.split(","):
        if t == "u":
            es = stack.pop()
            stack[-1].append("(%s, Dir [%s])" % (names.pop(), "; ".join(es)))
        elif t[0] == "d":
            names.append(D.coq_bytes(t[1:]))
            stack.append([])
        else:
            nm, sz = t[1:].split(":")
            stack[-1].append("(%s, File %s%%N)" % (D.coq_bytes(nm), sz))
    return "(Dir [%s])" % "; ".join(stack[0])


def coq_case(line):
    op, a, r = D.split_line(line)
    if len(line) > (6000 if op == "gcmulti" else 2500):
        return None
    if op == "gc":
        fl, size, tree = a
        return ("(run_gc %s %s %s (%s)%%Z %s)" % (
            "true" if fl == "mirror" else "false", "false" if size == "-" else "true",
            "true" if size == "skip" else "false", "0" if size in ("-", "skip") else size, coq_tree(tree)), r)
    if op == "gcmulti":
        ts = []
        for k in range(0, len(a) - 2, 3):
            fl, size, tree = a[k:k + 3]
            ts.append("(%s, %s, %s, (%s)%%Z, %s)" % (
                "true" if fl == "mirror" else "false", "false" if size == "-" else "true",
                "true" if size == "skip" else "false", "0" if size in ("-", "skip") else size, coq_tree(tree)))
        return ("(run_gcmulti [%s])" % "; ".join(ts), r)
    if op == "twpath":
        return ("(run_twpath %s)" % D.coq_bytes(a[0]), r)
    if op == "tilesize":
        return ("(run_tilesize (%s)%%Z)" % a[0], r)
    return None


def main(tier, seed, replay):
    res = L.Result(PROP, tier, seed)
    ok, cov = L.proof_stage(res, PROP, PROP_V, thorough=(tier == "thorough"))
    hexe, hlog = L.build_harness("gc")
    if hexe is None:
        p = L.write_replay(PROP, "harness_build.txt", "the correspondence harness no longer compiles against /repo's working tree\n" + hlog[-6000:])
        res.violation(p, "harness build failed", no_input=True)
    bexe, blog = L.build_repo_binary("./cmd/partial-aftersun", "partial-aftersun")
    if bexe is None:
        p = L.write_replay(PROP, "binary_build.txt", "cmd/partial-aftersun no longer builds\n" + blog[-6000:])
        res.violation(p, "partial-aftersun build failed", no_input=True)
    mexe, mlog = L.build_model("gc", "Extract/Gc.v", "gc.ml")
    if mexe is None and ok:
        p = L.write_replay(PROP, "model_build.txt", mlog[-6000:])
        res.violation(p, "model extraction/build failed", no_input=True)
    st, work, mlines, stats = {}, [], [], {}
    ncross = 0
    if hexe and mexe and bexe:
        if tier == "quick":
            args = ["-seed=%d" % seed, "-bin=" + bexe, "-synth=60", "-real=6", "-paths=300", "-big", "-multi=10"]
        else:
            args = ["-seed=%d" % seed, "-bin=" + bexe, "-synth=600", "-real=40", "-paths=3000", "-big", "-multi=120"]
        extra = []
        if replay:
            extra = [[l.strip() for l in open(replay) if "|=>|" in l]]
            args = ["-seed=%d" % seed, "-bin=" + bexe, "-synth=0", "-real=0", "-paths=0", "-multi=0", "-nofixed"]
        corpus = os.path.join(L.VERIF, "corpus", PROP)
        if os.path.isdir(corpus):
            for f in sorted(os.listdir(corpus)):
                extra.append([l.strip() for l in open(os.path.join(corpus, f)) if "|=>|" in l])
        # the model's clean_root IS the specification of which paths a run may remove
        st, work, mlines = D.differential(res, PROP, hexe, args, mexe, property_ops=(), extra_inputs=extra, timeout=2400)
        rnd = random.Random(seed)
        small = [c for c in (coq_case(l) for l in mlines) if c]
        gcs = [c for c in small if c[0].startswith("(run_gc ")]
        multis = [c for c in small if c[0].startswith("(run_gcmulti")]
        others = [c for c in small if not c[0].startswith("(run_gc")]
        sample = rnd.sample(gcs, min(len(gcs), 12 if tier == "quick" else 60)) + \
                 rnd.sample(multis, min(len(multis), 3 if tier == "quick" else 20)) + \
                 rnd.sample(others, min(len(others), 50 if tier == "quick" else 300))
        ncross = D.vm_crosscheck(res, PROP, sample, "From SL Require Import GC.Model GC.Multi.")
    if not ok and not res.violations:
        res.violation(getattr(res, "coq_failure", L.write_replay(PROP, "coq_failure.txt", "proof stage failed")),
                      "theorems of %s no longer check; differential run and monitors found no failing input" % PROP_V, no_input=True)
    elif not ok:
        print("# note: the Coq proof stage also failed: %s" % getattr(res, "coq_failure", "?"))
    gc_lines = [l for l in work if l.startswith("gc|")]
    removing = [l for l in gc_lines if not l.endswith(":")]
    multi_lines = [l for l in work if l.startswith("gcmulti|")]
    multi_shapes = {}
    multi_later_smaller = 0
    for l in multi_lines:
        op, a, r = D.split_line(l)
        shape = ",".join("%s:%s" % (a[k], a[k + 1]) for k in range(0, len(a) - 2, 3))
        multi_shapes[shape] = r.split(":")[0]
        szs = [int(a[k + 1]) for k in range(0, len(a) - 2, 3) if a[k + 1].isdigit()]
        if any(szs[i] > szs[j] for i in range(len(szs)) for j in range(i + 1, len(szs))):
            multi_later_smaller += 1
    statuses = {}
    sizes = {}
    for l in gc_lines:
        op, a, r = D.split_line(l)
        statuses[r.split(":")[0]] = statuses.get(r.split(":")[0], 0) + 1
        sizes[a[1]] = sizes.get(a[1], 0) + 1
    cov.update({
        "evaluations": st.get("lines", 0),
        "distinct_nontrivial": len(set(removing)),
        "rule": "cases = runs of the unmodified partial-aftersun binary on a directory (gc lines: real sequencer histories over LocalBackend+SQLite at tree sizes around tile boundaries incl. 65535..65537, cleaned mid-history and at the end, lock-ahead-of-storage states by failed checkpoint/tile uploads and by checkpoint rollback, planted leftovers; witness-mirror directories with real hash tiles; synthetic log/mirror directories with tiles around the right edge of every level in every leftover state and one directory per error/panic class; multi-tree runs: ONE run of the binary over a config with 2-3 logs and/or a witness directory with 1-3 mirrored logs, real trees (published 300 with uploads to 600, 520/770, 1000, mirrors 300 of 600, 700 of 800, 1300) in every size order and synthetic ones with partial+full coexisting at each tree's published right edge; every tree of such a run gets its own gc line (model applied to that directory alone), mon_only/mon_unchanged/mon_edge_kept and the audits, the run as a whole a gcmulti line (GC/Multi.v clean_run) and mon_outside), torchwood.ParseTilePath cases and tile-size expression cases; distinct = distinct harness lines; non-trivial = gc runs that removed at least one entry",
        "traces_validated_against_impl": len(work), "distinct_cases": len(set(work)),
        "gc_runs": len(gc_lines), "gc_runs_removing": len(removing),
        "gc_status_distribution": statuses,
        "multi_tree_runs": len(multi_lines), "multi_tree_runs_with_a_later_smaller_tree": multi_later_smaller,
        "multi_tree_run_shapes": multi_shapes,
        "gc_tree_sizes": dict(sorted(sizes.items(), key=lambda kv: -kv[1])[:40]),
        "impl_property_monitors": st.get("monitors", 0), "monitor_failures": st.get("monitor_failures", 0),
        "model_impl_differences": st.get("diffs", 0), "vm_compute_crosschecked": ncross,
        "op_distribution": st.get("ops", {}), "result_distribution": st.get("results", {}),
        "harness_wall_s": st.get("harness_wall_s"),
        "known_divergence_from_property_text": "a stray level directory named 2305843009213693951 (2^61-1) makes TileHeight*(L+1) wrap to 0: partial tiles there are removed although no tree has such a level (theorem C18_only_wrapping_level_refuted; exercised by scenario fixed-log-wraplevel; model and binary agree)",
        "samples": [l[:300] for l in removing[:3]] + [l[:200] for l in work if l.startswith("twpath")][:2] + cov.get("theorems", [])[:2],
        "trusted_base": ["Coq 8.16.1 kernel (coqc, vm_compute for Examples and the per-run cross-check)",
                         "extraction (ExtrOcamlBasic only) + ocaml/util.ml + ocaml/gc.ml (tree parser)",
                         "Go harness harness/gc (directory snapshots before/after, scenario construction, independent monitors)",
                         "model GC/Model.v is a hand transcription of cleanDir/overrideImmutable/main's level loop and of torchwood.ParseTilePath, GC/Multi.v of main's loops over logs and mirrors (stateless between directories: theorems C18_run_*), tied by the differential run above; os.Root, fs.ReadDir order, the kernel's unlink/rmdir and the immutable-flag ioctl are specified, not modelled; symbolic links and concurrent writers are outside the model",
                         "repo " + L.repo_rev()],
    })
    return res.finish(cov, ["fs.ReadDir returns the entries sorted by name and os.Root resolves plain relative paths (specified; the differential run holds the binary to it)",
                            "tile-path codec model of C10 (Codec/Leaf.v) for sunlight.ParseTilePath; tw_parse_tile_path for torchwood.ParseTilePath (validated differentially here)",
                            "tiles_needed of Merkle/Tiles.v is the set of tiles of a tree (model of tlog.NewTiles(8,0,n), validated by the C03/C04 checks); the audit monitors re-read exactly tlog.NewTiles(8,0,N)",
                            "'the server can still restart and sequence' is established by the reload monitors on real directories and, in the model, by C18_readable + the sequencer theorems (C01/C03), not by a separate Coq theorem"])
