"""Shared body of the witness checks C14 (add-checkpoint) and C16 (sign-subtree).

Stage 0  proofs: coq/Properties/Cxx.v (closed instances over the free hash algebra of the
         theorems of Witness/Theorems.v; invariant for ALL event lists in Witness/Inv.v).
Stage A  correspondence: harness/witness drives the REAL witness (NewWitness, PullLogList, the HTTP
         handler) over fault-injecting in-memory stores; every request line must be reproduced by
         the extracted model (ocaml/witness.ml, real SHA-256); concurrent batches are explained by a
         search over the orders of the critical sections; mon_ monitors on the implementation alone.
Stage B  tie of the Merkle proof-checker models (tlog.CheckTree, torchwood.CheckSubtree /
         ValidSubtree) the witness model depends on: checks/merkle_tie.py (runs concurrently).
"""
import concurrent.futures as cf
import os
import checklib as L
from checks import difflib2 as D
from checks import merkle_tie

AREA = "witness"

TRUSTED = [
    "Coq 8.16.1 kernel (coqc; vm_compute only in Examples)",
    "SYMBOLIC SIGNATURES: a note carries (key id, valid|invalid) pairs; Ed25519 / ML-DSA-44 unforgeability, the binding of a "
    "cosignature to its message (cosignature/v1: timestamp + checkpoint text; subtree/v1: cosigner name, timestamp, origin, start, "
    "end, hash) and the (name, key hash) -> key lookup of x/mod note.Open are assumed, not modelled. The harness decides 'valid' by "
    "running the PUBLIC verifier of each key on the note text",
    "hash injectivity (proved for the free algebra ih) stands in for SHA-256 collision resistance",
    "tlog.CheckTree / torchwood.CheckSubtree / ValidSubtree are modelled dependencies (Merkle/Proofs.v), tied by the merkle "
    "differential run embedded below; torchwood.ParseCheckpoint / Checkpoint.String and note.Open's text syntax are not modelled "
    "(the note is structural; its syntax classes malformed / not-a-checkpoint / checkpoint are assigned by the harness by construction)",
    "the lock backend is a compare-and-swap register on the stored BYTES (C05) and is not tampered with; a fault is ok | error without "
    "effect | error with effect; Backend.Upload likewise; NewWitness itself runs without injected faults",
    "every signing of the same checkpoint yields different bytes (timestamp, hedged ML-DSA): the model's st_stamp",
    "log key names differ from the witness's name and log keys differ from the witness's keys (otherwise note.Sign would elide the "
    "log's signature and splitSignatures would return it with the cosignatures): configuration, not modelled",
    "PullLogList is modelled for lists of one log, mirror = false; the mirror / add-entries code is C15",
    "extraction (ExtrOcamlBasic only) + ocaml/util.ml + ocaml/sha256.ml + ocaml/witness.ml (line parser; for concurrent batches a "
    "depth-first search over request orders using the extracted step function)",
    "Go harness harness/witness (in-memory stores with fault and hold gates, ground-truth histories, key table, classification of the "
    "generated notes, monitors)",
    "model Witness/Model.v is a hand transcription of internal/witness/witness.go (NewWitness config load, PullLogList, "
    "processAddCheckpointRequest, updateCheckpoint, checkpointLocked/openCheckpoint, processSignSubtreeRequest, the status mapping), "
    "tied by the differential run",
]
ASSUME = [
    "signature schemes are unforgeable and bind to the signed message (symbolic signatures)",
    "SHA-256 node hashing is injective (collision resistance)",
    "the lock backend is a linearizable CAS register (C05), untampered; faults are fail / fail-but-applied",
    "tlog / torchwood proof checkers behave as their Coq models (validated by the merkle differential, sizes <= 2^62)",
]

SPIN = ("tlog.CheckTree does not return for a new tree size > 2^62 with a non-empty consistency proof (tlog.maxpow2: 1<<uint(l+1) "
        "wraps and stays < n); torchwood.ParseCheckpoint accepts N up to 2^63-1, so an add-checkpoint request carrying a checkpoint "
        "SIGNED BY THE LOG'S OWN KEY with N = 2^62+6, old = the recorded size (here 2^62+5, reached from the empty tree without any "
        "proof) and one proof hash never returns and keeps the per-origin mutex: every later request for that origin blocks, one CPU "
        "spins until the process exits. No cosignature results, so C14 is not violated (theorem C14_spin_only_above_2_62); it is a "
        "liveness defect any configured log can trigger against its own origin")


def run(prop, prop_v, tier, seed, replay, harness_args, own_monitors, what):
    res = L.Result(prop, tier, seed)
    ok, cov = L.proof_stage(res, prop, prop_v, thorough=(tier == "thorough"))
    st, work, mlines, mk = {}, [], [], {}

    def tie():
        return merkle_tie.run(res, prop, seed, tier)

    def diff():
        hexe, hlog = L.build_harness(AREA)
        if hexe is None:
            p = L.write_replay(prop, "harness_build.txt", "the correspondence harness no longer compiles against /repo's working tree\n" + hlog[-6000:])
            res.violation(p, "harness build failed", no_input=True)
        mexe, mlog = L.build_model(AREA, "Extract/Witness.v", "witness.ml", extra_ml=["sha256.ml"])
        if mexe is None and ok:
            p = L.write_replay(prop, "model_build.txt", mlog[-6000:])
            res.violation(p, "model extraction/build failed", no_input=True)
        if not (hexe and mexe):
            return {}, [], []
        args = ["-seed=%d" % seed] + harness_args
        extra = []
        if replay:
            extra = [[l.strip() for l in open(replay) if "|=>|" in l]]
            args = ["-seed=%d" % seed, "-noadd", "-nosub", "-sessions=0", "-probe=false"]
        corpus = os.path.join(L.VERIF, "corpus", prop)
        if os.path.isdir(corpus):
            for f in sorted(os.listdir(corpus)):
                extra.append([l.strip() for l in open(os.path.join(corpus, f)) if "|=>|" in l])
        return D.differential(res, prop, hexe, args, mexe, property_ops=(), extra_inputs=extra, timeout=300)

    with cf.ThreadPoolExecutor(max_workers=2) as ex:
        f1, f2 = ex.submit(tie), ex.submit(diff)
        mk = f1.result()
        st, work, mlines = f2.result()

    if not ok and not res.violations:
        res.violation(getattr(res, "coq_failure", L.write_replay(prop, "coq_failure.txt", "proof stage failed")),
                      "theorems of %s no longer check; the differential run and the monitors found no failing input" % prop_v, no_input=True)
    elif not ok:
        print("# note: the Coq proof stage also failed: %s" % getattr(res, "coq_failure", "?"))

    reqs = [l for l in work if l.split("|")[0] in ("add", "cadd", "step", "sub")]
    answers, faults, notes, sigsets = {}, {"fetch": 0, "replace_fail": 0, "replace_failapplied": 0, "upload_fail": 0, "upload_failapplied": 0}, {}, {}
    nontrivial = set()
    timeouts = []
    for l in reqs:
        op, a, r = D.split_line(l)
        f = r.split("|")
        k = op + ":" + f[0] + ((":" + f[1][:40]) if f[0] not in ("200", "409", "pending") else "")
        answers[k] = answers.get(k, 0) + 1
        if f[0] not in ("400", "404"):
            nontrivial.add(l)
        if f[0] == "timeout":
            timeouts.append(l)
        if op in ("add", "cadd"):
            if a[2] == "fail": faults["fetch"] += 1
            if a[3] in ("fail", "failapplied"): faults["replace_" + a[3]] += 1
            if a[4] in ("fail", "failapplied"): faults["upload_" + a[4]] += 1
            nk = a[6].split(":")[0]
            notes[nk] = notes.get(nk, 0) + 1
        if op == "sub":
            sg = a[2].split(":")[-1] if a[2].startswith("C:") else "-"
            sigsets[sg] = sigsets.get(sg, 0) + 1
    lockwrites = sum(1 for l in work if "lock=" in l and "lock=-" not in l)
    ops = st.get("ops", {})
    if timeouts:
        print("# OBSERVATION (liveness, not a violation of %s): %s" % (prop, SPIN))
    cov.update({
        "evaluations": len(reqs),
        "distinct_nontrivial": len(nontrivial),
        "rule": what + " One evaluation = one request line (add / cadd / step / sub) answered by the real handler and reproduced "
                "by the extracted model (status, body text, signer key ids, effective lock writes and uploads as canonical tuples); "
                "non-trivial = answer other than 400/404; distinct by harness line.",
        "samples": [l[:300] for l in reqs if l.startswith("add|") and "|=>|200" in l][:1]
                   + [l[:300] for l in reqs if l.startswith("add|") and "|=>|409" in l][:1]
                   + [l[:300] for l in reqs if l.startswith("sub|") and "|=>|200" in l][:1]
                   + [l[:300] for l in timeouts][:1],
        "traces_validated_against_impl": len(work) - st.get("diffs", 0),
        "model_impl_differences": st.get("diffs", 0),
        "impl_property_monitors": st.get("monitors", 0), "monitor_failures": st.get("monitor_failures", 0),
        "monitor_distribution": {k: v for k, v in ops.items() if k.startswith("mon_")},
        "own_monitors": list(own_monitors),
        "op_distribution": {k: v for k, v in ops.items() if not k.startswith("mon_")},
        "answer_distribution": dict(sorted(answers.items(), key=lambda kv: -kv[1])[:60]),
        "injected_faults": faults, "note_classes": notes,
        "signer_combinations_on_presented_checkpoints": dict(sorted(sigsets.items(), key=lambda kv: -kv[1])[:40]),
        "effective_lock_writes": lockwrites,
        "worlds": ops.get("reset", 0), "restarts": ops.get("restart", 0), "concurrent_batches": ops.get("conc", 0),
        "held_requests_interleaved_with_another_instance": sum(1 for l in work if l.startswith("add|") and "|hold|" in l),
        "harness_wall_s": st.get("harness_wall_s"), "model_wall_s": st.get("model_wall_s"),
        "observations": ([SPIN] if timeouts else []),
        "merkle_tie": {k: mk.get(k) for k in ("built", "lines", "diffs", "monitors", "monitor_failures", "ops", "results",
                                              "distinct_cases", "distinct_nontrivial", "accepted", "harness_args", "rule",
                                              "harness_wall_s", "model_wall_s")},
        "trusted_base": TRUSTED + mk.get("trusted_base", []) + ["repo " + L.repo_rev()],
    })
    return res.finish(cov, ASSUME)
