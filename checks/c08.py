"""C08 — see DESIGN.md section 5 (C08) and coq/Properties/C08.v"""
from checks import seqcheck

def main(tier, seed, replay):
    return seqcheck.main("C08", "Properties/C08.v", tier, seed, replay, scenarios=['tamper','tamper','startup','tamperfull','tamperissuer'],
                         own_prefixes=tuple("C01,C08,C06".split(",")), known_prefixes=("C06-stale-upload",) if "C08" == "C06" else ())
