"""Shared plumbing of the sky area (C19, C20): builds the unmodified skylight binary, the Go
driver harness/sky (overlay build, only the add-only accessor files this area needs, so that a
half-written accessor of another area cannot break this build), and the model driver."""
import json, os, shutil, tempfile
import checklib as L

INJECT = ["internal/ctlog/zz_verif.go"]   # accessors used by harness/sky (VerifAddLeafToPool, VerifSequence)


def build_sky_harness(timeout=1500):
    gdir = os.path.join(L.BUILD, "go")
    os.makedirs(gdir, exist_ok=True)
    exe = os.path.join(L.BUILD, "bin", "harness_sky")
    os.makedirs(os.path.dirname(exe), exist_ok=True)
    with L.Lock("go"):
        for f in ("go.mod", "go.sum"):
            shutil.copy(os.path.join(L.REPO, f), os.path.join(gdir, f))
        overlay = {"Replace": {}}
        src = os.path.join(L.VERIF, "harness", "sky")
        for n in sorted(os.listdir(src)):
            if n.endswith(".go"):
                overlay["Replace"][os.path.join(L.REPO, "internal", "verifharness", "sky", n)] = os.path.join(src, n)
        for rel in INJECT:
            overlay["Replace"][os.path.join(L.REPO, rel)] = os.path.join(L.VERIF, "harness", "inject", rel)
        ov = os.path.join(gdir, "overlay_sky.json")
        json.dump(overlay, open(ov, "w"), indent=1)
        rc, out, dt = L.run(["go", "build", "-tags", "verif", "-modfile=" + os.path.join(gdir, "go.mod"),
                             "-overlay=" + ov, "-o", exe, "./internal/verifharness/sky"], cwd=L.REPO, timeout=timeout)
    return (exe if rc == 0 else None), out


def build_all(res, prop, ok_proof):
    """returns (harness_exe, model_exe, skylight_exe); records build failures as violations"""
    sky, slog = L.build_repo_binary("./cmd/skylight", "skylight")
    if sky is None:
        p = L.write_replay(prop, "skylight_build.txt", "cmd/skylight no longer builds from /repo's working tree\n" + slog[-6000:])
        res.violation(p, "skylight build failed", no_input=True)
    hexe, hlog = build_sky_harness()
    if hexe is None:
        p = L.write_replay(prop, "harness_build.txt", "the correspondence harness no longer compiles against /repo's working tree\n" + hlog[-6000:])
        res.violation(p, "harness build failed", no_input=True)
    mexe, mlog = L.build_model("sky", "Extract/Sky.v", "sky.ml")
    if mexe is None and ok_proof:
        p = L.write_replay(prop, "model_build.txt", mlog[-6000:])
        res.violation(p, "model extraction/build failed", no_input=True)
    return hexe, mexe, sky


def scratch():
    os.makedirs(os.path.join(L.BUILD, "sky"), exist_ok=True)
    return tempfile.mkdtemp(prefix="run-", dir=os.path.join(L.BUILD, "sky"))
