"""C09 — submissions are validated and turned into the RFC 6962 leaf correctly."""
import hashlib, os, random
import checklib as L
from checks import difflib2 as D

PROP = "C09"
PROP_V = "Properties/C09.v"

def cb(h):
    return D.coq_bytes(h)


def cbool(x):
    return "true" if x in ("1", "ok", True) else "false"


def coq_cert(s):
    raw, tbs, spki, nb, na, pre, preiss, sa, scts = s.split(",")
    pre = {"0": "0", "1": "1"}.get(pre, "2")
    return "(mk_acert %s %s %s (%s)%%Z (%s)%%Z %s %s %s %s)" % (cb(raw), cb(tbs), cb(spki), nb, na, pre, cbool(preiss), cbool(sa), cbool(scts))


def sha_hex(h):
    return hashlib.sha256(bytes.fromhex("" if h == "-" else h)).hexdigest()


def coq_tbl(keys):
    return "(tbl_sha [%s])" % "; ".join("(%s, %s)" % (cb(k), cb(sha_hex(k))) for k in sorted(set(keys)))


def coq_submit(line):
    op, a, r = D.split_line(line)
    if op not in ("submit", "submitdup") or len(line) > 16000:
        return None
    earlier = None
    if op == "submitdup":   # deduplicated against an entry created through another chain (its issuers: last field)
        earlier, a = a[-1], a[:-1]
    ep, bodylen, js, raws, vchain, tbsn, tbsp, now, wait = a
    if int(bodylen) > 4000:
        return None
    keys = []
    if vchain == "none":
        vc = "None"
    else:
        certs = vchain.split(";")
        for c in certs:
            f = c.split(",")
            keys += [f[0], f[2]]
        vc = "(Some [%s])" % "; ".join(coq_cert(c) for c in certs)
    rl = "[]" if raws == "-" else "[%s]" % "; ".join(cb(x) for x in raws.split(","))
    opt = lambda x: "None" if x == "err" else "(Some %s)" % cb(x)
    w = {"ok": 0, "full": 1, "evicted": 2, "sunset": 3, "issuerfail": 4}.get(wait, 4)   # issuerfail: uploadIssuer failed (WOther)
    if earlier is not None:
        el = [] if earlier == "-" else earlier.split(",")
        keys += el
        t = "(run_submit_dedup %s %s %s %s %s %s %s %s (%s)%%Z %d [%s])" % (coq_tbl(keys), cbool(ep == "prechain"), bodylen, cbool(js), rl, vc, opt(tbsn), opt(tbsp), now, w, "; ".join(cb(x) for x in el))
        return (t, r)
    t = "(run_submit %s %s %s %s %s %s %s %s (%s)%%Z %d)" % (coq_tbl(keys), cbool(ep == "prechain"), bodylen, cbool(js), rl, vc, opt(tbsn), opt(tbsp), now, w)
    return (t, r)


def coq_upissuers(line):
    """one request of the issuer scenario as a term of Submit/Run.v run_upissuers"""
    op, a, r = D.split_line(line)
    if op != "upissuers" or len(line) > 16000:
        return None
    cols = [[] if x == "-" else x.split(",") for x in a]
    if len(set(len(c) for c in cols)) != 1:
        return None
    code = {"none": 0, "same": 1}
    items = "; ".join("(%s, (%s, (%d%%N, (%s, %s))))" % (cb(i), cbool(k), code.get(s, 2), cbool(f), cbool(u))
                      for i, k, s, f, u in zip(*cols))
    return ("(run_upissuers %s [%s])" % (coq_tbl(cols[0]), items), r)


def coq_cachekey(line):
    op, a, r = D.split_line(line)
    if op != "cachekey" or len(line) > 16000:
        return None
    pre, cert, ikh = a
    pi = ("0001" + ikh if pre == "1" else "0000") + "%06x" % (0 if cert == "-" else len(cert) // 2) + ("" if cert == "-" else cert)
    return ("(run_cachekey (tbl_sha [(%s, %s)]) %s %s %s)" % (cb(pi), cb(sha_hex(pi)), cbool(pre), cb(cert), cb(ikh)), r)


def coq_roots(lines):
    """the first root lines (one loadroots, then setroots) as ONE term threading the state"""
    seq = []
    for l in lines:
        op, a, r = D.split_line(l)
        if op == "loadroots":
            if seq:
                break
            seq.append((op, a, r))
        elif op == "setroots" and seq:
            seq.append((op, a, r))
        if len(seq) >= 4 or sum(len(x[1][0]) for x in seq) > 30000:
            break
    if len(seq) < 2:
        return None
    keys = [x[1][0] for x in seq]
    lst = lambda c: "[]" if c == "-" else "[%s]" % "; ".join(cb(x) for x in c.split(","))
    t = "(let sha := %s in let '(s0, r0) := run_load sha %s %s %s in " % (coq_tbl(keys), cb(seq[0][1][0]), lst(seq[0][1][2]), cbool(seq[0][1][1]))
    names = ["r0"]
    for i, (op, a, r) in enumerate(seq[1:], 1):
        t += "let '(s%d, r%d) := run_setroots sha s%d %s %s %s %s in " % (i, i, i - 1, cb(a[0]), lst(a[2]), cbool(a[1]), cbool(a[3]))
        names.append("r%d" % i)
    t += " ++ [x7c] ++ ".join(names) + ")"
    return (t, "|".join(x[2] for x in seq))


def evict_probe(seed=1, with_model=False):
    """Runs ONLY the evict scenario of the submit harness (harness/submit -only=evict: a log with
    PoolSize 1 and 2, rounds by hand; an evicted / rate-limited HTTP submitter must get 503 +
    Retry-After, no SCT, and its entry must not be sequenced). The harness is built from
    checklib's REPO (VERIF_REPO is honoured). A few seconds including the (cached) go build.
    Returns (ok, failing_monitor_lines, stats, log): ok = the harness ran and every mon_ line
    holds (and, with_model=True, the already built model driver prints the same submit lines:
    Submit/Model.v respond maps WEvicted/WPoolFull to 503)."""
    hexe, hlog = L.build_harness("submit")
    if hexe is None:
        return False, [], {"error": "harness build failed"}, hlog[-6000:]
    rc, out, dt = L.run([hexe, "-seed=%d" % seed, "-only=evict"], timeout=300)
    lines = [l for l in out.split("\n") if "|=>|" in l]
    mons = [l for l in lines if l.startswith("mon_")]
    bad = [l for l in mons if D.split_line(l)[2] != "holds"]
    stats = {"wall_s": round(dt, 2), "rc": rc, "monitors": len(mons), "requests": len([l for l in lines if l.startswith("submit")]), "by_monitor": {}, "codes": {}}
    for l in mons:
        op = l.split("|")[0]
        stats["by_monitor"][op] = stats["by_monitor"].get(op, 0) + 1
    for l in lines:
        if l.startswith("stat|code:"):
            stats["codes"][l.split("|")[1][5:]] = int(l.split("|")[-1])
    ok = rc == 0 and not bad and stats["by_monitor"].get("mon_evicted", 0) > 0 and stats["by_monitor"].get("mon_ratelimited", 0) > 0
    log = "" if rc == 0 else out[-4000:]
    if with_model:
        mexe = os.path.join(L.BUILD, "bin", "model_submit")
        work = [l for l in lines if not l.startswith("mon_")]
        ml, err = D.run_model(mexe, "\n".join(work) + "\n") if os.path.exists(mexe) else (None, "model driver not built")
        diffs = L.diff_lines(work, [l for l in ml if l]) if ml is not None else []
        stats["model_impl_differences"] = len(diffs) if ml is not None else err
        if diffs:
            ok = False
            log += "model/impl difference: impl %s | model %s" % (diffs[0][1][-80:], diffs[0][2][-80:])
    return ok, bad, stats, log


def main(tier, seed, replay):
    res = L.Result(PROP, tier, seed)
    ok, cov = L.proof_stage(res, PROP, PROP_V, thorough=(tier == "thorough"))
    hexe, hlog = L.build_harness("submit")
    if hexe is None:
        p = L.write_replay(PROP, "harness_build.txt", "the correspondence harness no longer compiles against /repo's working tree\n" + hlog[-6000:])
        res.violation(p, "harness build failed", no_input=True)
    mexe, mlog = L.build_model("submit", "Extract/Submit.v", "submit.ml", extra_ml=["sha256.ml"])
    if mexe is None and ok:
        p = L.write_replay(PROP, "model_build.txt", mlog[-6000:])
        res.violation(p, "model extraction/build failed", no_input=True)
    st, work, mlines = {}, [], []
    ncross, stats = 0, {}
    if hexe and mexe:
        n = 150 if tier == "quick" else 2500
        args = ["-seed=%d" % seed, "-n=%d" % n]
        extra = []
        if replay:
            extra = [[l.strip() for l in open(replay) if "|=>|" in l]]
            args = ["-seed=%d" % seed, "-none"]
        corpus = os.path.join(L.VERIF, "corpus", PROP)
        if os.path.isdir(corpus):
            for f in sorted(os.listdir(corpus)):
                extra.append([l.strip() for l in open(os.path.join(corpus, f)) if "|=>|" in l])
        st, work, mlines = D.differential(res, PROP, hexe, args, mexe, property_ops=(), extra_inputs=extra)
        for l in work:
            op, a, r = D.split_line(l)
            if op == "stat":
                stats[a[0]] = stats.get(a[0], 0) + int(r)
        rnd = random.Random(seed)
        subs = [c for c in (coq_submit(l) for l in mlines) if c]
        by = {}
        for c in subs:
            by.setdefault(c[1].split(":")[0] + c[1].split(":")[2][:1] + c[0][:17], []).append(c)
        sample = []
        for k in sorted(by):
            q = 1 if "run_submit_dedup" in k else 3   # quick tier: one deduplicated case per group
            sample += rnd.sample(by[k], min(len(by[k]), q if tier == "quick" else 12))
        ups = {}
        for c in (coq_upissuers(l) for l in mlines):
            if c:
                ups.setdefault(c[1].split(":")[0] + str("other" in c[1]), []).append(c)
        for k in sorted(ups):
            sample += rnd.sample(ups[k], min(len(ups[k]), 1 if tier == "quick" else 10))
        cks = [c for c in (coq_cachekey(l) for l in mlines) if c]
        sample += rnd.sample(cks, min(len(cks), 2 if tier == "quick" else 20))
        rc = coq_roots([l for l in mlines if l.startswith(("loadroots", "setroots"))])
        if rc:
            sample.append(rc)
        ncross = D.vm_crosscheck(res, PROP, sample, "From SL Require Import Submit.Run.")
    if stats and any(k.startswith("pending:") for k in stats) and not stats.get("pending:deduplicated-while-pending"):
        print("# note: the pending scenario never produced a second submission deduplicated against a pending leaf (vacuous this run)")
    if not ok and not res.violations:
        cf = getattr(res, "coq_failure", None) or L.write_replay(PROP, "coq_failure.txt", "proof stage failed")
        res.violation(cf, "theorems of %s no longer check; differential run and monitors found no failing input" % PROP_V, no_input=True)
    elif not ok:
        print("# note: the Coq proof stage also failed: %s" % getattr(res, "coq_failure", "?"))
    subs = [l for l in work if l.startswith(("submit|", "submitdup|"))]
    steps = [l for l in work if l.startswith(("submit|", "submitdup|", "setroots|", "loadroots|", "upissuers|", "cachekey|"))]
    nontrivial = len(set(l for l in subs if "|none|" not in l)) + len(set(l for l in work if l.startswith(("setroots", "loadroots", "upissuers"))))
    faulted = [l for l in subs if "|issuerfail|=>|" in l]
    pick = lambda pred: [l[:300] for l in subs if pred(l)][:1]
    cov.update({
        "evaluations": len(steps) + st.get("monitors", 0), "distinct_nontrivial": nontrivial,
        "rule": "one evaluation = one harness line (stat lines excluded): a real DER chain (crypto/x509-generated CA hierarchy: accepted/unaccepted/temporarily accepted roots, intermediates, precertificate signing certificates, self-signed special roots) posted to the real add-chain/add-pre-chain handler of a real ctlog.Log with the real sequencer, or a root reload/get-roots step, or the issuer loop of one request of the issuer scenario (fresh CA hierarchies; the backend fails the first Upload of every issuer/ object, or honours a request context cancelled before the request / at the k-th Fetch / at the k-th Upload of an issuer; the same chain is resubmitted until it is accepted; and the pending scenario: the same leaf through different valid chains while the first submission is still pending or in sequencing; and the re-keyed scenario: two precertificate chains with a byte-identical TBSCertificate and different issuer keys; and the evict scenario: bounded pools, evicted and rate-limited submitters), or computeCacheHash on one entry, or a monitor; non-trivial = the validation oracle returned a chain (sunlight's own decision logic was reached) or a root-state step; distinct by harness line",
        "traces_validated_against_impl": max(0, len(steps) - st.get("diffs", 0)), "distinct_cases": len(set(steps)),
        "impl_property_monitors": st.get("monitors", 0), "monitor_failures": st.get("monitor_failures", 0),
        "model_impl_differences": st.get("diffs", 0), "vm_compute_crosschecked": ncross,
        "op_distribution": st.get("ops", {}), "result_distribution": st.get("results", {}),
        "generator_distribution": stats,
        "issuer_fault_scenario": {"requests": len([l for l in work if l.startswith("upissuers|")]),
                                  "requests_with_failed_issuer_step": len(faulted),
                                  "plans": {k.split(":", 1)[1]: v for k, v in stats.items() if k.startswith("issuerfault:")},
                                  "monitors": "mon_issuer_fault (failed Upload of issuer/<fp> during the request => 5xx, never 200, leaf not pooled), mon_issuer_retry (accepted after resubmission), mon_issuers on every accepted attempt, mon_issuers_all (every fingerprint of every entry of that log names a stored object with that SHA-256)"},
        "pending_scenario": {"jobs": sum(v for k, v in stats.items() if k.startswith("pending:") and k.endswith((",pool", ",sequencing"))),
                             "held_in_sequencing": sum(v for k, v in stats.items() if k.startswith("pending:") and k.endswith(",sequencing")),
                             "second_chain_deduplicated_while_first_pending": stats.get("pending:deduplicated-while-pending", 0),
                             "second_chain_stored_before_the_round": stats.get("pending:second-chain-stored-before-the-round", 0),
                             "kinds": sorted(set(k.split(":")[1].split(",")[0] for k in stats if k.startswith("pending:") and k.endswith((",pool", ",sequencing")))),
                             "what": "the same leaf through 4 submissions while the first is pending (in the current pool, or in the pool of a round held at its first upload): first chain, a second valid chain (re-issued / cross-signed intermediate or precertificate signing certificate: same subject and key), the first chain again, a third chain; then a further path after sequencing (cache). mon_issuers on each (entry fingerprints = the first chain's; every chain certificate of THIS accepted submission stored), mon_issuers_all over every submission answered 200; replayed by the model as submitdup/upissuers lines"},
        "rekeyed_scenario": {"pairs": sum(v for k, v in stats.items() if k.startswith("rekeyed:")),
                             "by_kind_and_timing": {k.split(":", 1)[1]: v for k, v in stats.items() if k.startswith("rekeyed:")},
                             "what": "two accepted CAs with the same subject DN and subject key identifier but different keys (re-keyed root, re-keyed intermediate, one precertificate whose signing certificate's key is certified under both re-keyed intermediates) sign the same precertificate template: byte-identical defanged TBSCertificate, different issuer_key_hash; both chains submitted in the same round / the second while the first is in sequencing / the second after the first was sequenced; judged by mon_leaf, mon_sct, mon_twin on each and mon_rekeyed (two leaves, two indexes); cachekey lines replay computeCacheHash against Submit/IssuerModel.v dedup_key"},
        "evict_scenario": {"runs": stats.get("evict:runs", 0), "mon_evicted": st.get("ops", {}).get("mon_evicted", 0), "mon_ratelimited": st.get("ops", {}).get("mon_ratelimited", 0),
                           "what": "PoolSize 1, 2 and 2 with two low-priority entries pending; rounds by hand; low-priority request in flight, high-priority arrival before the round (evicted: 503 + Retry-After, no SCT, entry not in the tree after the round, also for the resubmission while pending), low and high submissions to a pool full of high-priority entries (503 + Retry-After at once), exactly one victim, accepted when retried after the round; also run alone by evict_probe()"},
        "samples": pick(lambda l: "|=>|200:" in l and "|chain|" in l) + pick(lambda l: "|=>|200:" in l and "|prechain|" in l)
                   + pick(lambda l: "|=>|400:" in l and "|none|" not in l) + [l[:300] for l in work if l.startswith("setroots")][:1]
                   + [l[:120] + " ... " + l[l.index("|=>|") - 60:] for l in work if l.startswith("upissuers|") and "|=>|err" in l][:1]
                   + cov.get("theorems", [])[:2],
        "trusted_base": ["Coq 8.16.1 kernel (coqc; vm_compute in Examples and the per-run cross-check)",
                         "extraction (ExtrOcamlBasic only) + ocaml/util.ml, ocaml/sha256.ml (instantiates the sha oracle when the model is run), ocaml/submit.ml",
                         "Go harness harness/submit (CA hierarchy and chain generators with the standard library's crypto/x509, in-memory Backend/LockBackend with the opt-in fault modes of the issuer scenario (transient failure of the first Upload of an issuer/ key, ctx-honouring operations, recording of every Fetch/Upload of an issuer/ key), abstract view of parsed certificates, reading the sequenced leaf back from the data tile, metric-label reader) and harness/inject/internal/ctlog/zz_verif.go, zz_verif_submit.go accessors (tag verif)",
                         "ORACLES, modelled by contract only and exercised through the real handler: everything inside ctfe.ValidateChain (x509 parsing, path building, signature checks, NotAfter window, EKU filter), x509.ParseCertificate, x509.BuildPrecertTBS, ctfe.IsPrecertificate, ct.IsPreIssuer, json.Unmarshal of the request, x509util.PEMCertPool.AppendCertsFromPEM, SHA-256",
                         "the oracle answers printed by the harness are obtained by calling the same ct-go functions with the same arguments as http.go (root pool rebuilt from the generator's ground truth); monitors mon_contract/mon_json/mon_pem_oracle compare them with what the generator built",
                         "certificate-transparency-go (MerkleTreeLeafFromRawChain, tls.Marshal, SignatureVerifier) is the independent RFC 6962 implementation of monitors mon_leaf/mon_sct; its precertificate path shares x509.BuildPrecertTBS with sunlight, which is why mon_twin compares the logged TBS with a certificate built by the standard library instead",
                         "model Submit/Model.v is a hand transcription of internal/ctlog/http.go and of SetRootsFromPEM/LoadLog(roots) in ctlog.go, tied by the differential run above",
                         "model Submit/IssuerModel.v is a hand transcription of the issuer loop of addLeafToPool and of uploadIssuer (ctlog.go), tied by the upissuers lines: cache and store before/after are read through VerifIssuerKnown and the backend, the Fetch/Upload outcomes are the ones the backend recorded during the request, and 'err' is read off the response text 'failed to upload issuer'",
                         "pool admission (rate limit, eviction) is C17's model; here only the status mapping of its outcomes is modelled, with the outcome supplied by the scenario",
                         "repo " + L.repo_rev()],
    })
    return res.finish(cov, ["validate_contract: ctfe.ValidateChain returns a chain whose leaf NotAfter is in [start, limit) and has the serverAuth EKU, that ends in a certificate of the root pool, and that consists of the submitted certificates in order plus at most the root (explicit premise of C09_accept, C09_reject_partial, C09_reject_no_pool, C09_no_crash, C09_status_200; checked on every generated case by mon_contract)",
                            "parse_body, build, sha, pem_pool are uninterpreted function arguments (no assumption)",
                            "the _roots.pem object is only written by SetRootsFromPEM/CreateLog (C09_roots_history starts from LoadLog of any stored bytes)"])
