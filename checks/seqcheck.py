"""Shared check body for the sequencer properties (C01-C04, C06-C08, C17)."""
import os, time, concurrent.futures as cf
import checklib as L
from checks import seqlib as S

TRUSTED = [
    "Coq 8.16.1 kernel (coqc; vm_compute in Examples and in the per-run extraction cross-check: one history per quick run is evaluated inside Coq with the toy hash of Ctlog/Example.v and compared line by line with the extracted OCaml model run with the same hash)",
    "extraction (ExtrOcamlBasic only) + ocaml/util.ml, ocaml/sha256.ml (hand-written SHA-256, test vectors at start-up), ocaml/seq.ml",
    "Go harness harness/seq: simulated object/lock store with gates (fault, crash, hold injection), canonicalisation of checkpoints (opened with independently constructed verifiers), gunzip/tar expansion, waiter collection; harness/inject/internal/ctlog/zz_verif.go accessors (tag verif)",
    "model Ctlog/Model.v is a hand transcription of internal/ctlog/ctlog.go (CreateLog, LoadLog, addLeafToPool, uploadIssuer, sequence/sequencePool, RunSequencer stop path, cachePut/cacheGet); the tree is kept at specification level (roots = RFC 6962 MTH of the leaf list, tiles = rendering of the leaf list): that the incremental edge-tile computation of the code yields these values is what the byte-level digest comparison of every operation checks",
    "load-time tile authentication (tlog.TileHashReader, per-leaf re-hash) is modelled as a verifying-reader specification",
    "names tiles: only certificates that do not parse (empty names lines) are generated; x509/JSON are not modelled",
]
ASSUME = [
    "the lock store is a linearizable CAS register (C05) and is not tampered with",
    "object storage is read-after-write consistent (S3 eventual consistency not modelled)",
    "a crash is modelled as the instance's remaining operations having no effect",
]


RECOMPUTE_BIN = [None]
HEAVY = {"bigcrash": 3}
# monitors-only probes: the model comparison is not meaningful (tamperfull: the pinned x/mod reader
# accepts a tile the model's verifying reader refuses; storm: the schedule of concurrent submitters
# is not recorded; cachefault: a failing cache read is not an event of the model; sharedissuer: two submitters of one new issuer reach the pool in either order, which
# the model's atomic EvSubmit cannot express; rcparallel: the real recompute-cache process runs concurrently with a round), only
# the property monitors count. Value = histories per job.
PROBES = {"tamperfull": 2, "storm": 6, "rcparallel": 1, "sharedissuer": 8, "cachefault": 6, "hugecrash": 1}


def run_harness(hexe, seed, n, scenario, out):
    args = [hexe, "-seed=%d" % seed, "-n=%d" % n, "-out=" + out]
    if RECOMPUTE_BIN[0]:
        args.append("-recompute-bin=" + RECOMPUTE_BIN[0])
    if scenario and (scenario.startswith("crashenum:") or scenario.startswith("recoverfault:")):
        args += ["-scenario=" + scenario.split(":")[0], "-enumbase=" + scenario.split(":")[1]]
        args[2] = "-n=30" if scenario.startswith("crashenum:") else "-n=32"
    elif scenario:
        if scenario.split("@")[0] in HEAVY:
            args[2] = "-n=%d" % HEAVY[scenario.split("@")[0]]   # histories with 200+ entries each
        if scenario.endswith("@real"):
            # the same scenario with every storage/lock operation ALSO performed on a real LocalBackend
            # directory and a real SQLite lock database (one connection per instance)
            scenario = scenario[:-5]
            args.append("-real")
        args.append("-scenario=" + scenario)
        if scenario in PROBES:
            args[2] = "-n=%d" % PROBES[scenario]
    rc, log, dt = L.run(args, timeout=900)
    return rc, log


def main(prop, prop_v, tier, seed, replay, scenarios, own_prefixes, known_prefixes=(), extra_cov=None, regen=False, extra_stage=None):
    """scenarios: list of scenario kinds (None = the default rotation).
    own_prefixes: monitor failure prefixes that are violations of this property."""
    res = L.Result(prop, tier, seed)
    gen_ok, gen_log = (True, "")
    if regen:
        gen_ok, gen_log = L.regenerate()
    ok, cov = L.proof_stage(res, prop, prop_v, thorough=(tier == "thorough"))
    if regen:
        cov["generated_from_source"] = {"files": list(L.GENERATED), "ok": gen_ok, "log": gen_log[-500:]}
        if not gen_ok:
            p = L.write_replay(prop, "translation.txt", "the Go source could not be translated (tie by translation broken):\n" + gen_log)
            res.violation(p, "translation of the Go source failed", no_input=True)
    hexe, hlog = L.build_harness("seq")
    if hexe is None:
        p = L.write_replay(prop, "harness_build.txt", "the correspondence harness no longer compiles against /repo's working tree\n" + hlog[-6000:])
        res.violation(p, "harness build failed", no_input=True)
    if scenarios and ("recompute" in scenarios or "rcparallel" in scenarios):
        # the real cmd/recompute-cache binary, built from /repo's working tree
        rexe, rlog = L.build_repo_binary("./cmd/recompute-cache", "recompute-cache")
        if rexe is None:
            p = L.write_replay(prop, "recompute_build.txt", "cmd/recompute-cache no longer builds\n" + rlog[-6000:])
            res.violation(p, "cmd/recompute-cache build failed", no_input=True)
        RECOMPUTE_BIN[0] = rexe
    mexe, mlog = L.build_model("seq", "Extract/Seq.v", "seq.ml", extra_ml=["sha256.ml"])
    if mexe is None and ok:
        p = L.write_replay(prop, "model_build.txt", mlog[-6000:])
        res.violation(p, "model extraction/build failed", no_input=True)
    stats_total, nhist, ndiff, nmon, nknown = {}, 0, 0, 0, 0
    samples, nontrivial = [], set()
    first_diff = None
    if hexe:
        os.makedirs(os.path.join(L.BUILD, "hist"), exist_ok=True)
        jobs = []
        if replay:
            jobs.append(("replay", None))
        else:
            per = 6 if tier == "quick" else 10
            kinds = scenarios or [None]
            k = 0
            for rep in range(3 if tier == "quick" else 12):
                for sc in kinds:
                    if sc in PROBES and rep > 0 and tier == "quick":
                        continue   # expensive probes (1000+ submissions per history): once per quick run
                    jobs.append((seed * 1000 + k, sc)); k += 1
            if tier == "quick" and prop == "C03":
                # every crash position of a round x every crash position of the recovery, small tree (120 histories)
                for base in range(0, 120, 30):
                    jobs.append((seed * 1000 + 500 + base, "crashenum:%d" % base))
            if prop in ("C01", "C03"):
                # every crash position of a round x a failing operation at every position of the recovery (96 histories;
                # thorough: also with the failure applied)
                for base in range(0, (96 if prop == "C01" else 64) if tier == "quick" else 192, 32):
                    jobs.append((seed * 1000 + 700 + base, "recoverfault:%d" % base))
            if tier == "thorough" and prop in ("C01", "C02", "C03", "C04"):
                # systematic crash placement: every crash position of a round x every crash position
                # of the recovery, for a small tree and one crossing the first tile boundary
                for base in range(0, 240, 30):
                    jobs.append((seed * 1000 + 500 + base, "crashenum:%d" % base))
        if mexe is None:
            # the model could not be built (broken proof / translation): the monitors-only probes still run,
            # they judge the implementation alone and may find the failing input
            jobs = [j for j in jobs if j[1] in PROBES]
        def work(job):
            s, sc = job
            if s == "replay":
                return open(replay).read()
            out = os.path.join(L.BUILD, "hist", "%s_%s_%s.txt" % (prop, s, (sc or "mix").replace(":", "_")))
            rc, log = run_harness(hexe, s, per if sc else per * 2, sc, out)
            if rc != 0:
                return "HARNESSFAIL " + log[-3000:]
            return open(out).read()
        with cf.ThreadPoolExecutor(max_workers=8) as ex:
            texts = list(ex.map(work, jobs))
        for job, text in zip(jobs, texts):
            if text.startswith("HARNESSFAIL"):
                p = L.write_replay(prop, "harness_failure.txt", text)
                res.violation(p, "correspondence harness did not run to completion", no_input=True)
                continue
            if job[1] in PROBES:
                # monitors-only probe (see PROBES): only the property monitors are meaningful here
                st, diffs, mons, hi, err = S.monitors_only(text)
                stats_total["probe:%s-histories" % job[1]] = stats_total.get("probe:%s-histories" % job[1], 0) + len(hi)
            else:
                st, diffs, mons, hi, err = S.compare(text, mexe)
            for k, v in st.items():
                stats_total[k] = stats_total.get(k, 0) + v
            if diffs is None:
                p = L.write_replay(prop, "model_failure.txt", err)
                res.violation(p, "extracted model did not run", no_input=True)
                continue
            nhist += len(hi)
            for h in hi:
                d = L.digest("\n".join(h))
                if any(("|fail" in l or "ev|crash" in l or "ev|tamper" in l or " pool" in l or "err:" in l) for l in h):
                    nontrivial.add(d)
            if hi and len(samples) < 2:
                samples.append([l[:200] for l in hi[0][:25]])
            # monitors on the implementation alone
            for m in mons:
                what = m.split("FAILS:", 1)[1] if "FAILS:" in m else m
                if any(what.startswith(k) for k in known_prefixes):
                    kf = [f for f in L.known_findings() if f.get("property") == prop and f.get("status") == "known" and what.startswith(f.get("match", "\0"))]
                    if kf:
                        nknown += 1
                        msg = kf[0]["what"]
                        if msg not in res.known:
                            res.known.append(msg)
                        continue
                if any(what.startswith(k) for k in own_prefixes):
                    nmon += 1
                    if nmon <= 3:
                        hseed = m.split("|")[1]
                        hist = [h for h in hi if h and h[0].startswith("ev|reset|%s|" % hseed)]
                        if hist and len(hist[0]) > 3000:
                            hist = [hist[0][:100] + ["... (%d lines omitted: monitors-only probe; re-run the harness with the seed and scenario of the first line)" % (len(hist[0]) - 400)] + hist[0][-300:]]
                        p = L.write_replay(prop, "monitor_%s.txt" % hseed,
                                           "property monitor failed on the implementation: %s\nhistory (replay: ./check %s --replay <this file>):\n%s\n" % (what, prop, "\n".join(hist[0] if hist else [])))
                        res.violation(p, "monitor: " + what[:200])
            if diffs:
                ndiff += len(diffs)
                if first_diff is None:
                    (k, j, a, b) = diffs[0]
                    first_diff = (j, a, b, hi[k] if 0 <= k < len(hi) else [])
        if first_diff and nmon == 0:
            # reported only when no monitor of this run found a history on which the property itself fails
            (j, a, b, hist) = first_diff
            p = L.write_replay(prop, "correspondence.txt",
                               "sequencer model <-> implementation correspondence no longer checks (%d histories differ); the monitors of %s found no history on which the property itself fails.\nfirst difference (history line %d):\nimpl : %s\nmodel: %s\n\nhistory:\n%s\n" % (ndiff, prop, j, a, b, "\n".join(hist)))
            res.violation(p, "model/implementation correspondence broken (%d histories)" % ndiff, no_input=True)
    # extraction cross-check: the shortest non-probe histories are evaluated inside Coq as well
    xc = {"histories": 0, "events": 0}
    if hexe and mexe and not replay:
        cands = []
        for job, text in zip(jobs, texts):
            if job[1] in PROBES or text.startswith("HARNESSFAIL"):
                continue
            for h in S.split_raw([l for l in text.split("\n") if l]):
                if 20 <= len(h) <= 400:
                    cands.append(h)
        cands.sort(key=len)
        for n, h in enumerate(cands[: (1 if tier == "quick" else 6)]):
            okx, nev, detail = S.vm_crosscheck(h, mexe, "%s_%d" % (prop, n))
            if not okx:
                p = L.write_replay(prop, "vm_crosscheck.txt", detail + "\n\nhistory:\n" + "\n".join(h))
                res.violation(p, "extraction cross-check failed (Coq vm_compute vs extracted OCaml)", no_input=True)
            else:
                xc["histories"] += 1; xc["events"] += nev
    if not ok and not res.violations:
        res.violation(getattr(res, "coq_failure", None) or L.write_replay(prop, "coq_failure.txt", "proof stage failed"),
                      "theorems of %s no longer check; the differential run and the monitors found no failing history" % prop_v, no_input=True)
    cov.update({
        "evaluations": nhist, "distinct_nontrivial": len(nontrivial),
        "rule": "one evaluation = one generated history (event list) run against real ctlog.Log instances and replayed by the extracted model; non-trivial = contains an injected fault, crash, tampering, duplicate or failed acknowledgement; distinct by digest of the canonical history",
        "traces_validated_against_impl": nhist - ndiff if nhist >= ndiff else 0,
        "extraction_crosscheck_vm_compute": xc,
        "histories_differing": ndiff, "monitor_failures": nmon, "known_finding_hits": nknown,
        "monitor_checks_and_input_distribution": stats_total,
        "samples": samples + cov.get("theorems", [])[:3],
        "trusted_base": TRUSTED + ["repo " + L.repo_rev()],
    })
    if extra_cov:
        cov.update(extra_cov)
    if extra_stage and not replay:
        cov.update(extra_stage(res) or {})
    return res.finish(cov, ASSUME)
