"""C01 — see DESIGN.md section 5 (C01) and coq/Properties/C01.v"""
from checks import seqcheck

def main(tier, seed, replay):
    return seqcheck.main("C01", "Properties/C01.v", tier, seed, replay, scenarios=[None, 'two@real', 'crash@real','loadrace','startup@real'],
                         own_prefixes=tuple("C01".split(",")), known_prefixes=("C06-stale-upload",) if "C01" == "C06" else ())
