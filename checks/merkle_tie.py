"""Tie of the shared Merkle library (coq/Merkle/Proofs.v, Sound.v) to the real code.

Not a property check of its own: C12/C14/C15/C16 call `run(res, PROP, seed, tier)`, which

  * builds harness/merkle (real tlog.CheckTree/CheckRecord/TreeHash and torchwood.CheckSubtree/
    ValidSubtree/SubtreeHash from /repo's module graph) and the extracted model driver
    (ocaml/merkle.ml: the Coq models run with real SHA-256 node hashing),
  * runs the line differential of checks/difflib2 (every non-monitor line must be reproduced by
    the model; every mon_ line must say "holds"), recording violations in `res`,
  * returns the statistics dict (cases per op, result distribution, differences, monitors ...).

`python3 checks/merkle_tie.py [--tier quick|thorough] [--seed N]` runs it stand-alone.
"""
import os, sys

sys.path.insert(0, os.path.dirname(os.path.dirname(os.path.abspath(__file__))))
import checklib as L
from checks import difflib2 as D

AREA = "merkle"

RULE = ("cases = for every tree size t <= max (70 quick / 100 thorough) of SHA-256 leaf hashes built with "
        "tlog.StoredHashes: every (t,n) consistency proof and every (t,i) inclusion proof, every valid subtree "
        "[s,e) of every t, each with the prover's proof and mutants (one bit flipped, truncated first/last, "
        "extended first/last, duplicated last, emptied, adjacent swap, reversed), wrong root / wrong claimed hash, "
        "the proof of another (t',n') / another range, the same proof for another n; every (s,e) in [-1,max+1]^2 "
        "through ValidSubtree and CheckSubtree (valid and invalid ranges), invalid (t,n); ValidSubtree at the "
        "2^62 boundaries and 400 random large aligned/misaligned ranges; verifiers on sizes up to 2^62 with random "
        "proofs of length 0..69; random cases on a tree of several thousand leaves; TreeHash/SubtreeHash against "
        "the model's RFC 6962 mth. Monitors: ValidSubtree == multiple-of-smallest-power-of-two >= size == "
        "right-edge walk of the tree of size e; accepted proof against the true root => claimed hash equals the "
        "naive RFC 6962 hash; every prover output accepted.")

TRUSTED = ["extraction (ExtrOcamlBasic only) + ocaml/util.ml + ocaml/merkle.ml + ocaml/sha256.ml (self-tested, and "
           "compared with Go's crypto/sha256 through every node hash of the run)",
           "Go harness harness/merkle (generators, classification of errors into ok/failed/invalid)",
           "models Merkle/Proofs.v are hand transcriptions of x/mod tlog.go and torchwood subtree.go "
           "(dependencies), tied by this differential run on sizes <= 2^62; int64 wrap-around is not modelled "
           "(tlog.CheckTree/CheckRecord do not return for t > 2^62 with a non-empty proof: harness -probe)",
           "SHA-256 collision resistance stands in for hnode_inj (proved for the free term algebra)"]


def harness_args(seed, tier):
    if tier == "thorough":
        return ["-seed=%d" % seed, "-max=100", "-n=3000", "-big=6000", "-mut=0"]
    return ["-seed=%d" % seed, "-max=70", "-n=600", "-big=3000", "-mut=3"]


def run(res, prop, seed, tier, replay=None):
    """build + differential; returns the stats dict (st['built'] False if something did not build)."""
    st = {"built": False, "lines": 0, "diffs": 0, "monitors": 0, "monitor_failures": 0, "ops": {}, "results": {},
          "rule": RULE, "trusted_base": TRUSTED}
    hexe, hlog = L.build_harness(AREA)
    if hexe is None:
        p = L.write_replay(prop, "merkle_harness_build.txt",
                           "harness/merkle no longer compiles against /repo's module graph\n" + hlog[-6000:])
        res.violation(p, "merkle harness build failed", no_input=True)
    mexe, mlog = L.build_model(AREA, "Extract/Merkle.v", "merkle.ml", extra_ml=["sha256.ml"])
    if mexe is None:
        p = L.write_replay(prop, "merkle_model_build.txt", mlog[-6000:])
        res.violation(p, "merkle model extraction/build failed", no_input=True)
    if not (hexe and mexe):
        return st
    args = harness_args(seed, tier)
    extra = []
    if replay:
        extra = [[l.strip() for l in open(replay) if "|=>|" in l]]
        args = ["-seed=%d" % seed, "-max=0", "-n=0"]
    d, work, mlines = D.differential(res, prop, hexe, args, mexe, extra_inputs=extra)
    st.update(d)
    st["built"] = True
    st["harness_args"] = args
    st["distinct_cases"] = len(set(work))
    st["distinct_nontrivial"] = len(set(l for l in work if not l.endswith("|invalid")))
    st["accepted"] = sum(v for k, v in st.get("results", {}).items() if k.endswith(":ok"))
    st["samples"] = [l[:240] for l in work if l.startswith("tree|")][:1] + \
                    [l[:240] for l in work if l.startswith("subtree|")][:1] + \
                    [l[:240] for l in work if l.startswith("valid|")][:1]
    return st


def main(argv):
    tier, seed, replay = L.seed_and_tier(argv)
    a = list(argv)
    while a:
        x = a.pop(0)
        if x == "--seed" and a:
            seed = int(a.pop(0))
    res = L.Result("MERKLE", tier, seed)
    st = run(res, "MERKLE", seed, tier, replay)
    print("merkle tie: tier=%s seed=%d built=%s" % (tier, seed, st.get("built")))
    print("  harness args        : %s" % " ".join(st.get("harness_args", [])))
    print("  lines               : %d (harness %.1fs, model %.1fs)" % (st.get("lines", 0), st.get("harness_wall_s", 0), st.get("model_wall_s", 0)))
    print("  cases per op        : %s" % ", ".join("%s=%d" % kv for kv in sorted(st.get("ops", {}).items())))
    print("  result distribution : %s" % ", ".join("%s=%d" % kv for kv in sorted(st.get("results", {}).items()) if not kv[0].startswith("mth:")))
    print("  distinct cases      : %d (non-trivial %d)" % (st.get("distinct_cases", 0), st.get("distinct_nontrivial", 0)))
    print("  monitors            : %d, failures %d" % (st.get("monitors", 0), st.get("monitor_failures", 0)))
    print("  model/impl disagreements : %d" % st.get("diffs", 0))
    for (p, noinp, what) in res.violations:
        print("# %s" % what)
        print("VIOLATION property=MERKLE replay=%s%s" % (p, " no-failing-input-found" if noinp else ""))
    return 1 if (res.violations or not st.get("built")) else 0


if __name__ == "__main__":
    sys.exit(main(sys.argv[1:]))
