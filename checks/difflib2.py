"""Generic 'differential + monitors' stage shared by the line-based checks.

Harness lines:   op|arg|...|=>|result          (impl result)
  * ops starting with "mon_" are property monitors evaluated on the implementation alone;
    their result must be "holds" (anything else is a concrete failing input of the property);
  * every other line is replayed by the extracted Coq model, which must print the same line.
"""
import os, random, subprocess, resource, time
import checklib as L


def run_model(exe, text, timeout=1800):
    def lim():
        resource.setrlimit(resource.RLIMIT_STACK, (resource.RLIM_INFINITY, resource.RLIM_INFINITY))
    try:
        p = subprocess.run([exe], input=text.encode(), stdout=subprocess.PIPE, stderr=subprocess.PIPE,
                           timeout=timeout, preexec_fn=lim)
    except subprocess.TimeoutExpired:
        return None, "model timeout"
    if p.returncode != 0:
        return None, "model driver failed rc=%d: %s" % (p.returncode, p.stderr.decode()[-2000:])
    return p.stdout.decode().split("\n"), ""


def split_line(l):
    f = l.split("|")
    i = f.index("=>") if "=>" in f else len(f)
    return f[0], f[1:i], "|".join(f[i + 1:])


def differential(res, prop, harness_exe, harness_args, model_exe, property_ops=(), timeout=1800,
                 extra_inputs=()):
    """returns stats dict. Records violations in res."""
    st = {"lines": 0, "monitors": 0, "monitor_failures": 0, "diffs": 0, "ops": {}, "results": {}}
    rc, out, dt = L.run([harness_exe] + list(harness_args), timeout=timeout)
    st["harness_wall_s"] = round(dt, 2)
    if rc != 0:
        p = L.write_replay(prop, "harness_failure.txt", "correspondence harness failed (rc=%d)\nargs=%s\n%s" % (rc, harness_args, out[-6000:]))
        res.violation(p, "correspondence harness did not run to completion", no_input=True)
        return st, [], []
    lines = [l for l in out.split("\n") if "|=>|" in l]
    for x in extra_inputs:
        lines.extend(x)
    st["lines"] = len(lines)
    mons = [l for l in lines if l.startswith("mon_")]
    work = [l for l in lines if not l.startswith("mon_")]
    st["monitors"] = len(mons)
    # 1. monitors on the implementation alone
    bad_mon = [l for l in mons if split_line(l)[2] != "holds"]
    st["monitor_failures"] = len(bad_mon)
    for l in bad_mon[:3]:
        op, args, r = split_line(l)
        p = L.write_replay(prop, "monitor_%s_%s.txt" % (op, L.digest(l)),
                           "property monitor %s failed on the implementation\ninput (harness line, replay with ./check %s --replay <this file>):\n%s\n" % (op, prop, l))
        res.violation(p, "monitor %s: %s" % (op, r[:200]))
    # 2. model vs implementation
    t0 = time.time()
    mlines, err = run_model(model_exe, "\n".join(work) + "\n")
    st["model_wall_s"] = round(time.time() - t0, 2)
    if mlines is None:
        p = L.write_replay(prop, "model_failure.txt", err)
        res.violation(p, "extracted model did not run: " + err[:200], no_input=True)
        return st, work, []
    mlines = [l for l in mlines if l]
    diffs = L.diff_lines(work, mlines)
    st["diffs"] = len(diffs)
    for l in work:
        op, args, r = split_line(l)
        st["ops"][op] = st["ops"].get(op, 0) + 1
        k = op + ":" + r.split(":")[0][:12]
        st["results"][k] = st["results"].get(k, 0) + 1
    for l in mons:
        op, args, r = split_line(l)
        st["ops"][op] = st["ops"].get(op, 0) + 1
    if diffs and not bad_mon:
        # the correspondence broke; is there an input on which the property itself fails?
        shown = 0
        for (i, a, b) in diffs:
            if i < 0:
                continue
            op = a.split("|")[0]
            if op in property_ops:
                p = L.write_replay(prop, "diff_%s_%s.txt" % (op, L.digest(a)),
                                   "implementation and model (whose output IS the independent specification for op %s) differ\nimpl : %s\nmodel: %s\n" % (op, a, b))
                res.violation(p, "op %s: implementation differs from the specification value" % op)
                shown += 1
                if shown >= 3:
                    break
        if shown == 0:
            (i, a, b) = diffs[0]
            p = L.write_replay(prop, "correspondence.txt",
                               "correspondence model<->implementation no longer checks (%d differing cases); monitors found no input on which the property itself fails.\nfirst difference:\nimpl : %s\nmodel: %s\n" % (len(diffs), a, b))
            res.violation(p, "model/implementation correspondence broken (%d cases)" % len(diffs), no_input=True)
    return st, work, mlines


def coq_bytes(hexs):
    if hexs in ("-", ""):
        return "[]"
    return "[" + ";".join("x%s" % hexs[i:i + 2] for i in range(0, len(hexs), 2)) + "]"


def coq_str_bytes(s):
    return "[" + ";".join("x%02x" % c for c in s.encode()) + "]"


def vm_crosscheck(res, prop, cases, imports, name="cases"):
    """cases: list of (coq_term_producing_bytes, expected_string). Evaluates inside Coq with
    vm_compute and compares with what the extracted model printed (cross-check of extraction)."""
    if not cases:
        return 0
    d = os.path.join(L.BUILD, "cases")
    os.makedirs(d, exist_ok=True)
    v = os.path.join(d, "%s_%s.v" % (prop, name))
    with open(v, "w") as f:
        f.write(imports + "\nOpen Scope byte_scope.\n")
        f.write("Definition cases : list (nat * bytes * bytes) := [\n")
        f.write(";\n".join("(%d%%nat, %s, %s)" % (i, t, coq_str_bytes(e)) for i, (t, e) in enumerate(cases)))
        f.write("].\nDefinition bad := Eval vm_compute in map (fun c => fst (fst c)) (filter (fun c => negb (bytes_eqb (snd (fst c)) (snd c))) cases).\nPrint bad.\n")
    with L.Lock("coq"):
        rc, out, dt = L.run(["coqc", "-Q", L.COQ, "SL", "-w", "-notation-overridden,-deprecated", v], cwd=d, timeout=900)
    flat = " ".join(out.split())
    if rc != 0 or "bad = []" not in flat:
        p = L.write_replay(prop, "vm_crosscheck.txt", "vm_compute evaluation of the model inside Coq disagrees with the extracted OCaml model (or failed)\nfile: %s\n%s" % (v, out[-4000:]))
        res.violation(p, "extraction cross-check failed", no_input=True)
        return 0
    return len(cases)
