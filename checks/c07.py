"""C07 — see DESIGN.md section 5 (C07) and coq/Properties/C07.v"""
from checks import seqcheck

def main(tier, seed, replay):
    return seqcheck.main("C07", "Properties/C07.v", tier, seed, replay, scenarios=['cache','recompute','pool','midround','straddle','legacy','storm','rcparallel','cachefault'],
                         own_prefixes=tuple("C07,C02".split(",")), regen=True)
