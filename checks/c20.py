"""C20 — the health endpoint of cmd/skylight is green only for fresh, valid, consistent state."""
import os, random
import checklib as L
from checks import difflib2 as D
from checks import skylib as S
from checks.c19 import cleanup

PROP = "C20"
PROP_V = "Properties/C20.v"


def cb(x): return "true" if x == "1" else "false"


def coq_states(work, mlines):
    """one (coq term, expected) per health line: run_health [logs] [wits] now"""
    cases, logs, wits = [], [], []
    for l, m in zip(work, mlines):
        op, a, r = D.split_line(l)
        if op == "hreset":
            logs, wits = [], []
        elif op == "hlog":
            logs.append("(mkLog %s %s %s %s %s %s %s %s (%s)%%Z %s %s (%s)%%Z (%s)%%Z %s %s %s %s (%s)%%Z %s %s (%s)%%Z)" % (
                D.coq_bytes(a[0]), cb(a[1]), cb(a[2]), cb(a[3]), cb(a[4]), cb(a[5]), D.coq_bytes(a[6]), cb(a[7]), a[8],
                cb(a[9]), D.coq_bytes(a[10]), a[11], a[12], cb(a[13]), cb(a[14]), cb(a[15]), D.coq_bytes(a[16]), a[17],
                D.coq_bytes(a[18]), cb(a[19]), a[20]))
        elif op == "hwit":
            wits.append([a, []])
        elif op == "hdir":
            wits[-1][1].append("(mkDir %s %s %s %s %s %s %s (%s)%%Z %s %s %s %s %s (%s)%%Z)" % (
                D.coq_bytes(a[0]), cb(a[1]), cb(a[2]), cb(a[3]), cb(a[4]), D.coq_bytes(a[5]), D.coq_bytes(a[6]), a[7],
                cb(a[8]), cb(a[9]), cb(a[10]), cb(a[11]), D.coq_bytes(a[12]), a[13]))
        elif op == "health":
            ws = ["(mk_wit %s %s %s %s %s [%s])" % (cb(w[0]), cb(w[1]), D.coq_str_bytes(w[2]), D.coq_str_bytes(w[3]), cb(w[4]), "; ".join(ds))
                  for (w, ds) in wits]
            term = "(run_health [%s] [%s] (%s)%%Z)" % ("; ".join(logs), "; ".join(ws), a[0])
            cases.append((term, D.split_line(m)[2]))
    return cases


def main(tier, seed, replay):
    res = L.Result(PROP, tier, seed)
    ok, cov = L.proof_stage(res, PROP, PROP_V, thorough=(tier == "thorough"))
    hexe, mexe, sky = S.build_all(res, PROP, ok)
    st, work, mlines, ncross = {}, [], [], 0
    if hexe and mexe and sky:
        scratch = S.scratch()
        try:
            n = 120 if tier == "quick" else 1500
            args = ["-mode=c20", "-seed=%d" % seed, "-n=%d" % n, "-skylight=" + sky, "-scratch=" + scratch]
            extra = []
            if replay:
                args.append("-replay=" + os.path.abspath(replay))
            corpus = os.path.join(L.VERIF, "corpus", PROP)
            if os.path.isdir(corpus):
                for f in sorted(os.listdir(corpus)):
                    extra.append([l.strip() for l in open(os.path.join(corpus, f)) if "|=>|" in l])
            st, work, mlines = D.differential(res, PROP, hexe, args, mexe, extra_inputs=extra)
        finally:
            cleanup(scratch)
        if mlines and len(mlines) == len(work):
            rnd = random.Random(seed)
            cases = [c for c in coq_states(work, mlines) if len(c[0]) < 60000]
            sample = rnd.sample(cases, min(len(cases), 25 if tier == "quick" else 150))
            ncross = D.vm_crosscheck(res, PROP, sample, "From SL Require Import Sky.Run.")
    if not ok and not res.violations:
        res.violation(getattr(res, "coq_failure", L.write_replay(PROP, "coq_failure.txt", "proof stage failed")),
                      "theorems of %s no longer check; differential run and monitors found no failing input" % PROP_V, no_input=True)
    elif not ok:
        print("# note: the Coq proof stage also failed: %s" % getattr(res, "coq_failure", "?"))
    hl = [l for l in work if l.startswith("health|")]
    status, classes = {}, {}
    for l in hl:
        r = D.split_line(l)[2]
        k = r.split("|")[0]
        status[k] = status.get(k, 0) + 1
        for line in r.split("|", 1)[-1].split(";"):
            c = line.split(": ", 1)[-1]
            classes[c] = classes.get(c, 0) + 1
    cov.update({
        "evaluations": len(hl), "distinct_nontrivial": len(set(D.split_line(l)[2] for l in hl if not D.split_line(l)[2].startswith("200|"))),
        "rule": "cases = directory states of three logs (two non-staging, one staging) and two witnesses with mirrors (one staging) served by the unmodified skylight binary: the all-good state and its green variants (fresh by 0..4 s, future timestamp, extra unknown signature, read-only with matching final tree, inner tile missing, ...), every condition broken alone on a non-staging and on a staging entry (stale by 6 s .. 1 day, re-signed, renamed text / signature / metadata, extension line, truncated / empty / garbage / missing checkpoint, second bad signature, missing / truncated / non-JSON metadata, bad key, unsupported key, bad name, bad or empty end date, past the read-only date without / with mismatching final tree hash / size / timestamp, verifier list missing / truncated / empty / bad / other key, pending checkpoint missing / garbage / wrong key / other origin, mirror ahead by 1 / many, mirror checkpoint missing / truncated / garbage / wrong key / signed text that is no checkpoint, directory named for another origin, right-edge tile missing / corrupt / short / no tiles) and random pairs and triples; one evaluation = one GET /health with the facts of the state computed by independent verifiers; distinct non-trivial = distinct non-green answers",
        "traces_validated_against_impl": len(work), "distinct_cases": len(set(hl)),
        "impl_property_monitors": st.get("monitors", 0), "monitor_failures": st.get("monitor_failures", 0),
        "model_impl_differences": st.get("diffs", 0), "vm_compute_crosschecked": ncross,
        "op_distribution": st.get("ops", {}), "status_distribution": status, "line_class_distribution": classes,
        "samples": [l[:400] for l in hl[:1]] + [l[:400] for l in hl if "|=>|500|" in l][:3] + cov.get("theorems", [])[:2],
        "trusted_base": ["Coq 8.16.1 kernel (coqc, vm_compute for Examples and the per-run cross-check)",
                         "extraction (ExtrOcamlBasic only) + ocaml/util.ml + ocaml/sky.ml",
                         "Go harness harness/sky: directory generator, and the independent verifiers of harness/sky/facts.go (signed-note syntax, RFC 6962 tree head signatures via ct-go serialisation + crypto/ecdsa, tlog-cosignature via crypto/ed25519, right-edge Merkle hashes from the raw tiles) whose results enter the model as facts",
                         "freshness uses real time: checkpoints are signed now - delta with delta <= 4 s or >= 6 s (limit 5 s), read-only dates at least one hour from the boundary; the model is evaluated at the harness's clock around the request",
                         "model Sky/Health.v is a hand transcription of checkLog / loadVerifiers / hashes / check / the /health handler of cmd/skylight/skylight.go, tied by the differential run above",
                         "repo " + L.repo_rev()],
    })
    return res.finish(cov, ["signature validity, checkpoint parsing and right-edge tile validity are facts computed by the harness's independent verifiers, not modelled",
                            "error texts are compared by class (the canonical names of lerr_text / werr_text), the named log exactly",
                            "log short names are distinct (the handler keys a map by the log's configuration)"])
