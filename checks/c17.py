"""C17 — see DESIGN.md section 5 (C17) and coq/Properties/C17.v"""
import checklib as L
from checks import seqcheck


def http_stage(res):
    """The HTTP answer of an evicted / rate-limited submitter (http.go status mapping, an anchor of C17): the evict
    scenario of the submit harness (real chains posted to the real handler, PoolSize 1 and 2, rounds by hand) — an evicted
    or rate-limited submitter gets 503 with Retry-After and no SCT, and its entry is never sequenced."""
    from checks import c09
    ok, bad, stats, log = c09.evict_probe(res.seed, with_model=True)
    for l in bad[:3]:
        p = L.write_replay("C17", "monitor_http_%s.txt" % L.digest(l),
                           "property monitor failed on the implementation (HTTP answer of an evicted / rate-limited submitter; "
                           "harness/submit -only=evict, seed %d):\n%s\n" % (res.seed, l))
        res.violation(p, "monitor: " + l[:240])
    if not ok and not bad:
        p = L.write_replay("C17", "http_probe.txt", "the HTTP eviction probe (harness/submit -only=evict) did not run to completion or its model comparison differs:\n%s\n%s" % (stats, log))
        res.violation(p, "HTTP eviction probe failed (%s)" % str(stats)[:160], no_input=True)
    return {"http_eviction_probe": stats}


def main(tier, seed, replay):
    return seqcheck.main("C17", "Properties/C17.v", tier, seed, replay, scenarios=['pool','clock','pool','basic','midround','straddle'],
                         own_prefixes=("C17",), extra_stage=http_stage)
