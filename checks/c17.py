"""C17 — see DESIGN.md section 5 (C17) and coq/Properties/C17.v"""
from checks import seqcheck

def main(tier, seed, replay):
    return seqcheck.main("C17", "Properties/C17.v", tier, seed, replay, scenarios=['pool','clock','pool','basic','midround'],
                         own_prefixes=tuple("C17".split(",")), known_prefixes=("C06-stale-upload",) if "C17" == "C06" else ())
