"""C19 — the read-path server (cmd/skylight) serves exactly the stored objects with correct metadata."""
import os, random, shutil, subprocess
import checklib as L
from checks import difflib2 as D
from checks import skylib as S

PROP = "C19"
PROP_V = "Properties/C19.v"


def cleanup(d):
    subprocess.run(["chattr", "-R", "-i", d], stdout=subprocess.DEVNULL, stderr=subprocess.DEVNULL)
    shutil.rmtree(d, ignore_errors=True)


def coq_cfg(lines):
    """Coq terms of the configurations described by the cfg lines of one run (list, in order)"""
    cfgs, cur = [], None
    for l in lines:
        op, a, r = D.split_line(l)
        if op == "reset":
            cur = {"home": "[]", "logs": [], "wits": [], "lj": "None"}
            cfgs.append(cur)
        elif op == "home":
            cur["home"] = D.coq_bytes(a[0])
        elif op in ("log", "wit"):
            cur[op + "s"].append("(mk_entry %s %s %s)" % (D.coq_bytes(a[0]), D.coq_bytes(a[1]), a[2]))
        elif op == "logsjson":
            cur["lj"] = "(Some (mk_logsjson %s %s))" % (D.coq_bytes(a[0]), D.coq_bytes(a[1]))
    return ["(mk_config %s [%s] [%s] %s)" % (c["home"], "; ".join(c["logs"]), "; ".join(c["wits"]), c["lj"]) for c in cfgs]


def main(tier, seed, replay):
    res = L.Result(PROP, tier, seed)
    ok, cov = L.proof_stage(res, PROP, PROP_V, thorough=(tier == "thorough"))
    hexe, mexe, sky = S.build_all(res, PROP, ok)
    st, work, mlines, ncross = {}, [], [], 0
    cats = {}
    if hexe and mexe and sky:
        scratch = S.scratch()
        try:
            n = 2000 if tier == "quick" else 12000
            args = ["-mode=c19", "-seed=%d" % seed, "-n=%d" % n, "-skylight=" + sky, "-scratch=" + scratch]
            extra = []
            if replay:
                args.append("-replay=" + os.path.abspath(replay))
            corpus = os.path.join(L.VERIF, "corpus", PROP)
            if os.path.isdir(corpus):
                for f in sorted(os.listdir(corpus)):
                    extra.append([l.strip() for l in open(os.path.join(corpus, f)) if "|=>|" in l])
            st, work, mlines = D.differential(res, PROP, hexe, args, mexe, extra_inputs=extra)
        finally:
            cleanup(scratch)
        # cross-check of extraction: the routing decision of a sample of requests, vm_compute vs OCaml
        cfgs = coq_cfg(work)
        if cfgs and mlines:
            rnd = random.Random(seed)
            first_cfg = []
            for l in work:
                if l.startswith("reset|") and first_cfg:
                    break
                first_cfg.append(l)
            reqs = [l for l in first_cfg if l.startswith("req|") and len(l) < 400]
            sample = rnd.sample(reqs, min(len(reqs), 60 if tier == "quick" else 300))
            setup = [l for l in first_cfg if l.split("|")[0] in ("reset", "home", "log", "wit", "logsjson")]
            q = ["route|%s|%s|=>|?" % tuple(D.split_line(l)[1]) for l in sample]
            out, err = D.run_model(mexe, "\n".join(setup + q) + "\n")
            if out is not None:
                outs = [l for l in out if l.startswith("route|")]
                cases = []
                for l in outs:
                    op, a, r = D.split_line(l)
                    cases.append(("(run_route cfg0 %s %s)" % (D.coq_bytes(a[0]), D.coq_bytes(a[1])), r))
                ncross = D.vm_crosscheck(res, PROP, cases,
                                         "From SL Require Import Sky.Run.\nDefinition cfg0 := %s." % cfgs[0])
    if not ok and not res.violations:
        res.violation(getattr(res, "coq_failure", L.write_replay(PROP, "coq_failure.txt", "proof stage failed")),
                      "theorems of %s no longer check; differential run and monitors found no failing input" % PROP_V, no_input=True)
    elif not ok:
        print("# note: the Coq proof stage also failed: %s" % getattr(res, "coq_failure", "?"))
    reqs = [l for l in work if l.startswith("req|")]
    status = {}
    for l in reqs:
        k = D.split_line(l)[2].split("|")[0]
        status[k] = status.get(k, 0) + 1
    nontrivial = len(set(l for l in reqs if not D.split_line(l)[2].startswith("404|")))
    cov.update({
        "evaluations": st.get("lines", 0), "distinct_nontrivial": nontrivial,
        "rule": "cases = GET requests (raw request-target, Host header) against the unmodified skylight binary over logs of 1, 300 and 600 entries written by the real sequencer, a witness with a mirror (real tiles) and a second witness, in two configurations (home redirect / host-only, path-prefixed, deep-prefixed, witness under a log's host, host with port): every layout path; mutated layout paths (trailing slash, //, /./, /../, %2e%2e, %2F, encoded bytes, queries, %00, %ff, bad escapes, index.html); wrong hosts and prefixes; traversal, directories, dot files, symlinks in/out, odd names under every prefix; witness origins (known, unknown, .., encoded); hostless pages; random soups of path atoms. distinct = distinct request lines; non-trivial = the answer is not a plain 404",
        "traces_validated_against_impl": len(work), "distinct_cases": len(set(reqs)), "requests": len(reqs),
        "impl_property_monitors": st.get("monitors", 0), "monitor_failures": st.get("monitor_failures", 0),
        "model_impl_differences": st.get("diffs", 0), "vm_compute_crosschecked": ncross,
        "op_distribution": st.get("ops", {}), "status_distribution": status,
        "samples": [l[:300] for l in reqs[:2]] + [l[:300] for l in reqs if "|=>|200|" in l][:2] + [l[:300] for l in reqs if "|=>|500|" in l][:1] + cov.get("theorems", [])[:2],
        "trusted_base": ["Coq 8.16.1 kernel (coqc, vm_compute for Examples and the per-run cross-check)",
                         "extraction (ExtrOcamlBasic only) + ocaml/util.ml + ocaml/sky.ml",
                         "Go harness harness/sky (request generator, raw HTTP/1.1 client, independent resolution of the directories with Lstat/EvalSymlinks/Rel, header table of the layouts, sunlight.Client as the monitoring client)",
                         "net/url, path, net/http ServeMux / StripPrefix / FileServerFS / Redirect and skylight's filesOnlyFS are SPECIFIED in Sky/Routes.v (transcribed from go1.25), not modelled; os.Root and kernel path resolution enter as a lookup table computed by the harness; the differential run is what holds them to the specification",
                         "model Sky/Routes.v is a hand transcription of cmd/skylight/skylight.go (pattern table, handlers, header switch), tied by the differential run above",
                         "repo " + L.repo_rev()],
    })
    return res.finish(cov, ["request-targets in origin form (start with /), GET only, Host without IPv6 literal; rate limiting avoided by a User-Agent with an email address",
                            "configured prefixes are plain ([A-Za-z0-9._-] segments) and, for the layout theorems, not shadowed by another pattern of the same host (log_unshadowed / wild_unshadowed / leaf_unshadowed; decidable, holds for the generated configurations and the repo's testdata shape)",
                            "tile paths: Codec.Leaf.tile_path / parse_tile_path (C10) are reused for the coordinate -> path map and the header switch"])
