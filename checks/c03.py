"""C03 — see DESIGN.md section 5 (C03) and coq/Properties/C03.v"""
from checks import seqcheck

def main(tier, seed, replay):
    return seqcheck.main("C03", "Properties/C03.v", tier, seed, replay, scenarios=['crash','boundary','crash','faults','bigcrash','bigcrash@real','crash@real','hugecrash'],
                         own_prefixes=("C03", "C02", "C04 at-publish: missing"))
