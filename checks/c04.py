"""C04 — see DESIGN.md section 5 (C04) and coq/Properties/C04.v"""
from checks import seqcheck

def main(tier, seed, replay):
    return seqcheck.main("C04", "Properties/C04.v", tier, seed, replay, scenarios=['basic','boundary','faults','crash','cache','clockcrash','sharedissuer'],
                         own_prefixes=tuple("C04".split(",")))
