"""C12 — the monitoring client never yields unauthenticated log content.

Stages: (1) Coq: Properties/C12.v (client.go on top of torchwood's loops, proved for every adversary
under the verifying-reader specification; Entry/CheckInclusion/Checkpoint with no assumption on the
server); (2) tie: harness/client builds REAL logs with the real sequencer and serves them to an
unmodified sunlight.Client through a tampering RoundTripper; every case is replayed by the extracted
model (ocaml/client.ml), which must print the same line; mon_ lines compare what the client yielded
with the harness's ground truth; (3) the shared Merkle tie (checks/merkle_tie.py).

The tile hash reader (tlog.TileHashReader) is a dependency. harness/client probes which of its two
published behaviours the module graph of /repo gives ("reader" line, Client/Reader.v); with the
defective one (golang.org/x/mod <= v0.37.0) the client DOES yield forged entries: those monitor
failures carry the prefix DEFECT below and are reported as a known finding / deviation, every other
monitor failure or model difference is a violation."""
import os, re, random, shutil, tempfile, concurrent.futures as cf
import checklib as L
from checks import difflib2 as D
from checks import merkle_tie

PROP = "C12"
PROP_V = "Properties/C12.v"
AREA = "client"
DEFECT = "C12-tilehashreader-unauthenticated-tile"
HEADER_OPS = ("key", "store", "tree", "badroot", "reader")

TRUSTED = [
    "Coq 8.16.1 kernel (coqc; vm_compute in Examples and in the per-run cross-check of the fetch plans)",
    "extraction (ExtrOcamlBasic only) + ocaml/util.ml, ocaml/sha256.ml (self-tested; every store digest, log ID and tree root of the run is compared with Go's), ocaml/client.ml (segment assembly of tampered objects, parsing of the symbolic SCT/note fields)",
    "Go harness harness/client: in-memory backends, tampering RoundTripper, independent tile layout parser, canonicalisation of served checkpoints (note syntax via note.Open with no verifier, ParseCheckpoint, signer found by ecdsa.VerifyASN1 over candidate tree heads) and of SCTs (the harness knows which key signed which message), error classification by message text, ground truth = what the submitters were acknowledged",
    "torchwood.Client / tlog.TileHashReader authentication loop: in the THEOREMS it is a specification (Model.verifying: returns only hashes the root commits to); Client/Reader.v is an executable transcription of both published versions of the loop, tied case by case to the real reader by the tamper stream (fetch order, accept/reject, returned hashes), but not proved to meet the specification",
    "signatures are symbolic (a signature value names its signer, hash algorithm and message); ECDSA, SHA-256 log IDs and note key hashes are not looked into",
    "hash injectivity (closed with the free term algebra ih and an injective encoding of leaf bytes) stands for SHA-256 collision resistance",
    "models Codec/Leaf.v (tile leaf codec, C10) and Merkle/Proofs.v (tlog.CheckRecord) are reused",
]


def run_chunk(mexe, text):
    return D.run_model(mexe, text, timeout=3000)


def parallel_model(mexe, header, cases, jobs):
    """cases are independent given the header lines; returns model lines for header + cases"""
    k = max(1, min(jobs, len(cases) // 40 + 1))
    quiet = [("treeq" + l[4:]) if l.startswith("tree|") else l for l in header]
    chunks = [cases[i::k] for i in range(k)]
    outs = [None] * k
    with cf.ThreadPoolExecutor(max_workers=k) as ex:
        futs = {}
        for i, ch in enumerate(chunks):
            hd = header if i == 0 else quiet
            futs[ex.submit(run_chunk, mexe, "\n".join(hd + ch) + "\n")] = i
        for f in cf.as_completed(futs):
            outs[futs[f]] = f.result()
    mh, mc = None, [None] * len(cases)
    for i, (ml, err) in enumerate(outs):
        if ml is None:
            return None, None, err
        ml = [l for l in ml if l]
        if len(ml) != len(header) + len(chunks[i]):
            return None, None, "model printed %d lines for %d inputs (chunk %d)" % (len(ml), len(header) + len(chunks[i]), i)
        if i == 0:
            mh = ml[:len(header)]
        for j, l in enumerate(ml[len(header):]):
            mc[i + j * k] = l
    return mh, mc, ""


def build_patched_harness():
    """harness/client built against a scratch copy of the pinned golang.org/x/mod in which the loop
    'Authenticate full tiles against their parents' of tlog.TileHashReader starts where x/mod v0.41.0
    starts it (one line). Nothing in /repo or in the module cache is modified (go.mod copy + replace).
    Returns (exe or None, note)."""
    gdir = os.path.join(L.BUILD, "go")
    ov = os.path.join(gdir, "overlay_%s.json" % AREA)
    exe = os.path.join(L.BUILD, "bin", "harness_%s_patched" % AREA)
    mod = os.path.join(gdir, "go_c12_patched.mod")
    with L.Lock("go"):
        shutil.copy(os.path.join(L.REPO, "go.mod"), mod)
        shutil.copy(os.path.join(L.REPO, "go.sum"), mod[:-4] + ".sum")
        rc, out, _ = L.run(["go", "list", "-m", "-modfile=" + mod, "-f", "{{.Dir}}", "golang.org/x/mod"], cwd=L.REPO, timeout=300)
        src = out.strip().split("\n")[-1] if rc == 0 else ""
        tile = os.path.join(src, "sumdb", "tlog", "tile.go")
        if not os.path.exists(tile):
            return None, "could not locate golang.org/x/mod: " + out[-300:]
        text = open(tile).read()
        old = "for i := len(stx); i < len(tiles); i++ {"
        if text.count(old) != 1:
            return None, "the pinned golang.org/x/mod does not contain the defective loop"
        dst = os.path.join(gdir, "c12_xmod_patched")
        if os.path.isdir(dst):
            L.run(["chmod", "-R", "u+w", dst]); shutil.rmtree(dst, ignore_errors=True)
        shutil.copytree(src, dst)
        L.run(["chmod", "-R", "u+w", dst])
        with open(os.path.join(dst, "sumdb", "tlog", "tile.go"), "w") as f:
            f.write(text.replace(old, "for i := stxTileOrder[len(stx)-1] + 1; i < len(tiles); i++ {"))
        with open(mod, "a") as f:
            f.write("\nreplace golang.org/x/mod => %s\n" % dst)
        rc, out, _ = L.run(["go", "build", "-tags", "verif", "-modfile=" + mod, "-overlay=" + ov, "-o", exe,
                            "./internal/verifharness/" + AREA], cwd=L.REPO, timeout=1500)
    if rc != 0:
        return None, "build failed: " + out[-2000:]
    return exe, "golang.org/x/mod (pinned version) with the v0.41.0 loop start, via replace in a scratch go.mod"


def patched_run(res, mexe, seed, jobs, extra=()):
    """the same tamper stream against the corrected reader: every monitor must hold and the model
    (Client/Reader.v with fixed = true) must reproduce every line"""
    info = {"ran": False}
    exe, note = build_patched_harness()
    info["note"] = note
    if exe is None:
        return info
    d = tempfile.mkdtemp(prefix="c12p-", dir=os.path.join(L.BUILD, "scratch"))
    try:
        rc, out, dt = L.run([exe, "-seed=%d" % seed, "-dir=" + d] + list(extra), timeout=3000)
    finally:
        shutil.rmtree(d, ignore_errors=True)
    lines = [l for l in out.split("\n") if "|=>|" in l]
    mons = [l for l in lines if l.startswith("mon_")]
    work = [l for l in lines if not l.startswith("mon_")]
    bad = [l for l in mons if D.split_line(l)[2] != "holds"]
    header = [l for l in work if l.split("|", 1)[0] in HEADER_OPS]
    cases = [l for l in work if l.split("|", 1)[0] not in HEADER_OPS]
    mh, mc, err = parallel_model(mexe, header, cases, jobs)
    diffs = L.diff_lines(header + cases, mh + mc) if mh is not None else [(-1, "model did not run", err)]
    info.update({"ran": True, "reader": [D.split_line(l)[2] for l in work if l.startswith("reader|")],
                 "cases": len(cases), "monitors": len(mons), "monitor_failures": len(bad), "model_impl_differences": len(diffs)})
    if rc != 0 or bad or diffs:
        p = L.write_replay(PROP, "patched_dependency.txt",
                           "run against the corrected tile hash reader (seed=%d): rc=%d, %d failing monitors, %d model differences\n%s\n%s\n" % (seed, rc, len(bad), len(diffs), "\n".join(x[:2000] for x in bad[:3]), "\n".join("%s\n%s" % (a[:2000], b[:2000]) for (_, a, b) in diffs[:3])))
        res.violation(p, "patched-dependency run: %d failing monitors, %d model differences" % (len(bad), len(diffs)), no_input=not bad)
    return info


def coq_plan_case(line, sizes):
    op, a, r = D.split_line(line)
    if op == "plan" and a[0] in sizes and sizes[a[0]] <= 600:
        return ("(run_plan_s %d %s %s)" % (sizes[a[0]], a[1], a[2]), r)
    if op == "planproof" and a[0] in sizes and sizes[a[0]] <= 600:
        return ("(run_plan_proof_s %d %s)" % (sizes[a[0]], a[1]), r)
    return None


def main(tier, seed, replay):
    if replay:
        m = re.search(r"seed=(\d+)", open(replay).read())
        if m:
            seed = int(m.group(1))
    res = L.Result(PROP, tier, seed)
    thorough = tier == "thorough"
    ok, cov = L.proof_stage(res, PROP, PROP_V, thorough=thorough)
    hexe, hlog = L.build_harness(AREA)
    if hexe is None:
        p = L.write_replay(PROP, "harness_build.txt", "the correspondence harness no longer compiles against /repo's working tree\n" + hlog[-6000:])
        res.violation(p, "harness build failed", no_input=True)
    mexe, mlog = L.build_model(AREA, "Extract/Client.v", "client.ml", extra_ml=["sha256.ml"])
    if mexe is None and ok:
        p = L.write_replay(PROP, "model_build.txt", mlog[-6000:])
        res.violation(p, "model extraction/build failed", no_input=True)

    # the shared Merkle tie runs next to the client tie
    mres = L.Result.__new__(L.Result)
    mres.violations, mres.known, mres.notes = [], [], []
    pool = cf.ThreadPoolExecutor(max_workers=1)
    mfut = pool.submit(merkle_tie.run, mres, PROP, seed, tier)

    st = {"lines": 0, "monitors": 0, "monitor_failures": 0, "diffs": 0, "ops": {}, "results": {}}
    work, mons, stats, deviations, reader = [], [], {}, [], "?"
    ncross = 0
    if hexe and mexe:
        os.makedirs(os.path.join(L.BUILD, "scratch"), exist_ok=True)
        d = tempfile.mkdtemp(prefix="c12-", dir=os.path.join(L.BUILD, "scratch"))
        try:
            args = [hexe, "-seed=%d" % seed, "-dir=" + d] + (["-thorough", "-big=13000"] if thorough else [])
            rc, out, dt = L.run(args, timeout=3000)
        finally:
            shutil.rmtree(d, ignore_errors=True)
        st["harness_wall_s"] = round(dt, 2)
        st["harness_args"] = args[1:2] + args[3:]
        lines = [l for l in out.split("\n") if "|=>|" in l]
        if rc != 0 or not lines:
            p = L.write_replay(PROP, "harness_failure.txt", "correspondence harness failed (rc=%d) seed=%d\n%s" % (rc, seed, out[-6000:]))
            res.violation(p, "correspondence harness did not run to completion", no_input=True)
        else:
            mons = [l for l in lines if l.startswith("mon_")]
            work = [l for l in lines if not l.startswith("mon_")]
            st["lines"], st["monitors"] = len(lines), len(mons)
            header = [l for l in work if l.split("|", 1)[0] in HEADER_OPS]
            cases = [l for l in work if l.split("|", 1)[0] not in HEADER_OPS]
            for l in work:
                op, a, r = D.split_line(l)
                if op == "stat":
                    stats[a[0]] = int(r)
                    continue
                if op == "reader":
                    reader = "%s -> %s" % (a[0], r)
                st["ops"][op] = st["ops"].get(op, 0) + 1
                if op in ("entries", "entry", "incl", "ckpt"):
                    k = op + ":" + (":".join(r.split(":")[:2]) if r.startswith("err") else r.split(":")[0])
                    st["results"][k] = st["results"].get(k, 0) + 1
            for l in mons:
                op = l.split("|", 1)[0]
                st["ops"][op] = st["ops"].get(op, 0) + 1

            # 1. monitors on the implementation alone
            bad = [l for l in mons if D.split_line(l)[2] != "holds"]
            st["monitor_failures"] = len(bad)
            own = []
            for l in bad:
                r = D.split_line(l)[2]
                if r.startswith("FAILS:" + DEFECT):
                    deviations.append(l)
                else:
                    own.append(l)
            for l in own[:3]:
                op, a, r = D.split_line(l)
                p = L.write_replay(PROP, "monitor_%s_%s.txt" % (op, L.digest(l)),
                                   "property monitor %s failed on the implementation (seed=%d; replay: ./check %s --replay <this file>)\n%s\n" % (op, seed, PROP, l[:20000]))
                res.violation(p, "monitor %s: %s" % (op, r[:200]))

            # 2. model vs implementation (chunks in parallel; the cases are independent)
            import time
            t0 = time.time()
            mh, mc, err = parallel_model(mexe, header, cases, max(2, min(6, L.NCPU)))
            st["model_wall_s"] = round(time.time() - t0, 2)
            if mh is None:
                p = L.write_replay(PROP, "model_failure.txt", err)
                res.violation(p, "extracted model did not run: " + err[:200], no_input=True)
            else:
                diffs = L.diff_lines(header + cases, mh + mc)
                st["diffs"] = len(diffs)
                if diffs and not own:
                    (i, a, b) = diffs[0]
                    p = L.write_replay(PROP, "correspondence.txt",
                                       "correspondence model<->implementation no longer checks (%d differing cases, seed=%d); the monitors found no input on which the property itself fails%s.\nfirst difference:\nimpl : %s\nmodel: %s\n" % (len(diffs), seed, " beyond the known defect" if deviations else "", a[:6000], b[:6000]))
                    res.violation(p, "model/implementation correspondence broken (%d cases)" % len(diffs), no_input=True)
                # 3. extraction cross-check: the fetch plans re-evaluated inside Coq
                sizes = {}
                for l in header:
                    op, a, r = D.split_line(l)
                    if op == "tree":
                        sizes[a[0]] = int(a[3])
                plans = [c for c in (coq_plan_case(l, sizes) for l in mh + mc) if c]
                rnd = random.Random(seed)
                ncross = D.vm_crosscheck(res, PROP, rnd.sample(plans, min(len(plans), 25 if not thorough else 200)),
                                         "From SL Require Import Client.Run.")

    # the same stream against the corrected reader (thorough tier, or VERIF_C12_PATCHED=1)
    patched = None
    if hexe and mexe and reader.endswith("skip") and (thorough or os.environ.get("VERIF_C12_PATCHED")):
        patched = patched_run(res, mexe, seed, max(2, min(6, L.NCPU)), extra=(['-thorough', '-big=13000'] if thorough else []))

    # the known defect of the pinned dependency
    dev_info = None
    if deviations:
        l = deviations[0]
        forged = [x for x in deviations if x.startswith("mon_entries")]
        p = L.write_replay(PROP, "deviation_%s.txt" % DEFECT,
                           "%s (seed=%d)\nreader probe: %s\n%d monitor failures need a tampered HASH tile that tlog.TileHashReader fetches but never compares with its parent\n(golang.org/x/mod <= v0.37.0: `for i := len(stx); i < len(tiles); i++` although the tiles of stx are de-duplicated).\nfirst failing inputs:\n%s\n" % (DEFECT, seed, reader, len(deviations), "\n".join(x[:3000] for x in (forged[:2] + deviations[:2]))))
        what = "%s: with %s the client yields forged entries when a full hash tile skipped by TileHashReader's parent check is rewritten together with the data tile (%d failing monitor lines, %d of them forged entries yielded by the iterators); not reachable through Entry/CheckInclusion (CheckRecord recomputes the root)" % (DEFECT, reader, len(deviations), len(forged))
        kf = [f for f in L.known_findings() if f.get("property") == PROP and f.get("status") == "known" and DEFECT.startswith(f.get("match", "\0"))]
        if kf:
            res.known.append(kf[0]["what"])
        else:
            print("# DEVIATION property=%s %s replay=%s" % (PROP, what, p))
        dev_info = {"id": DEFECT, "reader": reader, "failing_monitor_lines": len(deviations),
                    "forged_entries_yielded_cases": len(forged), "replay": p, "sample": deviations[0][:400]}

    mt = mfut.result()
    pool.shutdown()
    res.violations.extend(mres.violations)

    if not ok and not res.violations:
        res.violation(getattr(res, "coq_failure", L.write_replay(PROP, "coq_failure.txt", "proof stage failed")),
                      "theorems of %s no longer check; differential run and monitors found no failing input" % PROP_V, no_input=True)
    elif not ok:
        print("# note: the Coq proof stage also failed: %s" % getattr(res, "coq_failure", "?"))

    cases_only = [l for l in work if l.split("|", 1)[0] in ("entries", "entry", "incl", "ckpt", "plan", "planproof")]
    nontrivial = len(set(l for l in cases_only if "|honest|" not in l))
    cov.update({
        "evaluations": len(cases_only), "distinct_nontrivial": nontrivial, "distinct_cases": len(set(cases_only)),
        "rule": "fixtures = two REAL logs (different keys) grown by the real sequencer in random rounds through sizes 1, 255, 256, 257, 600 (thorough: log A on to 13000, > 50 data tiles), every published checkpoint kept; cases = for every tree head of log A: both iterators from every start offset around 0/256/512/n and the tile boundary (incl. negative > -256 and beyond n), Entry at the boundaries, a tree head with a wrong root; every data tile x {bit flip in each covered field, in each uncovered field, in each length prefix, well-formed replacement of PreCertificate / fingerprints, archival form, extra extension, truncation (mid-leaf, at a leaf, last leaf, empty), junk / leaf appended, two leaves swapped, a leaf duplicated, random bit, 404, the same tile of the foreign log, another tile, older/newer widths of the same tile (partial<->full)} x {AllEntries, Entries from a start inside the tile, Entry at/before/after the leaf, CheckInclusion of the authentic SCT}; every hash tile the reader fetches plus some it never needs x {bit, truncation by 32 / 1, extension, two hashes swapped, foreign log's tile, another tile of equal size, another width, 404} and a consistent forgery (data tile + recomputed level-0 tile); SCTs (authentic; foreign / flipped log ID; timestamp; other / out-of-range index; foreign-key, garbage, flipped and transplanted signatures; hash / signature algorithm; version; extension forms; trailing / truncated bytes; forged leaf signed by the log key); checkpoints (honest, stale, foreign log, foreign key with own / claimed key hash, duplicates, cosignatures, changed size / root / timestamp / algorithms, extension line, other origin, invalid names, malformed notes, 101 lines, random byte corruption); distinct = distinct harness lines, non-trivial = not an honest-server case",
        "samples": [l[:300] for l in cases_only if "cov-certificate" in l][:1] + [l[:300] for l in cases_only if "unc-precert-replace" in l][:1] + [l[:300] for l in cases_only if l.startswith("ckpt|") and "foreign-key" in l][:1] + [l[:300] for l in cases_only if l.startswith("incl|") and "sct-sig-foreign-key" in l][:1],
        "traces_validated_against_impl": len(work), "impl_property_monitors": st.get("monitors", 0),
        "monitor_failures": st.get("monitor_failures", 0), "monitor_failures_attributed_to_known_defect": len(deviations),
        "model_impl_differences": st.get("diffs", 0), "vm_compute_crosschecked": ncross,
        "tile_hash_reader_under_test": reader, "deviation": dev_info, "patched_dependency_run": patched,
        "op_distribution": st.get("ops", {}), "result_distribution": st.get("results", {}),
        "harness_stats": stats,
        "uncovered_fields_limit": {
            "what": "PreCertificate and ChainFingerprints are outside the Merkle leaf: the client yields entries whose uncovered fields were replaced by the server (covered fields always authentic)",
            "cases_yielding_tampered_uncovered_fields": stats.get("cases_yielding_tampered_uncovered_fields", 0),
            "entries_yielded_with_tampered_uncovered_fields": stats.get("entries_yielded_with_tampered_uncovered_fields", 0)},
        "harness_wall_s": st.get("harness_wall_s"), "model_wall_s": st.get("model_wall_s"),
        "merkle_tie": {k: mt.get(k) for k in ("built", "lines", "diffs", "monitors", "monitor_failures", "ops", "distinct_cases", "distinct_nontrivial", "accepted", "harness_args", "rule")},
        "trusted_base": TRUSTED + ["repo " + L.repo_rev()],
    })
    return res.finish(cov, [
        "the authenticated hash fetch returns only hashes the tree head commits to (Model.verifying) - FALSE of golang.org/x/mod <= v0.37.0 (see deviation), true by inspection and by the tamper stream of the v0.41.0 loop",
        "SHA-256 collision resistance (hash injectivity), ECDSA unforgeability (symbolic signatures)",
        "the tree head handed to Entries/Entry/CheckInclusion is authentic (the caller's obligation, e.g. via Checkpoint)",
        "context cancellation, timeouts, retries and the permanent cache are not modelled",
    ])
