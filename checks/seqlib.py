"""Comparison of sequencer histories: implementation (harness/seq) vs extracted Coq model."""
import os, subprocess, resource
import checklib as L


import re
_EDGE_STEP = re.compile(r"^ev\|step\|(\d+)\|[a-z]+\|tile/\d")


def strip_failed_edge_reads(lines):
    """tlog.TileHashReader fetches ALL right-edge hash tiles and only then authenticates them, while
    the model authenticates each tile as it is fetched. When a load fails with class 'edge' the
    set of hash tiles fetched before the failure is therefore not compared: the blocks
    'ev|step|i|..|tile/<L>/...' + their observation lines directly preceding '> load i fail edge'
    are dropped on both sides (fetches have no effect on the world)."""
    out = list(lines)
    i = 0
    while i < len(out):
        m = re.match(r"^> load (\d+) fail edge$", out[i])
        if m:
            inst = m.group(1)
            j = i
            # walk back over blocks: event line of this instance fetching a hash tile, followed by '>' lines
            while True:
                k = j - 1
                while k >= 0 and out[k].startswith("> ") and not out[k].startswith("> load "):
                    k -= 1
                mm = _EDGE_STEP.match(out[k]) if k >= 0 else None
                if mm and mm.group(1) == inst:
                    j = k
                else:
                    break
            del out[j:i]
            i = j
            # model side: the remaining fetch events of that load arrive after the failure
            k = i + 1
            while k < len(out):
                mm = _EDGE_STEP.match(out[k])
                if mm and mm.group(1) == inst:
                    e = k + 1
                    while e < len(out) and out[e] == "> note step-ignored":
                        e += 1
                    del out[k:e]
                else:
                    break
        i += 1
    return out


def canon(lines):
    """Returns (lines without acknowledgements and model-only lines, acks) where acks is a list of
    (ack line, segment number); segments end at 'ev|sync'. Acknowledgements are delivered by waiter
    goroutines of the implementation, so WHEN the harness sees one is subject to scheduling latency:
    they are compared per history as a set, with the constraint that the implementation never
    delivers one in an EARLIER segment than the model (later is latency, earlier is a difference)."""
    out, acks, seg = [], [], 0
    lines = strip_failed_edge_reads(lines)
    for l in lines:
        if l.startswith("> round ") or l.startswith("stat|") or l.startswith("mon|"):
            continue
        if l.startswith("> ack "):
            acks.append((l, seg))
            continue
        if l == "ev|sync":
            seg += 1
        out.append(l)
    return out, acks


def split_raw(lines):
    hs, cur = [], []
    for l in lines:
        if l.startswith("ev|reset"):
            if cur:
                hs.append(cur)
            cur = []
        cur.append(l)
    if cur:
        hs.append(cur)
    return hs


def split_histories(lines):
    hs, cur = [], []
    for l in lines:
        if l.startswith("ev|reset"):
            if cur:
                hs.append(cur)
            cur = []
        cur.append(l)
    if cur:
        hs.append(cur)
    return hs


def run_model(exe, text, timeout=1800):
    def lim():
        resource.setrlimit(resource.RLIMIT_STACK, (resource.RLIM_INFINITY, resource.RLIM_INFINITY))
    p = subprocess.run([exe], input=text.encode(), stdout=subprocess.PIPE, stderr=subprocess.PIPE, timeout=timeout, preexec_fn=lim)
    if p.returncode != 0:
        return None, p.stderr.decode()[-2000:]
    return p.stdout.decode().split("\n"), ""


def monitors_only(impl_text):
    """for monitors-only probes: statistics, monitor failures and raw histories; the model is not run"""
    lines = [l for l in impl_text.split("\n") if l]
    mons = [l for l in lines if l.startswith("mon|")]
    stats = {}
    for l in lines:
        if l.startswith("stat|"):
            f = l.split("|")
            stats[f[1] + ":" + f[2]] = int(f[3])
    return stats, [], mons, split_raw([l for l in lines if not l.startswith("stat|")]), ""


def compare(impl_text, model_exe):
    """returns (stats, diffs, monitor_failures, histories). diffs: list of (history_index, line_no, impl, model)"""
    lines = [l for l in impl_text.split("\n") if l]
    mons = [l for l in lines if l.startswith("mon|")]
    stats = {}
    for l in lines:
        if l.startswith("stat|"):
            f = l.split("|")
            stats[f[1] + ":" + f[2]] = int(f[3])
    ev_only = "\n".join(l for l in lines if l.startswith("ev|")) + "\n"
    mlines, err = run_model(model_exe, ev_only)
    if mlines is None:
        return stats, None, mons, [], err
    ri = split_raw(lines)
    rm = split_raw([l for l in mlines if l])
    diffs, hi = [], []
    for k, (a0, b0) in enumerate(zip(ri, rm)):
        a, acks_a = canon(a0)
        b, acks_b = canon(b0)
        hi.append(a0)
        if a != b:
            for j in range(max(len(a), len(b))):
                x = a[j] if j < len(a) else "<end>"
                y = b[j] if j < len(b) else "<end>"
                if x != y:
                    diffs.append((k, j, x, y))
                    break
            continue
        da, db = dict(acks_a), dict(acks_b)
        if sorted(da) != sorted(db):
            only_a = sorted(set(da) - set(db)); only_b = sorted(set(db) - set(da))
            diffs.append((k, -2, "acks only in impl: %s" % only_a[:3], "acks only in model: %s" % only_b[:3]))
            continue
        early = [l for l in da if da[l] < db[l]]
        if early:
            diffs.append((k, -3, "ack delivered before the model determines it: %s (segment %d)" % (early[0], da[early[0]]),
                          "model: segment %d" % db[early[0]]))
    if len(ri) != len(rm):
        diffs.append((-1, -1, "%d histories" % len(ri), "%d histories" % len(rm)))
    return stats, diffs, mons, hi, ""
