"""Comparison of sequencer histories: implementation (harness/seq) vs extracted Coq model."""
import os, subprocess, resource
import checklib as L


def canon(lines):
    """segments end at 'ev|sync'; inside a segment the '> ack' lines form a set: move them,
    sorted, to the end of the segment. '> round' lines are model-only (dropped)."""
    out, acks = [], []
    for l in lines:
        if l.startswith("> round ") or l.startswith("stat|") or l.startswith("mon|"):
            continue
        if l.startswith("> ack "):
            acks.append(l)
            continue
        if l == "ev|sync" or l.startswith("ev|reset") or l == "ev|dump":
            out.extend(sorted(acks)); acks = []
        out.append(l)
    out.extend(sorted(acks))
    return out


def split_histories(lines):
    hs, cur = [], []
    for l in lines:
        if l.startswith("ev|reset"):
            if cur:
                hs.append(cur)
            cur = []
        cur.append(l)
    if cur:
        hs.append(cur)
    return hs


def run_model(exe, text, timeout=1800):
    def lim():
        resource.setrlimit(resource.RLIMIT_STACK, (resource.RLIM_INFINITY, resource.RLIM_INFINITY))
    p = subprocess.run([exe], input=text.encode(), stdout=subprocess.PIPE, stderr=subprocess.PIPE, timeout=timeout, preexec_fn=lim)
    if p.returncode != 0:
        return None, p.stderr.decode()[-2000:]
    return p.stdout.decode().split("\n"), ""


def compare(impl_text, model_exe):
    """returns (stats, diffs, monitor_failures, histories). diffs: list of (history_index, line_no, impl, model)"""
    lines = [l for l in impl_text.split("\n") if l]
    mons = [l for l in lines if l.startswith("mon|")]
    stats = {}
    for l in lines:
        if l.startswith("stat|"):
            f = l.split("|")
            stats[f[1] + ":" + f[2]] = int(f[3])
    ev_only = "\n".join(l for l in lines if l.startswith("ev|")) + "\n"
    mlines, err = run_model(model_exe, ev_only)
    if mlines is None:
        return stats, None, mons, [], err
    hi = split_histories(canon(lines))
    hm = split_histories(canon([l for l in mlines if l]))
    diffs = []
    for k, (a, b) in enumerate(zip(hi, hm)):
        if a != b:
            for j in range(max(len(a), len(b))):
                x = a[j] if j < len(a) else "<end>"
                y = b[j] if j < len(b) else "<end>"
                if x != y:
                    diffs.append((k, j, x, y))
                    break
    if len(hi) != len(hm):
        diffs.append((-1, -1, "%d histories" % len(hi), "%d histories" % len(hm)))
    return stats, diffs, mons, hi, ""
