"""Comparison of sequencer histories: implementation (harness/seq) vs extracted Coq model."""
import os, subprocess, resource
import checklib as L


import re
_EDGE_STEP = re.compile(r"^ev\|step\|(\d+)\|[a-z]+\|tile/\d")


def strip_failed_edge_reads(lines):
    """tlog.TileHashReader fetches ALL right-edge hash tiles and only then authenticates them, while
    the model authenticates each tile as it is fetched. When a load fails with class 'edge' the
    set of hash tiles fetched before the failure is therefore not compared: the blocks
    'ev|step|i|..|tile/<L>/...' + their observation lines directly preceding '> load i fail edge'
    are dropped on both sides (fetches have no effect on the world)."""
    out = list(lines)
    i = 0
    while i < len(out):
        m = re.match(r"^> load (\d+) fail edge$", out[i])
        if m:
            inst = m.group(1)
            j = i
            # walk back over blocks: event line of this instance fetching a hash tile, followed by '>' lines
            while True:
                k = j - 1
                while k >= 0 and out[k].startswith("> ") and not out[k].startswith("> load "):
                    k -= 1
                mm = _EDGE_STEP.match(out[k]) if k >= 0 else None
                if mm and mm.group(1) == inst:
                    j = k
                else:
                    break
            del out[j:i]
            i = j
            # model side: the remaining fetch events of that load arrive after the failure
            k = i + 1
            while k < len(out):
                mm = _EDGE_STEP.match(out[k])
                if mm and mm.group(1) == inst:
                    e = k + 1
                    while e < len(out) and out[e] == "> note step-ignored":
                        e += 1
                    del out[k:e]
                else:
                    break
        i += 1
    return out


def canon(lines):
    """Returns (lines without acknowledgements and model-only lines, acks) where acks is a list of
    (ack line, segment number); segments end at 'ev|sync'. Acknowledgements are delivered by waiter
    goroutines of the implementation, so WHEN the harness sees one is subject to scheduling latency:
    they are compared per history as a set, with the constraint that the implementation never
    delivers one in an EARLIER segment than the model (later is latency, earlier is a difference)."""
    out, acks, seg = [], [], 0
    lines = strip_failed_edge_reads(lines)
    for l in lines:
        if l.startswith("> round ") or l.startswith("stat|") or l.startswith("mon|"):
            continue
        if l.startswith("> ack "):
            acks.append((l, seg))
            continue
        if l == "ev|sync":
            seg += 1
        out.append(l)
    return out, acks


def split_raw(lines):
    hs, cur = [], []
    for l in lines:
        if l.startswith("ev|reset"):
            if cur:
                hs.append(cur)
            cur = []
        cur.append(l)
    if cur:
        hs.append(cur)
    return hs


def split_histories(lines):
    hs, cur = [], []
    for l in lines:
        if l.startswith("ev|reset"):
            if cur:
                hs.append(cur)
            cur = []
        cur.append(l)
    if cur:
        hs.append(cur)
    return hs


def run_model(exe, text, timeout=1800):
    def lim():
        resource.setrlimit(resource.RLIMIT_STACK, (resource.RLIM_INFINITY, resource.RLIM_INFINITY))
    p = subprocess.run([exe], input=text.encode(), stdout=subprocess.PIPE, stderr=subprocess.PIPE, timeout=timeout, preexec_fn=lim)
    if p.returncode != 0:
        return None, p.stderr.decode()[-2000:]
    return p.stdout.decode().split("\n"), ""


def monitors_only(impl_text):
    """for monitors-only probes: statistics, monitor failures and raw histories; the model is not run"""
    lines = [l for l in impl_text.split("\n") if l]
    mons = [l for l in lines if l.startswith("mon|")]
    stats = {}
    for l in lines:
        if l.startswith("stat|"):
            f = l.split("|")
            stats[f[1] + ":" + f[2]] = int(f[3])
    return stats, [], mons, split_raw([l for l in lines if not l.startswith("stat|")]), ""


def compare(impl_text, model_exe):
    """returns (stats, diffs, monitor_failures, histories). diffs: list of (history_index, line_no, impl, model)"""
    lines = [l for l in impl_text.split("\n") if l]
    mons = [l for l in lines if l.startswith("mon|")]
    stats = {}
    for l in lines:
        if l.startswith("stat|"):
            f = l.split("|")
            stats[f[1] + ":" + f[2]] = int(f[3])
    ev_only = "\n".join(l for l in lines if l.startswith("ev|")) + "\n"
    mlines, err = run_model(model_exe, ev_only)
    if mlines is None:
        return stats, None, mons, [], err
    ri = split_raw(lines)
    rm = split_raw([l for l in mlines if l])
    diffs, hi = [], []
    for k, (a0, b0) in enumerate(zip(ri, rm)):
        a, acks_a = canon(a0)
        b, acks_b = canon(b0)
        hi.append(a0)
        if a != b:
            for j in range(max(len(a), len(b))):
                x = a[j] if j < len(a) else "<end>"
                y = b[j] if j < len(b) else "<end>"
                if x != y:
                    diffs.append((k, j, x, y))
                    break
            continue
        da, db = dict(acks_a), dict(acks_b)
        if sorted(da) != sorted(db):
            only_a = sorted(set(da) - set(db)); only_b = sorted(set(db) - set(da))
            diffs.append((k, -2, "acks only in impl: %s" % only_a[:3], "acks only in model: %s" % only_b[:3]))
            continue
        early = [l for l in da if da[l] < db[l]]
        if early:
            diffs.append((k, -3, "ack delivered before the model determines it: %s (segment %d)" % (early[0], da[early[0]]),
                          "model: segment %d" % db[early[0]]))
    if len(ri) != len(rm):
        diffs.append((-1, -1, "%d histories" % len(ri), "%d histories" % len(rm)))
    return stats, diffs, mons, hi, ""


# ---- extraction cross-check: one history evaluated inside Coq (vm_compute, toy hash) -------------

def _cb(b):
    """bytes -> Coq list of Byte constructors"""
    return "[" + ";".join("x%02x" % c for c in b) + "]"


def _unhex(s):
    return b"" if s in ("-", "") else bytes.fromhex(s)


def _fault(f):
    return {"ok": "FOk", "fail": "FFailNotApplied", "failapplied": "FFailApplied"}[f]


def _cfg(name, key, pool):
    return "(mkCfg %s %s%%N %s%%N)" % (_cb(name.encode()), key, pool)


def coq_event(line):
    """the Coq term of one harness event line (mirror of ocaml/seq.ml); None for driver-only lines"""
    f = line.split("|")
    k = f[1]
    if k == "clock":
        return "EvClock (%s)%%Z" % f[2]
    if k == "create":
        return "EvCreate %s %s" % (f[2], _cfg(f[3], f[4], f[5]))
    if k == "start":
        keep = "None" if f[6] == "-" else "(Some %s%%nat)" % f[6]
        return "EvStart %s %s %s" % (f[2], _cfg(f[3], f[4], f[5]), keep)
    if k == "step":
        return "EvStep %s %s %s" % (f[2], _fault(f[3]), _cb(b"" if f[4] == "-" else f[4].encode()))
    if k == "submit":
        i, low, victim, fs, cert, pre, ikh, issuers, precert, names = f[2:12]
        iss = "[" + ";".join(_cb(_unhex(x)) for x in issuers.split(",")) + "]" if issuers not in ("-", "") else "[]"
        fl = "[" + ";".join(_fault(x) for x in fs.split(",")) + "]" if fs not in ("-", "") else "[]"
        e = "(mkEntry %s %s %s %s %s %s)" % (_cb(_unhex(cert)), "true" if pre == "1" else "false", _cb(_unhex(ikh)), iss,
                                           _cb(_unhex(precert)), _cb(_unhex(names)))
        return "EvSubmit %s %s %s %s%%nat %s" % (i, e, "true" if low == "1" else "false", victim, fl)
    if k == "tick":
        return "EvTick %s" % f[2]
    if k == "crash":
        return "EvCrash %s" % f[2]
    if k == "stop":
        return "EvStop %s %s" % (f[2], "SSunset" if f[3] == "sunset" else "SCancel")
    if k == "cachedrop":
        return "EvCacheDrop %s %s%%nat" % (f[2], f[3])
    if k == "recompute":
        return "EvRecompute %s %s%%N %s" % (f[2], f[3], "None" if f[4] == "-" else "(Some %s%%N)" % f[4])
    if k == "tamper":
        key = _cb(f[2].encode())
        if f[3] == "delete":
            return "EvTamper %s None" % key
        if f[3] == "bytes":
            return "EvTamper %s (Some (OB %s))" % (key, _cb(_unhex(f[4])))
        if f[3] == "staging":
            code = {"H": "UHash", "D": "UData", "N": "UNames", "S": "UStaging", "I": "UIssuer", "C": "UCheckpoint", "R": "URoots"}
            ups = []
            for u in f[4].split(","):
                k, c, dd = u.split(":")
                ups.append("(mkUp %s %s %s)" % (_cb(k.encode()), code.get(c, "URoots"), _cb(_unhex(dd))))
            return "EvTamper %s (Some (OS [%s]))" % (key, ";".join(ups))
        if f[3] == "cp":
            return "EvTamper %s (Some (OC (mkCp %s %s%%N %s (%s)%%Z %s%%N %s)))" % (
                key, _cb(f[4].encode()), f[5], _cb(_unhex(f[6])), f[7], f[8], _cb(_unhex(f[9])))
    return None


def vm_crosscheck(history, model_exe, tag):
    """history: the raw lines of ONE harness history. The extracted model is run with the toy hash
    (-toy) and the same event list is evaluated with vm_compute inside Coq; every observation line
    must agree. Returns (ok, n_events, detail)."""
    evs = [l for l in history if l.startswith("ev|") and l.split("|")[1] not in ("reset", "sync", "dump", "lgset", "lgget", "lgdrop")]
    terms = [coq_event(l) for l in evs]
    if any(t is None for t in terms) or not evs:
        return True, 0, "skipped"
    p = subprocess.run([model_exe, "-toy"], input=("\n".join(evs) + "\n").encode(), stdout=subprocess.PIPE, stderr=subprocess.PIPE, timeout=600)
    if p.returncode != 0:
        return False, len(evs), "extracted model failed with -toy: " + p.stderr.decode()[-1000:]
    want = [l[2:] for l in p.stdout.decode().split("\n") if l.startswith("> ")]
    d = os.path.join(L.BUILD, "cases")
    os.makedirs(d, exist_ok=True)
    v = os.path.join(d, "seq_%s.v" % tag)
    with open(v, "w") as f:
        f.write("From SL Require Import Base.Bytes Ctlog.Run Ctlog.Example.\nOpen Scope byte_scope.\n")
        f.write("Definition evs : list ev := [\n" + ";\n".join(terms) + "].\n")
        f.write("Definition want : list bytes := [\n" + ";\n".join(_cb(w.encode()) for w in want) + "].\n")
        f.write("Fixpoint go (w : world) (l : list ev) : list bytes := match l with [] => [] | e :: r => "
                "let '(w1, o) := step_show toy_sha w e in o ++ go w1 r end.\n")
        f.write("Fixpoint eqs (a b : list bytes) (k : nat) : list nat := match a, b with [], [] => [] "
                "| x :: a', y :: b' => (if bytes_eqb x y then [] else [k]) ++ eqs a' b' (S k) | _, _ => [k] end.\n")
        f.write("Definition bad := Eval vm_compute in eqs (go init evs) want O.\nPrint bad.\n")
    with L.Lock("coq"):
        rc, out, dt = L.run(["coqc", "-Q", L.COQ, "SL", "-w", "-notation-overridden,-deprecated", v], cwd=d, timeout=900)
    flat = " ".join(out.split())
    if rc != 0 or "bad = []" not in flat:
        return False, len(evs), "vm_compute evaluation of the sequencer model inside Coq disagrees with the extracted OCaml model (or failed); file %s\n%s" % (v, out[-3000:])
    return True, len(evs), "%d events, %d observation lines" % (len(evs), len(want))
