"""C06 — see DESIGN.md section 5 (C06) and coq/Properties/C06.v"""
from checks import seqcheck

def main(tier, seed, replay):
    return seqcheck.main("C06", "Properties/C06.v", tier, seed, replay, scenarios=['two','startup','tamper','two','crash','tamper','two@real','startup@real','loadrace'],
                         own_prefixes=tuple("C06,C01".split(",")), known_prefixes=("C06-stale-upload",) if "C06" == "C06" else ())
