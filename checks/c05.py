"""C05 — lock backends are linearizable compare-and-swap registers.

Stage 0  proofs: coq/Properties/C05.v (simulation of the register by each client-over-server
         protocol, linearizability of every schedule, the property's sentences, the refutations,
         soundness/completeness of the executable checker).
Stage A  sequential differential: random operation sequences from 3 logical clients with stale
         handles against the REAL ctlog backends (SQLite on a real database file; DynamoDB and ETag
         pointed at protocol-level fake HTTP endpoints that transcribe the Coq server models);
         result + request on the wire + server reply must equal the extracted model's line;
         implementation-side monitors (reference register, ConsistentRead, condition expressions,
         If-Match incl. the raw bytes of the empty-valued header, ErrLogNotFound for missing logs).
Stage B  concurrency on SQLite: goroutines x connections x OS processes on ONE database file,
         reopen, SIGKILL (also in mid-call); the recorded real-time history is decided window by
         window by the extracted, Coq-proved checker.
Stage C  shared-instance stress (the documented deployment: ONE backend value shared by the logs of
         a process): ~38 goroutines work on 34 log IDs through ONE SQLiteBackend (one connection,
         real file) without global quiescent points: "busy" goroutines advance their own log with
         valid handles, "stale" goroutines keep retrying Replace through superseded handles of
         theirs, groups of 3 race on a shared log; busy-heavy and stale-heavy mixes, GOMAXPROCS 1
         and all CPUs; the same (shorter) for one shared DynamoDBBackend / ETagBackend (one SDK
         client). Every written value is unique per log, so three monitors are exact on the
         recorded history (mon_stale_replace_refused, mon_failed_replace_no_effect,
         mon_fetch_after_success), and the per-log histories, cut at their quiescent points, are
         decided by the same extracted checker (a history whose projection on one log ID has no
         linearization has none itself: Lock/Locality.v projection_rejected_refutes).
"""
import os, random
import checklib as L
from checks import difflib2 as D

PROP = "C05"
PROP_V = "Properties/C05.v"

TRUSTED = [
    "Coq 8.16.1 kernel (coqc; vm_compute in Examples, in the three refutation witnesses and in the per-run cross-check)",
    "extraction (ExtrOcamlBasic only) + ocaml/util.ml + ocaml/lock.ml; OCaml's Digest (MD5) instantiates the content-hash parameter when the etag_hash model is RUN (no theorem depends on it; the theorem assumes an injective hash, real MD5 is only collision-resistant)",
    "ASSUMED, the servers' contracts: atomicity and durability of each individual SQLite statement (synchronous=FULL, fullfsync, across connections, processes and restarts; additionally EXERCISED by stage B), of each DynamoDB conditional PutItem / strongly consistent GetItem, and of each S3-compatible GetObject / PutObject with If-Match",
    "ASSUMED: an EMPTY-valued If-Match header means create-only (Tigris-specific; etag.go Create relies on it). Observed on the wire: the header is transmitted as the bytes 'If-Match: ' (name, colon, space, empty value), exactly once",
    "ASSUMED: ETags handed out by the server are never the empty string and change with every write that changes the content (content hash: injective; version counter: strictly increasing)",
    "ASSUMED: what DynamoDB answers to a binary attribute serialised as {\"B\": null} (the SDK's encoding of a nil Go slice; dynamodb.go does not normalise nil as sqlite.go does): the model's server may either reject the request (ValidationException) or read it as the empty value; both are covered by the theorems and exercised",
    "ASSUMED: one request per call. The AWS SDK retryer may re-send a PutItem/PutObject whose reply was lost after it was applied; the retry re-evaluates the condition (the call then fails although it took effect = result Unknown; with repeating values A->B->A it could be applied twice). Checkpoints never repeat (C01), sunlight treats every Replace error as fatal",
    "the fake DynamoDB and S3 endpoints (harness/lock/fakes.go) are hand transcriptions of the Coq server models dy_server / et_server (both ETag flavours); the differential run compares their replies with the model's replies line by line",
    "Go harness harness/lock (generators, classification of Go errors into refused/err, reference register of the monitors, CLOCK_MONOTONIC timestamps taken before/after each call, barrier = quiescent point between windows); harness/inject/internal/ctlog/zz_verif_lock.go (VerifClose, VerifLockHandle; tag verif)",
    "stage C (harness/lock/stress.go): the three history monitors are exact only because every value written to a log ID is unique (worker tag + counter; checked by construction, not by a theorem); the per-log-ID linearizability verdicts use the easy half of locality, proved in Lock/Locality.v (project_linearizable, projection_rejected_refutes: a projection rejected by linearizable_b refutes the whole recorded history; closed under the global context; compiled by this check), while 'every projection accepted => whole history linearizable' (Herlihy-Wing) is NOT proved and not needed for reporting a violation; the cut of a per-log history into windows is done by the Go harness (quiescent points = start > every earlier finish), window_ok re-checks it inside the extracted checker; detection of a scheduling-dependent defect is probabilistic per run (Go scheduler, sync.Mutex hand-off, fsync latency)",
    "models Lock/Sqlite.v, Lock/Dynamo.v, Lock/Etag.v are hand transcriptions of sqlite.go, dynamodb.go, etag.go (and of crawshaw BindBytes nil->NULL / empty->zeroblob, AWS SDK serialisation as observed on the wire), tied by the differential run",
]
ASSUME = [
    "server-side atomicity/durability of single requests (SQLite statements, DynamoDB conditional writes and consistent reads, S3-compatible If-Match) — the servers' contracts; SQLite additionally exercised",
    "empty If-Match = create-only (Tigris)",
    "ETag = injective content hash, or strictly increasing version counter; never empty",
    "one request per call (no SDK retry of an applied write with repeating values)",
]


def coq_gob(s):
    return "None" if s == "nil" else "(Some %s)" % D.coq_bytes(s)


def script_cases(work, rnd, maxops=14, per_backend=2):
    """vm_compute cross-check: prefixes of recorded sequences re-run inside Coq (run_script)"""
    cases = []
    seqs, cur = [], None
    for l in work:
        op, a, r = D.split_line(l)
        if op == "reset":
            cur = (a[0], [])
            seqs.append(cur)
        elif cur is not None and op in ("fetch", "replace", "create"):
            cur[1].append((op, a, r))
    conf = {"sqlite": ("sqlite", "render_sqlite", "init_sqlite"),
            "dynamo": ("dynamo", "(render_dynamo true)", "init_dynamo"),
            "etagv": ("etag_version", "render_etagv", "init_etagv")}
    for b, (P, R, I) in conf.items():
        mine = [s for s in seqs if s[0] == b and s[1]]
        rnd.shuffle(mine)
        for s in mine[:per_backend]:
            ops, exp = [], []
            for (op, a, r) in s[1][:maxops]:
                if op == "fetch":
                    ops.append("(SFetch %s, %s%%nat)" % (D.coq_bytes(a[2]), a[3]))
                elif op == "replace":
                    ops.append("(SReplace %s%%nat %s, %s%%nat)" % (a[2], coq_gob(a[3]), a[4]))
                else:
                    ops.append("(SCreate %s %s, %s%%nat)" % (D.coq_bytes(a[2]), coq_gob(a[3]), a[4]))
                exp.append(r)
            if sum(len(o) for o in ops) > 60000:
                continue
            term = "(join_with x0a (run_script %s %s %s [%s]))" % (P, R, I, "; ".join(ops))
            cases.append((term, "\n".join(exp)))
    return cases


def conc_stage(res, hexe, mexe, tier, seed, replay_lines=None):
    st = {"windows": 0, "window_failures": 0, "ops": 0, "max_window": 0, "window_sizes": {}, "stats": {}, "runs": 0}
    if replay_lines is None:
        runs, rounds, procs = (4, 60, 1) if tier == "quick" else (14, 160, 2)
        rc, out, dt = L.run([hexe, "-mode=conc", "-seed=%d" % seed, "-n=%d" % runs, "-rounds=%d" % rounds, "-procs=%d" % procs], timeout=1500)
        st["harness_wall_s"] = round(dt, 2)
        st["config"] = "%d runs x %d rounds, 4 goroutines x 2 connections in the parent + %d child process(es) x 3 goroutines x 2 connections" % (runs, rounds, procs)
        if rc != 0:
            p = L.write_replay(PROP, "conc_harness_failure.txt", "concurrency harness failed (rc=%d)\n%s" % (rc, out[-6000:]))
            res.violation(p, "concurrency harness did not run to completion", no_input=True)
            return st, []
        lines = [l for l in out.split("\n") if "|=>|" in l]
    else:
        lines = replay_lines
    wins = [l for l in lines if l.startswith("win")]
    for l in lines:
        if l.startswith("stat|"):
            f = l.split("|")
            st["stats"][f[1]] = int(f[3])
    decide_windows(res, mexe, wins, st,
                   "the recorded real-time history of the SQLite lock backend (goroutines x connections x processes on one database file)",
                   "SQLite history not linearizable at run %s window %d")
    return st, wins


def decide_windows(res, mexe, wins, st, what, headline, max_shown=3, prefix=""):
    """win|tag|k|ops lines (one winreset|tag per history) -> extracted checker; fills st, records violations"""
    st["runs"] = len([l for l in wins if l.startswith("winreset|")])
    mlines, err = D.run_model(mexe, "\n".join(wins) + "\n")
    if mlines is None:
        p = L.write_replay(PROP, "model_failure.txt", err)
        res.violation(p, "extracted checker did not run: " + err[:200], no_input=True)
        return
    mons = [l for l in mlines if l.startswith("mon_lin|")]
    shown = 0
    for m in mons:
        op, a, r = D.split_line(m)
        n = int(a[2])
        st["windows"] += 1
        st["ops"] += n
        st["max_window"] = max(st["max_window"], n)
        st["window_sizes"][str(n)] = st["window_sizes"].get(str(n), 0) + 1
        if r != "holds":
            st["window_failures"] += 1
            if shown < max_shown:
                shown += 1
                run, k = a[0], int(a[1])
                p = L.write_replay(PROP, "%snonlinearizable_run%s_window%d.txt" % (prefix, run, k),
                                   "%s has NO linearization accepted by the compare-and-swap register (checker: extracted linearizable_b / search_windows, proved sound AND complete per window in Coq).\nfirst offending window: run %s window %d\nhistory up to it (replay: ./check %s --replay <this file>):\n%s\n" % (what, run, k, PROP, "\n".join(history_of(wins, run, k))))
                res.violation(p, headline % (run, k))
    nwin_in = len([l for l in wins if l.startswith("win|")])
    if st["windows"] + 0 < nwin_in and st["window_failures"] == 0:
        p = L.write_replay(PROP, "model_failure.txt", "checker printed %d verdicts for %d windows" % (st["windows"], nwin_in))
        res.violation(p, "extracted checker skipped windows", no_input=True)


def history_of(wins, run, k=None):
    hist = ["winreset|%s|=>|ok" % run]
    for l in wins:
        f = l.split("|")
        if f[0] == "win" and f[1] == run and (k is None or int(f[2]) <= k):
            hist.append(l)
    return hist


def stress_stage(res, hexe, mexe, tier, seed):
    """stage C: one backend instance shared by many goroutines / log IDs (harness/lock/stress.go)"""
    # the per-log-ID verdicts rest on Lock/Locality.v (a rejected projection refutes the whole history)
    lok, llog = L.coq_make(["Lock/Locality.vo"])
    if not lok:
        p = L.write_replay(PROP, "coq_locality.txt", "Lock/Locality.v (projection_rejected_refutes) no longer compiles\n" + llog[-4000:])
        res.violation(p, "Lock/Locality.v no longer checks (per-log-ID linearizability verdicts of the shared-instance stress rest on it)", no_input=True)
    st = {"locality_lemma_checked": lok, "windows": 0, "window_failures": 0, "ops": 0, "max_window": 0, "window_sizes": {}, "stats": {}, "runs": 0,
          "monitors": {}, "monitor_failures": 0}
    scale = 1 if tier == "quick" else 3
    rc, out, dt = L.run([hexe, "-mode=stress", "-seed=%d" % seed, "-scale=%d" % scale], timeout=900)
    st["harness_wall_s"] = round(dt, 2)
    st["config"] = ("ONE SQLiteBackend (one connection, real file): phases 24 busy + 8 stale / 8 busy + 24 stale at GOMAXPROCS 1, 16 busy + 16 stale on all CPUs, "
                    "each plus 2 groups of 3 goroutines on a shared log ID, every goroutine-owned log ID distinct, no global quiescent point; "
                    "ONE DynamoDBBackend / ETagBackend (content-hash and version ETags) against the protocol fakes: 8 busy + 8 stale + 1 group; scale %d" % scale)
    if rc != 0:
        p = L.write_replay(PROP, "stress_harness_failure.txt", "shared-instance stress harness failed (rc=%d)\n%s" % (rc, out[-6000:]))
        res.violation(p, "shared-instance stress harness did not run to completion", no_input=True)
        return st
    lines = [l for l in out.split("\n") if "|=>|" in l]
    wins = [l for l in lines if l.startswith("win")]
    for l in lines:
        if l.startswith("stat|"):
            f = l.split("|")
            st["stats"][f[1]] = int(f[3])
    shown = 0
    for l in lines:
        if not l.startswith("mon_"):
            continue
        op, a, r = D.split_line(l)
        m = st["monitors"].setdefault(op, {"lines": 0, "calls_judged": 0, "failures": 0})
        m["lines"] += 1
        if len(a) >= 3 and a[2].isdigit():
            m["calls_judged"] += int(a[2])
        if r == "holds":
            continue
        m["failures"] += 1
        st["monitor_failures"] += 1
        if shown < 3:
            shown += 1
            tag = r.split(":")[1][4:] if r.startswith("FAILS:log-") else None
            hist = history_of(wins, tag) if tag else []
            p = L.write_replay(PROP, "stress_%s_%s.txt" % (op, L.digest(l)),
                               "property monitor %s failed on the implementation: ONE lock backend instance shared by concurrent goroutines working on several log IDs (phase %s) is not a compare-and-swap register for log %s.\n"
                               "records are call:start_ns:finish_ns:result with call = f:<logID> | r:<logID>:<old value>:<new value> | c:<logID>:<value> (hex), result = v<value> | nf | ok | ref (conflict reported) | unk\n"
                               "monitor line (replay with ./check %s --replay <this file>):\n%s\n\ncomplete recorded history of that log ID, cut at its quiescent points (decided by the extracted checker on replay):\n%s\n"
                               % (op, a[0] if a else "?", tag, PROP, l, "\n".join(hist)))
            res.violation(p, "monitor %s [%s]: %s" % (op, a[0] if a else "?", r[:600]))
    decide_windows(res, mexe, wins, st,
                   "the recorded real-time history of ONE log ID on a lock backend instance shared by concurrent goroutines working on several log IDs (tag = backend.phase.log)",
                   "shared-instance history not linearizable at log %s window %d", max_shown=2, prefix="stress_")
    return st


def retry_probe(res, hexe):
    """informational: what the SDK's automatic re-send does after an applied-but-5xx write (see
    Properties/C05.v C05_sdk_retry_refuted). Not a violation of the checked claim, whose
    assumption list says 'one request per call'; reported as a candidate finding. If
    known_findings.json carries a `known` C05 entry matching C05-sdk-retry-aba it is printed as
    KNOWN-FINDING."""
    rc, out, dt = L.run([hexe, "-mode=retry"], timeout=300)
    lines = [l for l in out.split("\n") if l.startswith("probe_") and "|=>|" in l]
    pr = {"rc": rc, "lines": [l[:400] for l in lines]}
    aba = [l for l in lines if l.startswith("probe_retry_aba|") and l.split("|=>|")[1].startswith("NOT-linearizable")]
    pr["by_value_backends_apply_twice_after_ABA"] = sorted(l.split("|")[1] for l in aba)
    if aba:
        for f in L.known_findings():
            if f.get("property") == PROP and f.get("status") == "known" and f.get("match") == "C05-sdk-retry-aba":
                if f["what"] not in res.known:
                    res.known.append(f["what"])
    return pr


def main(tier, seed, replay):
    res = L.Result(PROP, tier, seed)
    ok, cov = L.proof_stage(res, PROP, PROP_V, thorough=(tier == "thorough"))
    hexe, hlog = L.build_harness("lock")
    if hexe is None:
        p = L.write_replay(PROP, "harness_build.txt", "the correspondence harness no longer compiles against /repo's working tree\n" + hlog[-6000:])
        res.violation(p, "harness build failed", no_input=True)
    mexe, mlog = L.build_model("lock", "Extract/Lock.v", "lock.ml")
    if mexe is None and ok:
        p = L.write_replay(PROP, "model_build.txt", mlog[-6000:])
        res.violation(p, "model extraction/build failed", no_input=True)
    st, work, mlines, cst, wins, probe, sst = {}, [], [], {}, [], {}, {}
    ncross = 0
    if hexe and mexe:
        nseq, nops = (10, 40) if tier == "quick" else (70, 60)
        args = ["-mode=seq", "-seed=%d" % seed, "-n=%d" % nseq, "-ops=%d" % nops]
        extra, replay_wins = [], None
        if replay:
            rl = [l.strip() for l in open(replay) if "|=>|" in l]
            replay_wins = [l for l in rl if l.startswith("win")]
            extra = [[l for l in rl if not l.startswith("win") and not l.startswith("stat|")]]
            args = ["-mode=wire"]
        corpus = os.path.join(L.VERIF, "corpus", PROP)
        if os.path.isdir(corpus):
            for f in sorted(os.listdir(corpus)):
                extra.append([l.strip() for l in open(os.path.join(corpus, f)) if "|=>|" in l and not l.startswith("win")])
        st, work, mlines = D.differential(res, PROP, hexe, args, mexe, property_ops=(), extra_inputs=extra)
        rnd = random.Random(seed)
        cases = script_cases(mlines, rnd, per_backend=2 if tier == "quick" else 6)
        ncross = D.vm_crosscheck(res, PROP, cases, "From SL Require Import Lock.Run.")
        if not replay or replay_wins:
            cst, wins = conc_stage(res, hexe, mexe, tier, seed, replay_wins if replay else None)
        if not replay:
            sst = stress_stage(res, hexe, mexe, tier, seed)
            probe = retry_probe(res, hexe)
    if not ok and not res.violations:
        res.violation(getattr(res, "coq_failure", L.write_replay(PROP, "coq_failure.txt", "proof stage failed")),
                      "theorems of %s no longer check; differential run, monitors and the linearizability check of recorded histories found no failing input" % PROP_V, no_input=True)
    elif not ok:
        print("# note: the Coq proof stage also failed: %s" % getattr(res, "coq_failure", "?"))
    ops = [l for l in work if l.split("|")[0] in ("fetch", "replace", "create", "ecfetch")]
    def field(l, i):
        return l.split("|")[i]
    nontrivial = set(l for l in ops if not l.split("|=>|")[1].startswith(("notfound", "err")))
    by_backend = {}
    for l in ops:
        k = field(l, 1) + ":" + field(l, 0) + ":" + l.split("|=>|")[1].split(";")[0].split(":")[0]
        by_backend[k] = by_backend.get(k, 0) + 1
    never_created = len([l for l in work if l.startswith("fetch|") and "notfound" in l.split("|=>|")[1].split(";")[0]])
    values = {"nil": 0, "empty": 0, "with_NUL": 0}
    for l in ops:
        f = l.split("|")
        if f[0] in ("replace", "create"):
            v = f[4]
            if v == "nil": values["nil"] += 1
            elif v == "-": values["empty"] += 1
            elif "00" in [v[i:i + 2] for i in range(0, len(v), 2)]: values["with_NUL"] += 1
    mon_ops = {k: v for k, v in st.get("ops", {}).items() if k.startswith("mon_")}
    cov.update({
        "evaluations": len(ops) + cst.get("ops", 0) + sst.get("ops", 0),
        "distinct_nontrivial": len(nontrivial) + cst.get("windows", 0) + sst.get("windows", 0),
        "rule": "stage A: one evaluation = one Fetch/Replace/Create call of a real ctlog lock backend inside a generated sequence (3 logical clients, stale handles, values incl. nil, empty, NUL-containing, 1 KB, a signed-checkpoint text; every sequence starts with a Fetch of a never-created ID), compared with the extracted client-over-server model incl. the request on the wire and the server's reply; non-trivial = result is not notfound/err; distinct by harness line. stage B: one evaluation = one call on the shared SQLite file, distinct = windows of <= 8 overlapping calls decided by the extracted checker. stage C: one evaluation = one call on the ONE shared backend instance (values unique per log ID), distinct = windows of the per-log-ID histories (<= 6 overlapping calls; 1 for logs owned by one goroutine) decided by the extracted checker",
        "samples": [l[:260] for l in ops[:2]] + [l[:260] for l in ops if l.startswith("replace|etagv")][:1]
                   + [l[:260] for l in ops if l.startswith("create|dynamo") and "|nil|" in l][:1] + [w[:300] for w in wins if w.startswith("win|")][:2],
        "traces_validated_against_impl": len(work) - st.get("diffs", 0),
        "model_impl_differences": st.get("diffs", 0),
        "impl_property_monitors": st.get("monitors", 0), "monitor_failures": st.get("monitor_failures", 0),
        "monitor_distribution": mon_ops,
        "vm_compute_crosschecked_scripts": ncross,
        "result_distribution_by_backend": by_backend,
        "fetch_of_missing_log_answered_notfound": never_created,
        "value_distribution": values,
        "sqlite_concurrency": {k: cst.get(k) for k in ("config", "runs", "windows", "ops", "max_window", "window_sizes", "window_failures", "stats", "harness_wall_s")},
        "shared_instance_stress": {k: sst.get(k) for k in ("config", "locality_lemma_checked", "runs", "windows", "ops", "max_window", "window_sizes", "window_failures", "monitors", "monitor_failures", "stats", "harness_wall_s")},
        "sdk_retry_probe_candidate_finding": probe,
        "wire_observation": "Create sends the header bytes 'If-Match: ' (empty value, once); Replace sends the fetched ETag verbatim incl. quotes; GET carries Cache-Control: no-cache and X-Tigris-Cas: true; a nil Go slice reaches DynamoDB as {\"B\": null}",
        "trusted_base": TRUSTED + ["repo " + L.repo_rev()],
    })
    return res.finish(cov, ASSUME)
