"""C10 — tile, leaf, extension and tile-path encodings are canonical bijections."""
import os, random
import checklib as L
from checks import difflib2 as D

PROP = "C10"
PROP_V = "Properties/C10.v"

def coq_leaf(a):
    pre, cert, ikh, fps, precert, idx, arch, ts = a
    return "(mk_leaf %s %s %s %s %s (%s)%%Z %s (%s)%%Z)" % (
        "true" if pre == "1" else "false", D.coq_bytes(cert), D.coq_bytes(ikh), D.coq_bytes(fps),
        D.coq_bytes(precert), idx, "true" if arch == "1" else "false", ts)

def coq_case(line):
    op, a, r = D.split_line(line)
    if len(line) > 700:
        return None
    if op == "append": return ("(run_append %s %s)" % (D.coq_bytes(a[0]), coq_leaf(a[1:])), r)
    if op == "mleaf": return ("(run_mleaf %s)" % coq_leaf(a), r)
    if op == "read": return ("(run_read %s)" % D.coq_bytes(a[0]), r)
    if op == "readarch": return ("(run_readarch %s)" % D.coq_bytes(a[0]), r)
    if op == "mext": return ("(run_mext (%s)%%Z)" % a[0], r)
    if op == "pext": return ("(run_pext %s)" % D.coq_bytes(a[0]), r)
    if op == "tpath": return ("(run_tpath (%s)%%Z (%s)%%Z (%s)%%Z (%s)%%Z)" % tuple(a), r)
    if op == "ppath": return ("(run_ppath %s)" % D.coq_bytes(a[0]), r)
    return None

def main(tier, seed, replay):
    res = L.Result(PROP, tier, seed)
    gen_ok, gen_log = L.regenerate()   # Gen/Builders.v from /repo's current tile.go (MerkleTreeLeaf)
    ok, cov = L.proof_stage(res, PROP, PROP_V, thorough=(tier == "thorough"))
    cov["generated_from_source"] = {"files": list(L.GENERATED), "ok": gen_ok, "log": gen_log[-500:]}
    if not gen_ok:
        p = L.write_replay(PROP, "translation.txt", "the Go source could not be translated (tie by translation broken):\n" + gen_log)
        res.violation(p, "translation of the Go source failed", no_input=True)
    hexe, hlog = L.build_harness("codec")
    if hexe is None:
        p = L.write_replay(PROP, "harness_build.txt", "the correspondence harness no longer compiles against /repo's working tree\n" + hlog[-6000:])
        res.violation(p, "harness build failed", no_input=True)
    mexe, mlog = L.build_model("codec", "Extract/Codec.v", "codec.ml")
    if mexe is None and ok:
        p = L.write_replay(PROP, "model_build.txt", mlog[-6000:])
        res.violation(p, "model extraction/build failed", no_input=True)
    st, work, mlines = {}, [], []
    ncross = 0
    if hexe and mexe:
        n = 1500 if tier == "quick" else 12000
        args = ["-seed=%d" % seed, "-n=%d" % n] + (["-big"] if tier == "thorough" else [])
        extra = []
        if replay:
            extra = [[l.strip() for l in open(replay) if "|=>|" in l]]
            args = ["-seed=%d" % seed, "-n=0"]
        corpus = os.path.join(L.VERIF, "corpus", PROP)
        if os.path.isdir(corpus):
            for f in sorted(os.listdir(corpus)):
                extra.append([l.strip() for l in open(os.path.join(corpus, f)) if "|=>|" in l])
        st, work, mlines = D.differential(res, PROP, hexe, args, mexe, property_ops=("mleaf", "mext"), extra_inputs=extra)
        rnd = random.Random(seed)
        small = [c for c in (coq_case(l) for l in mlines) if c]
        sample = rnd.sample(small, min(len(small), 80 if tier == "quick" else 400))
        ncross = D.vm_crosscheck(res, PROP, sample, "From SL Require Import Codec.Run.")
    if not ok and not res.violations:
        res.violation(getattr(res, "coq_failure", None) or L.write_replay(PROP, "coq_failure.txt", "proof stage failed"),
                      "theorems of %s no longer check; differential run and monitors found no failing input" % PROP_V, no_input=True)
    elif not ok:
        print("# note: the Coq proof stage also failed: %s" % getattr(res, "coq_failure", "?"))
    distinct = len(set(work))
    nontrivial = len(set(l for l in work if not l.endswith("|err")))
    cov.update({
        "evaluations": st.get("lines", 0), "distinct_nontrivial": nontrivial,
        "rule": "cases = generated entries (both types, archival/indexed, 0..2049 fingerprints, boundary lengths and values), their encodings with single-byte mutations/truncations/junk, random bytes, extension blobs, tile coordinates and mutated/hand-written path strings; distinct = distinct harness lines; non-trivial = the implementation result is not a plain decode error",
        "traces_validated_against_impl": len(work), "distinct_cases": distinct,
        "impl_property_monitors": st.get("monitors", 0), "monitor_failures": st.get("monitor_failures", 0),
        "model_impl_differences": st.get("diffs", 0), "vm_compute_crosschecked": ncross,
        "op_distribution": st.get("ops", {}), "result_distribution": st.get("results", {}),
        "samples": [l[:300] for l in work[:3]] + [l[:300] for l in work if l.startswith("ppath")][:3] + cov.get("theorems", [])[:2],
        "trusted_base": ["Coq 8.16.1 kernel (coqc, vm_compute for Examples and the per-run cross-check)",
                         "extraction (ExtrOcamlBasic only) + ocaml/util.ml + ocaml/codec.ml",
                         "Go harness harness/codec (generators, canonical rendering of results)",
                         "model Codec/Leaf.v is a hand transcription of tile.go/extensions.go and x/mod tlog tile paths, tied by the differential run above",
                         "repo " + L.repo_rev()],
    })
    return res.finish(cov, ["cryptobyte builder/reader semantics as modelled in Base/Cryptobyte.v (validated differentially)",
                            "x/mod tlog.Tile.Path / ParseTilePath are modelled (dependency, validated differentially)",
                            "ct-go tls.Marshal is the independent TLS encoder used by the implementation-side monitor"])
