"""C15 — a mirror cosignature implies a complete, correct, servable copy.

Proof: Properties/C15.v (C15, C15_auth_before_write, C15_resume over Mirror/Model.v, closed for the
ideal hash). Tie: harness/mirror drives the REAL witness+mirror through its HTTP handlers
(fault-injecting in-memory Backend/LockBackend, the package/commit hooks of witness.go as gates)
and prints histories; the extracted model (ocaml/mirror.ml, real SHA-256) must reproduce every
event's observations (status + class, mirror-info fields incl. the opened ticket, every upload with
key and digest, every Replace on the pending and mirror registers) and the final state.
Monitors (implementation alone): servable audit with an independent RFC 6962 tree at every
effective mirror-register write, monotonicity of the mirror register / published checkpoint / released cosignatures, recorded-before-released for the published mirror checkpoint, authentication before write, resumption after restart.
The shared Merkle library is tied by checks/merkle_tie.py, run concurrently."""
import os, threading, concurrent.futures as cf
import checklib as L
from checks import merkle_tie as MT
from checks import difflib2 as D

PROP = "C15"
PROP_V = "Properties/C15.v"

FIXED = ["e2e", "unaligned", "prefix", "tickets", "wrong", "truncated", "headers", "window", "empty",
         "cuttiles", "interleave2", "interleave3", "big", "faultpos", "faultpos2", "restarts", "restarts2",
         "gcruns", "gcruns2", "retryolder", "retry", "retry2", "resend", "commitrace", "pubrecord", "twologs"]

TRUSTED = [
    "Coq 8.16.1 kernel (coqc; vm_compute in the Examples of Mirror/Ideal.v)",
    "extraction (ExtrOcamlBasic only) + ocaml/util.ml, ocaml/sha256.ml (hand-written SHA-256, compared with Go's through every digest of the run), ocaml/mirror.ml",
    "Go harness harness/mirror (in-memory Backend/LockBackend with fault plan, gating through witness.go's testingOnly hooks, abstraction of keys/bodies/responses, gunzip of entry bundles before hashing, independent recursive RFC 6962 hash for the monitors) and harness/inject/internal/witness/zz_verif_mirror.go (hooks, nextEntry accessor, ticket opening with the instance's AEAD)",
    "model Mirror/Model.v is a hand transcription of the tlog-mirror part of internal/witness/witness.go; signatures, notes and tickets are symbolic (ML-DSA-44 / Ed25519 unforgeability and XAES-256-GCM integrity assumed: only tickets the instance sealed, in the same incarnation, for this mirror name and origin, open); per-origin state is independent (one mirrored origin is modelled; foreign origins only as request classes and garbage tickets)",
    "golang.org/x/mod/sumdb/tlog and filippo.io/torchwood are modelled dependencies: CheckSubtree = Merkle/Proofs.v (tied by checks/merkle_tie.py, run here), stored-hash indexes = (level, index) node coordinates, SubtreeHash over appended record hashes = RFC 6962 mth, NewTiles = Merkle/Tiles.v; validated by the byte-level digest of every tile written, not verified",
    "hash injectivity (NodeHash, RecordHash) is a theorem for the free term algebra of the closed statements and stands for SHA-256 collision resistance",
    "the lock backend is a linearizable CAS register (C05); add-checkpoint correctness (every pending checkpoint commits to a prefix of one log) is C14: the model's EvPending; single witness instance (restarts, no concurrent second instance)",
    "interleaving granularity = one package / one mutex-protected stage (the hooks of witness.go); backend operations of two uploads inside a package are not interleaved; the garbage collector's effect on the mirror directory is its specification C18_only (the harness applies it to the in-memory store)",
]
ASSUME = [
    "object storage under the mirror prefix is not tampered with and is read-after-write consistent",
    "tree sizes stay below 2^62 (torchwood's maxN; hypothesis of the theorems)",
    "a restart loses the caches, nextEntry, the in-flight uploads and the ticket key, and keeps both registers and the store",
]

RULE = ("one evaluation = one history (event list) run against the real witness+mirror handlers and replayed by the "
        "extracted model: fixed scenarios (end-to-end, unaligned starts/ends, prefix uploads + ticket resumption, stale / "
        "rewound / garbage / foreign-origin / pre-restart tickets, wrong entries, wrong/truncated/extended/foreign proofs, "
        "bodies cut at every package boundary and inside entries / at the count byte / inside proofs, numHashes > 63, header "
        "errors, re-upload window (8*256) and start > next, [n,n) commits incl. the empty tree, commits behind nextEntry "
        "(ensureCutTiles from the full tile and from a wider partial), 2 and 3 interleaved uploads incl. overtaking and commit "
        "races, a 66,500-entry log crossing 65,536 with gc and re-upload across the boundary), every fault kind at every "
        "operation position of two base scripts, the same with a client that retries the failed request (same range / ticket / body) once or twice with the fault cleared, incl. a script where a ticket commits an older pending checkpoint at a mid-tile size while a later upload is in flight, optionally followed by a restart + resumption, a ticket for an older pending checkpoint used by a request that RE-SENDS entries below the next entry while a later upload is processed but uncommitted (committing afterwards, or stranded by a restart, aligned / unaligned / multi-tile, every kind of cut), a commit at a smaller mid-tile size held INSIDE the backend fetch of ensureCutTiles while a second request towards the newer pending checkpoint is started in its own goroutine (blocked behind the per-log mutex on the unchanged code: its begin is then recorded after the held commit, the order in which they took effect), a commit at N whose mirror Lock.Replace fails (unapplied / applied) followed by a commit at a smaller size (fresh signature, older ticket) in the same process or after a restart, two and three mirrored logs in one witness instance with resumed uploads at the same 256-aligned points (same-coordinate base tiles; every log judged by its own servable / public / monotone / final monitors, the model reproducing the event lines of one of them), a restart / a gc run before every event of two base scripts, and random "
        "histories (random logs of 300-1500 entries, 0-2 concurrent uploads, faults, restarts, gc); non-trivial = contains a "
        "fault, a restart, a gc run, a non-200 answer or an interleaving; distinct by digest of the history")


def run_job(hexe, mexe, args, tag):
    """returns dict(text, impl, model, err)"""
    out = os.path.join(L.BUILD, "hist", "C15_%s.txt" % tag)
    os.makedirs(os.path.dirname(out), exist_ok=True)
    e = L.env()
    e["GOMAXPROCS"] = "2"   # many harness processes run side by side
    rc, log, dt = L.run([hexe] + args + ["-out=" + out], timeout=900, env_=e)
    if rc != 0:
        return {"err": "harness rc=%d args=%s\n%s" % (rc, args, log[-3000:]), "args": args}
    text = open(out).read()
    mlines, err = D.run_model(mexe, text, timeout=900)
    if mlines is None:
        return {"err": "model: " + err, "args": args, "text": text}
    return {"text": text, "model": [l for l in mlines if l], "args": args, "harness_s": dt}


def split_hist(lines):
    hs, cur = [], []
    for l in lines:
        if l.startswith("ev|reset"):
            if cur:
                hs.append(cur)
            cur = []
        cur.append(l)
    if cur:
        hs.append(cur)
    return hs


def main(tier, seed, replay):
    res = L.Result(PROP, tier, seed)
    mt = {}
    def tie():
        try:
            mt.update(MT.run(res, PROP, seed, tier))
        except Exception as ex:  # recorded below
            mt["error"] = repr(ex)
    th = threading.Thread(target=tie)
    th.start()
    # the model driver needs Mirror/Run.vo (not in the closure of the property file)
    okr, rlog = L.coq_make(["Mirror/Run.vo"])
    # the proof stage runs concurrently with the builds and the differential run
    pst = {}
    def proofs():
        pst["r"] = L.proof_stage(res, PROP, PROP_V, thorough=(tier == "thorough"))
    tp = threading.Thread(target=proofs)
    tp.start()
    hexe, hlog = L.build_harness("mirror")
    if hexe is None:
        p = L.write_replay(PROP, "harness_build.txt", "the correspondence harness no longer compiles against /repo's working tree\n" + hlog[-6000:])
        res.violation(p, "harness build failed", no_input=True)
    mexe, mlog = (L.build_model("mirror", "Extract/Mirror.v", "mirror.ml", extra_ml=["sha256.ml"]) if okr
                  else (None, "Mirror/Run.vo does not build:\n" + rlog[-4000:]))
    stats, nhist, ndiff, nmon, nmonfail, nev, nobs = {}, 0, 0, 0, 0, 0, 0
    nontrivial, samples, mon_kinds = set(), [], {}
    if hexe and mexe:
        jobs = []
        if replay:
            first = open(replay).readline()
            args = first.split("args:", 1)[1].split() if "args:" in first else ["-seed=%d" % seed]
            jobs.append((args, "replay"))
        else:
            nrand = 24 if tier == "quick" else 400
            # quick: the retry enumerations place the same faults as faultpos/faultpos2 (and add the retries)
            fixed = [sc for sc in FIXED if tier != "quick" or sc not in ("faultpos", "faultpos2")]
            split = {"retryolder": 3, "retry": 2, "retry2": 1, "faultpos": 2, "faultpos2": 2}
            small = [sc for sc in fixed if sc not in split and sc not in ("big", "restarts", "restarts2", "gcruns", "gcruns2")]
            groups = [["big"]] + [[sc] for sc in fixed if sc in split] + \
                     [[sc for sc in ("restarts", "gcruns2") if sc in fixed], [sc for sc in ("restarts2", "gcruns") if sc in fixed],
                      small[::2], small[1::2]]
            for g in groups:
                if not g:
                    continue
                n = split.get(g[0], 1)
                for i in range(n):
                    jobs.append((["-seed=%d" % seed, "-scenario=" + ",".join(g), "-n=0"] + (["-part=%d/%d" % (i, n)] if n > 1 else []),
                                 "%d_%s_%d" % (seed, g[0], i)))
            chunks = 4 if tier == "quick" else 16
            for k in range(chunks):
                jobs.append((["-seed=%d" % (seed * 1000 + k), "-scenario=random", "-n=%d" % (nrand // chunks)],
                             "%d_random%d" % (seed, k)))
            if tier == "thorough":
                for k in range(1, 4):
                    for sc in ("faultpos", "faultpos2", "restarts", "gcruns", "interleave2", "interleave3", "cuttiles", "tickets"):
                        jobs.append((["-seed=%d" % (seed + 7919 * k), "-scenario=" + sc, "-n=0"], "%d_%s_%d" % (seed, sc, k)))
        with cf.ThreadPoolExecutor(max_workers=min(8, L.NCPU)) as ex:
            results = list(ex.map(lambda j: run_job(hexe, mexe, j[0], j[1]), jobs))
        first_diff, seen_mon, shown_kind = None, set(), {}
        for r in results:
            if "err" in r:
                p = L.write_replay(PROP, "harness_failure.txt", "args: %s\n%s" % (" ".join(r["args"]), r["err"]))
                res.violation(p, "correspondence harness or model did not run to completion", no_input=True)
                continue
            lines = [l for l in r["text"].split("\n") if l]
            for l in lines:
                if l.startswith("stat|"):
                    f = l.split("|")
                    if len(f) >= 4 and f[3].lstrip("-").isdigit():
                        stats[f[1] + ":" + f[2]] = stats.get(f[1] + ":" + f[2], 0) + int(f[3])
            impl = [l for l in lines if l.startswith("ev|") or l.startswith("> ")]
            mons = [l for l in lines if l.startswith("mon|")]
            nev += sum(1 for l in impl if l.startswith("ev|"))
            nobs += sum(1 for l in impl if l.startswith("> "))
            hi, hm = split_hist(impl), split_hist(r["model"])
            nhist += len(hi)
            for h in hi:
                if any((",fail" in l or "|fail" in l or l == "ev|restart" or l == "ev|gc" or
                        (l.startswith("> resp") and " gate" not in l and " 200 " not in l)) for l in h) \
                        or len(set(l.split("|")[2] for l in h if l.startswith("ev|pkg"))) > 1:
                    nontrivial.add(L.digest("\n".join(h)))
            if hi and len(samples) < 2:
                samples.append([l[:160] for l in hi[0][:18]])
            # monitors on the implementation alone
            nmon += len(mons)
            for m in mons:
                f = m.split("|")
                mon_kinds[f[1]] = mon_kinds.get(f[1], 0) + 1
                if not m.endswith("|holds"):
                    nmonfail += 1
                    if m in seen_mon:
                        continue
                    seen_mon.add(m)
                    shown_kind[f[1]] = shown_kind.get(f[1], 0) + 1
                    if shown_kind[f[1]] <= 2:   # at most two replays per monitor
                        hist = [h for h in split_hist(lines) if m in h]
                        p = L.write_replay(PROP, "monitor_%s_%s.txt" % (f[1], L.digest(m)),
                                           "args: %s\nproperty monitor %s failed on the implementation: %s\nhistory (replay: ./check C15 --replay <this file>):\n%s\n"
                                           % (" ".join(r["args"]), f[1], m, "\n".join(hist[-1] if hist else lines[:400])))
                        res.violation(p, "monitor %s: %s" % (f[1], m[:300]))
            # model vs implementation
            bad = [(k, a, b) for k, (a, b) in enumerate(zip(hi, hm)) if a != b]
            if len(hi) != len(hm):
                bad.append((-1, ["%d histories" % len(hi)], ["%d histories" % len(hm)]))
            ndiff += len(bad)
            if bad and first_diff is None:
                first_diff = (r["args"], bad)
        if first_diff is not None:
            args, bad = first_diff
            k, a, b = bad[0]
            j = next((i for i in range(max(len(a), len(b))) if i >= len(a) or i >= len(b) or a[i] != b[i]), 0)
            text = ("args: %s\nmirror model <-> implementation correspondence no longer checks (%d histories differ in total)%s\nfirst difference (history line %d):\nimpl : %s\nmodel: %s\n\nhistory:\n%s\n"
                    % (" ".join(args), ndiff,
                       "; the monitors found no history on which the property itself fails." if nmonfail == 0 else "; see the monitor failures for histories on which the property itself fails.",
                       j, a[j] if j < len(a) else "<end>", b[j] if j < len(b) else "<end>", "\n".join(x[:400] for x in a)))
            p = L.write_replay(PROP, "correspondence.txt", text)
            if nmonfail == 0:
                res.violation(p, "model/implementation correspondence broken (%d histories)" % ndiff, no_input=True)
            else:
                print("# note: the model/implementation correspondence is also broken (%d histories): %s" % (ndiff, p))
    th.join()
    tp.join()
    ok, cov = pst.get("r", (False, {}))
    if mexe is None and ok:
        p = L.write_replay(PROP, "model_build.txt", mlog[-6000:])
        res.violation(p, "model extraction/build failed", no_input=True)
    if mt.get("error"):
        p = L.write_replay(PROP, "merkle_tie.txt", mt["error"])
        res.violation(p, "merkle tie did not run", no_input=True)
    if not ok and not res.violations:
        res.violation(getattr(res, "coq_failure", L.write_replay(PROP, "coq_failure.txt", "proof stage failed")),
                      "theorems of %s no longer check; the differential run and the monitors found no failing history" % PROP_V, no_input=True)
    elif not ok:
        print("# note: the Coq proof stage also failed: %s" % getattr(res, "coq_failure", "?"))
    cov.update({
        "evaluations": nhist, "distinct_nontrivial": len(nontrivial), "rule": RULE,
        "traces_validated_against_impl": max(0, nhist - ndiff), "histories_differing": ndiff,
        "events": nev, "observation_lines_compared": nobs,
        "impl_property_monitors": nmon, "monitor_failures": nmonfail, "monitor_kinds": mon_kinds,
        "input_and_response_distribution": stats,
        "merkle_tie": {k: mt.get(k) for k in ("built", "lines", "diffs", "monitors", "monitor_failures", "ops", "results",
                                             "distinct_cases", "distinct_nontrivial", "accepted", "harness_args")},
        "samples": samples + cov.get("theorems", [])[:3],
        "trusted_base": TRUSTED + ["repo " + L.repo_rev()],
    })
    return res.finish(cov, ASSUME)
