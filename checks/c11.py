"""C11 — signed tree heads verify independently and the checkpoint verifier is strict."""
import json, os, random, time
import checklib as L
from checks import difflib2 as D

PROP = "C11"
PROP_V = "Properties/C11.v"

# Used only while /verif/known_findings.json has no C11 entry (that file is committed by hand):
# same shape, same matching rule (prefix of the monitor's failure text).
LOCAL_KNOWN = [
    {"property": "C11", "status": "known", "match": "C11-ctl-origin",
     "what": "a log name containing a C0 control character other than TAB/LF/VT/FF/CR (U+0000-0008, U+000E-001F) "
             "passes isValidName, so NewRFC6962Verifier/signTreeHead accept it and sign, but x/mod note.Open rejects every "
             "note containing such a character as malformed: the signed checkpoint does not open with the log's own "
             "public verifier (openCheckpoint fails). Not reachable through cmd/sunlight (the name comes from url.Parse, "
             "which rejects control characters); library-level inconsistency of isValidName with note.Open."},
]


def known_entries():
    ks = [f for f in L.known_findings() if f.get("property") == PROP and f.get("status") == "known"]
    return ks or LOCAL_KNOWN


def coq_case(line):
    op, a, r = D.split_line(line)
    if len(line) > 900:
        return None
    b = D.coq_bytes
    if op == "parse": return ("(run_parse %s)" % b(a[0]), r)
    if op == "format": return ("(run_format %s (%s)%%Z %s %s)" % (b(a[0]), a[1], b(a[2]), b(a[3])), r)
    if op == "b64d": return ("(run_b64d %s)" % b(a[0]), r)
    if op == "b64e": return ("(run_b64e %s)" % b(a[0]), r)
    if op == "name": return ("(run_name %s)" % b(a[0]), r)
    if op == "textok": return ("(run_textok %s)" % b(a[0]), r)
    if op == "sthin": return ("(run_sthin (%s)%%Z (%s)%%Z %s)" % (a[0], a[1], b(a[2])), r)
    if op == "ts": return ("(run_ts %s)" % b(a[0]), r)
    if op == "inject": return ("(run_inject (%s)%%Z %s)" % (a[0], b(a[1])), r)
    if op == "verify":
        return ("(run_verify %s %s %s %s %s %s %s)" % (b(a[0]), a[1], b(a[2]), b(a[3]), b(a[4]), b(a[5]),
                                                       "true" if a[6] == "1" else "false"), r)
    return None


def main(tier, seed, replay):
    replay_text = open(replay).read() if replay else None   # before Result() clears build/replay
    res = L.Result(PROP, tier, seed)
    # Gen/Readers.v, Gen/Builders2.v from /repo's current checkpoint.go / ctlog.go (signature reader, builders)
    gen_ok, gen_log = L.regenerate()
    ok, cov = L.proof_stage(res, PROP, PROP_V, thorough=(tier == "thorough"))
    cov["generated_from_source"] = {"files": list(L.GENERATED), "ok": gen_ok, "log": gen_log[-500:]}
    if not gen_ok:
        p = L.write_replay(PROP, "translation.txt", "the Go source could not be translated (tie by translation broken):\n" + gen_log)
        res.violation(p, "translation of the Go source failed", no_input=True)
    if ok:
        L.coq_make(["Ckpt/Run.vo"])
    hexe, hlog = L.build_harness("ckpt")
    if hexe is None:
        p = L.write_replay(PROP, "harness_build.txt", "the correspondence harness no longer compiles against /repo's working tree\n" + hlog[-6000:])
        res.violation(p, "harness build failed", no_input=True)
    mexe, mlog = L.build_model("ckpt", "Extract/Ckpt.v", "ckpt.ml")
    if mexe is None and ok:
        p = L.write_replay(PROP, "model_build.txt", mlog[-6000:])
        res.violation(p, "model extraction/build failed", no_input=True)

    st = {"lines": 0, "monitors": 0, "monitor_failures": 0, "diffs": 0, "ops": {}, "results": {}, "known_finding_hits": 0}
    work, mlines, hstats, ncross = [], [], {}, 0
    if hexe and mexe:
        n = 120 if tier == "quick" else 600
        lines = []
        if replay_text is not None:
            # self-contained monitor lines (mon_strict, mon_strict_direct) are re-evaluated against the
            # current implementation; other lines are replayed as recorded
            rp = os.path.join(L.BUILD, "scratch", "C11_replay_input.txt")
            os.makedirs(os.path.dirname(rp), exist_ok=True)
            with open(rp, "w") as f:
                f.write(replay_text)
            hargs = [hexe, "-seed=%d" % seed, "-replay=" + rp]
        else:
            hargs = [hexe, "-seed=%d" % seed, "-n=%d" % n]
        if True:
            rc, out, dt = L.run(hargs, timeout=1800)
            st["harness_wall_s"] = round(dt, 2)
            if rc != 0:
                p = L.write_replay(PROP, "harness_failure.txt", "correspondence harness failed (rc=%d)\n%s" % (rc, out[-6000:]))
                res.violation(p, "correspondence harness did not run to completion", no_input=True)
            else:
                for l in out.split("\n"):
                    if l.startswith("#stats "):
                        hstats = json.loads(l[7:])
                    elif "|=>|" in l:
                        lines.append(l)
            corpus = os.path.join(L.VERIF, "corpus", PROP)
            if os.path.isdir(corpus) and replay_text is None:
                for f in sorted(os.listdir(corpus)):
                    lines.extend(l.strip() for l in open(os.path.join(corpus, f)) if "|=>|" in l)
        st["lines"] = len(lines)
        mons = [l for l in lines if l.startswith("mon_")]
        work = [l for l in lines if not l.startswith("mon_")]
        st["monitors"] = len(mons)
        # 1. property monitors on the implementation alone
        known = known_entries()
        nviol = 0
        for l in mons:
            op, args, r = D.split_line(l)
            st["ops"][op] = st["ops"].get(op, 0) + 1
            if r == "holds":
                continue
            what = r.split("FAILS:", 1)[1] if "FAILS:" in r else r
            kf = [f for f in known if what.startswith(f.get("match", "\0"))]
            if kf:
                st["known_finding_hits"] += 1
                msg = kf[0]["what"] + " [first input: %s]" % l.split("|=>|")[0][:160]
                if not any(k.startswith(kf[0]["what"]) for k in res.known):
                    res.known.append(msg)
                continue
            st["monitor_failures"] += 1
            nviol += 1
            if nviol <= 3:
                p = L.write_replay(PROP, "monitor_%s_%s.txt" % (op, L.digest(l)),
                                   "property monitor %s failed on the implementation\ninput (harness line, replay with ./check %s --replay <this file>):\n%s\n" % (op, PROP, l))
                res.violation(p, "monitor %s: %s" % (op, what[:200]))
        # 2. model vs implementation
        t0 = time.time()
        ml, err = D.run_model(mexe, "\n".join(work) + "\n")
        st["model_wall_s"] = round(time.time() - t0, 2)
        if ml is None:
            p = L.write_replay(PROP, "model_failure.txt", err)
            res.violation(p, "extracted model did not run: " + err[:200], no_input=True)
        else:
            mlines = [l for l in ml if l]
            diffs = L.diff_lines(work, mlines)
            st["diffs"] = len(diffs)
            for l in work:
                op, args, r = D.split_line(l)
                st["ops"][op] = st["ops"].get(op, 0) + 1
                k = op + ":" + (r.split(":")[0][:8] if op in ("parse", "b64d", "ts", "sign", "dsig") else (r[:1] if op in ("verify", "name", "textok") else "value"))
                st["results"][k] = st["results"].get(k, 0) + 1
            if diffs and nviol == 0:
                (i, a, b) = diffs[0]
                p = L.write_replay(PROP, "correspondence.txt",
                                   "correspondence model<->implementation no longer checks (%d differing cases); the monitors found no input on which the property itself fails.\nfirst difference:\nimpl : %s\nmodel: %s\n" % (len(diffs), a[:4000], b[:4000]))
                res.violation(p, "model/implementation correspondence broken (%d cases)" % len(diffs), no_input=True)
            rnd = random.Random(seed)
            small = [c for c in (coq_case(l) for l in mlines) if c]
            sample = rnd.sample(small, min(len(small), 60 if tier == "quick" else 400))
            if ok:
                ncross = D.vm_crosscheck(res, PROP, sample, "From SL Require Import Ckpt.Run.")
    if not ok and not res.violations:
        res.violation(getattr(res, "coq_failure", L.write_replay(PROP, "coq_failure.txt", "proof stage failed")),
                      "theorems of %s no longer check; differential run and monitors found no failing input" % PROP_V, no_input=True)
    elif not ok:
        print("# note: the Coq proof stage also failed: %s" % getattr(res, "coq_failure", "?"))
    distinct = len(set(work))
    nontrivial = len(set(l for l in work if not (l.endswith("|err") or l.endswith("|=>|0"))))
    mut = {k[4:]: v for k, v in hstats.items() if k.startswith("mut:")}
    cov.update({
        "evaluations": st["lines"], "distinct_nontrivial": nontrivial,
        "rule": "cases = (a) generated (origin,size,root,extension) values formatted and parsed, and their texts with structured "
                "mutations (non-canonical sizes, base64 padding/trailing-bit/CR tricks, extension-line shapes, CRLF, truncation, >1e6 bytes) and random byte "
                "mutations; base64 strings; names (valid, invalid UTF-8, every Unicode space, '+', control characters, random runes); "
                "(b) real signTreeHead outputs for ECDSA P-256 keys over boundary sizes 0,1,2^32+-1,2^62,2^63-1, negative sizes, times 0..2^63-1 and negative, "
                "plus notes signed by certificate-transparency-go's signer with ECDSA and RSA-2048 keys through NewRFC6962InjectedSigner; "
                "(c) ~80 byte-level mutants per signed head (origin, size, root, base64 tricks, extension, CR/LF, appended bytes, signature name, key hash, "
                "every timestamp byte, algorithm/length bytes, signature bytes, trailing/inner garbage, re-signing by same/other key, splices, foreign origin, random damage) "
                "opened with note.Open, and direct calls of the verifier closure; every call of the closure made by note.Open is recorded and replayed by the model; "
                "distinct = distinct harness lines; non-trivial = result is not a plain error / reject",
        "traces_validated_against_impl": len(work), "distinct_cases": distinct,
        "impl_property_monitors": st["monitors"], "monitor_failures": st["monitor_failures"],
        "known_finding_hits": st["known_finding_hits"],
        "model_impl_differences": st["diffs"], "vm_compute_crosschecked": ncross,
        "op_distribution": st["ops"], "result_distribution": st["results"],
        "mutation_classes_accept_reject": mut,
        "harness_stats": {k: v for k, v in hstats.items() if not k.startswith(("mut:", "op:"))},
        "samples": [l[:300] for l in work if l.startswith("parse")][:2] + [l[:300] for l in work if l.startswith("verify") and l.endswith("|1")][:1]
                   + [l[:300] for l in work if l.startswith("sign") and not l.endswith("err")][:1] + cov.get("theorems", [])[:2],
        "trusted_base": ["Coq 8.16.1 kernel (coqc, vm_compute for Examples/refutation witnesses and the per-run cross-check)",
                         "extraction (ExtrOcamlBasic only) + ocaml/util.ml + ocaml/ckpt.ml",
                         "Go harness harness/ckpt (generators, spy verifier wrapper, lenient extraction of the (input, signature) pair handed to the oracle, canonical rendering) and the accessor harness/inject/internal/ctlog/zz_verif_ckpt.go",
                         "model Ckpt/Model.v is a hand transcription of checkpoint.go, torchwood checkpoint.go/cosignature.go, encoding/base64, x/mod note (signature-line level only) and signTreeHead/digitallySign, tied by the differential run above",
                         "cryptographic strength (unforgeability) of ECDSA P-256 / RSA PKCS#1 v1.5 / ML-DSA-44 is assumed, not proved; RFC 6979 determinism of crypto/ecdsa with a nil reader is observed (mon_deterministic), not proved",
                         "independent verifiers used by the monitors: certificate-transparency-go SignatureVerifier.VerifySTHSignature + tls.Unmarshal, filippo.io/mldsa Verify on a message built from the c2sp.org/tlog-cosignature spec",
                         "repo " + L.repo_rev()],
    })
    return res.finish(cov, ["x/mod note.Open/Sign are modelled at the level of signature lines (name, key hash, blob); their text encoding of lines is exercised (real note.Open in every monitor) but not modelled",
                            "torchwood ParseCheckpoint/Checkpoint.String, base64.StdEncoding, strconv.ParseInt, cryptobyte and ct-go SerializeSTHSignatureInput are modelled dependencies validated differentially",
                            "symbolic signatures: structural theorems hold for every primitive; 'a changed tuple is rejected' additionally needs unforgeability, stated as an explicit hypothesis in C11_accepted_tuple_was_signed",
                            "ML-DSA primitive correctness (verify accepts what sign produced, 2420-byte signatures) and distinct 32-bit key hashes of the two verifiers are hypotheses of C11_signed_head_opens"])
