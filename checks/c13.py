"""C13 — the filesystem backend is atomic, durable, immutable-respecting and confined.

Stages: (1) Coq proofs (Properties/C13.v); (2) differential run of the real LocalBackend against
the extracted model on scripted + generated event lists, plus implementation-side monitors;
(3) system-call trace validation: a helper mode of the harness runs scripted uploads under
strace, this module parses the trace (fds resolved to paths), compares it with the trace the
model predicts for the same script, and evaluates the extracted crash monitor (every crash
point x every loss choice of the observed trace); one script (`wfault`) runs uploads whose
write(2) is cut short by RLIMIT_FSIZE and is compared with FS/Fault.v (upload_fault);
(4) write faults: the harness' -mode=wfault (a process of its own, private mount namespace)
uploads through the real code while write(2) on the temporary file fails partway (EFBIG via
RLIMIT_FSIZE, ENOSPC via a full tmpfs); monitors mon_wfault_* only."""
import os, random, re, shutil, subprocess, tempfile
import checklib as L
from checks import difflib2 as D

PROP = "C13"
PROP_V = "Properties/C13.v"
CANDIDATE = "C13-concurrent-mkdir"

# ------------------------------------------------------------------------------------------
# strace parser
# ------------------------------------------------------------------------------------------

LINE = re.compile(r"^(\d+)\s+(.*)$")
CALL = re.compile(r"^([a-z0-9_]+)\((.*)\)\s+=\s+(-?\d+|\?)(?:\s+([A-Z0-9_]+))?.*$")


def unescape(s):
    """a C string as printed by strace (without the quotes) -> bytes"""
    out = bytearray()
    i = 0
    while i < len(s):
        c = s[i]
        if c != "\\":
            out.extend(c.encode("utf-8", "surrogateescape")); i += 1; continue
        i += 1
        c = s[i]
        simple = {"n": 10, "t": 9, "r": 13, "v": 11, "f": 12, "\\": 92, '"': 34, "a": 7, "b": 8, "e": 27}
        if c in simple:
            out.append(simple[c]); i += 1
        elif c == "x":
            out.append(int(s[i + 1:i + 3], 16)); i += 3
        elif c in "01234567":
            j = i
            while j < len(s) and j < i + 3 and s[j] in "01234567":
                j += 1
            out.append(int(s[i:j], 8) & 0xff); i = j
        else:
            out.append(ord(c)); i += 1
    return bytes(out)


def split_args(a):
    """top-level comma split of a strace argument list; strings and brackets respected"""
    args, cur, depth, instr, esc = [], [], 0, False, False
    for ch in a:
        if instr:
            cur.append(ch)
            if esc:
                esc = False
            elif ch == "\\":
                esc = True
            elif ch == '"':
                instr = False
            continue
        if ch == '"':
            instr = True; cur.append(ch)
        elif ch in "([{":
            depth += 1; cur.append(ch)
        elif ch in ")]}":
            depth -= 1; cur.append(ch)
        elif ch == "," and depth == 0:
            args.append("".join(cur).strip()); cur = []
        else:
            cur.append(ch)
    if cur:
        args.append("".join(cur).strip())
    return args


def cstr(arg):
    m = re.match(r'^"(.*)"(\.\.\.)?$', arg, re.S)
    return unescape(m.group(1)) if m else None


def merged_calls(path):
    """yield (tid, name, args, ret, errno) in completion order, unfinished/resumed merged"""
    pending = {}
    for raw in open(path, encoding="utf-8", errors="surrogateescape"):
        m = LINE.match(raw.rstrip("\n"))
        if not m:
            continue
        tid, rest = m.group(1), m.group(2)
        if rest.endswith("<unfinished ...>"):
            pending[tid] = rest[:-len("<unfinished ...>")].rstrip()
            continue
        m2 = re.match(r"^<\.\.\. ([a-z0-9_]+) resumed>(.*)$", rest)
        if m2:
            rest = pending.pop(tid, m2.group(1) + "(") + m2.group(2).lstrip()
        c = CALL.match(rest)
        if not c:
            continue
        yield tid, c.group(1), split_args(c.group(2)), c.group(3), c.group(4)


class Parser:
    """maps the system calls of one traced process tree to the model's alphabet. Only objects
    below `root` are kept; descriptors are resolved to the path they were opened with."""
    def __init__(self, root):
        self.root = root.encode()
        self.fds = {}            # fd -> relative path (bytes) at open
        self.segments = []       # list of (label, [token], [rendered])
        self.cur = None
        self.unknown = 0

    def rel(self, p):
        if p == self.root:
            return b""
        if p.startswith(self.root + b"/"):
            return p[len(self.root) + 1:]
        return None

    @staticmethod
    def hexp(rel):
        return "/" if rel == b"" else rel.hex()

    def emit(self, tok, rendered, errno):
        if self.cur is None:
            return
        self.cur[1].append(tok)
        self.cur[2].append(rendered + "=" + (errno if errno else "ok"))

    def feed(self, name, args, ret, errno):
        ok = errno is None and ret not in ("?",)
        if name == "write" and args and args[0] == "2":
            s = cstr(args[1]) or b""
            if s.startswith(b"C13MARK "):
                lab = s[8:].strip().decode()
                if lab.startswith("begin "):
                    self.cur = (lab[6:], [], [])
                elif lab.startswith("end ") and self.cur is not None:
                    self.segments.append(self.cur); self.cur = None
                else:
                    self.segments.append(("mark:" + lab, [], []))
            return
        if name in ("openat", "open"):
            a = args[1:] if name == "openat" else args
            p = cstr(a[0])
            if p is None:
                return
            r = self.rel(p)
            if r is None:
                return
            flags = a[1]
            fd = int(ret) if ok else -1
            h = self.hexp(r)
            if "O_DIRECTORY" in flags:
                kind = "opendir"
            elif "O_CREAT" in flags and "O_EXCL" in flags:
                kind = "creat"
            elif "O_CREAT" in flags or "O_WRONLY" in flags or "O_RDWR" in flags or "O_TRUNC" in flags:
                kind = "unmodelled-open"; self.unknown += 1
            else:
                kind = "open"
            if ok:
                self.fds[fd] = r
            self.emit("%s:%s:%d" % (kind, h, fd), "%s:%s" % (kind, h), errno)
            return
        if name in ("newfstatat", "stat", "lstat"):
            a = args[1:] if name == "newfstatat" else args
            p = cstr(a[0])
            if p is None or p == b"":
                return                                   # fstat of a descriptor
            r = self.rel(p)
            if r is None:
                return
            self.emit("stat:%s" % self.hexp(r), "stat:%s" % self.hexp(r), errno)
            return
        if name in ("rename", "renameat", "renameat2"):
            ps = [cstr(x) for x in args if x.startswith('"')]
            if len(ps) != 2:
                return
            ra, rb = self.rel(ps[0]), self.rel(ps[1])
            if ra is None and rb is None:
                return
            ha = self.hexp(ra) if ra is not None else "outside"
            hb = self.hexp(rb) if rb is not None else "outside"
            self.emit("rename:%s:%s" % (ha, hb), "rename:%s:%s" % (ha, hb), errno)
            return
        if name in ("mkdir", "mkdirat", "unlink", "unlinkat", "rmdir"):
            ps = [cstr(x) for x in args if x.startswith('"')]
            if not ps:
                return
            r = self.rel(ps[0])
            if r is None:
                return
            k = {"mkdir": "mkdir", "mkdirat": "mkdir", "unlink": "unlink", "rmdir": "rmdir"}.get(name)
            if name == "unlinkat":
                k = "rmdir" if "AT_REMOVEDIR" in args[-1] else "unlink"
            self.emit("%s:%s" % (k, self.hexp(r)), "%s:%s" % (k, self.hexp(r)), errno)
            return
        if name in ("fchmod", "write", "read", "fsync", "fdatasync", "close", "ioctl", "pwrite64", "ftruncate", "fchmodat"):
            try:
                fd = int(args[0])
            except (ValueError, IndexError):
                return
            if fd not in self.fds:
                return
            h = self.hexp(self.fds[fd])
            if name == "fchmod":
                mode = int(args[1], 8)
                self.emit("fchmod:%d:%d" % (fd, mode), "fchmod:%s:%d" % (h, mode), errno)
            elif name == "write":
                n = int(args[-1])
                if ok:
                    n = int(ret)                            # a short write: what went through
                    self.emit("write:%d:%d" % (fd, n), "write:%s:%d" % (h, n), errno)
                else:                                       # no effect on the state; the model has no such call
                    self.emit("wfail:%d:%d" % (fd, n), "wfail:%s:%d" % (h, n), errno)
            elif name == "read":
                n = int(args[-1])
                self.emit("read:%d:%d" % (fd, n), "read:%s:%d" % (h, n), errno)
            elif name in ("fsync", "fdatasync"):
                self.emit("fsync:%d" % fd, "fsync:%s" % h, errno)
            elif name == "close":
                self.emit("close:%d" % fd, "close:%s" % h, errno)
                if ok:
                    del self.fds[fd]
            elif name == "ioctl":
                if "FS_IOC_SETFLAGS" in args[1]:
                    imm = 1 if "FS_IMMUTABLE_FL" in args[2] else 0
                    self.emit("setflags:%d:%d" % (fd, imm), "setflags:%s:%d" % (h, imm), "ignored")
            else:
                self.unknown += 1
                self.emit("unmodelled-%s:%d" % (name, fd), "unmodelled-%s:%s" % (name, h), errno)
            return


def strace_run(hexe, mode, script, workdir):
    """runs the harness helper under strace; returns (stdout lines, Parser) or raises"""
    root = tempfile.mkdtemp(prefix="root-", dir=workdir)
    out = os.path.join(workdir, "strace_%s_%s.txt" % (mode, script))
    cmd = ["strace", "-f", "-s", "64", "-e", "trace=%file,%desc,fsync,fdatasync,rename,renameat,renameat2,mkdir,mkdirat",
           "-o", out, hexe, "-mode=" + mode, "-script=" + script, "-root=" + root, "-scratch=" + workdir]
    p = subprocess.run(cmd, stdout=subprocess.PIPE, stderr=subprocess.PIPE, timeout=300, env=L.env())
    if p.returncode != 0:
        cleanup_tree(root)
        raise RuntimeError("strace/helper failed rc=%d%s: %s" % (
            p.returncode, " (an operation of the script did not return within 60 s)" if p.returncode == 3 else "",
            p.stderr.decode("utf-8", "replace")[-1500:]))
    ps = Parser(root)
    for (tid, name, args, ret, errno) in merged_calls(out):
        ps.feed(name, args, ret, errno)
    lines = [l for l in p.stdout.decode().split("\n") if "|=>|" in l]
    cleanup_tree(root)
    return lines, ps, out


def cleanup_tree(d):
    try:                                      # a tmpfs of the write-fault stage that outlived its process
        below = [l.split()[1] for l in open("/proc/mounts") if l.split()[1].startswith(d.rstrip("/") + "/")]
    except OSError:
        below = []
    for m in sorted(below, reverse=True):
        subprocess.run(["umount", "-l", m.replace("\\040", " ")], stdout=subprocess.DEVNULL, stderr=subprocess.DEVNULL)
    subprocess.run(["chattr", "-R", "-i", d], stdout=subprocess.DEVNULL, stderr=subprocess.DEVNULL)
    shutil.rmtree(d, ignore_errors=True)


def model_trace_input(lines, ps, raw_ops=()):
    """the input for the model driver: reset line, then one tr/raw line per operation"""
    segs = [s for s in ps.segments if not s[0].startswith("mark:")]
    inp, meta = [lines[0]], []
    ops = lines[1:]
    oi = 0
    for (lab, toks, rend) in segs:
        idx = int(lab)
        if idx in raw_ops:
            inp.append("raw|%s|=>|x" % ";".join(toks))
            meta.append(("raw", idx, toks, rend, None))
            continue
        l = ops[oi]; oi += 1
        op, a, r = D.split_line(l)
        cls = r.split("|")[0]
        if op == "up":
            inp.append("tr|up|%s|%s|%s|%s|%s|=>|x" % (a[0], a[1], a[2], cls, ";".join(toks)))
        elif op == "upf":     # an upload with a write fault after a[3] bytes
            inp.append("trf|%s|%s|%s|%s|%s|%s|=>|x" % (a[0], a[1], a[2], a[3], cls, ";".join(toks)))
        elif op == "discard":
            inp.append("tr|discard|%s|-|0|%s|%s|=>|x" % (a[0], cls, ";".join(toks)))
        else:
            inp.append("tr|fetch|%s|-|0|%s|%s|=>|x" % (a[0], cls, ";".join(toks)))
        meta.append((op, idx, toks, rend, l))
    return inp, meta


def run_trace_model(mexe, inp):
    ml, err = D.run_model(mexe, "\n".join(inp) + "\n", timeout=600)
    if ml is None:
        return None, err
    res = {"pred": {}, "obsr": {}, "mon": {}}
    k = -1
    for l in ml:
        if not l:
            continue
        op, a, r = D.split_line(l)
        if op in res:
            res[op][int(a[0])] = r
    return res, ""


# ------------------------------------------------------------------------------------------
# write faults: the harness' -mode=wfault (a process of its own, see harness/fs/wfault.go)
# ------------------------------------------------------------------------------------------

def wfault_stage(res, hexe, workdir, seed, tier, wf, notes):
    """uploads through the real LocalBackend / durable.WriteFile while write(2) on the temporary
    file fails partway (RLIMIT_FSIZE with SIGXFSZ ignored; a full tmpfs). Monitors only: the Coq
    system-call model has no failing write on a regular file."""
    n = 60 if tier == "quick" else 1500
    rc, out, dt = L.run([hexe, "-mode=wfault", "-seed=%d" % seed, "-n=%d" % n, "-scratch=" + workdir], timeout=900)
    wf["wall_s"] = round(dt, 2)
    if rc != 0:
        p = L.write_replay(PROP, "wfault_failure.txt", "write-fault mode of the harness failed (rc=%d)\n%s" % (rc, out[-6000:]))
        res.violation(p, "write-fault stage did not run to completion", no_input=True)
        return []
    mons = [l for l in out.split("\n") if l.startswith("mon_") and "|=>|" in l]
    for l in out.split("\n"):
        f = l.split("|")
        if f[0] == "stat" and len(f) == 3:
            wf["stats"][f[1]] = int(f[2])
        elif f[0] == "obs" and len(f) >= 3:
            wf["observations"][f[1]] = wf["observations"].get(f[1], 0) + 1
            if wf["observations"][f[1]] == 1:
                notes.append("write-fault stage: %s: %s" % (f[1], "|".join(f[2:])[:300]))
    bad, seen = [], set()
    for l in mons:
        op, args, r = D.split_line(l)
        wf["monitors"][op] = wf["monitors"].get(op, 0) + 1
        if r != "holds":
            wf["monitor_failures"] += 1
            if op not in seen:                # one replay per monitor, the first (scripted) case
                seen.add(op); bad.append(l)
    for l in bad[:4]:
        op, args, r = D.split_line(l)
        p = L.write_replay(PROP, "monitor_%s_%s.txt" % (op, L.digest(l)),
                           "property monitor %s failed on the implementation\n"
                           "case fields: api|fault|limit(bytes let through)|key(hex)|previous object|previous immutable|data|immutable|neighbours|outcome of the faulted call\n"
                           "input (harness line, replay with ./check %s --replay <this file>):\n%s\n" % (op, PROP, l))
        res.violation(p, "monitor %s: %s" % (op, r[:260]))
    if not wf["stats"].get("failed_operations") and not bad:
        notes.append("write-fault stage: no operation failed (fault injection ineffective here?): monitors mon_wfault_intact/tmp/retry were vacuous in this run")
    return mons


# ------------------------------------------------------------------------------------------
# vm_compute cross-check of whole groups
# ------------------------------------------------------------------------------------------

def coq_data(spec):
    if spec.startswith("g"):
        n, sd = spec[1:].split(".")
        return "(gen_data %s%%N %s%%N)" % (n, sd)
    return D.coq_bytes(spec)


def group_cases(work, rnd, maxcases):
    groups, cur = [], None
    for l in work:
        op, a, r = D.split_line(l)
        if op == "reset":
            cur = [l]; groups.append(cur)
        elif cur is not None:
            cur.append(l)
    cases = []
    rnd.shuffle(groups)
    for g in groups:
        if len(cases) >= maxcases:
            break
        op, a, r = D.split_line(g[0])
        cap, mk = a[0] == "1", a[1] == "1"
        ops, exp, ok = [], [], True
        for l in g[1:7]:
            op, a, r = D.split_line(l)
            if len(l) > 900:
                ok = False; break
            if op == "up":
                if a[1].startswith("g") and int(a[1][1:].split(".")[0]) > 400:
                    ok = False; break
                ops.append("RUp %s %s %s" % (D.coq_bytes(a[0]), coq_data(a[1]), "true" if a[2] == "1" else "false"))
            elif op == "fetch":
                ops.append("RFetch %s" % D.coq_bytes(a[0]))
            elif op == "discard":
                ops.append("RDiscard %s" % D.coq_bytes(a[0]))
            else:
                ok = False; break
            exp.append(r)
        if not ok or not ops:
            continue
        term = "(run_group %s %s [%s])" % ("true" if cap else "false", "true" if mk else "false", "; ".join(ops))
        cases.append((term, "\n".join(exp)))
    return cases


# ------------------------------------------------------------------------------------------

TRUSTED = [
    "Coq 8.16.1 kernel (coqc; vm_compute for the refutation witnesses, the Examples and the per-run cross-check)",
    "extraction (ExtrOcamlBasic only) + ocaml/util.ml + ocaml/fs.ml (parsing of the trace tokens, spec bookkeeping of the crash monitor)",
    "POSIX rename(2) atomicity (a rename inside one directory is one pending entry operation that is kept or lost as a whole) and fsync(2) semantics as modelled in FS/Model.v: fsync(file) persists the contents, fsync(directory) persists that directory's entries and nothing else; no fsync errors (cf. the BUG note in internal/durable); un-synced entry operations are lost independently, un-synced file contents arbitrarily",
    "the immutable inode flag is best effort (internal/immutable ignores the ioctl result): modelled as a boolean capability reported by the harness probe; durability of the flag itself and other inode flags are not modelled (note: FS_IOC_SETFLAGS with only FS_IMMUTABLE_FL clears all other flags of the inode, e.g. ext4's extent flag)",
    "no symbolic links inside (or as a component of) the configured directory: path components resolve literally",
    "the strace parser of checks/c13.py (merging of unfinished/resumed lines, C-string unescaping, descriptor-to-path resolution; cross-checked against the model's own rendering of the observed trace)",
    "write-fault stage: the kernel's RLIMIT_FSIZE / tmpfs-full behaviour stands in for every write(2) error (disk full, quota, EIO) at that point of the system-call sequence; the injection is probed independently of the code under test (a plain os.WriteFile must fail with EFBIG after exactly `limit` bytes)",
    "Go harness harness/fs (generators, error classes, digest = length + adler32 over the whole contents up to 64 KiB and over the first and last 32 KiB above; the monitors compare whole contents)",
    "model FS/Model.v is a hand transcription of local.go / durable/path.go / immutable_linux.go and of os.Rename, os.Remove, os.CreateTemp (retry loop abstracted: the suffix of the successful attempt is an oracle), filepath.Localize, fs.ValidPath, utf8.ValidString of Go 1.25; directories are identified by their path (they are never renamed by this code); rmdir followed by mkdir of the same path before a sync conflates the two directories' durable entries (only reachable through Discard of a directory key)",
]


def main(tier, seed, replay):
    res = L.Result(PROP, tier, seed)
    ok, cov = L.proof_stage(res, PROP, PROP_V, thorough=(tier == "thorough"))
    hexe, hlog = L.build_harness("fs")
    if hexe is None:
        p = L.write_replay(PROP, "harness_build.txt", "the correspondence harness no longer compiles against /repo's working tree\n" + hlog[-6000:])
        res.violation(p, "harness build failed", no_input=True)
    L.coq_make(["FS/Run.vo"])     # Extract/Fs.v needs it; it is not in the closure of Properties/C13.v
    mexe, mlog = L.build_model("fs", "Extract/Fs.v", "fs.ml")
    if mexe is None and ok:
        p = L.write_replay(PROP, "model_build.txt", mlog[-6000:])
        res.violation(p, "model extraction/build failed", no_input=True)
    st, work, mlines, ncross = {}, [], [], 0
    tr = {"scripts": 0, "ops": 0, "calls": 0, "matching_ops": 0, "monitor_ok": 0, "crash_monitor_failures": 0,
          "mutants": 0, "mutants_detected": 0, "candidate": None, "unmodelled_calls": 0}
    notes = []
    wf = {"stats": {}, "monitors": {}, "monitor_failures": 0, "observations": {}, "wall_s": 0}
    wmons = []
    workdir = tempfile.mkdtemp(prefix="c13-", dir=L.BUILD)
    try:
        if hexe and mexe:
            # ---- (a) differential + (c) monitors ----
            n = 400 if tier == "quick" else 4000
            args = ["-seed=%d" % seed, "-n=%d" % n, "-scratch=" + workdir] + (["-big"] if tier == "thorough" else [])
            extra = []
            if replay:
                replay = os.path.abspath(replay)
                args = ["-mode=replay", "-file=" + replay, "-scratch=" + workdir]
            corpus = os.path.join(L.VERIF, "corpus", PROP)
            st, work, mlines = D.differential(res, PROP, hexe, args, mexe, extra_inputs=extra)
            if os.path.isdir(corpus) and not replay:
                for f in sorted(os.listdir(corpus)):
                    st2, w2, m2 = D.differential(res, PROP, hexe, ["-mode=replay", "-file=" + os.path.join(corpus, f), "-scratch=" + workdir], mexe)
                    st["lines"] = st.get("lines", 0) + st2.get("lines", 0); work += w2; mlines += m2
            rnd = random.Random(seed)
            cases = group_cases(mlines, rnd, 8 if tier == "quick" else 60)
            ncross = D.vm_crosscheck(res, PROP, cases, "From SL Require Import Base.Bytes FS.Model FS.Run.\nImport ListNotations.")
            # ---- (b) system-call trace validation + crash monitor ----
            if not replay:
                trace_stage(res, hexe, mexe, workdir, tr, notes, tier)
        if hexe and not replay:
            # ---- (d) write faults against the real code (monitors only; needs no model) ----
            wmons = wfault_stage(res, hexe, workdir, seed, tier, wf, notes)
    finally:
        cleanup_tree(workdir)
    if not ok and not res.violations:
        res.violation(getattr(res, "coq_failure", L.write_replay(PROP, "coq_failure.txt", "proof stage failed")),
                      "theorems of %s no longer check; differential run, trace validation and monitors found no failing input" % PROP_V, no_input=True)
    elif not ok:
        print("# note: the Coq proof stage also failed: %s" % getattr(res, "coq_failure", "?"))
    for nline in notes:
        print("# note: " + nline)
    distinct = len(set(work))
    nontrivial = len(set(l for l in work if not l.startswith("reset") and "|badkey" not in l))
    keyclasses = {}
    for l in work:
        op, a, r = D.split_line(l)
        if op == "up":
            c = r.split("|")[0]
            keyclasses["up:imm=%s:%s" % (a[2], c)] = keyclasses.get("up:imm=%s:%s" % (a[2], c), 0) + 1
    cov.update({
        "evaluations": st.get("lines", 0) + tr["ops"] + len(wmons), "distinct_nontrivial": nontrivial + len(set(wmons)),
        "rule": "one evaluation = one backend operation (Upload/Fetch/Discard) executed by the real LocalBackend in a scratch directory and replayed by the extracted model (result class + the whole resulting directory tree with content digests must be identical), or one monitor run, or one traced operation, or one monitor verdict on an upload executed with an injected write fault; scripted part: new file, overwrite, immutable same/different/empty/3 MiB, chunk-boundary sizes, nested new directories, file-vs-directory conflicts, mutable-over-immutable, key syntax (.., absolute, a//b, trailing slash, NUL, invalid UTF-8, backslash, 200/255/256-byte names, \".\"), missing backend directory; generated part: structured keys with collisions, malformed/mutated keys, contents related to earlier contents; non-trivial = not a reset and not rejected as a bad key",
        "traces_validated_against_impl": tr["matching_ops"], "distinct_cases": distinct,
        "impl_property_monitors": st.get("monitors", 0), "monitor_failures": st.get("monitor_failures", 0),
        "model_impl_differences": st.get("diffs", 0), "vm_compute_crosschecked_groups": ncross,
        "op_distribution": st.get("ops", {}), "upload_result_distribution": keyclasses,
        "result_distribution": st.get("results", {}),
        "syscall_trace_validation": tr,
        "write_fault_injection": dict(wf, what="LocalBackend.Upload / durable.WriteFile executed by the real code while write(2) on the temporary file fails after `limit` bytes (RLIMIT_FSIZE + ignored SIGXFSZ: EFBIG; tmpfs of `limit` bytes in a private mount namespace: ENOSPC); limits 0, 1, size-1, page multiples, random, and controls with no fault; sizes 1 byte .. 3 MiB; mutable overwrite / first immutable upload / new nested directories / immutable object present; monitors only (FS/Model.v has no failing write on a regular file: its write_file propagates a write error, but step never produces one), so these cases are not replayed by the model"),
        "samples": [l[:300] for l in work[1:4]] + [l[:300] for l in work if l.startswith("discard")][:1] + cov.get("theorems", [])[:2],
        "trusted_base": TRUSTED + ["repo " + L.repo_rev()],
    })
    return res.finish(cov, [
        "single-writer hypothesis of C13_upload_durable / C13_mkdir_durable (every reachable directory durably reachable at the start): holds initially, after a crash (C13_crash_wf) and after every completed MkdirAll; refuted for concurrent writers (C13_concurrent_mkdir_refuted, C13_concurrent_same_key_refuted)",
        "POSIX rename atomicity and fsync semantics as modelled; no fsync errors; no symbolic links; immutable inode flag best effort",
        "atomicity at the level of Upload is proved when the object's directory exists (C13_upload_atomic_existing_dir) and at the level of durable.WriteFile in general; for new nested directories it is checked on observed traces by the crash monitor",
    ])


MUTANTS = [
    ("no-fsync-of-file", lambda t: [x for x in t if not (x.startswith("fsync:") and x.split(":")[1] == creat_fd(t))]),
    ("no-fsync-of-directory", lambda t: drop_last(t, lambda x: x.startswith("fsync:") and x.split(":")[1] != creat_fd(t))),
    ("rename-before-fsync-of-file", lambda t: move_rename_before_file_fsync(t)),
]


def creat_fd(t):
    for x in t:
        if x.startswith("creat:"):
            return x.split(":")[2]
    return "?"


def drop_last(t, pred):
    idx = [i for i, x in enumerate(t) if pred(x)]
    if not idx:
        return t
    return t[:idx[-1]] + t[idx[-1] + 1:]


def move_rename_before_file_fsync(t):
    fd = creat_fd(t)
    ri = [i for i, x in enumerate(t) if x.startswith("rename:")]
    fi = [i for i, x in enumerate(t) if x == "fsync:" + fd]
    if not ri or not fi:
        return t
    r = t[ri[0]]
    t2 = t[:ri[0]] + t[ri[0] + 1:]
    return t2[:fi[0]] + [r] + t2[fi[0]:]


def trace_stage(res, hexe, mexe, workdir, tr, notes, tier):
    scripts = [("helper", "basic", ()), ("helper", "nodir", ()), ("helper", "big", ()), ("helper", "wfault", ()), ("race", "standin", (0,))]
    for (mode, script, raw_ops) in scripts:
        try:
            lines, ps, sfile = strace_run(hexe, mode, script, workdir)
        except Exception as ex:
            p = L.write_replay(PROP, "strace_failure_%s.txt" % script, "could not obtain a system-call trace: %s" % ex)
            res.violation(p, "strace stage did not run (%s)" % script, no_input=True)
            continue
        tr["scripts"] += 1
        crash_reported = False    # later operations of a script inherit the damage: one replay per script
        tr["unmodelled_calls"] += ps.unknown
        inp, meta = model_trace_input(lines, ps, raw_ops)
        out, err = run_trace_model(mexe, inp)
        if out is None:
            p = L.write_replay(PROP, "trace_model_failure.txt", err)
            res.violation(p, "extracted model did not run on the observed trace: " + err[:200], no_input=True)
            continue
        for k, (op, idx, toks, rend, line) in enumerate(meta):
            tr["ops"] += 1
            tr["calls"] += len(toks)
            full = ";".join(rend)
            # a failed write(2) is no event of the model (it has no effect on the state)
            observed = ";".join(x for x in rend if not x.startswith("wfail:"))
            pred, obsr, mon = out["pred"].get(k, "?"), out["obsr"].get(k, "?"), out["mon"].get(k, "?")
            what = "script %s operation %d (%s)" % (script, idx, (line or "stand-in for the suspended writer A")[:160])
            replay_txt = "%s\nobserved system calls (fds resolved):\n  %s\nmodel's prediction:\n  %s\nmodel input line:\n%s\n" % (
                what, full.replace(";", "\n  "), pred.replace(";", "\n  "), inp[k + 1][:2000])
            if obsr != observed:
                p = L.write_replay(PROP, "parser_%s_%d.txt" % (script, idx), "strace parser and model render the observed trace differently\n" + replay_txt + "\nmodel rendering of the observed trace:\n  " + obsr.replace(";", "\n  "))
                res.violation(p, "trace parser cross-check failed", no_input=True)
            is_candidate = (mode == "race" and op == "up")
            if mon != "ok":
                tr["crash_monitor_failures"] += 1
                if is_candidate:
                    tr["candidate"] = mon
                elif crash_reported:
                    pass
                else:
                    crash_reported = True
                    p = L.write_replay(PROP, "crash_%s_%d.txt" % (script, idx),
                                       "the crash monitor found a power-loss point of the OBSERVED system-call trace of /repo after which the property fails:\n%s\n%s" % (mon, replay_txt))
                    res.violation(p, "durable_ok false: " + mon[:200])
            else:
                tr["monitor_ok"] += 1
            if op == "upf":
                tr["write_fault_ops"] = tr.get("write_fault_ops", 0) + 1
            if op in ("up", "upf", "discard"):
                if pred == observed:
                    tr["matching_ops"] += 1
                elif mon == "ok" or is_candidate:
                    p = L.write_replay(PROP, "trace_%s_%d.txt" % (script, idx),
                                       "the system-call trace of /repo differs from the model's prediction; the crash monitor found no crash point of the observed trace on which the property fails\n" + replay_txt)
                    res.violation(p, "system-call trace correspondence broken (%s op %d)" % (script, idx), no_input=True)
        # mutation self-test of the monitor on the first successful new-file upload of the script
        if mode == "helper" and script == "basic":
            k0 = next((k for k, m in enumerate(meta) if m[0] == "up" and any(t.startswith("creat:") for t in m[2])), None)
            if k0 is not None:
                for (mname, f) in MUTANTS:
                    toks = f(list(meta[k0][2]))
                    op, a, r = D.split_line(meta[k0][4])
                    inp2 = inp[:k0 + 1] + ["tr|up|%s|%s|%s|ok|%s|=>|x" % (a[0], a[1], a[2], ";".join(toks))]
                    out2, err2 = run_trace_model(mexe, inp2)
                    tr["mutants"] += 1
                    if out2 is not None and out2["mon"].get(k0, "ok") != "ok":
                        tr["mutants_detected"] += 1
                    else:
                        p = L.write_replay(PROP, "monitor_selftest_%s.txt" % mname, "the crash monitor did not report the seeded defect %s\n%s" % (mname, "\n".join(inp2)[:3000]))
                        res.violation(p, "crash monitor self-test failed (%s)" % mname, no_input=True)
    # the candidate finding of DESIGN.md 0.3
    if tr["candidate"]:
        what = ("%s: an Upload into a directory that a concurrent Upload has created but not yet made durable returns before "
                "that directory is durably linked (durable.MkdirAll returns at once when Stat finds the directory); observed on /repo "
                "with writer A suspended after mkdirat: %s" % (CANDIDATE, tr["candidate"][:300]))
        kf = [f for f in L.known_findings() if f.get("property") == PROP and f.get("status") == "known" and CANDIDATE.startswith(f.get("match", "\0"))]
        if kf:
            res.known.append(kf[0]["what"])
        else:
            notes.append("finding reported to the coordinator, not (yet) listed in known_findings.json: " + what)
    else:
        notes.append("the concurrent-MkdirAll schedule (theorem C13_concurrent_mkdir_refuted) did not reproduce on /repo in this run")
