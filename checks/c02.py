"""C02 — see DESIGN.md section 5 (C02) and coq/Properties/C02.v"""
from checks import seqcheck

def main(tier, seed, replay):
    return seqcheck.main("C02", "Properties/C02.v", tier, seed, replay, scenarios=['basic','faults','crash','boundary','cache','pool','midround','straddle','storm'],
                         own_prefixes=tuple("C02".split(",")))
