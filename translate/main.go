// translate: a deliberately small translator from straight-line golang.org/x/crypto/cryptobyte
// Builder code to Gallina terms over SL.Base.Cryptobyte (builder, b_empty, b_add, add_u, add_lp).
// It is run on /repo's CURRENT source by the checks, so the generated definitions (coq/Gen/*.v) say
// what the code says now; theorems in coq/Properties relate them to the hand-written model.
//
// Accepted subset (anything else aborts with a non-zero exit and a message naming the construct):
//
//	b := &cryptobyte.Builder{}
//	b.AddUint8|16|24|32|64(<int literal> | <param> | <param>.<field> | uintN(<that>))
//	b.AddBytes(<param> | <param>.<field> | <that>[:])
//	b.AddUint8|16|24|32LengthPrefixed(func(b *cryptobyte.Builder) { <statements> })
//	if [!]<bool param or field> { <statements> } else { <statements> }
//	b := cryptobyte.NewBuilder(<param>);  if … { … } without else;
//	for _, f := range <field> { b.AddBytes(f[:]) }
//	helper(b, ...)   — an opaque builder transformer: becomes a parameter g_<helper> : builder -> builder
//	return <expr>   — recorded textually (the theorem states which wrapper is expected)
//
// usage: translate <out.v> <file.go>:<func>:<gallina name> ...
package main

import (
	"bytes"
	"fmt"
	"go/ast"
	"go/parser"
	"go/printer"
	"go/token"
	"os"
	"sort"
	"strconv"
	"strings"
)

type tr struct {
	fset   *token.FileSet
	recv   string            // receiver name, "" for plain functions
	params map[string]string // Go name (or recv.Field) -> Gallina binder
	order  []string          // binders in order of first use
	types  map[string]string
	frag   bool // start at the builder declaration, stop at `x, err := b.Bytes()` (text after it is recorded)
}

func fail(fset *token.FileSet, n ast.Node, msg string) {
	var b bytes.Buffer
	printer.Fprint(&b, fset, n)
	fmt.Fprintf(os.Stderr, "translate: unsupported construct (%s) at %s: %s\n", msg, fset.Position(n.Pos()), b.String())
	os.Exit(2)
}

func (t *tr) binder(n ast.Expr, typ string) string {
	var key string
	switch x := n.(type) {
	case *ast.Ident:
		key = x.Name
	case *ast.SelectorExpr:
		id, ok := x.X.(*ast.Ident)
		if !ok || !(id.Name == t.recv || t.params[id.Name] != "") {
			fail(t.fset, n, "selector on something that is neither the receiver nor a parameter")
		}
		key = x.Sel.Name
	case *ast.SliceExpr:
		if x.Low != nil || x.High != nil || x.Max != nil {
			fail(t.fset, n, "slice with bounds")
		}
		return t.binder(x.X, typ)
	case *ast.CallExpr: // uintN(x) conversions
		if id, ok := x.Fun.(*ast.Ident); ok && strings.HasPrefix(id.Name, "uint") && len(x.Args) == 1 {
			return t.binder(x.Args[0], typ)
		}
		fail(t.fset, n, "call in argument position")
	default:
		fail(t.fset, n, "argument")
	}
	name := "g_" + strings.ToLower(key)
	if old, ok := t.types[name]; ok && old != typ {
		fail(t.fset, n, "one variable used at two types")
	}
	if _, ok := t.types[name]; !ok {
		t.types[name] = typ
		t.order = append(t.order, name)
	}
	return name
}

var widths = map[string]int{"AddUint8": 1, "AddUint16": 2, "AddUint24": 3, "AddUint32": 4, "AddUint64": 8}
var lpWidths = map[string]int{"AddUint8LengthPrefixed": 1, "AddUint16LengthPrefixed": 2, "AddUint24LengthPrefixed": 3, "AddUint32LengthPrefixed": 4}

// stmts translates a statement list applied to the builder term cur
func (t *tr) stmts(list []ast.Stmt, cur string) (string, string) {
	ret := ""
	for i, s := range list {
		switch x := s.(type) {
		case *ast.DeclStmt:
			if src(t.fset, x) != "var b cryptobyte.Builder" {
				fail(t.fset, s, "declaration")
			}
		case *ast.AssignStmt:
			var b bytes.Buffer
			printer.Fprint(&b, t.fset, x)
			if b.String() == "b := &cryptobyte.Builder{}" {
				break
			}
			// x, err := b.Bytes(): the builder is finished; what follows only wraps the bytes
			if t.frag && len(x.Rhs) == 1 && src(t.fset, x.Rhs[0]) == "b.Bytes()" {
				var parts []string
				for _, r := range list[i:] {
					parts = append(parts, strings.Join(strings.Fields(src(t.fset, r)), " "))
				}
				return cur, strings.Join(parts, " ; ")
			}
			// b := cryptobyte.NewBuilder(x): the builder starts with the bytes of x
			if len(x.Lhs) == 1 && len(x.Rhs) == 1 && x.Tok == token.DEFINE {
				if id, ok := x.Lhs[0].(*ast.Ident); ok && id.Name == "b" {
					if call, ok := x.Rhs[0].(*ast.CallExpr); ok && len(call.Args) == 1 {
						var f bytes.Buffer
						printer.Fprint(&f, t.fset, call.Fun)
						if f.String() == "cryptobyte.NewBuilder" {
							cur = fmt.Sprintf("(Some %s)", t.binder(call.Args[0], "bytes"))
							break
						}
					}
				}
			}
			fail(t.fset, s, "assignment")
		case *ast.ExprStmt:
			call, ok := x.X.(*ast.CallExpr)
			if !ok {
				fail(t.fset, s, "expression statement")
			}
			if id, ok := call.Fun.(*ast.Ident); ok && len(call.Args) >= 1 {
				// helper(b, ...): an opaque builder transformer, a parameter of the generated term
				if a0, ok := call.Args[0].(*ast.Ident); !ok || a0.Name != "b" {
					fail(t.fset, s, "helper call whose first argument is not the builder b")
				}
				name := "g_" + strings.ToLower(id.Name)
				if _, seen := t.types[name]; !seen {
					t.types[name] = "builder -> builder"
					t.order = append(t.order, name)
				}
				cur = fmt.Sprintf("(%s %s)", name, cur)
				continue
			}
			sel, ok := call.Fun.(*ast.SelectorExpr)
			if !ok {
				fail(t.fset, s, "call of a plain function")
			}
			if id, ok := sel.X.(*ast.Ident); !ok || id.Name != "b" {
				fail(t.fset, s, "method call on something that is not the builder b")
			}
			m := sel.Sel.Name
			switch {
			case widths[m] > 0 && len(call.Args) == 1:
				if lit, ok := call.Args[0].(*ast.BasicLit); ok && lit.Kind == token.INT {
					v, err := strconv.ParseUint(lit.Value, 0, 64)
					if err != nil {
						fail(t.fset, s, "integer literal")
					}
					cur = fmt.Sprintf("(add_u %d %d%%N %s)", widths[m], v, cur)
				} else {
					cur = fmt.Sprintf("(add_u %d %s %s)", widths[m], t.binder(call.Args[0], "N"), cur)
				}
			case m == "AddBytes" && len(call.Args) == 1:
				cur = fmt.Sprintf("(b_add %s %s)", t.binder(call.Args[0], "bytes"), cur)
			case lpWidths[m] > 0 && len(call.Args) == 1:
				fl, ok := call.Args[0].(*ast.FuncLit)
				if !ok || len(fl.Type.Params.List) != 1 || len(fl.Type.Params.List[0].Names) != 1 || fl.Type.Params.List[0].Names[0].Name != "b" {
					fail(t.fset, s, "length-prefixed child that is not func(b *cryptobyte.Builder)")
				}
				inner, r := t.stmts(fl.Body.List, "b_empty")
				if r != "" {
					fail(t.fset, s, "return inside a child builder")
				}
				cur = fmt.Sprintf("(add_lp %d %s %s)", lpWidths[m], inner, cur)
			default:
				fail(t.fset, s, "builder method "+m)
			}
		case *ast.IfStmt:
			if x.Init != nil {
				fail(t.fset, s, "if with init")
			}
			// if <comparisons> { b.SetError(...); return }: the rest of this block runs only otherwise
			if len(x.Body.List) == 2 && x.Else == nil && strings.HasPrefix(src(t.fset, x.Body.List[0]), "b.SetError(") {
				if r, ok := x.Body.List[1].(*ast.ReturnStmt); ok && len(r.Results) == 0 {
					c := t.zcond(x.Cond)
					rest, r2 := t.stmts(list[i+1:], cur)
					if r2 != "" {
						fail(t.fset, s, "return after a SetError guard")
					}
					return fmt.Sprintf("(if %s then (b_set_error %s) else %s)", c, cur, rest), ""
				}
			}
			cond := ""
			switch c := x.Cond.(type) {
			case *ast.UnaryExpr:
				if c.Op != token.NOT {
					fail(t.fset, s, "condition")
				}
				cond = "negb " + t.binder(c.X, "bool")
			default:
				cond = t.binder(x.Cond, "bool")
			}
			a, r1 := t.stmts(x.Body.List, cur)
			b, r2 := cur, ""
			if x.Else != nil {
				eb, ok := x.Else.(*ast.BlockStmt)
				if !ok {
					fail(t.fset, s, "else if")
				}
				b, r2 = t.stmts(eb.List, cur)
			}
			if r1 != "" || r2 != "" {
				fail(t.fset, s, "return inside a branch")
			}
			cur = fmt.Sprintf("(if %s then %s else %s)", cond, a, b)
		case *ast.RangeStmt:
			// for _, f := range X { b.AddBytes(f[:]) }  ->  fold_left (fun acc f => b_add f acc) X cur
			v, okv := x.Value.(*ast.Ident)
			if x.Tok != token.DEFINE || !okv || len(x.Body.List) != 1 {
				fail(t.fset, s, "range loop")
			}
			if k, ok := x.Key.(*ast.Ident); !ok || k.Name != "_" {
				fail(t.fset, s, "range loop with an index variable")
			}
			var body bytes.Buffer
			printer.Fprint(&body, t.fset, x.Body.List[0])
			if body.String() != "b.AddBytes("+v.Name+"[:])" && body.String() != "b.AddBytes("+v.Name+")" {
				fail(t.fset, s, "range loop body")
			}
			cur = fmt.Sprintf("(fold_left (fun acc f => b_add f acc) %s %s)", t.binder(x.X, "list bytes"), cur)
		case *ast.ReturnStmt:
			var b bytes.Buffer
			for i, r := range x.Results {
				if i > 0 {
					b.WriteString(", ")
				}
				printer.Fprint(&b, t.fset, r)
			}
			ret = b.String()
		default:
			fail(t.fset, s, "statement")
		}
	}
	return cur, ret
}

// zcond: a condition over signed integers (Z): comparisons of a parameter/field with constants, joined by || and &&
func (t *tr) zcond(e ast.Expr) string {
	switch x := e.(type) {
	case *ast.ParenExpr:
		return t.zcond(x.X)
	case *ast.BinaryExpr:
		switch x.Op {
		case token.LOR:
			return "(" + t.zcond(x.X) + " || " + t.zcond(x.Y) + ")"
		case token.LAND:
			return "(" + t.zcond(x.X) + " && " + t.zcond(x.Y) + ")"
		}
		ops := map[token.Token]string{token.EQL: "(%s =? %s)%%Z", token.NEQ: "negb (%s =? %s)%%Z", token.LSS: "(%s <? %s)%%Z",
			token.GTR: "(%[2]s <? %[1]s)%%Z", token.LEQ: "(%s <=? %s)%%Z", token.GEQ: "(%[2]s <=? %[1]s)%%Z"}
		f, ok := ops[x.Op]
		if !ok {
			fail(t.fset, e, "operator in a condition")
		}
		return fmt.Sprintf(f, t.zval(x.X), t.zval(x.Y))
	}
	fail(t.fset, e, "condition")
	return ""
}

func (t *tr) zval(e ast.Expr) string {
	switch x := e.(type) {
	case *ast.BasicLit:
		if x.Kind == token.INT {
			v, err := strconv.ParseUint(x.Value, 0, 63)
			if err == nil {
				return fmt.Sprintf("%d", v)
			}
		}
	case *ast.BinaryExpr: // constant shifts such as 1<<40
		if x.Op == token.SHL {
			a, oka := x.X.(*ast.BasicLit)
			b, okb := x.Y.(*ast.BasicLit)
			if oka && okb {
				av, e1 := strconv.ParseUint(a.Value, 0, 63)
				bv, e2 := strconv.ParseUint(b.Value, 0, 63)
				if e1 == nil && e2 == nil && bv < 62 && av < 1<<(62-bv) {
					return fmt.Sprintf("%d", av<<bv)
				}
			}
		}
	case *ast.Ident, *ast.SelectorExpr:
		return t.binder(x.(ast.Expr), "Z")
	}
	fail(t.fset, e, "operand of a comparison (conversions are not accepted here)")
	return ""
}

// coqQuote renders a Coq string literal (a double quote is doubled; nothing else is escaped)
func coqQuote(s string) string { return "\"" + strings.ReplaceAll(s, "\"", "\"\"") + "\"" }

func main() {
	if len(os.Args) < 3 {
		fmt.Fprintln(os.Stderr, "usage: translate out.v file.go:func:name ...")
		os.Exit(2)
	}
	var out bytes.Buffer
	out.WriteString("(* GENERATED by /verif/translate from /repo's current source on every check run — do not edit.\n")
	out.WriteString("   Each definition is the cryptobyte.Builder term the named Go function builds, as a function of\n")
	out.WriteString("   the values it reads (g_<name>); gen_<f>_returns records the Go return expression. *)\n")
	out.WriteString("From SL Require Import Base.Bytes Base.Cryptobyte Base.ReaderGen.\nFrom Coq Require Import String List Bool.\nOpen Scope N_scope.\n\n")
	for _, spec := range os.Args[2:] {
		f := strings.Split(spec, ":")
		if len(f) != 3 && len(f) != 4 {
			fmt.Fprintln(os.Stderr, "bad spec", spec)
			os.Exit(2)
		}
		mode := ""
		if len(f) == 4 {
			mode = f[3]
		}
		fset := token.NewFileSet()
		file, err := parser.ParseFile(fset, f[0], nil, 0)
		if err != nil {
			fmt.Fprintln(os.Stderr, "translate:", err)
			os.Exit(2)
		}
		var fd *ast.FuncDecl
		for _, d := range file.Decls {
			if x, ok := d.(*ast.FuncDecl); ok && x.Name.Name == f[1] {
				fd = x
			}
		}
		if fd == nil {
			fmt.Fprintf(os.Stderr, "translate: function %s not found in %s\n", f[1], f[0])
			os.Exit(2)
		}
		if mode == "reader" {
			translateReader(&out, fset, file, fd, f[0], f[2])
			continue
		}
		t := &tr{fset: fset, params: map[string]string{}, types: map[string]string{}, frag: mode == "fragment"}
		if fd.Recv != nil && len(fd.Recv.List) == 1 && len(fd.Recv.List[0].Names) == 1 {
			t.recv = fd.Recv.List[0].Names[0].Name
		}
		for _, fl := range fd.Type.Params.List {
			for _, nm := range fl.Names {
				t.params[nm.Name] = "param"
			}
		}
		body := fd.Body.List
		if t.frag { // start at the declaration of the builder b
			start := -1
			for i, st := range body {
				if x := src(fset, st); x == "var b cryptobyte.Builder" || x == "b := &cryptobyte.Builder{}" {
					start = i
					break
				}
			}
			if start < 0 {
				fmt.Fprintf(os.Stderr, "translate: no builder declaration in %s\n", f[1])
				os.Exit(2)
			}
			body = body[start:]
		}
		term, ret := t.stmts(body, "b_empty")
		fmt.Fprintf(&out, "(* %s: func %s *)\nDefinition %s", f[0][strings.LastIndex(f[0], "/")+1:], f[1], f[2])
		sort.Strings(t.order) // binders in alphabetical order: a reordering of the Go code does not change the signature
		for _, n := range t.order {
			fmt.Fprintf(&out, " (%s : %s)", n, t.types[n])
		}
		fmt.Fprintf(&out, " : builder :=\n  %s.\n", term)
		fmt.Fprintf(&out, "Definition %s_returns : string := %s%%string.\n\n", f[2], coqQuote(ret))
	}
	if err := os.WriteFile(os.Args[1], out.Bytes(), 0o644); err != nil {
		fmt.Fprintln(os.Stderr, err)
		os.Exit(2)
	}
}
