module veriftranslate

go 1.21
