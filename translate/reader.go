// reader.go: the second half of the translator — golang.org/x/crypto/cryptobyte *String* (reader)
// code to Gallina. A function (or the fragment of it that starts at its first
// `x := cryptobyte.String(y)` statement, which may sit inside a closure) becomes a decision tree
// over a generated state record with one field per Go variable it writes:
//
//	Record <n>_st, setters <n>_set_<var>, <n>_zero (Go zero values),
//	Fixpoint <n>_loop<i> fuel st   — one per `for !x.Empty() { … }` loop (explicit fuel)
//	Definition <n> (helpers…) (params…) : outcome <n>_st
//
// outcome (Base/ReaderGen.v): Fail ret      — a `return` guarded by a condition that contains a read
//
//	                 (the state is not observable there: cryptobyte leaves a
//	                 partially advanced String behind a failed prefixed read)
//	Done ret st   — any other `return`, or the end of the fragment
//	NoFuel        — loop fuel exhausted (excluded by a lemma)
//
// Accepted subset (anything else ends the fragment if it is a whole statement at the top level of
// the translated block — its text is recorded in <n>_continues — and aborts inside nested code):
//
//	x := cryptobyte.String(<param or variable>)            var a, b T
//	if <d1> || <d2> || … { return … }                      di:  !r.ReadUintN(&v)  !r.ReadUintNLengthPrefixed(&v | (*cryptobyte.String)(&v))
//	                                                            !r.CopyBytes(a[:]) !r.ReadBytes(&v, n) !r.Skip(n) !r.Empty() r.Empty()
//	                                                            !helper(&r, &v)    v <op> <int literal | math.MaxInt64>
//	if <pure condition> { … } [else { … }]                 switch v { case <int>: … default: … }
//	for !r.Empty() { … }                                   v = intN(w)   v = true|false   v = append(v, w)   e = &T{}
//	return …
package main

import (
	"bytes"
	"fmt"
	"go/ast"
	"go/printer"
	"go/token"
	"os"
	"sort"
	"strconv"
	"strings"
)

type rvar struct {
	gname string // Gallina field suffix
	typ   string // bytes | N | bool | list bytes
	zero  string
	alen  int // array length for [k]byte variables, 0 otherwise
}

type rtr struct {
	fset        *token.FileSet
	name        string
	params      map[string]bool
	usedPar     map[string]string // Go param -> Gallina binder type
	vars        map[string]*rvar  // key: Go spelling (e.Certificate, s, f)
	structs     map[string]ast.Expr
	helpers     map[string]bool
	structNames map[string]bool
	loops       []string
	nk          int
}

func (t *rtr) fail(n ast.Node, msg string) {
	fail(t.fset, n, "reader: "+msg)
}

func src(fset *token.FileSet, n ast.Node) string {
	var b bytes.Buffer
	printer.Fprint(&b, fset, n)
	return b.String()
}

func (t *rtr) key(e ast.Expr) string {
	switch x := e.(type) {
	case *ast.Ident:
		return x.Name
	case *ast.SelectorExpr:
		if id, ok := x.X.(*ast.Ident); ok {
			return id.Name + "." + x.Sel.Name
		}
	case *ast.ParenExpr:
		return t.key(x.X)
	case *ast.SliceExpr:
		if x.Low == nil && x.High == nil {
			return t.key(x.X)
		}
	case *ast.UnaryExpr:
		if x.Op == token.AND {
			return t.key(x.X)
		}
	case *ast.CallExpr: // (*cryptobyte.String)(&v)
		if len(x.Args) == 1 && src(t.fset, x.Fun) == "(*cryptobyte.String)" {
			return t.key(x.Args[0])
		}
	}
	t.fail(e, "not a variable")
	return ""
}

// typeInfo maps a Go type expression to (Gallina type, zero value, array length)
func (t *rtr) typeInfo(e ast.Expr) (string, string, int) {
	s := src(t.fset, e)
	switch s {
	case "uint8", "uint16", "uint32", "uint64", "int64", "int":
		return "N", "0", 0
	case "bool":
		return "bool", "false", 0
	case "[]byte", "cryptobyte.String":
		return "bytes", "[]", 0
	}
	if strings.HasPrefix(s, "[][") && strings.HasSuffix(s, "]byte") {
		return "list bytes", "[]", 0
	}
	if strings.HasPrefix(s, "[") && strings.HasSuffix(s, "]byte") {
		n, err := strconv.Atoi(s[1 : len(s)-5])
		if err == nil {
			return "bytes", fmt.Sprintf("(zeros %d)", n), n
		}
	}
	t.fail(e, "type")
	return "", "", 0
}

func (t *rtr) variable(e ast.Expr, want string) *rvar {
	k := t.key(e)
	if t.params[k] {
		t.fail(e, "write to a parameter")
	}
	v := t.vars[k]
	if v == nil {
		v = &rvar{gname: strings.ToLower(strings.ReplaceAll(k, ".", "_"))}
		// a field: take type and zero value from the (unique) struct field of that name
		if i := strings.Index(k, "."); i >= 0 {
			if ft, ok := t.structs[k[i+1:]]; ok {
				v.typ, v.zero, v.alen = t.typeInfo(ft)
			}
		}
		if v.typ == "" {
			v.typ = want
			v.zero = map[string]string{"N": "0", "bytes": "[]", "bool": "false", "list bytes": "[]"}[want]
		}
		t.vars[k] = v
	}
	if want != "" && v.typ != want {
		t.fail(e, fmt.Sprintf("variable used at type %s and %s", v.typ, want))
	}
	return v
}

func (t *rtr) get(v *rvar) string { return fmt.Sprintf("(%s_%s st)", t.name, v.gname) }
func (t *rtr) set(v *rvar, val string, st string) string {
	return fmt.Sprintf("(%s_set_%s %s %s)", t.name, v.gname, val, st)
}

// source of a byte string: a parameter or a variable
func (t *rtr) bytesExpr(e ast.Expr) string {
	k := t.key(e)
	if t.params[k] {
		t.usedPar[k] = "bytes"
		return "g_" + strings.ToLower(k)
	}
	return t.get(t.variable(e, "bytes"))
}

var rdWidths = map[string]int{"ReadUint8": 1, "ReadUint16": 2, "ReadUint24": 3, "ReadUint32": 4, "ReadUint64": 8}
var rdLp = map[string]int{"ReadUint8LengthPrefixed": 1, "ReadUint16LengthPrefixed": 2, "ReadUint24LengthPrefixed": 3}

func intLit(e ast.Expr) (string, bool) {
	if l, ok := e.(*ast.BasicLit); ok && l.Kind == token.INT {
		v, err := strconv.ParseUint(l.Value, 0, 64)
		if err == nil {
			return fmt.Sprintf("%d", v), true
		}
	}
	return "", false
}

// disjunct: either a read (returns rd expression and a function building the updated state), or a pure condition
type disj struct {
	read   bool
	rd     string // option-valued Gallina expression (reads from st)
	upd    string // state after a successful read, over v0 r0 st
	single bool   // the read yields only the rest (Skip)
	cond   string // pure boolean condition over st
}

func flattenOr(e ast.Expr) []ast.Expr {
	if b, ok := e.(*ast.BinaryExpr); ok && b.Op == token.LOR {
		return append(flattenOr(b.X), flattenOr(b.Y)...)
	}
	if p, ok := e.(*ast.ParenExpr); ok {
		return flattenOr(p.X)
	}
	return []ast.Expr{e}
}

func (t *rtr) disjunct(e ast.Expr) disj {
	neg := false
	if u, ok := e.(*ast.UnaryExpr); ok && u.Op == token.NOT {
		neg = true
		e = u.X
	}
	switch x := e.(type) {
	case *ast.CallExpr:
		if id, ok := x.Fun.(*ast.Ident); ok { // helper(&r, &v)
			if !neg || len(x.Args) != 2 {
				t.fail(e, "helper call shape")
			}
			r := t.variable(x.Args[0], "bytes")
			v := t.variable(x.Args[1], "N")
			t.helpers[id.Name] = true
			return disj{read: true, rd: fmt.Sprintf("g_%s %s", strings.ToLower(id.Name), t.get(r)),
				upd: t.set(v, "v0", t.set(r, "r0", "st"))}
		}
		sel, ok := x.Fun.(*ast.SelectorExpr)
		if !ok {
			t.fail(e, "call")
		}
		r := t.variable(sel.X, "bytes")
		m := sel.Sel.Name
		switch {
		case m == "Empty" && len(x.Args) == 0:
			c := fmt.Sprintf("is_nil %s", t.get(r))
			if neg {
				c = "negb (" + c + ")"
			}
			return disj{cond: c}
		case !neg:
			t.fail(e, "read whose result is not negated")
		case rdWidths[m] > 0 && len(x.Args) == 1:
			v := t.variable(x.Args[0], "N")
			return disj{read: true, rd: fmt.Sprintf("rd_u %d %s", rdWidths[m], t.get(r)), upd: t.set(v, "v0", t.set(r, "r0", "st"))}
		case rdLp[m] > 0 && len(x.Args) == 1:
			v := t.variable(x.Args[0], "bytes")
			return disj{read: true, rd: fmt.Sprintf("rd_lp %d %s", rdLp[m], t.get(r)), upd: t.set(v, "v0", t.set(r, "r0", "st"))}
		case m == "CopyBytes" && len(x.Args) == 1:
			v := t.variable(x.Args[0], "bytes")
			if v.alen == 0 {
				t.fail(e, "CopyBytes into something whose length is not a declared array length")
			}
			return disj{read: true, rd: fmt.Sprintf("rd_bytes %d %s", v.alen, t.get(r)), upd: t.set(v, "v0", t.set(r, "r0", "st"))}
		case m == "ReadBytes" && len(x.Args) == 2:
			n, ok := intLit(x.Args[1])
			if !ok {
				t.fail(e, "ReadBytes length")
			}
			v := t.variable(x.Args[0], "bytes")
			return disj{read: true, rd: fmt.Sprintf("rd_bytes %s %s", n, t.get(r)), upd: t.set(v, "v0", t.set(r, "r0", "st"))}
		case m == "Skip" && len(x.Args) == 1:
			n, ok := intLit(x.Args[0])
			if !ok {
				t.fail(e, "Skip length")
			}
			return disj{read: true, rd: fmt.Sprintf("rd_bytes %s %s", n, t.get(r)), upd: t.set(r, "r0", "st")}
		}
		t.fail(e, "reader method "+m)
	case *ast.BinaryExpr:
		if neg {
			t.fail(e, "negated comparison")
		}
		return disj{cond: t.compare(x)}
	case *ast.Ident, *ast.SelectorExpr:
		c := t.get(t.variable(x.(ast.Expr), "bool"))
		if neg {
			c = "negb " + c
		}
		return disj{cond: c}
	}
	t.fail(e, "condition")
	return disj{}
}

func (t *rtr) compare(x *ast.BinaryExpr) string {
	ops := map[token.Token]string{token.EQL: "(%s =? %s)", token.NEQ: "negb (%s =? %s)", token.LSS: "(%s <? %s)",
		token.GTR: "(%[2]s <? %[1]s)", token.LEQ: "(%s <=? %s)", token.GEQ: "(%[2]s <=? %[1]s)"}
	f, ok := ops[x.Op]
	if !ok {
		t.fail(x, "operator")
	}
	val := func(e ast.Expr) string {
		if s, ok := intLit(e); ok {
			return s
		}
		if src(t.fset, e) == "math.MaxInt64" {
			return "9223372036854775807"
		}
		return t.get(t.variable(e, "N"))
	}
	return fmt.Sprintf(f, val(x.X), val(x.Y))
}

func retText(fset *token.FileSet, r *ast.ReturnStmt) string {
	var parts []string
	for _, e := range r.Results {
		parts = append(parts, src(fset, e))
	}
	return strings.Join(parts, ", ")
}

func (t *rtr) fresh() string { t.nk++; return fmt.Sprintf("k%d", t.nk) }

// seq translates a statement list; k is a Gallina function expression applied to the final state.
// top: statements outside the subset end the fragment instead of aborting.
func (t *rtr) seq(list []ast.Stmt, k string, top bool, cont *string) string {
	if len(list) == 0 {
		return fmt.Sprintf("(%s st)", k)
	}
	s, rest := list[0], list[1:]
	next := func() string { return t.seq(rest, k, top, cont) }
	unsupported := func(msg string) string {
		if top {
			var parts []string
			for _, r := range list {
				parts = append(parts, strings.Join(strings.Fields(src(t.fset, r)), " "))
			}
			*cont = strings.Join(parts, " ; ")
			return "(Done \"<fragment end>\" st)"
		}
		t.fail(s, msg)
		return ""
	}
	switch x := s.(type) {
	case *ast.ReturnStmt:
		return fmt.Sprintf("(Done %s st)", coqQuote(retText(t.fset, x)))
	case *ast.DeclStmt:
		gd, ok := x.Decl.(*ast.GenDecl)
		if !ok || gd.Tok != token.VAR {
			return unsupported("declaration")
		}
		out := ""
		for _, sp := range gd.Specs {
			vs := sp.(*ast.ValueSpec)
			if len(vs.Values) != 0 || vs.Type == nil {
				return unsupported("var with initialiser")
			}
			if id, ok := vs.Type.(*ast.Ident); ok && t.structNames[id.Name] {
				continue // a local struct value: its fields are variables that start at their zero values
			}
			typ, zero, alen := t.typeInfo(vs.Type)
			for _, nm := range vs.Names {
				v := t.vars[nm.Name]
				if v == nil {
					v = &rvar{gname: strings.ToLower(nm.Name), typ: typ, zero: zero, alen: alen}
					t.vars[nm.Name] = v
				} else if v.typ != typ {
					t.fail(s, "redeclared at another type")
				}
				out += fmt.Sprintf("let st := %s in\n  ", t.set(v, zero, "st"))
			}
		}
		return out + next()
	case *ast.AssignStmt:
		if len(x.Lhs) != 1 || len(x.Rhs) != 1 {
			return unsupported("assignment")
		}
		rhs := x.Rhs[0]
		// e = &T{} : zero initialisation of a result struct (fields start at their zero values anyway)
		if u, ok := rhs.(*ast.UnaryExpr); ok && u.Op == token.AND {
			if cl, ok := u.X.(*ast.CompositeLit); ok && len(cl.Elts) == 0 {
				return next()
			}
		}
		if call, ok := rhs.(*ast.CallExpr); ok && len(call.Args) >= 1 {
			fn := src(t.fset, call.Fun)
			switch {
			case fn == "cryptobyte.String" && len(call.Args) == 1:
				v := t.variable(x.Lhs[0], "bytes")
				return fmt.Sprintf("let st := %s in\n  ", t.set(v, t.bytesExpr(call.Args[0]), "st")) + next()
			case (fn == "int64" || fn == "uint64" || fn == "int") && len(call.Args) == 1:
				v := t.variable(x.Lhs[0], "N")
				w := t.variable(call.Args[0], "N")
				return fmt.Sprintf("let st := %s in\n  ", t.set(v, t.get(w), "st")) + next()
			case fn == "append" && len(call.Args) == 2 && t.key(call.Args[0]) == t.key(x.Lhs[0]):
				v := t.variable(x.Lhs[0], "list bytes")
				w := t.variable(call.Args[1], "bytes")
				return fmt.Sprintf("let st := %s in\n  ", t.set(v, fmt.Sprintf("(%s ++ [%s])", t.get(v), t.get(w)), "st")) + next()
			}
			return unsupported("assignment from a call")
		}
		if id, ok := rhs.(*ast.Ident); ok && (id.Name == "true" || id.Name == "false") {
			v := t.variable(x.Lhs[0], "bool")
			return fmt.Sprintf("let st := %s in\n  ", t.set(v, id.Name, "st")) + next()
		}
		return unsupported("assignment")
	case *ast.IfStmt:
		if x.Init != nil {
			return unsupported("if with init")
		}
		var ds []disj
		anyRead := false
		for _, d := range flattenOr(x.Cond) {
			dj := t.disjunct(d)
			anyRead = anyRead || dj.read
			ds = append(ds, dj)
		}
		kj := t.fresh()
		head := fmt.Sprintf("let %s := (fun st : %s_st => %s) in\n  ", kj, t.name, next())
		var thenE string
		if anyRead {
			if x.Else != nil || len(x.Body.List) != 1 {
				t.fail(s, "a condition that reads must guard exactly one return")
			}
			r, ok := x.Body.List[0].(*ast.ReturnStmt)
			if !ok {
				t.fail(s, "a condition that reads must guard exactly one return")
			}
			thenE = fmt.Sprintf("(Fail %s)", coqQuote(retText(t.fset, r)))
		} else {
			kt := t.fresh()
			head += fmt.Sprintf("let %s := (fun st : %s_st => %s) in\n  ", kt, t.name, t.seq(x.Body.List, kj, false, nil))
			thenE = fmt.Sprintf("(%s st)", kt)
		}
		elseE := fmt.Sprintf("(%s st)", kj)
		if x.Else != nil {
			eb, ok := x.Else.(*ast.BlockStmt)
			if !ok {
				t.fail(s, "else if")
			}
			elseE = t.seq(eb.List, kj, false, nil)
		}
		// build the chain from the last disjunct backwards
		e := elseE
		for i := len(ds) - 1; i >= 0; i-- {
			d := ds[i]
			if d.read {
				pat := "(v0, r0)"
				e = fmt.Sprintf("match %s with\n  | None => %s\n  | Some %s => let st := %s in %s\n  end", d.rd, thenE, pat, d.upd, e)
			} else {
				e = fmt.Sprintf("if %s then %s else %s", d.cond, thenE, e)
			}
		}
		return head + e
	case *ast.SwitchStmt:
		if x.Init != nil || x.Tag == nil {
			return unsupported("switch")
		}
		tag := t.get(t.variable(x.Tag, "N"))
		kj := t.fresh()
		head := fmt.Sprintf("let %s := (fun st : %s_st => %s) in\n  ", kj, t.name, next())
		def := fmt.Sprintf("(%s st)", kj)
		type arm struct{ lit, body string }
		var arms []arm
		for _, c := range x.Body.List {
			cc := c.(*ast.CaseClause)
			body := t.seq(cc.Body, kj, false, nil)
			if cc.List == nil {
				def = body
				continue
			}
			if len(cc.List) != 1 {
				t.fail(c, "case list")
			}
			lit, ok := intLit(cc.List[0])
			if !ok {
				t.fail(c, "case value")
			}
			arms = append(arms, arm{lit, body})
		}
		e := def
		for i := len(arms) - 1; i >= 0; i-- {
			e = fmt.Sprintf("if (%s =? %s) then %s\n  else %s", tag, arms[i].lit, arms[i].body, e)
		}
		return head + e
	case *ast.ForStmt:
		if x.Init != nil || x.Post != nil || x.Cond == nil || !top {
			return unsupported("for loop")
		}
		d := t.disjunct(x.Cond)
		if d.read {
			t.fail(s, "loop condition that reads")
		}
		// the loop variable whose length is the fuel: the receiver of the Empty() call
		u, ok := x.Cond.(*ast.UnaryExpr)
		if !ok {
			t.fail(s, "loop condition must be !r.Empty()")
		}
		call, ok := u.X.(*ast.CallExpr)
		if !ok {
			t.fail(s, "loop condition must be !r.Empty()")
		}
		r := t.variable(call.Fun.(*ast.SelectorExpr).X, "bytes")
		ln := fmt.Sprintf("%s_loop%d", t.name, len(t.loops)+1)
		body := t.seq(x.Body.List, "("+ln+" fuel)", false, nil)
		t.loops = append(t.loops, fmt.Sprintf("Fixpoint %s (fuel : nat) (st : %s_st) {struct fuel} : outcome %s_st :=\n  match fuel with\n  | O => NoFuel\n  | S fuel =>\n  if %s then\n  %s\n  else Go st\n  end.\n", ln, t.name, t.name, d.cond, body))
		return fmt.Sprintf("obind (%s (S (length %s)) st) (fun st : %s_st => %s)", ln, t.get(r), t.name, next())
	}
	return unsupported("statement")
}

// findStart returns the statement list that begins with the first `x := cryptobyte.String(y)`
func findStart(fset *token.FileSet, body *ast.BlockStmt) []ast.Stmt {
	var found []ast.Stmt
	ast.Inspect(body, func(n ast.Node) bool {
		if found != nil {
			return false
		}
		if b, ok := n.(*ast.BlockStmt); ok {
			for i, s := range b.List {
				if a, ok := s.(*ast.AssignStmt); ok && len(a.Rhs) == 1 {
					if c, ok := a.Rhs[0].(*ast.CallExpr); ok && src(fset, c.Fun) == "cryptobyte.String" {
						found = b.List[i:]
						return false
					}
				}
			}
		}
		return true
	})
	return found
}

func translateReader(out *bytes.Buffer, fset *token.FileSet, file *ast.File, fd *ast.FuncDecl, path, name string) {
	t := &rtr{fset: fset, name: name, params: map[string]bool{}, usedPar: map[string]string{}, vars: map[string]*rvar{},
		structs: map[string]ast.Expr{}, helpers: map[string]bool{}, structNames: map[string]bool{}}
	// struct fields of the file (a field name must be unique across the file's structs to be used)
	dup := map[string]bool{}
	for _, d := range file.Decls {
		gd, ok := d.(*ast.GenDecl)
		if !ok || gd.Tok != token.TYPE {
			continue
		}
		for _, sp := range gd.Specs {
			if st, ok := sp.(*ast.TypeSpec).Type.(*ast.StructType); ok {
				t.structNames[sp.(*ast.TypeSpec).Name.Name] = true
				for _, f := range st.Fields.List {
					for _, nm := range f.Names {
						if _, seen := t.structs[nm.Name]; seen {
							dup[nm.Name] = true
						}
						t.structs[nm.Name] = f.Type
					}
				}
			}
		}
	}
	for n := range dup {
		delete(t.structs, n)
	}
	// parameters of the function and of every closure inside it are read-only inputs
	ast.Inspect(fd, func(n ast.Node) bool {
		var ft *ast.FuncType
		switch x := n.(type) {
		case *ast.FuncDecl:
			ft = x.Type
		case *ast.FuncLit:
			ft = x.Type
		}
		if ft != nil {
			for _, fl := range ft.Params.List {
				for _, nm := range fl.Names {
					t.params[nm.Name] = true
				}
			}
		}
		return true
	})
	// a local that merely holds a decoded input (e.g. sigBytes) counts as an input too
	list := findStart(fset, fd.Body)
	if list == nil {
		fmt.Fprintf(os.Stderr, "translate: no cryptobyte.String(...) in %s\n", fd.Name.Name)
		os.Exit(2)
	}
	if a, ok := list[0].(*ast.AssignStmt); ok {
		if c := a.Rhs[0].(*ast.CallExpr); len(c.Args) == 1 {
			if id, ok := c.Args[0].(*ast.Ident); ok {
				t.params[id.Name] = true
			}
		}
	}
	cont := ""
	body := t.seq(list, "(Done \"<fragment end>\")", true, &cont)

	var keys []string
	for k := range t.vars {
		keys = append(keys, k)
	}
	sort.Slice(keys, func(i, j int) bool { return t.vars[keys[i]].gname < t.vars[keys[j]].gname })
	fmt.Fprintf(out, "(* %s: func %s *)\n", path[strings.LastIndex(path, "/")+1:], fd.Name.Name)
	fmt.Fprintf(out, "Record %s_st := mk_%s_st {", name, name)
	for i, k := range keys {
		if i > 0 {
			out.WriteString(";")
		}
		fmt.Fprintf(out, " %s_%s : %s", name, t.vars[k].gname, t.vars[k].typ)
	}
	out.WriteString(" }.\n")
	for i, k := range keys {
		fmt.Fprintf(out, "Definition %s_set_%s (x : %s) (st : %s_st) : %s_st := mk_%s_st", name, t.vars[k].gname, t.vars[k].typ, name, name, name)
		for j, k2 := range keys {
			if i == j {
				out.WriteString(" x")
			} else {
				fmt.Fprintf(out, " (%s_%s st)", name, t.vars[k2].gname)
			}
		}
		out.WriteString(".\n")
	}
	fmt.Fprintf(out, "Definition %s_zero : %s_st := mk_%s_st", name, name, name)
	for _, k := range keys {
		fmt.Fprintf(out, " %s", t.vars[k].zero)
	}
	out.WriteString(".\n")
	fmt.Fprintf(out, "Section %s_sec.\n", name)
	var hs []string
	for h := range t.helpers {
		hs = append(hs, h)
	}
	sort.Strings(hs)
	for _, h := range hs {
		fmt.Fprintf(out, "Variable g_%s : bytes -> option (N * bytes).\n", strings.ToLower(h))
	}
	for _, l := range t.loops {
		out.WriteString(l)
	}
	var ps []string
	for p := range t.usedPar {
		ps = append(ps, p)
	}
	sort.Strings(ps)
	fmt.Fprintf(out, "Definition %s", name)
	for _, p := range ps {
		fmt.Fprintf(out, " (g_%s : %s)", strings.ToLower(p), t.usedPar[p])
	}
	fmt.Fprintf(out, " : outcome %s_st :=\n  let st := %s_zero in\n  %s.\n", name, name, body)
	fmt.Fprintf(out, "End %s_sec.\n", name)
	fmt.Fprintf(out, "Definition %s_continues : string := %s%%string.\n\n", name, coqQuote(cont))
}
