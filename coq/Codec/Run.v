(* Codec/Run.v — entry points of the C10 model for the correspondence driver: each takes the
   parsed arguments of one harness line and renders the result exactly as the Go driver does. *)
From SL Require Export Codec.Leaf.

Definition show_leaf (e : leaf) : bytes :=
  join_with x2c [b2i (l_pre e); hx (l_cert e); hx (l_ikh e); hx (concat (l_fps e)); hx (l_precert e);
                 decZ (l_idx e); b2i (l_arch e); decZ (l_ts e)].

Definition show_builder (b : builder) (err : string) : bytes :=
  match b with Some x => s2b "ok:" ++ hx x | None => s2b err end.

Definition run_append (prefix : bytes) (e : leaf) : bytes := show_builder (append_tile_leaf prefix e) "panic".
Definition run_mleaf (e : leaf) : bytes := show_builder (merkle_tree_leaf e) "panic".

Definition show_read (r : option (leaf * bytes)) : bytes :=
  match r with
  | Some (e, rest) => s2b "ok:" ++ show_leaf e ++ x3a :: hx rest
  | None => s2b "err"
  end.
Definition run_read (b : bytes) : bytes := show_read (read_tile_leaf b).
Definition run_readarch (b : bytes) : bytes := show_read (read_tile_leaf_maybe_archival b).

Definition run_mext (idx : Z) : bytes := show_builder (marshal_extensions idx) "err".
Definition run_pext (b : bytes) : bytes :=
  match parse_extensions b with Some i => s2b "ok:" ++ decZ i | None => s2b "err" end.

Definition run_tpath (h l n w : Z) : bytes :=
  match tile_path (mkTile h l n w) with Some p => s2b "ok:" ++ hx p | None => s2b "panic" end.
Definition run_ppath (p : bytes) : bytes :=
  match parse_tile_path p with
  | Some t => s2b "ok:" ++ join_with x2c [decZ (t_H t); decZ (t_L t); decZ (t_N t); decZ (t_W t)]
  | None => s2b "err"
  end.

(* split a concatenation of 32-byte fingerprints (driver input) *)
Fixpoint chunks32 (fuel : nat) (b : bytes) : list bytes :=
  match fuel, b with
  | _, [] => []
  | O, _ => []
  | S f, _ => firstn 32 b :: chunks32 f (skipn 32 b)
  end.
Definition mk_leaf (pre : bool) (cert ikh fps precert : bytes) (idx : Z) (arch : bool) (ts : Z) : leaf :=
  mkLeaf cert pre ikh (chunks32 (length fps) fps) precert idx arch ts.
