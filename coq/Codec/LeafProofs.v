(* Codec/LeafProofs.v — C10: the tile-leaf codec is a canonical bijection; the Merkle leaf equals
   the RFC 6962 presentation-language encoding; extension and tile-path round trips. *)
From SL Require Import Base.Bytes Base.Cryptobyte Base.BytesProofs Codec.Leaf.
From Coq Require Import ZifyN ZifyNat ZifyBool.
Open Scope N_scope.
Ltac Zify.zify_post_hook ::= Z.div_mod_to_equations.

Lemma blen_be k v : blen (be k v) = N.of_nat k.
Proof. unfold blen. now rewrite length_be. Qed.

Definition ext_payload (idx : Z) : bytes := be 1 0 ++ be 2 5 ++ be 5 (Z.to_N idx).

Definition ext_bytes (e : leaf) : bytes :=
  if l_arch e then be 2 0 else be 2 8 ++ ext_payload (l_idx e).

Definition head_bytes (e : leaf) : bytes :=
  if l_pre e then be 2 1 ++ l_ikh e ++ be 3 (blen (l_cert e)) ++ l_cert e
  else be 2 0 ++ be 3 (blen (l_cert e)) ++ l_cert e.

Definition enc_leaf (e : leaf) : bytes :=
  be 8 (u64 (l_ts e)) ++ head_bytes e ++ ext_bytes e ++
  (if l_pre e then be 3 (blen (l_precert e)) ++ l_precert e else []) ++
  be 2 (blen (concat (l_fps e))) ++ concat (l_fps e).

Lemma blen_ext_payload idx : blen (ext_payload idx) = 8.
Proof. unfold ext_payload. rewrite !blen_app, !blen_be. reflexivity. Qed.

Lemma marshal_extensions_ok idx :
  (0 <= idx < two40)%Z -> marshal_extensions idx = Some (ext_payload idx).
Proof.
  intro H. unfold marshal_extensions.
  destruct ((idx <? 0)%Z || (two40 <=? idx)%Z) eqn:E; [lia|].
  unfold b_add, b_empty, add_u, add_lp, ext_payload. cbn [app].
  rewrite blen_be. reflexivity.
Qed.

Lemma marshal_extensions_err idx :
  (idx < 0 \/ two40 <= idx)%Z -> marshal_extensions idx = None.
Proof.
  intro H. unfold marshal_extensions.
  destruct ((idx <? 0)%Z || (two40 <=? idx)%Z) eqn:E; [|lia].
  reflexivity.
Qed.

(* the well-formedness predicate, unpacked *)
Record WF (e : leaf) : Prop := {
  wf_cert : blen (l_cert e) < 16777216;
  wf_precert : blen (l_precert e) < 16777216;
  wf_ikh : length (l_ikh e) = 32%nat;
  wf_fps : Forall (fun f => length f = 32%nat) (l_fps e);
  wf_nfps : (length (l_fps e) <= 2047)%nat;
  wf_ts : (0 <= l_ts e < two63)%Z;
  wf_idx : if l_arch e then l_idx e = 0%Z else (0 <= l_idx e < two40)%Z;
  wf_cert_only : l_pre e = false -> l_ikh e = zeros 32 /\ l_precert e = []
}.

Lemma wf_leaf_WF e : wf_leaf e = true <-> WF e.
Proof.
  unfold wf_leaf. rewrite !andb_true_iff. split.
  - intros [[[[[[[[H1 H2] H3] H4] H5] H6] H7] H8] H9]. constructor; try lia.
    + rewrite forallb_forall in H4. apply Forall_forall. intros x Hx. specialize (H4 x Hx). lia.
    + destruct (l_arch e); lia.
    + intro Hp. rewrite Hp in H9. apply andb_true_iff in H9. destruct H9 as [A B].
      apply bytes_eqb_eq in A. apply bytes_eqb_eq in B. auto.
  - intros [H1 H2 H3 H4 H5 H6 H7 H8]. repeat split; try lia.
    + apply forallb_forall. intros x Hx. rewrite Forall_forall in H4. specialize (H4 x Hx). lia.
    + destruct (l_arch e); lia.
    + destruct (l_pre e); [reflexivity|]. destruct (H8 eq_refl) as [-> ->].
      now rewrite !bytes_eqb_refl.
Qed.

Lemma concat_len32 (l : list bytes) :
  Forall (fun f => length f = 32%nat) l -> length (concat l) = (32 * length l)%nat.
Proof. induction 1 as [|x l Hx _ IH]; cbn [concat length]; [reflexivity|]. rewrite app_length. lia. Qed.

Lemma append_spec t e : WF e -> append_tile_leaf t e = Some (t ++ enc_leaf e).
Proof.
  intros [H1 H2 H3 H4 H5 H6 H7 H8].
  unfold append_tile_leaf, add_entry_head, add_extensions, enc_leaf, head_bytes, ext_bytes.
  assert (Hfp : blen (concat (l_fps e)) <? pow256 2 = true).
  { unfold blen. rewrite concat_len32 by assumption. change (pow256 2) with 65536. lia. }
  assert (Hc : blen (l_cert e) <? pow256 3 = true) by (change (pow256 3) with 16777216; lia).
  assert (Hp : blen (l_precert e) <? pow256 3 = true) by (change (pow256 3) with 16777216; lia).
  destruct (l_pre e), (l_arch e); cbn [negb];
    try (rewrite marshal_extensions_ok by lia);
    unfold add_u, add_lp, b_add, b_empty; cbn [app];
    rewrite ?Hc, ?Hp, ?Hfp, ?blen_ext_payload; cbn [N.ltb N.compare];
    try (change (8 <? pow256 2) with true; cbv iota);
    rewrite ?Hc, ?Hp, ?Hfp; rewrite <- ?app_assoc; reflexivity.
Qed.

Lemma take32_app f r : length f = 32%nat -> take32 (f ++ r) = Some (f, r).
Proof.
  intro H. unfold take32.
  assert (A : firstn 32 (f ++ r) = f).
  { rewrite <- H. rewrite firstn_app, Nat.sub_diag, firstn_all, firstn_O, app_nil_r. reflexivity. }
  assert (B : skipn 32 (f ++ r) = r).
  { rewrite <- H. rewrite skipn_app, Nat.sub_diag, skipn_all. reflexivity. }
  rewrite A, B, H. reflexivity.
Qed.

Lemma read_fps_concat l : forall fuel,
  Forall (fun f => length f = 32%nat) l -> (length l <= fuel)%nat -> read_fps fuel (concat l) = Some l.
Proof.
  induction l as [|f l IH]; intros fuel HF Hlen.
  - destruct fuel; reflexivity.
  - inversion HF as [|? ? Hf HF']; subst.
    cbn [concat]. destruct fuel as [|fuel]; [cbn in Hlen; lia|].
    cbn [read_fps].
    destruct (f ++ concat l) eqn:E.
    { destruct f; [discriminate Hf| discriminate E]. }
    rewrite <- E. rewrite take32_app by assumption.
    rewrite IH; [reflexivity|assumption|cbn in Hlen; lia].
Qed.

Lemma read_leaf_ext_payload idx :
  (0 <= idx < two40)%Z -> read_leaf_ext (ext_payload idx) = Some (false, idx).
Proof.
  intro H. unfold read_leaf_ext.
  destruct (ext_payload idx) eqn:E.
  { apply (f_equal blen) in E. rewrite blen_ext_payload in E. discriminate. }
  rewrite <- E. unfold ext_payload.
  rewrite rd_u_be by reflexivity. cbn [negb N.eqb].
  replace (be 2 5 ++ be 5 (Z.to_N idx)) with (be 2 (blen (be 5 (Z.to_N idx))) ++ be 5 (Z.to_N idx) ++ [])
    by (rewrite blen_be, app_nil_r; reflexivity).
  rewrite rd_lp_enc by (rewrite blen_be; reflexivity).
  rewrite <- (app_nil_r (be 5 _)).
  rewrite rd_u_be by (change (pow256 5) with 1099511627776; unfold two40 in H; lia).
  f_equal. f_equal. lia.
Qed.

Lemma u64_small z : (0 <= z < two63)%Z -> u64 z = Z.to_N z.
Proof. intro H. unfold u64. rewrite Z.mod_small; [reflexivity|unfold two64, two63 in *; lia]. Qed.

Lemma read_enc e rest : WF e -> read_tile_leaf_raw (enc_leaf e ++ rest) = Some (e, rest).
Proof.
  intros [H1 H2 H3 H4 H5 H6 H7 H8].
  unfold read_tile_leaf_raw, enc_leaf, head_bytes, ext_bytes.
  rewrite u64_small by assumption.
  assert (Hts : Z.to_N (l_ts e) < pow256 8)
    by (change (pow256 8) with 18446744073709551616; unfold two63 in H6; lia).
  assert (Hfp : blen (concat (l_fps e)) < pow256 2).
  { unfold blen. rewrite concat_len32 by assumption. change (pow256 2) with 65536. lia. }
  assert (Hc : blen (l_cert e) < pow256 3) by (change (pow256 3) with 16777216; lia).
  assert (Hp : blen (l_precert e) < pow256 3) by (change (pow256 3) with 16777216; lia).
  assert (Hfuel : (length (l_fps e) <= length (concat (l_fps e)))%nat)
    by (rewrite concat_len32 by assumption; lia).
  rewrite <- !app_assoc. rewrite rd_u_be by assumption.
  destruct e as [cert pre ikh fps precert idx arch ts]; cbn [l_cert l_pre l_ikh l_fps l_precert l_idx l_arch l_ts] in *.
  destruct pre.
  - (* precert *)
    rewrite <- !app_assoc. rewrite rd_u_be by reflexivity.
    destruct (9223372036854775807 <? Z.to_N ts) eqn:Ets; [unfold two63 in H6; lia|].
    cbn [N.eqb Pos.eqb].
    replace 32 with (blen ikh) by (unfold blen; rewrite H3; reflexivity).
    rewrite rd_bytes_app. rewrite rd_lp_enc by assumption.
    destruct arch.
    + subst idx. change (be 2 0) with (be 2 (blen []) ++ []). rewrite <- !app_assoc.
      rewrite rd_lp_enc by reflexivity. cbn [app].
      rewrite rd_lp_enc by assumption. rewrite rd_lp_enc by assumption.
      cbn [read_leaf_ext]. rewrite read_fps_concat by assumption.
      rewrite Z2N.id by lia. reflexivity.
    + replace (be 2 8) with (be 2 (blen (ext_payload idx))) by (now rewrite blen_ext_payload).
      rewrite <- !app_assoc.
      rewrite rd_lp_enc by (rewrite blen_ext_payload; reflexivity).
      rewrite rd_lp_enc by assumption. rewrite rd_lp_enc by assumption.
      rewrite read_leaf_ext_payload by assumption. rewrite read_fps_concat by assumption.
      rewrite Z2N.id by lia. reflexivity.
  - (* certificate *)
    destruct (H8 eq_refl) as [-> ->].
    rewrite <- !app_assoc. rewrite rd_u_be by reflexivity.
    destruct (9223372036854775807 <? Z.to_N ts) eqn:Ets; [unfold two63 in H6; lia|].
    cbn [N.eqb Pos.eqb].
    rewrite rd_lp_enc by assumption.
    destruct arch.
    + subst idx. change (be 2 0) with (be 2 (blen []) ++ []). rewrite <- !app_assoc.
      rewrite rd_lp_enc by reflexivity. cbn [app].
      rewrite rd_lp_enc by assumption.
      cbn [read_leaf_ext]. rewrite read_fps_concat by assumption.
      rewrite Z2N.id by lia. reflexivity.
    + replace (be 2 8) with (be 2 (blen (ext_payload idx))) by (now rewrite blen_ext_payload).
      rewrite <- !app_assoc.
      rewrite rd_lp_enc by (rewrite blen_ext_payload; reflexivity).
      cbn [app]. rewrite rd_lp_enc by assumption.
      rewrite read_leaf_ext_payload by assumption. rewrite read_fps_concat by assumption.
      rewrite Z2N.id by lia. reflexivity.
Qed.

(* ---- decoding direction ---- *)

Lemma take32_inv s f r : take32 s = Some (f, r) -> s = f ++ r /\ length f = 32%nat.
Proof.
  unfold take32. destruct (Nat.eqb_spec (length (firstn 32 s)) 32) as [H|H]; [|discriminate].
  intro E. assert (Ef : f = firstn 32 s) by congruence. assert (Er : r = skipn 32 s) by congruence.
  rewrite Ef, Er. split; [symmetry; apply firstn_skipn|assumption].
Qed.

Lemma read_fps_inv fuel : forall s l,
  read_fps fuel s = Some l -> s = concat l /\ Forall (fun f => length f = 32%nat) l.
Proof.
  induction fuel as [|fuel IH]; intros s l H.
  - destruct s; cbn in H; [inversion H; subst; split; [reflexivity|constructor]|discriminate].
  - destruct s as [|b s]; [cbn in H; inversion H; subst; split; [reflexivity|constructor]|].
    cbn [read_fps] in H.
    destruct (take32 (b :: s)) as [[f r]|] eqn:E; [|discriminate].
    destruct (read_fps fuel r) as [l'|] eqn:E2; [|discriminate].
    inversion H; subst; clear H.
    apply take32_inv in E. destruct E as [E Hf]. apply IH in E2. destruct E2 as [-> HF].
    split; [exact E|constructor; assumption].
Qed.

Lemma read_leaf_ext_inv ext arch idx :
  read_leaf_ext ext = Some (arch, idx) ->
  (arch = true /\ idx = 0%Z /\ ext = []) \/
  (arch = false /\ (0 <= idx < two40)%Z /\ ext = ext_payload idx).
Proof.
  unfold read_leaf_ext. destruct ext as [|b ext'] eqn:Eext.
  { intro H; inversion H; subst. left; auto. }
  rewrite <- Eext. clear Eext b ext'.
  destruct (rd_u 1 ext) as [[ty e1]|] eqn:E1; [|discriminate].
  destruct (N.eqb_spec ty 0) as [->|Hne]; cbn [negb]; [|discriminate].
  destruct (rd_lp 2 e1) as [[data e2]|] eqn:E2; [|discriminate].
  destruct (rd_u 5 data) as [[v d2]|] eqn:E3; [|discriminate].
  destruct d2; [|discriminate]. destruct e2; [|discriminate].
  intro H; inversion H; subst; clear H. right.
  apply rd_u_inv in E1. destruct E1 as [-> _].
  apply rd_lp_inv in E2. destruct E2 as [-> _].
  apply rd_u_inv in E3. destruct E3 as [-> Hv].
  change (pow256 5) with 1099511627776 in Hv.
  split; [reflexivity|]. split; [unfold two40; lia|].
  unfold ext_payload. rewrite !app_nil_r, blen_be, N2Z.id. reflexivity.
Qed.

Lemma nfps_bound (l : list bytes) :
  Forall (fun f => length f = 32%nat) l -> blen (concat l) < pow256 2 -> (length l <= 2047)%nat.
Proof.
  intros HF H. unfold blen in H. rewrite concat_len32 in H by assumption.
  change (pow256 2) with 65536 in H. lia.
Qed.

Lemma read_inv bs e rest :
  read_tile_leaf_raw bs = Some (e, rest) -> WF e /\ bs = enc_leaf e ++ rest.
Proof.
  unfold read_tile_leaf_raw.
  destruct (rd_u 8 bs) as [[ts s1]|] eqn:E1; [|discriminate].
  destruct (rd_u 2 s1) as [[ty s2]|] eqn:E2; [|discriminate].
  destruct (9223372036854775807 <? ts) eqn:Ets; [discriminate|].
  apply rd_u_inv in E1. destruct E1 as [-> Hts].
  apply rd_u_inv in E2. destruct E2 as [-> Hty].
  assert (Hu : u64 (Z.of_N ts) = ts).
  { unfold u64. rewrite Z.mod_small by (unfold two64; lia). apply N2Z.id. }
  destruct (N.eqb_spec ty 0) as [->|Hn0].
  - destruct (rd_lp 3 s2) as [[cert s3]|] eqn:E3; [|discriminate].
    destruct (rd_lp 2 s3) as [[ext s4]|] eqn:E4; [|discriminate].
    destruct (rd_lp 2 s4) as [[fpb s5]|] eqn:E5; [|discriminate].
    destruct (read_leaf_ext ext) as [[arch idx]|] eqn:E6; [|discriminate].
    destruct (read_fps (length fpb) fpb) as [fps|] eqn:E7; [|discriminate].
    intro H; inversion H; subst; clear H.
    apply rd_lp_inv in E3. destruct E3 as [-> Hc].
    apply rd_lp_inv in E4. destruct E4 as [-> He].
    apply rd_lp_inv in E5. destruct E5 as [-> Hf].
    apply read_fps_inv in E7. destruct E7 as [-> HF].
    apply read_leaf_ext_inv in E6.
    change (pow256 3) with 16777216 in Hc.
    split.
    + constructor; cbn [l_cert l_pre l_ikh l_fps l_precert l_idx l_arch l_ts].
      * assumption.
      * reflexivity.
      * reflexivity.
      * assumption.
      * now apply nfps_bound.
      * unfold two63; lia.
      * destruct E6 as [(-> & -> & _)|(-> & Hi & _)]; [reflexivity|assumption].
      * auto.
    + unfold enc_leaf, head_bytes, ext_bytes; cbn [l_cert l_pre l_ikh l_fps l_precert l_idx l_arch l_ts].
      rewrite Hu. rewrite <- !app_assoc.
      destruct E6 as [(-> & -> & ->)|(-> & Hi & ->)].
      * reflexivity.
      * rewrite blen_ext_payload. reflexivity.
  - destruct (N.eqb_spec ty 1) as [->|Hn1]; [|discriminate].
    destruct (rd_bytes 32 s2) as [[ikh s3]|] eqn:E3; [|discriminate].
    destruct (rd_lp 3 s3) as [[cert s4]|] eqn:E4; [|discriminate].
    destruct (rd_lp 2 s4) as [[ext s5]|] eqn:E5; [|discriminate].
    destruct (rd_lp 3 s5) as [[pre s6]|] eqn:E6; [|discriminate].
    destruct (rd_lp 2 s6) as [[fpb s7]|] eqn:E7; [|discriminate].
    destruct (read_leaf_ext ext) as [[arch idx]|] eqn:E8; [|discriminate].
    destruct (read_fps (length fpb) fpb) as [fps|] eqn:E9; [|discriminate].
    intro H; inversion H; subst; clear H.
    apply rd_bytes_inv in E3. destruct E3 as [-> Hi].
    apply rd_lp_inv in E4. destruct E4 as [-> Hc].
    apply rd_lp_inv in E5. destruct E5 as [-> He].
    apply rd_lp_inv in E6. destruct E6 as [-> Hp].
    apply rd_lp_inv in E7. destruct E7 as [-> Hf].
    apply read_fps_inv in E9. destruct E9 as [-> HF].
    apply read_leaf_ext_inv in E8.
    change (pow256 3) with 16777216 in Hc, Hp.
    split.
    + constructor; cbn [l_cert l_pre l_ikh l_fps l_precert l_idx l_arch l_ts].
      * assumption.
      * assumption.
      * unfold blen in Hi. lia.
      * assumption.
      * now apply nfps_bound.
      * unfold two63; lia.
      * destruct E8 as [(-> & -> & _)|(-> & Hi' & _)]; [reflexivity|assumption].
      * discriminate.
    + unfold enc_leaf, head_bytes, ext_bytes; cbn [l_cert l_pre l_ikh l_fps l_precert l_idx l_arch l_ts].
      rewrite Hu. rewrite <- ?app_assoc.
      destruct E8 as [(-> & -> & ->)|(-> & Hi' & ->)].
      * reflexivity.
      * rewrite blen_ext_payload. reflexivity.
Qed.

(* ---- MerkleTreeLeaf ---- *)

Lemma merkle_spec e : WF e -> merkle_tree_leaf e = Some (tls_merkle_tree_leaf_spec e).
Proof.
  intros [H1 H2 H3 H4 H5 H6 H7 H8].
  unfold merkle_tree_leaf, add_entry_head, add_extensions, tls_merkle_tree_leaf_spec,
    tls_ct_extensions, tls_vector, tls_uint.
  rewrite u64_small by assumption.
  assert (Hc : blen (l_cert e) <? pow256 3 = true) by (change (pow256 3) with 16777216; lia).
  destruct (l_pre e), (l_arch e); cbn [negb];
    try (rewrite marshal_extensions_ok by lia);
    unfold add_u, add_lp, b_add, b_empty; cbn [app];
    rewrite ?Hc, ?blen_ext_payload; cbn [N.ltb N.compare];
    try (change (8 <? pow256 2) with true; cbv iota);
    unfold ext_payload; rewrite ?blen_app, ?blen_be; cbn [blen length N.of_nat app];
    rewrite <- ?app_assoc; reflexivity.
Qed.

(* a decoder for the RFC 6962 structure, used only to obtain injectivity *)
Definition read_mleaf (s : bytes) : option (bool * bytes * bytes * Z * bool * Z) :=
  '(_, s) <- rd_u 1 s ;;
  '(_, s) <- rd_u 1 s ;;
  '(ts, s) <- rd_u 8 s ;;
  '(ty, s) <- rd_u 2 s ;;
  if ty =? 0 then
    '(cert, s) <- rd_lp 3 s ;;
    '(ext, s) <- rd_lp 2 s ;;
    '(arch, idx) <- read_leaf_ext ext ;;
    Some (false, cert, [], Z.of_N ts, arch, idx)
  else
    '(ikh, s) <- rd_bytes 32 s ;;
    '(cert, s) <- rd_lp 3 s ;;
    '(ext, s) <- rd_lp 2 s ;;
    '(arch, idx) <- read_leaf_ext ext ;;
    Some (true, cert, ikh, Z.of_N ts, arch, idx).

Lemma read_mleaf_spec e : WF e -> read_mleaf (tls_merkle_tree_leaf_spec e) = Some (covered e).
Proof.
  intros [H1 H2 H3 H4 H5 H6 H7 H8].
  unfold read_mleaf, tls_merkle_tree_leaf_spec, tls_ct_extensions, tls_vector, tls_uint, covered.
  assert (Hts : Z.to_N (l_ts e) < pow256 8)
    by (change (pow256 8) with 18446744073709551616; unfold two63 in H6; lia).
  assert (Hc : blen (l_cert e) < pow256 3) by (change (pow256 3) with 16777216; lia).
  rewrite <- ?app_assoc.
  rewrite rd_u_be by reflexivity. rewrite rd_u_be by reflexivity. rewrite rd_u_be by assumption.
  destruct e as [cert pre ikh fps precert idx arch ts]; cbn [l_cert l_pre l_ikh l_fps l_precert l_idx l_arch l_ts] in *.
  destruct pre.
  - rewrite <- ?app_assoc. rewrite rd_u_be by reflexivity. cbn [N.eqb Pos.eqb].
    replace 32 with (blen ikh) by (unfold blen; rewrite H3; reflexivity).
    rewrite rd_bytes_app. rewrite rd_lp_enc by assumption.
    destruct arch.
    + subst idx. rewrite <- (app_nil_r (be 2 (blen []) ++ [])). rewrite <- ?app_assoc.
      rewrite rd_lp_enc by reflexivity. cbn [read_leaf_ext]. rewrite Z2N.id by lia. reflexivity.
    + change (be 1 0 ++ be 2 (blen (be 5 (Z.to_N idx))) ++ be 5 (Z.to_N idx)) with (ext_payload idx).
      rewrite <- (app_nil_r (be 2 (blen (ext_payload idx)) ++ ext_payload idx)). rewrite <- ?app_assoc.
      rewrite rd_lp_enc by (rewrite blen_ext_payload; reflexivity).
      rewrite read_leaf_ext_payload by assumption. rewrite Z2N.id by lia. reflexivity.
  - rewrite <- ?app_assoc. rewrite rd_u_be by reflexivity. cbn [N.eqb].
    rewrite rd_lp_enc by assumption.
    destruct arch.
    + subst idx. rewrite <- (app_nil_r (be 2 (blen []) ++ [])). rewrite <- ?app_assoc.
      rewrite rd_lp_enc by reflexivity. cbn [read_leaf_ext]. rewrite Z2N.id by lia. reflexivity.
    + change (be 1 0 ++ be 2 (blen (be 5 (Z.to_N idx))) ++ be 5 (Z.to_N idx)) with (ext_payload idx).
      rewrite <- (app_nil_r (be 2 (blen (ext_payload idx)) ++ ext_payload idx)). rewrite <- ?app_assoc.
      rewrite rd_lp_enc by (rewrite blen_ext_payload; reflexivity).
      rewrite read_leaf_ext_payload by assumption. rewrite Z2N.id by lia. reflexivity.
Qed.

Lemma merkle_inj e1 e2 : WF e1 -> WF e2 ->
  merkle_tree_leaf e1 = merkle_tree_leaf e2 -> covered e1 = covered e2.
Proof.
  intros W1 W2 H. rewrite !merkle_spec in H by assumption.
  assert (H' : tls_merkle_tree_leaf_spec e1 = tls_merkle_tree_leaf_spec e2) by congruence.
  apply (f_equal read_mleaf) in H'.
  rewrite !read_mleaf_spec in H' by assumption. congruence.
Qed.

(* ---- extensions ---- *)

Lemma parse_marshal_ext idx : (0 <= idx < two40)%Z ->
  parse_extensions (ext_payload idx) = Some idx.
Proof.
  intro H. unfold parse_extensions.
  assert (El : length (ext_payload idx) = 8%nat).
  { pose proof (blen_ext_payload idx) as B. unfold blen in B. lia. }
  rewrite El. cbn [parse_extensions_fuel].
  destruct (ext_payload idx) eqn:E; [discriminate El|]. rewrite <- E. clear E.
  unfold ext_payload. rewrite rd_u_be by reflexivity.
  replace (be 2 5 ++ be 5 (Z.to_N idx)) with (be 2 (blen (be 5 (Z.to_N idx))) ++ be 5 (Z.to_N idx) ++ [])
    by (rewrite blen_be, app_nil_r; reflexivity).
  rewrite rd_lp_enc by (rewrite blen_be; reflexivity).
  cbn [N.eqb]. rewrite <- (app_nil_r (be 5 _)).
  rewrite rd_u_be by (change (pow256 5) with 1099511627776; unfold two40 in H; lia).
  f_equal. lia.
Qed.

(* ---- tile paths: parse -> print (canonicity) ---- *)

Lemma cut_prefix_inv p : forall s r, cut_prefix p s = Some r -> s = p ++ r.
Proof.
  induction p as [|x p IH]; intros s r H; cbn in *.
  - congruence.
  - destruct s as [|y s]; [discriminate|].
    destruct (Byte.eqb x y) eqn:E; [|discriminate].
    apply byte_eqb_eq in E. subst y. f_equal. now apply IH.
Qed.

Lemma cut_prefix_app p r : cut_prefix p (p ++ r) = Some r.
Proof.
  induction p as [|x p IH]; cbn; [reflexivity|].
  now rewrite (proj2 (byte_eqb_eq x x) eq_refl).
Qed.

Lemma trim_prefix_app p r : trim_prefix p (p ++ r) = r.
Proof. unfold trim_prefix. now rewrite cut_prefix_app. Qed.

Lemma atoi_bound s z : atoi s = Some z -> (- two63 <= z < two63)%Z.
Proof.
  unfold atoi.
  set (pr := match s with | "-"%byte :: r => (true, r) | "+"%byte :: r => (false, r) | _ => (false, s) end).
  destruct pr as [neg ds]. destruct ds; [discriminate|].
  destruct (digits_val (b :: ds) 0) as [v|]; [|discriminate].
  destruct neg.
  - destruct (N.leb_spec v 9223372036854775808); [|discriminate]. intro Hz; inversion Hz. unfold two63. lia.
  - destruct (N.leb_spec v 9223372036854775807); [|discriminate]. intro Hz; inversion Hz. unfold two63. lia.
Qed.

Lemma parse_nnn_nonneg f : forall n m, parse_nnn f n = Some m -> (0 <= n)%Z -> (0 <= m)%Z.
Proof.
  induction f as [|s f IH]; intros n m H Hn; cbn [parse_nnn] in H.
  - inversion H; subst; assumption.
  - destruct (atoi (trim_prefix ["x"%byte] s)) as [nn|]; [|discriminate].
    destruct ((nn <? 0)%Z || (nn >=? 1000)%Z) eqn:E; [discriminate|].
    apply IH in H; [assumption|lia].
Qed.

Lemma tlog_parse_inv p t :
  tlog_parse_tile_path p = Some t ->
  let f := split_slash p in
  atoi (nth 1 f []) = Some (t_H t) /\
  (if bytes_eqb (nth 2 f []) (s2b "data") then t_L t = (-1)%Z else (0 <= t_L t < two63)%Z) /\
  (0 <= t_N t < two63)%Z /\ (1 <= t_W t <= 2 ^ t_H t)%Z /\ (1 <= t_H t <= 30)%Z /\
  p = tlog_tile_path t.
Proof.
  intros H f. unfold tlog_parse_tile_path in H. fold f in H. cbv zeta in H.
  destruct (length f <? 4)%nat; [discriminate|].
  destruct (negb (bytes_eqb (nth 0 f []) (s2b "tile"))); [discriminate|].
  destruct (atoi (nth 1 f [])) as [h|] eqn:Eh; [|discriminate].
  set (isData := bytes_eqb (nth 2 f []) (s2b "data")) in *.
  destruct (atoi (if isData then ["0"%byte] else nth 2 f [])) as [l|] eqn:El; [|discriminate].
  destruct ((h <? 1)%Z || (l <? 0)%Z || (h >? 30)%Z) eqn:Eg; [discriminate|].
  set (f' := if isData then firstn 2 f ++ ["0"%byte] :: skipn 3 f else f) in *.
  destruct (if has_suffix (s2b ".p") (nth (length f' - 2) f' [])
            then ww <- atoi (nth (length f' - 1) f' []);;
                 (if (ww <=? 0)%Z || (ww >=? 2 ^ h)%Z then None
                  else Some (ww, firstn (length f' - 2) f' ++ [strip_last2 (nth (length f' - 2) f' [])]))
            else Some ((2 ^ h)%Z, f')) as [[w f'']|] eqn:Ew; [|discriminate].
  destruct (parse_nnn (skipn 3 f'') 0) as [n|] eqn:En; [|discriminate].
  destruct (n >=? two63)%Z eqn:Enb; [discriminate|].
  destruct (bytes_eqb p _) eqn:Ep; [|discriminate].
  assert (Ht : t = mkTile h (if isData then -1 else l)%Z n w) by congruence.
  clear H. rewrite Ht. cbn [t_H t_L t_N t_W].
  apply bytes_eqb_eq in Ep.
  apply parse_nnn_nonneg in En; [|lia].
  assert (Hw : (1 <= w <= 2 ^ h)%Z).
  { destruct (has_suffix _ _).
    - destruct (atoi (nth (length f' - 1) f' [])) as [ww|]; [|discriminate].
      destruct ((ww <=? 0)%Z || (ww >=? 2 ^ h)%Z) eqn:E; [discriminate|].
      assert (w = ww) by congruence. lia.
    - assert (w = 2 ^ h)%Z by congruence. assert (0 < 2 ^ h)%Z by (apply Z.pow_pos_nonneg; lia). lia. }
  repeat split; try lia; try assumption.
  destruct isData.
  - reflexivity.
  - apply atoi_bound in El. lia.
Qed.

Lemma split_names rest :
  split_slash (s2b "tile/8/data/" ++ rest) = s2b "tile" :: s2b "8" :: s2b "data" :: split_slash rest.
Proof. reflexivity. Qed.

Lemma split_tile8 rest :
  split_slash (s2b "tile/8/" ++ rest) = s2b "tile" :: s2b "8" :: split_slash rest.
Proof. reflexivity. Qed.

Lemma parse_path_canonical s t :
  parse_tile_path s = Some t -> tile_path t = Some s /\ valid_tile t = true.
Proof.
  unfold parse_tile_path.
  destruct (cut_prefix (s2b "tile/names/") s) as [rest|] eqn:E1.
  - apply cut_prefix_inv in E1. subst s.
    destruct (tlog_parse_tile_path (s2b "tile/8/data/" ++ rest)) as [t'|] eqn:E2; [|discriminate].
    intro H; inversion H; subst t; clear H.
    apply tlog_parse_inv in E2. rewrite split_names in E2. cbn [nth] in E2.
    destruct E2 as (Hh & Hl & Hn & Hw & _ & Hp).
    change (atoi (s2b "8")) with (Some 8%Z) in Hh.
    change (bytes_eqb (s2b "data") (s2b "data")) with true in Hl. cbv iota in Hl.
    destruct t' as [h l n w]; cbn [t_H t_L t_N t_W] in *.
    assert (h = 8%Z) by congruence. subst h l. split.
    + unfold tile_path. cbn [t_H t_L t_N t_W Z.eqb Pos.eqb negb].
      rewrite <- Hp. rewrite trim_prefix_app. reflexivity.
    + unfold valid_tile. cbn [t_H t_L t_N t_W]. unfold two63 in *. lia.
  - destruct (cut_prefix (s2b "tile/") s) as [rest|] eqn:E3; [|discriminate].
    apply cut_prefix_inv in E3. subst s. intro E2.
    apply tlog_parse_inv in E2. rewrite split_tile8 in E2. cbn [nth] in E2.
    destruct E2 as (Hh & Hl & Hn & Hw & _ & Hp).
    change (atoi (s2b "8")) with (Some 8%Z) in Hh.
    destruct t as [h l n w]; cbn [t_H t_L t_N t_W] in *.
    assert (h = 8%Z) by congruence. subst h.
    assert (HL : (-1 <= l < two63)%Z).
    { destruct (bytes_eqb _ _); unfold two63 in *; lia. }
    split.
    + unfold tile_path. cbn [t_H t_L t_N t_W Z.eqb Pos.eqb negb].
      destruct (Z.eqb_spec l (-2)); [lia|].
      rewrite <- Hp. rewrite trim_prefix_app. reflexivity.
    + unfold valid_tile. cbn [t_H t_L t_N t_W]. unfold two63 in *. lia.
Qed.

(* ---- statements in the form used by Properties/C10.v ---- *)

Lemma c10_encode_decode t e : wf_leaf e = true ->
  exists bs, append_tile_leaf t e = Some (t ++ bs) /\
    forall rest, read_tile_leaf_maybe_archival (bs ++ rest) = Some (e, rest).
Proof.
  intro H. apply wf_leaf_WF in H. exists (enc_leaf e). split; [now apply append_spec|].
  intro rest. now apply read_enc.
Qed.

Lemma c10_decode_encode bs e rest : read_tile_leaf_maybe_archival bs = Some (e, rest) ->
  wf_leaf e = true /\ exists enc, append_tile_leaf [] e = Some enc /\ bs = enc ++ rest.
Proof.
  intro H. apply read_inv in H. destruct H as [W E]. split; [now apply wf_leaf_WF|].
  exists (enc_leaf e). split; [now rewrite append_spec|assumption].
Qed.

Lemma c10_read_strict bs e rest :
  read_tile_leaf bs = Some (e, rest) <->
  read_tile_leaf_maybe_archival bs = Some (e, rest) /\ l_arch e = false.
Proof.
  unfold read_tile_leaf, read_tile_leaf_maybe_archival.
  destruct (read_tile_leaf_raw bs) as [[e' r']|]; [|split; [discriminate|intros [? _]; discriminate]].
  destruct (l_arch e') eqn:E; split.
  - discriminate.
  - intros [H1 H2]. inversion H1; subst. congruence.
  - intro H. inversion H; subst. auto.
  - intros [H1 H2]. assumption.
Qed.

Lemma c10_merkle_spec e : wf_leaf e = true -> merkle_tree_leaf e = Some (tls_merkle_tree_leaf_spec e).
Proof. intro H. apply merkle_spec. now apply wf_leaf_WF. Qed.

Lemma c10_merkle_inj e1 e2 : wf_leaf e1 = true -> wf_leaf e2 = true ->
  merkle_tree_leaf e1 = merkle_tree_leaf e2 -> covered e1 = covered e2.
Proof. intros H1 H2. apply merkle_inj; now apply wf_leaf_WF. Qed.

Lemma c10_ext_roundtrip idx : (0 <= idx < two40)%Z ->
  exists b, marshal_extensions idx = Some b /\ parse_extensions b = Some idx.
Proof. intro H. exists (ext_payload idx). split; [now apply marshal_extensions_ok|now apply parse_marshal_ext]. Qed.
