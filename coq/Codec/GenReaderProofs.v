(* Codec/GenReaderProofs.v — readTileLeaf as GENERATED from tile.go (Gen/Readers.v, rewritten by
   /verif/translate on every check run: a decision tree over the record of the Go variables the
   function writes, the fingerprint loop a fuelled fixpoint) computes exactly the hand-written
   model's read_tile_leaf_raw, on every byte string; and MarshalExtensions as generated from
   extensions.go is the model's marshal_extensions. The helper readUint40 (ReadBytes 5 + shifts)
   and addUint40 stay hand transcriptions: they are parameters of the generated terms, instantiated
   here with rd_u 5 / be 5. *)
From SL Require Import Base.Bytes Base.Cryptobyte Base.ReaderGen Gen.Readers Gen.Builders2 Codec.Leaf Codec.LeafProofs.
From Coq Require Import String List Lia ZifyN ZifyNat ZifyBool.
Open Scope N_scope.

Definition rtl_leaf (st : gen_rtl_st) : leaf :=
  mkLeaf (gen_rtl_e_certificate st) (gen_rtl_e_isprecert st) (gen_rtl_e_issuerkeyhash st)
         (gen_rtl_e_chainfingerprints st) (gen_rtl_e_precertificate st)
         (Z.of_N (gen_rtl_e_leafindex st)) (gen_rtl_e_rfc6962archivalleaf st)
         (Z.of_N (gen_rtl_e_timestamp st)).

(* the successful return `return e, s, nil`: the entry and the rest of the tile *)
Definition rtl_result (o : outcome gen_rtl_st) : option (leaf * bytes) :=
  match o with
  | Done r st => if String.eqb r "e, s, nil" then Some (rtl_leaf st, gen_rtl_s st) else None
  | _ => None
  end.

Lemma take32_is_rd_bytes s : rd_bytes 32 s = take32 s.
Proof.
  unfold rd_bytes, take32, blen. change (N.to_nat 32) with 32%nat.
  pose proof (firstn_length 32 s) as HL.
  destruct (32 <=? N.of_nat (length s)) eqn:E; destruct (Nat.eqb_spec (length (firstn 32 s)) 32) as [H|H];
    try reflexivity; exfalso; lia.
Qed.

(* everything of the state that the result reads, except the fingerprint list *)
Definition rtl_core (st : gen_rtl_st) :=
  (gen_rtl_e_certificate st, gen_rtl_e_isprecert st, gen_rtl_e_issuerkeyhash st, gen_rtl_e_leafindex st,
   gen_rtl_e_precertificate st, gen_rtl_e_rfc6962archivalleaf st, gen_rtl_e_timestamp st, gen_rtl_s st).

Lemma gen_rtl_loop1_spec : forall fuel st rfuel,
  (length (gen_rtl_fingerprints st) < fuel)%nat ->
  (length (gen_rtl_fingerprints st) <= rfuel)%nat ->
  match read_fps rfuel (gen_rtl_fingerprints st) with
  | Some fps => exists st', gen_rtl_loop1 fuel st = Go st' /\ rtl_core st' = rtl_core st /\
                            gen_rtl_e_chainfingerprints st' = gen_rtl_e_chainfingerprints st ++ fps
  | None => exists m, gen_rtl_loop1 fuel st = Fail m
  end.
Proof.
  induction fuel as [|fuel IH]; intros st rfuel Hf Hr; [lia|].
  cbn [gen_rtl_loop1].
  destruct (gen_rtl_fingerprints st) as [|b fp] eqn:Efp.
  - destruct rfuel; cbn [read_fps is_nil negb]; exists st; rewrite app_nil_r; repeat split.
  - cbn [is_nil negb].
    destruct rfuel as [|rfuel]; [cbn [length] in Hr; lia|].
    cbn [read_fps gen_rtl_set_f gen_rtl_fingerprints]. rewrite ?Efp.
    rewrite take32_is_rd_bytes.
    destruct (take32 (b :: fp)) as [[f r]|] eqn:ET; [|eexists; reflexivity].
    pose proof (take32_inv _ _ _ ET) as [Es Hlen].
    assert (Hrl : (length r + 32 = length (b :: fp))%nat) by (rewrite Es, app_length; lia).
    cbn [length] in Hf, Hr, Hrl.
    match goal with |- context [gen_rtl_loop1 fuel ?S] => set (st2 := S) end.
    assert (E2 : gen_rtl_fingerprints st2 = r) by reflexivity.
    specialize (IH st2 rfuel). rewrite E2 in IH.
    specialize (IH ltac:(lia) ltac:(lia)).
    destruct (read_fps rfuel r) as [rest|].
    + destruct IH as [st' [HL [HC HCh]]]. exists st'. split; [exact HL|]. split.
      * rewrite HC. reflexivity.
      * rewrite HCh. subst st2. cbn [gen_rtl_e_chainfingerprints gen_rtl_set_e_chainfingerprints gen_rtl_set_f gen_rtl_set_fingerprints gen_rtl_f].
        rewrite <- app_assoc. reflexivity.
    + exact IH.
Qed.

Ltac rtl_step :=
  cbn [gen_rtl_zero
       gen_rtl_set_e_certificate gen_rtl_set_e_chainfingerprints gen_rtl_set_e_isprecert gen_rtl_set_e_issuerkeyhash
       gen_rtl_set_e_leafindex gen_rtl_set_e_precertificate gen_rtl_set_e_rfc6962archivalleaf gen_rtl_set_e_timestamp
       gen_rtl_set_entrytype gen_rtl_set_extensiondata gen_rtl_set_extensions gen_rtl_set_extensiontype gen_rtl_set_f
       gen_rtl_set_fingerprints gen_rtl_set_s gen_rtl_set_timestamp
       gen_rtl_e_certificate gen_rtl_e_chainfingerprints gen_rtl_e_isprecert gen_rtl_e_issuerkeyhash
       gen_rtl_e_leafindex gen_rtl_e_precertificate gen_rtl_e_rfc6962archivalleaf gen_rtl_e_timestamp
       gen_rtl_entrytype gen_rtl_extensiondata gen_rtl_extensions gen_rtl_extensiontype gen_rtl_f
       gen_rtl_fingerprints gen_rtl_s gen_rtl_timestamp].

(* the fingerprint loop followed by `return e, s, nil`, from any state *)
Lemma rtl_loop_result : forall st1 fuel, let fpb := gen_rtl_fingerprints st1 in fuel = S (length fpb) ->
  gen_rtl_e_chainfingerprints st1 = [] ->
  rtl_result (obind (gen_rtl_loop1 fuel st1) (fun st : gen_rtl_st => Done "e, s, nil" st))
  = match read_fps (length fpb) fpb with
    | Some fps => Some (mkLeaf (gen_rtl_e_certificate st1) (gen_rtl_e_isprecert st1) (gen_rtl_e_issuerkeyhash st1) fps
                               (gen_rtl_e_precertificate st1) (Z.of_N (gen_rtl_e_leafindex st1)) (gen_rtl_e_rfc6962archivalleaf st1)
                               (Z.of_N (gen_rtl_e_timestamp st1)), gen_rtl_s st1)
    | None => None
    end.
Proof.
  intros st1 fuel fpb Hfuel H2. subst fuel.
  pose proof (gen_rtl_loop1_spec (S (length fpb)) st1 (length fpb)) as SP.
  fold fpb in SP. specialize (SP ltac:(lia) ltac:(lia)).
  destruct (read_fps (length fpb) fpb) as [fps|].
  - destruct SP as [st' [HL [HC HCh]]]. rewrite HL. cbn [obind rtl_result].
    change (String.eqb "e, s, nil" "e, s, nil") with true. cbv iota.
    unfold rtl_leaf. rewrite HCh, H2. cbn [app].
    unfold rtl_core in HC. inversion HC as [[E1 E2 E3 E4 E5 E6 E7 E8]].
    rewrite E1, E2, E3, E4, E5, E6, E7, E8. reflexivity.
  - destruct SP as [m HL]. rewrite HL. reflexivity.
Qed.

(* the part after the entry-type switch: the extensions field, the loop, the return *)
Ltac rtl_tail :=
  unfold read_leaf_ext;
  match goal with |- context [is_nil ?e] => destruct e as [|e0 ext'] end; cbn [is_nil];
  [ rewrite rtl_loop_result by reflexivity; rtl_step;
    match goal with |- context [read_fps ?n ?b] => destruct (read_fps n b) end; reflexivity
  | match goal with |- context [rd_u 1 ?x] => destruct (rd_u 1 x) as [[ety e1]|] end; [|reflexivity];
    match goal with |- context [negb ?c] => destruct (negb c) end; [reflexivity|];
    match goal with |- context [rd_lp 2 ?x] => destruct (rd_lp 2 x) as [[data e2]|] end; [|reflexivity];
    match goal with |- context [rd_u 5 ?x] => destruct (rd_u 5 x) as [[v d2]|] end; [|reflexivity];
    match goal with |- context [negb (is_nil ?x)] => destruct x end; cbn [is_nil negb]; [|reflexivity];
    match goal with |- context [negb (is_nil ?x)] => destruct x end; cbn [is_nil negb]; [|reflexivity];
    rewrite rtl_loop_result by reflexivity; rtl_step;
    match goal with |- context [read_fps ?n ?b] => destruct (read_fps n b) end; reflexivity ].

Theorem gen_rtl_is_model tile : rtl_result (gen_rtl (rd_u 5) tile) = read_tile_leaf_raw tile.
Proof.
  unfold gen_rtl, read_tile_leaf_raw. rtl_step.
  destruct (rd_u 8 tile) as [[ts s1]|]; [|reflexivity]. rtl_step.
  destruct (rd_u 2 s1) as [[ty s2]|]; [|reflexivity]. rtl_step.
  destruct (9223372036854775807 <? ts); [reflexivity|].
  destruct (ty =? 0) eqn:E0.
  - destruct (rd_lp 3 s2) as [[cert s3]|]; [|reflexivity]. rtl_step.
    destruct (rd_lp 2 s3) as [[ext s4]|]; [|reflexivity]. rtl_step.
    destruct (rd_lp 2 s4) as [[fpb s5]|]; [|reflexivity]. rtl_step.
    rtl_tail.
  - destruct (ty =? 1) eqn:E1.
    + rtl_step.
      destruct (rd_bytes 32 s2) as [[ikh s3]|]; [|reflexivity]. rtl_step.
      destruct (rd_lp 3 s3) as [[cert s4]|]; [|reflexivity]. rtl_step.
      destruct (rd_lp 2 s4) as [[ext s5]|]; [|reflexivity]. rtl_step.
      destruct (rd_lp 3 s5) as [[pre s6]|]; [|reflexivity]. rtl_step.
      destruct (rd_lp 2 s6) as [[fpb s7]|]; [|reflexivity]. rtl_step.
      rtl_tail.
    + reflexivity.
Qed.

(* the loop never runs out of its fuel: the generated reader returns, on every input *)
Theorem gen_rtl_never_out_of_fuel tile : gen_rtl (rd_u 5) tile <> NoFuel.
Proof.
  assert (L : forall st1 fuel k, (length (gen_rtl_fingerprints st1) < fuel)%nat ->
             (forall st, k st <> NoFuel) -> obind (gen_rtl_loop1 fuel st1) k <> NoFuel).
  { intros st1 fuel k Hf Hk.
    pose proof (gen_rtl_loop1_spec fuel st1 (length (gen_rtl_fingerprints st1)) Hf ltac:(lia)) as SP.
    destruct (read_fps _ _).
    - destruct SP as [st' [HL _]]. rewrite HL. cbn [obind]. apply Hk.
    - destruct SP as [m HL]. rewrite HL. discriminate. }
  unfold gen_rtl. rtl_step.
  destruct (rd_u 8 tile) as [[ts s1]|]; [|discriminate]. rtl_step.
  destruct (rd_u 2 s1) as [[ty s2]|]; [|discriminate]. rtl_step.
  destruct (9223372036854775807 <? ts); [discriminate|].
  destruct (ty =? 0).
  - destruct (rd_lp 3 s2) as [[cert s3]|]; [|discriminate]. rtl_step.
    destruct (rd_lp 2 s3) as [[ext s4]|]; [|discriminate]. rtl_step.
    destruct (rd_lp 2 s4) as [[fpb s5]|]; [|discriminate]. rtl_step.
    destruct ext as [|e0 ext']; cbn [is_nil].
    + apply L; [rtl_step; lia|discriminate].
    + destruct (rd_u 1 (e0 :: ext')) as [[ety e1]|]; [|discriminate].
      destruct (negb (ety =? 0)); [discriminate|].
      destruct (rd_lp 2 e1) as [[data e2]|]; [|discriminate].
      destruct (rd_u 5 data) as [[v d2]|]; [|discriminate].
      destruct (negb (is_nil d2)); [discriminate|].
      destruct (negb (is_nil e2)); [discriminate|].
      apply L; [rtl_step; lia|discriminate].
  - destruct (ty =? 1); [|discriminate]. rtl_step.
    destruct (rd_bytes 32 s2) as [[ikh s3]|]; [|discriminate]. rtl_step.
    destruct (rd_lp 3 s3) as [[cert s4]|]; [|discriminate]. rtl_step.
    destruct (rd_lp 2 s4) as [[ext s5]|]; [|discriminate]. rtl_step.
    destruct (rd_lp 3 s5) as [[pre s6]|]; [|discriminate]. rtl_step.
    destruct (rd_lp 2 s6) as [[fpb s7]|]; [|discriminate]. rtl_step.
    destruct ext as [|e0 ext']; cbn [is_nil].
    + apply L; [rtl_step; lia|discriminate].
    + destruct (rd_u 1 (e0 :: ext')) as [[ety e1]|]; [|discriminate].
      destruct (negb (ety =? 0)); [discriminate|].
      destruct (rd_lp 2 e1) as [[data e2]|]; [|discriminate].
      destruct (rd_u 5 data) as [[v d2]|]; [|discriminate].
      destruct (negb (is_nil d2)); [discriminate|].
      destruct (negb (is_nil e2)); [discriminate|].
      apply L; [rtl_step; lia|discriminate].
Qed.

Lemma gen_rtl_whole_function : gen_rtl_continues = ""%string.
Proof. reflexivity. Qed.

(* MarshalExtensions as generated from extensions.go: the range guard, then addUint40 *)
Lemma gen_marshal_extensions_is_model idx :
  gen_marshal_extensions (b_add (be 5 (Z.to_N idx))) idx = marshal_extensions idx.
Proof. reflexivity. Qed.

(* ---- ParseExtensions as generated from extensions.go: the loop over extensions, the first
        leaf_index extension decides ---- *)
From SL Require Import Base.BytesProofs.

Definition pext_result (o : outcome gen_pext_st) : option Z :=
  match o with
  | Done r st => if String.eqb r "e, nil" then Some (Z.of_N (gen_pext_e_leafindex st)) else None
  | _ => None
  end.

Ltac pext_step :=
  cbn [gen_pext_zero gen_pext_set_b gen_pext_set_e_leafindex gen_pext_set_extension gen_pext_set_extensiontype
       gen_pext_b gen_pext_e_leafindex gen_pext_extension gen_pext_extensiontype].

Lemma rd_u_shorter k s v r : rd_u k s = Some (v, r) -> (length r <= length s)%nat.
Proof. intro H. apply rd_u_inv in H. destruct H as [-> _]. rewrite app_length. lia. Qed.

Lemma rd_u1_shorter s v r : rd_u 1 s = Some (v, r) -> (length r < length s)%nat.
Proof.
  intro H. apply rd_u_inv in H. destruct H as [-> _]. rewrite app_length, length_be. lia.
Qed.

Lemma rd_lp_shorter k s c r : rd_lp k s = Some (c, r) -> (length r <= length s)%nat.
Proof. intro H. apply rd_lp_inv in H. destruct H as [-> _]. rewrite !app_length. lia. Qed.

Lemma gen_pext_loop_spec : forall fuel st rfuel k,
  (length (gen_pext_b st) < fuel)%nat -> (length (gen_pext_b st) < rfuel)%nat ->
  (forall st', pext_result (k st') = None) ->
  pext_result (obind (gen_pext_loop1 (rd_u 5) fuel st) k) = parse_extensions_fuel rfuel (gen_pext_b st).
Proof.
  induction fuel as [|fuel IH]; intros st rfuel k Hf Hr Hk; [lia|].
  destruct rfuel as [|rfuel]; [lia|].
  cbn [gen_pext_loop1 parse_extensions_fuel].
  destruct (gen_pext_b st) as [|b0 s] eqn:Eb.
  - cbn [is_nil negb obind]. apply Hk.
  - cbn [is_nil negb]. pext_step. rewrite Eb.
    destruct (rd_u 1 (b0 :: s)) as [[ty s1]|] eqn:E1; [|reflexivity]. pext_step.
    destruct (rd_lp 2 s1) as [[ext s2]|] eqn:E2; [|reflexivity]. pext_step.
    destruct (ty =? 0).
    + destruct (rd_u 5 ext) as [[v r]|]; [|reflexivity]. pext_step.
      destruct r; cbn [is_nil negb obind pext_result]; [|reflexivity].
      change (String.eqb "e, nil" "e, nil") with true. cbv iota. pext_step. reflexivity.
    + apply rd_u1_shorter in E1. apply rd_lp_shorter in E2. cbn [length] in *.
      match goal with |- context [gen_pext_loop1 _ fuel ?S] => set (st2 := S) end.
      assert (Eb2 : gen_pext_b st2 = s2) by reflexivity.
      rewrite <- Eb2. apply IH; [rewrite Eb2; lia|rewrite Eb2; lia|exact Hk].
Qed.

Theorem gen_pext_is_model s : pext_result (gen_pext (rd_u 5) s) = parse_extensions s.
Proof.
  unfold gen_pext, parse_extensions. pext_step.
  pose proof (gen_pext_loop_spec (S (length s)) (gen_pext_set_b s gen_pext_zero) (S (length s))) as H.
  pext_step. cbn [gen_pext_b gen_pext_set_b] in H. apply H; [lia|lia|reflexivity].
Qed.

Lemma gen_pext_whole_function : gen_pext_continues = ""%string.
Proof. reflexivity. Qed.
