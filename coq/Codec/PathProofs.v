(* Codec/PathProofs.v — print -> parse round trip for tile paths *)
From SL Require Import Base.Bytes Base.Cryptobyte Base.BytesProofs Codec.Leaf Codec.LeafProofs.
From Coq Require Import ZifyN ZifyNat ZifyBool.
Open Scope N_scope.
Ltac Zify.zify_post_hook ::= Z.div_mod_to_equations.

(* ---------- part 1: decimal digits ---------- *)

Lemma digit_is_digit n : is_digit (digit n) = true.
Proof.
  unfold is_digit, digit. rewrite to_N_byte_of_N.
  assert (n mod 10 < 10) by (apply N.mod_lt; lia).
  rewrite N.mod_small by lia. lia.
Qed.

Lemma digit_val_digit n : digit_val (digit n) = n mod 10.
Proof.
  unfold digit_val, digit. rewrite to_N_byte_of_N.
  assert (n mod 10 < 10) by (apply N.mod_lt; lia).
  rewrite N.mod_small by lia. lia.
Qed.

Lemma digits_val_app a : forall b acc,
  digits_val (a ++ b) acc =
  match digits_val a acc with Some v => digits_val b v | None => None end.
Proof.
  induction a as [|x a IH]; intros b acc; cbn [app digits_val]; [reflexivity|].
  destruct (is_digit x); [apply IH|reflexivity].
Qed.

Fixpoint p10 (k : nat) : N := match k with O => 1 | S k' => 10 * p10 k' end.

Definition alldig (s : bytes) : Prop := forallb is_digit s = true.

Lemma dec_fuel_spec f : forall n acc, n < p10 (S f) ->
  exists ds, dec_fuel (S f) n acc = ds ++ acc /\ ds <> [] /\ alldig ds /\
             digits_val ds 0 = Some n.
Proof.
  induction f as [|f IH]; intros n acc Hn.
  - cbn [p10] in Hn. cbn [dec_fuel].
    destruct (N.ltb_spec n 10); [|lia].
    exists [digit n]. repeat split; [discriminate| |].
    + unfold alldig. cbn [forallb]. now rewrite digit_is_digit.
    + cbn [digits_val]. rewrite digit_is_digit, digit_val_digit. f_equal. lia.
  - change (dec_fuel (S (S f)) n acc) with
      (if n <? 10 then digit n :: acc else dec_fuel (S f) (n / 10) (digit n :: acc)).
    destruct (N.ltb_spec n 10).
    + exists [digit n]. repeat split; [discriminate| |].
      * unfold alldig. cbn [forallb]. now rewrite digit_is_digit.
      * cbn [digits_val]. rewrite digit_is_digit, digit_val_digit. f_equal. lia.
    + change (p10 (S (S f))) with (10 * p10 (S f)) in Hn.
      destruct (IH (n / 10) (digit n :: acc)) as (ds & E & Hne & Hd & Hv); [lia|].
      exists (ds ++ [digit n]). repeat split.
      * rewrite E, <- app_assoc. reflexivity.
      * destruct ds; discriminate.
      * unfold alldig in *. rewrite forallb_app, Hd. cbn [forallb]. now rewrite digit_is_digit.
      * rewrite digits_val_app, Hv. cbn [digits_val].
        rewrite digit_is_digit, digit_val_digit. f_equal. lia.
Qed.

Lemma two63_lt_p10 : 9223372036854775808 < p10 80.
Proof. vm_compute. reflexivity. Qed.

Lemma dec_spec n : n <= 9223372036854775808 ->
  dec n <> [] /\ alldig (dec n) /\ digits_val (dec n) 0 = Some n.
Proof.
  intro H. unfold dec.
  destruct (dec_fuel_spec 79 n []) as (ds & E & Hne & Hd & Hv).
  { pose proof two63_lt_p10. lia. }
  rewrite E, app_nil_r. auto.
Qed.

(* per-byte facts about digits *)
Lemma digit_byte_facts b : is_digit b = true ->
  Byte.eqb b x2f = false /\ Byte.eqb b x70 = false /\ Byte.eqb x6e b = false /\
  Byte.eqb b x64 = false /\ b <> x2d /\ b <> x2b.
Proof.
  intro H. destruct b; try (exfalso; vm_compute in H; discriminate H);
    (repeat split; try reflexivity; discriminate).
Qed.

Lemma atoi_digits b r v : is_digit b = true -> digits_val (b :: r) 0 = Some v ->
  v <= 9223372036854775807 -> atoi (b :: r) = Some (Z.of_N v).
Proof.
  intros Hb Hv Hle. unfold atoi.
  destruct b; try (exfalso; vm_compute in Hb; discriminate Hb);
    cbv beta iota; rewrite Hv; destruct (N.leb_spec v 9223372036854775807); try lia; reflexivity.
Qed.

Lemma atoi_dec n : n <= 9223372036854775807 -> atoi (dec n) = Some (Z.of_N n).
Proof.
  intro H. destruct (dec_spec n) as (Hne & Hd & Hv); [lia|].
  destruct (dec n) as [|b r]; [congruence|].
  apply atoi_digits; try assumption.
  unfold alldig in Hd. cbn [forallb] in Hd. apply andb_true_iff in Hd. tauto.
Qed.

Lemma decZ_nonneg z : (0 <= z)%Z -> decZ z = dec (Z.to_N z).
Proof. intro H. destruct z; try reflexivity. lia. Qed.

Lemma atoi_decZ z : (0 <= z < two63)%Z -> atoi (decZ z) = Some z.
Proof.
  intro H. rewrite decZ_nonneg by lia. rewrite atoi_dec by (unfold two63 in H; lia).
  f_equal. lia.
Qed.

(* ---------- part 2: clean strings, splitting, suffixes ---------- *)

Definition okb (b : byte) : bool := negb (Byte.eqb b x2f) && negb (Byte.eqb b x70).
Definition clean (s : bytes) : Prop := forallb okb s = true.

Lemma digit_okb b : is_digit b = true -> okb b = true.
Proof. intro H. destruct (digit_byte_facts b H) as (A & B & _). unfold okb. now rewrite A, B. Qed.

Lemma alldig_clean s : alldig s -> clean s.
Proof.
  unfold alldig, clean. induction s as [|b s IH]; cbn [forallb]; [reflexivity|].
  intro H. apply andb_true_iff in H. destruct H as [H1 H2].
  now rewrite digit_okb, IH.
Qed.

Lemma clean_app a b : clean a -> clean b -> clean (a ++ b).
Proof. unfold clean. intros A B. now rewrite forallb_app, A, B. Qed.

Lemma clean_cons x a : okb x = true -> clean a -> clean (x :: a).
Proof. unfold clean. intros A B. cbn [forallb]. now rewrite A, B. Qed.

Definition nsb (b : byte) : bool := negb (Byte.eqb b x2f).
Definition noslash (s : bytes) : Prop := forallb nsb s = true.

Lemma clean_noslash s : clean s -> noslash s.
Proof.
  unfold clean, noslash. induction s as [|b s IH]; cbn [forallb]; [reflexivity|].
  intro H. apply andb_true_iff in H. destruct H as [H1 H2].
  unfold okb in H1. apply andb_true_iff in H1. destruct H1 as [H1 _].
  unfold nsb at 1. rewrite H1. cbn [andb]. now apply IH.
Qed.

Lemma noslash_app a b : noslash a -> noslash b -> noslash (a ++ b).
Proof. unfold noslash. intros A B. now rewrite forallb_app, A, B. Qed.

Lemma split_on_ns_end a : forall cur, noslash a -> split_on x2f a cur = [rev cur ++ a].
Proof.
  induction a as [|b a IH]; intros cur H; cbn [split_on].
  - now rewrite app_nil_r.
  - unfold noslash in H. cbn [forallb] in H. apply andb_true_iff in H. destruct H as [H1 H2].
    unfold nsb in H1. apply negb_true_iff in H1. rewrite H1. rewrite IH by exact H2.
    cbn [rev]. now rewrite <- app_assoc.
Qed.

Lemma split_on_ns_sep a : forall b cur, noslash a ->
  split_on x2f (a ++ x2f :: b) cur = (rev cur ++ a) :: split_on x2f b [].
Proof.
  induction a as [|x a IH]; intros b cur H; cbn [split_on app].
  - change (Byte.eqb x2f x2f) with true. cbv iota. now rewrite app_nil_r.
  - unfold noslash in H. cbn [forallb] in H. apply andb_true_iff in H. destruct H as [H1 H2].
    unfold nsb in H1. apply negb_true_iff in H1. rewrite H1. rewrite IH by exact H2.
    cbn [rev]. now rewrite <- app_assoc.
Qed.

Lemma split_on_clean_end a cur : clean a -> split_on x2f a cur = [rev cur ++ a].
Proof. intro H. apply split_on_ns_end. now apply clean_noslash. Qed.

Lemma split_on_clean_sep a b cur : clean a ->
  split_on x2f (a ++ x2f :: b) cur = (rev cur ++ a) :: split_on x2f b [].
Proof. intro H. apply split_on_ns_sep. now apply clean_noslash. Qed.

Definition flat (gs : list bytes) : bytes := concat (map (fun g => g ++ [x2f]) gs).

Lemma split_flat gs : forall rest, Forall clean gs ->
  split_on x2f (flat gs ++ rest) [] = gs ++ split_on x2f rest [].
Proof.
  induction gs as [|g gs IH]; intros rest H; [reflexivity|].
  inversion H as [|? ? Hg Hgs]; subst.
  unfold flat. cbn [map concat]. fold (flat gs).
  rewrite <- !app_assoc. cbn [app].
  rewrite split_on_clean_sep by assumption. cbn [rev app].
  now rewrite IH.
Qed.

Lemma clean_nop s : clean s -> has_suffix (s2b ".p") s = false.
Proof.
  intro H. unfold has_suffix. change (rev (s2b ".p")) with [x70; x2e].
  destruct (rev s) as [|b r] eqn:E; [reflexivity|].
  assert (Hin : In b s) by (apply in_rev; rewrite E; now left).
  unfold clean in H. rewrite forallb_forall in H. specialize (H b Hin).
  unfold okb in H. apply andb_true_iff in H. destruct H as [_ H].
  apply negb_true_iff in H. cbn [cut_prefix].
  destruct (Byte.eqb x70 b) eqn:E2; [|reflexivity].
  apply byte_eqb_eq in E2. subst b. discriminate H.
Qed.

Lemma has_suffix_app a suf : has_suffix suf (a ++ suf) = true.
Proof. unfold has_suffix. now rewrite rev_app_distr, cut_prefix_app. Qed.

Lemma strip_last2_app a x y : strip_last2 (a ++ [x; y]) = a.
Proof.
  unfold strip_last2. rewrite app_length. cbn [length].
  replace (length a + 2 - 2)%nat with (length a + 0)%nat by lia.
  rewrite firstn_app_2. cbn [firstn]. apply app_nil_r.
Qed.

(* finite sweep over the 1000 group values *)
Definition group_ok (d : N) : bool :=
  forallb is_digit (pad3 d)
  && match atoi (pad3 d) with Some v => (v =? Z.of_N d)%Z | None => false end.

Lemma group_sweep : forallb group_ok (map N.of_nat (seq 0 (N.to_nat 1000))) = true.
Proof. vm_compute. reflexivity. Qed.

Lemma group_facts d : d < 1000 -> alldig (pad3 d) /\ atoi (pad3 d) = Some (Z.of_N d).
Proof.
  intro H. pose proof group_sweep as S. rewrite forallb_forall in S.
  specialize (S d). unfold group_ok in S.
  assert (Hin : In d (map N.of_nat (seq 0 (N.to_nat 1000)))).
  { replace d with (N.of_nat (N.to_nat d)) by lia. apply in_map. apply in_seq. lia. }
  specialize (S Hin). apply andb_true_iff in S. destruct S as [S1 S2].
  split; [exact S1|].
  destruct (atoi (pad3 d)) as [v|]; [|discriminate]. f_equal. lia.
Qed.

Lemma trim_x_digit b r : is_digit b = true -> trim_prefix [x78] (b :: r) = b :: r.
Proof.
  intro H. unfold trim_prefix. cbn [cut_prefix].
  destruct b; try (exfalso; vm_compute in H; discriminate H); reflexivity.
Qed.

Lemma pad3_nonempty d : d < 1000 -> exists b r, pad3 d = b :: r /\ is_digit b = true.
Proof.
  intro H. destruct (group_facts d H) as [A B].
  destruct (pad3 d) as [|b r] eqn:E.
  - vm_compute in B. discriminate B.
  - exists b, r. split; [reflexivity|]. unfold alldig in A. cbn [forallb] in A.
    apply andb_true_iff in A. tauto.
Qed.

Lemma atoi_last_group d : d < 1000 -> atoi (trim_prefix [x78] (pad3 d)) = Some (Z.of_N d).
Proof.
  intro H. destruct (pad3_nonempty d H) as (b & r & E & Hb).
  rewrite E, trim_x_digit by assumption. rewrite <- E. now apply group_facts.
Qed.

Lemma atoi_x_group d : d < 1000 -> atoi (trim_prefix [x78] (x78 :: pad3 d)) = Some (Z.of_N d).
Proof.
  intro H. change (x78 :: pad3 d) with ([x78] ++ pad3 d). rewrite trim_prefix_app.
  now apply group_facts.
Qed.

(* ---------- part 3: nstr and parse_nnn ---------- *)

Definition xgroup (m : Z) : bytes := x78 :: pad3 (Z.to_N (m mod 1000)).

Fixpoint xgroups (fuel : nat) (n : Z) : list bytes :=
  match fuel with
  | O => []
  | S f => if (n >=? 1000)%Z then xgroups f (n / 1000)%Z ++ [xgroup (n / 1000)%Z] else []
  end.

Lemma flat_app a b : flat (a ++ b) = flat a ++ flat b.
Proof. unfold flat. now rewrite map_app, concat_app. Qed.

Lemma nstr_loop_spec fuel : forall n acc,
  nstr_loop fuel n acc = flat (xgroups fuel n) ++ acc.
Proof.
  induction fuel as [|f IH]; intros n acc; cbn [nstr_loop xgroups]; [reflexivity|].
  destruct (n >=? 1000)%Z; [|reflexivity].
  cbv zeta. rewrite IH, flat_app, <- app_assoc. f_equal.
  unfold flat, xgroup. cbn [map concat app]. rewrite app_nil_r, <- app_assoc. reflexivity.
Qed.

Lemma nstr_spec n : nstr n = flat (xgroups 30 n) ++ pad3 (Z.to_N (n mod 1000)).
Proof. unfold nstr. apply nstr_loop_spec. Qed.

Lemma xgroup_clean m : clean (xgroup m).
Proof.
  unfold xgroup. apply clean_cons; [reflexivity|]. apply alldig_clean.
  apply group_facts. lia.
Qed.

Lemma xgroups_clean fuel : forall n, Forall clean (xgroups fuel n).
Proof.
  induction fuel as [|f IH]; intro n; cbn [xgroups]; [constructor|].
  destruct (n >=? 1000)%Z; [|constructor].
  apply Forall_app. split; [apply IH|]. constructor; [apply xgroup_clean|constructor].
Qed.

Lemma parse_nnn_app a : forall b acc,
  parse_nnn (a ++ b) acc =
  match parse_nnn a acc with Some v => parse_nnn b v | None => None end.
Proof.
  induction a as [|s a IH]; intros b acc; cbn [app parse_nnn]; [reflexivity|].
  destruct (atoi (trim_prefix [x78] s)) as [nn|]; [|reflexivity].
  destruct ((nn <? 0)%Z || (nn >=? 1000)%Z); [reflexivity|apply IH].
Qed.

Fixpoint p1000 (k : nat) : Z := match k with O => 1%Z | S k' => (1000 * p1000 k')%Z end.

Lemma parse_xgroup m acc : parse_nnn [xgroup m] acc = Some (acc * 1000 + m mod 1000)%Z.
Proof.
  cbn [parse_nnn]. unfold xgroup. rewrite atoi_x_group by lia.
  rewrite Z2N.id by lia.
  destruct ((m mod 1000 <? 0)%Z || (m mod 1000 >=? 1000)%Z) eqn:E; [lia|reflexivity].
Qed.

Lemma parse_xgroups fuel : forall n, (0 <= n < p1000 (S fuel))%Z ->
  parse_nnn (xgroups fuel n) 0 = Some (n / 1000)%Z.
Proof.
  induction fuel as [|f IH]; intros n Hn.
  - cbn [p1000] in Hn. cbn [xgroups parse_nnn]. f_equal. lia.
  - change (p1000 (S (S f))) with (1000 * p1000 (S f))%Z in Hn.
    cbn [xgroups]. destruct (Z.geb_spec n 1000).
    + rewrite parse_nnn_app, IH by lia. rewrite parse_xgroup. f_equal. lia.
    + cbn [parse_nnn]. f_equal. lia.
Qed.

Lemma two63_lt_p1000 : (two63 < p1000 31)%Z.
Proof. vm_compute. reflexivity. Qed.

Lemma parse_last d acc : (0 <= d < 1000)%Z ->
  parse_nnn [pad3 (Z.to_N d)] acc = Some (acc * 1000 + d)%Z.
Proof.
  intro H. cbn [parse_nnn]. rewrite atoi_last_group by lia. rewrite Z2N.id by lia.
  destruct ((d <? 0)%Z || (d >=? 1000)%Z) eqn:E; [lia|reflexivity].
Qed.

Lemma parse_all_groups n : (0 <= n < two63)%Z ->
  parse_nnn (xgroups 30 n ++ [pad3 (Z.to_N (n mod 1000))]) 0 = Some n.
Proof.
  intro H. rewrite parse_nnn_app, parse_xgroups by (pose proof two63_lt_p1000; lia).
  rewrite parse_last by lia. f_equal. lia.
Qed.

(* ---------- part 4: list index helpers ---------- *)

Lemma nth_pre_last (pre : list bytes) z : pre <> [] ->
  In (nth (length (pre ++ [z]) - 2) (pre ++ [z]) []) pre.
Proof.
  intro H. rewrite app_length. cbn [length].
  assert (0 < length pre)%nat by (destruct pre; [congruence|cbn [length]; lia]).
  rewrite app_nth1 by lia. apply nth_In. lia.
Qed.

Lemma nth_dotp (pre : list bytes) x y :
  nth (length (pre ++ [x; y]) - 2) (pre ++ [x; y]) [] = x.
Proof.
  rewrite app_length. cbn [length].
  replace (length pre + 2 - 2)%nat with (length pre) by lia. apply nth_middle.
Qed.

Lemma nth_w (pre : list bytes) x y :
  nth (length (pre ++ [x; y]) - 1) (pre ++ [x; y]) [] = y.
Proof.
  rewrite app_length. cbn [length].
  replace (length pre + 2 - 1)%nat with (length (pre ++ [x])) by (rewrite app_length; cbn [length]; lia).
  change (pre ++ [x; y]) with (pre ++ [x] ++ [y]). rewrite app_assoc. apply nth_middle.
Qed.

Lemma firstn_pre (pre : list bytes) x y :
  firstn (length (pre ++ [x; y]) - 2) (pre ++ [x; y]) = pre.
Proof.
  rewrite app_length. cbn [length].
  replace (length pre + 2 - 2)%nat with (length pre + 0)%nat by lia.
  rewrite firstn_app_2. cbn [firstn]. apply app_nil_r.
Qed.

Definition lstr (l : Z) : bytes := if (l =? -1)%Z then s2b "data" else decZ l.
Definition wtail (w : Z) : bytes := if (w =? 256)%Z then [] else s2b ".p/" ++ decZ w.

Lemma tlog_path_8 l n w :
  tlog_tile_path (mkTile 8 l n w) = s2b "tile/8/" ++ lstr l ++ x2f :: nstr n ++ wtail w.
Proof. reflexivity. Qed.

(* ---------- part 5: the tlog round trip ---------- *)

Lemma lstr_clean l : (-1 <= l < two63)%Z -> clean (lstr l).
Proof.
  intro H. unfold lstr. destruct (Z.eqb_spec l (-1)); [reflexivity|].
  rewrite decZ_nonneg by lia. apply alldig_clean. apply dec_spec. unfold two63 in H. lia.
Qed.

Definition lastg (n : Z) : bytes := pad3 (Z.to_N (n mod 1000)).

Lemma lastg_clean n : clean (lastg n).
Proof. apply alldig_clean. apply group_facts. lia. Qed.

Lemma decZ_clean z : (0 <= z < two63)%Z -> clean (decZ z).
Proof.
  intro H. rewrite decZ_nonneg by lia. apply alldig_clean. apply dec_spec. unfold two63 in H. lia.
Qed.

Definition tailf (n w : Z) : list bytes :=
  if (w =? 256)%Z then [lastg n] else [lastg n ++ s2b ".p"; decZ w].

Lemma split_path l n w : (-1 <= l < two63)%Z -> (1 <= w <= 256)%Z ->
  split_slash (tlog_tile_path (mkTile 8 l n w)) =
  s2b "tile" :: s2b "8" :: lstr l :: xgroups 30 n ++ tailf n w.
Proof.
  intros Hl Hw. rewrite tlog_path_8, split_tile8. f_equal. f_equal.
  unfold split_slash. rewrite split_on_clean_sep by now apply lstr_clean.
  cbn [rev app]. f_equal.
  rewrite nstr_spec, <- app_assoc, split_flat by apply xgroups_clean. f_equal.
  fold (lastg n). unfold wtail, tailf. destruct (Z.eqb_spec w 256).
  - rewrite app_nil_r. rewrite split_on_clean_end by apply lastg_clean. reflexivity.
  - change (s2b ".p/" ++ decZ w) with (s2b ".p" ++ x2f :: decZ w).
    rewrite app_assoc.
    rewrite split_on_ns_sep
      by (apply noslash_app; [apply clean_noslash, lastg_clean|reflexivity]).
    rewrite split_on_clean_end by (apply decZ_clean; unfold two63; lia).
    reflexivity.
Qed.

Lemma lstr_isdata l : (-1 <= l < two63)%Z ->
  bytes_eqb (lstr l) (s2b "data") = (l =? -1)%Z.
Proof.
  intro H. unfold lstr. destruct (Z.eqb_spec l (-1)); [reflexivity|].
  rewrite decZ_nonneg by lia.
  destruct (dec_spec (Z.to_N l)) as (Hne & Hd & _); [unfold two63 in H; lia|].
  destruct (dec (Z.to_N l)) as [|b r]; [congruence|].
  unfold alldig in Hd. cbn [forallb] in Hd. apply andb_true_iff in Hd. destruct Hd as [Hb _].
  destruct (digit_byte_facts b Hb) as (_ & _ & _ & D & _).
  change (s2b "data") with (x64 :: s2b "ata"). cbn [bytes_eqb]. now rewrite D.
Qed.

Lemma tlog_roundtrip l n w :
  (-1 <= l < two63)%Z -> (0 <= n < two63)%Z -> (1 <= w <= 256)%Z ->
  tlog_parse_tile_path (tlog_tile_path (mkTile 8 l n w)) = Some (mkTile 8 l n w).
Proof.
  intros Hl Hn Hw.
  pose proof (split_path l n w Hl Hw) as Hs.
  remember (tlog_tile_path (mkTile 8 l n w)) as p eqn:Ep.
  unfold tlog_parse_tile_path. cbv zeta. rewrite Hs. clear Hs.
  set (xg := xgroups 30 n).
  assert (Hlen : (length (s2b "tile" :: s2b "8" :: lstr l :: xg ++ tailf n w) <? 4)%nat = false).
  { cbn [length]. rewrite app_length. unfold tailf.
    destruct (w =? 256)%Z; cbn [length]; destruct (Nat.ltb_spec (S (S (S (length xg + 1)))) 4);
      try lia; destruct (Nat.ltb_spec (S (S (S (length xg + 2)))) 4); lia. }
  rewrite Hlen. clear Hlen.
  cbn [nth]. change (bytes_eqb (s2b "tile") (s2b "tile")) with true. cbn [negb].
  change (atoi (s2b "8")) with (Some 8%Z). cbv iota.
  rewrite lstr_isdata by assumption.
  set (c := if (l =? -1)%Z then [x30] else lstr l).
  set (lv := if (l =? -1)%Z then 0%Z else l).
  set (pre := s2b "tile" :: s2b "8" :: c :: xg).
  assert (Hf : (if (l =? -1)%Z
                then firstn 2 (s2b "tile" :: s2b "8" :: lstr l :: xg ++ tailf n w) ++
                     [x30] :: skipn 3 (s2b "tile" :: s2b "8" :: lstr l :: xg ++ tailf n w)
                else s2b "tile" :: s2b "8" :: lstr l :: xg ++ tailf n w) = pre ++ tailf n w).
  { unfold pre, c. destruct (l =? -1)%Z; reflexivity. }
  rewrite Hf. clear Hf.
  assert (Hc : atoi c = Some lv).
  { unfold c, lv, lstr. destruct (Z.eqb_spec l (-1)); [reflexivity|]. apply atoi_decZ. lia. }
  replace (atoi (if (l =? -1)%Z then [x30] else lstr l)) with (Some lv) by (symmetry; exact Hc).
  assert (Hg : (8 <? 1)%Z || (lv <? 0)%Z || (8 >? 30)%Z = false).
  { unfold lv. destruct (Z.eqb_spec l (-1)); lia. }
  rewrite Hg. clear Hg.
  assert (Hpre : Forall clean pre).
  { unfold pre. repeat constructor.
    - unfold c. destruct (Z.eqb_spec l (-1)); [reflexivity|].
      unfold lstr. destruct (Z.eqb_spec l (-1)); [lia|]. apply decZ_clean. lia.
    - apply xgroups_clean. }
  assert (Hlv : (if (l =? -1)%Z then (-1)%Z else lv) = l).
  { unfold lv. destruct (Z.eqb_spec l (-1)); congruence. }
  rewrite Hlv.
  assert (Hskip : skipn 3 (pre ++ [lastg n]) = xg ++ [lastg n]) by reflexivity.
  unfold tailf. destruct (Z.eqb_spec w 256) as [Ew|Ew].
  - (* full tile *)
    assert (Hnop : has_suffix (s2b ".p") (nth (length (pre ++ [lastg n]) - 2) (pre ++ [lastg n]) []) = false).
    { apply clean_nop. rewrite Forall_forall in Hpre. apply Hpre.
      apply nth_pre_last. unfold pre. discriminate. }
    rewrite Hnop. rewrite Hskip. unfold xg, lastg. rewrite parse_all_groups by assumption.
    destruct (Z.geb_spec n two63); [lia|].
    change (2 ^ 8)%Z with 256%Z. rewrite <- Ew, <- Ep, bytes_eqb_refl. reflexivity.
  - (* partial tile *)
    rewrite nth_dotp, nth_w, firstn_pre.
    rewrite has_suffix_app.
    rewrite atoi_decZ by (unfold two63; lia).
    change (2 ^ 8)%Z with 256%Z.
    destruct ((w <=? 0)%Z || (w >=? 256)%Z) eqn:Eg; [lia|].
    change (s2b ".p") with [x2e; x70]. rewrite strip_last2_app.
    rewrite Hskip. unfold xg, lastg. rewrite parse_all_groups by assumption.
    destruct (Z.geb_spec n two63); [lia|].
    rewrite <- Ep, bytes_eqb_refl. reflexivity.
Qed.

(* ---------- part 6: sunlight's TilePath / ParseTilePath ---------- *)

Lemma lstr_not_names l rest : (-1 <= l < two63)%Z ->
  cut_prefix (s2b "tile/names/") (s2b "tile/" ++ lstr l ++ rest) = None.
Proof.
  intro H.
  change (cut_prefix (s2b "tile/names/") (s2b "tile/" ++ lstr l ++ rest))
    with (cut_prefix (s2b "names/") (lstr l ++ rest)).
  unfold lstr. destruct (Z.eqb_spec l (-1)); [reflexivity|].
  rewrite decZ_nonneg by lia.
  destruct (dec_spec (Z.to_N l)) as (Hne & Hd & _); [unfold two63 in H; lia|].
  destruct (dec (Z.to_N l)) as [|b r]; [congruence|].
  unfold alldig in Hd. cbn [forallb] in Hd. apply andb_true_iff in Hd. destruct Hd as [Hb _].
  destruct (digit_byte_facts b Hb) as (_ & _ & D & _).
  change (s2b "names/") with (x6e :: s2b "ames/"). cbn [app cut_prefix]. now rewrite D.
Qed.

Lemma path_roundtrip : forall t, valid_tile t = true ->
  exists s, tile_path t = Some s /\ parse_tile_path s = Some t.
Proof.
  intros [h l n w] H. unfold valid_tile in H. cbn [t_H t_L t_N t_W] in H.
  rewrite !andb_true_iff in H. destruct H as [[[[[[H1 H2] H3] H4] H5] H6] H7].
  assert (h = 8%Z) by lia. subst h.
  assert (Hl : (-2 <= l < two63)%Z) by lia.
  assert (Hn : (0 <= n < two63)%Z) by lia.
  assert (Hw : (1 <= w <= 256)%Z) by lia.
  clear H1 H2 H3 H4 H5 H6 H7.
  unfold tile_path. cbn [t_H t_L t_N t_W]. change (negb (8 =? 8)%Z) with false. cbv iota.
  destruct (Z.eqb_spec l (-2)) as [El|El].
  - subst l. eexists. split; [reflexivity|].
    unfold parse_tile_path. rewrite cut_prefix_app.
    assert (E : s2b "tile/8/data/" ++
                trim_prefix (s2b "tile/8/data/") (tlog_tile_path (mkTile 8 (-1) n w))
                = tlog_tile_path (mkTile 8 (-1) n w)).
    { rewrite tlog_path_8.
      change (s2b "tile/8/" ++ lstr (-1) ++ x2f :: nstr n ++ wtail w)
        with (s2b "tile/8/data/" ++ nstr n ++ wtail w).
      now rewrite trim_prefix_app. }
    rewrite E. rewrite tlog_roundtrip by (unfold two63 in *; lia). reflexivity.
  - eexists. split; [reflexivity|].
    unfold parse_tile_path. rewrite tlog_path_8, trim_prefix_app.
    rewrite lstr_not_names by lia. rewrite cut_prefix_app.
    change (s2b "tile/8/" ++ lstr l ++ x2f :: nstr n ++ wtail w)
      with (tlog_tile_path (mkTile 8 l n w)).
    apply tlog_roundtrip; lia.
Qed.
