(* Codec/GenProofs.v — MerkleTreeLeaf as GENERATED from tile.go (Gen/Builders.v, rewritten by
   /verif/translate on every check run) is the model's merkle_tree_leaf; the helper addExtensions is
   an opaque parameter of the generated term, instantiated with the model's add_extensions. *)
From SL Require Import Base.Bytes Base.Cryptobyte Gen.Builders Codec.Leaf.
From Coq Require Import String.
Open Scope N_scope.

Lemma gen_merkle_tree_leaf_is_model e :
  gen_merkle_tree_leaf (add_extensions e) (l_cert e) (l_pre e) (l_ikh e) (u64 (l_ts e)) = merkle_tree_leaf e.
Proof. unfold gen_merkle_tree_leaf, merkle_tree_leaf, add_entry_head. destruct (l_pre e); reflexivity. Qed.

Lemma gen_merkle_tree_leaf_returns_bytes : gen_merkle_tree_leaf_returns = "b.BytesOrPanic()"%string.
Proof. reflexivity. Qed.

(* AppendTileLeaf as generated from tile.go: the loop over ChainFingerprints is a fold *)
Lemma fold_b_add_concat (fps : list bytes) : forall acc,
  fold_left (fun a f => b_add f a) fps (Some acc) = Some (acc ++ List.concat fps).
Proof.
  induction fps as [|f r IH]; intro acc; cbn [fold_left List.concat].
  - now rewrite app_nil_r.
  - cbn [b_add]. rewrite IH. now rewrite app_assoc.
Qed.

Lemma gen_append_tile_leaf_is_model t e :
  gen_append_tile_leaf (add_extensions e) (l_cert e) (l_fps e) (l_pre e) (l_ikh e) (l_precert e) t (u64 (l_ts e))
  = append_tile_leaf t e.
Proof.
  unfold gen_append_tile_leaf, append_tile_leaf, add_entry_head, b_empty.
  rewrite fold_b_add_concat. cbn [app b_add].
  destruct (l_pre e); reflexivity.
Qed.
