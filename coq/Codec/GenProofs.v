(* Codec/GenProofs.v — MerkleTreeLeaf as GENERATED from tile.go (Gen/Builders.v, rewritten by
   /verif/translate on every check run) is the model's merkle_tree_leaf; the helper addExtensions is
   an opaque parameter of the generated term, instantiated with the model's add_extensions. *)
From SL Require Import Base.Bytes Base.Cryptobyte Gen.Builders Codec.Leaf.
From Coq Require Import String.
Open Scope N_scope.

Lemma gen_merkle_tree_leaf_is_model e :
  gen_merkle_tree_leaf (add_extensions e) (l_cert e) (l_pre e) (l_ikh e) (u64 (l_ts e)) = merkle_tree_leaf e.
Proof. unfold gen_merkle_tree_leaf, merkle_tree_leaf, add_entry_head. destruct (l_pre e); reflexivity. Qed.

Lemma gen_merkle_tree_leaf_returns_bytes : gen_merkle_tree_leaf_returns = "b.BytesOrPanic()"%string.
Proof. reflexivity. Qed.
