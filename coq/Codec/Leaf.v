(* Codec/Leaf.v — executable model of sunlight's tile.go / extensions.go codecs
   (AppendTileLeaf, readTileLeaf, ReadTileLeaf, ReadTileLeafMaybeArchival, MerkleTreeLeaf,
   MarshalExtensions, ParseExtensions) and of TilePath / ParseTilePath together with the
   x/mod tlog.Tile.Path / tlog.ParseTilePath they delegate to. No proofs here. *)
From SL Require Export Base.Bytes Base.Cryptobyte.
Open Scope N_scope.

Notation "x <- e ;; f" := (match e with Some x => f | None => None end)
  (at level 61, e at next level, right associativity, only parsing).
Notation "' p <- e ;; f" := (match e with Some p => f | None => None end)
  (at level 61, p pattern, e at next level, right associativity, only parsing).

Record leaf := mkLeaf {
  l_cert : bytes;          (* Certificate *)
  l_pre : bool;            (* IsPrecert *)
  l_ikh : bytes;           (* IssuerKeyHash, [32]byte in Go *)
  l_fps : list bytes;      (* ChainFingerprints, each [32]byte in Go *)
  l_precert : bytes;       (* PreCertificate *)
  l_idx : Z;               (* LeafIndex int64 *)
  l_arch : bool;           (* RFC6962ArchivalLeaf *)
  l_ts : Z                 (* Timestamp int64 *)
}.

Definition two63 : Z := 9223372036854775808%Z.
Definition two64 : Z := 18446744073709551616%Z.
Definition two40 : Z := 1099511627776%Z.

(* uint64(x) of an int64 *)
Definition u64 (z : Z) : N := Z.to_N (z mod two64)%Z.

(* ---- extensions.go ---- *)

Definition marshal_extensions (idx : Z) : builder :=
  add_lp 2
    (if (idx <? 0)%Z || (two40 <=? idx)%Z then b_set_error b_empty
     else b_add (be 5 (Z.to_N idx)) b_empty)
    (add_u 1 0 b_empty).

(* ParseExtensions: loop over extensions, first leaf_index (type 0) decides *)
Fixpoint parse_extensions_fuel (fuel : nat) (s : bytes) : option Z :=
  match fuel with
  | O => None
  | S f =>
    match s with
    | [] => None                                   (* missing leaf_index extension *)
    | _ =>
      '(ty, s1) <- rd_u 1 s ;;
      '(ext, s2) <- rd_lp 2 s1 ;;
      if ty =? 0 then
        '(v, r) <- rd_u 5 ext ;;
        match r with [] => Some (Z.of_N v) | _ => None end
      else parse_extensions_fuel f s2
    end
  end.

Definition parse_extensions (s : bytes) : option Z :=
  parse_extensions_fuel (S (length s)) s.

(* ---- tile.go: encoders ---- *)

Definition add_extensions (e : leaf) (b : builder) : builder :=
  if l_arch e then add_u 2 0 b
  else add_lp 2 (match marshal_extensions (l_idx e) with
                 | None => b_set_error b_empty
                 | Some ext => b_add ext b_empty
                 end) b.

Definition add_entry_head (e : leaf) (b : builder) : builder :=
  if negb (l_pre e) then
    add_lp 3 (b_add (l_cert e) b_empty) (add_u 2 0 b)
  else
    add_lp 3 (b_add (l_cert e) b_empty) (b_add (l_ikh e) (add_u 2 1 b)).

Definition merkle_tree_leaf (e : leaf) : builder :=
  let b := add_u 1 0 b_empty in
  let b := add_u 1 0 b in
  let b := add_u 8 (u64 (l_ts e)) b in
  let b := add_entry_head e b in
  add_extensions e b.

Definition append_tile_leaf (t : bytes) (e : leaf) : builder :=
  let b := Some t in
  let b := add_u 8 (u64 (l_ts e)) b in
  let b := add_entry_head e b in
  let b := add_extensions e b in
  let b := if l_pre e then add_lp 3 (b_add (l_precert e) b_empty) b else b in
  add_lp 2 (b_add (concat (l_fps e)) b_empty) b.

(* ---- tile.go: decoder ---- *)

(* CopyBytes(f[:]) for a [32]byte: O(32) formulation of rd_bytes 32 *)
Definition take32 (s : bytes) : option (bytes * bytes) :=
  let h := firstn 32 s in
  if (length h =? 32)%nat then Some (h, skipn 32 s) else None.

Fixpoint read_fps (fuel : nat) (s : bytes) : option (list bytes) :=
  match s with
  | [] => Some []
  | _ =>
    match fuel with
    | O => None
    | S f =>
      '(fp, r) <- take32 s ;;
      rest <- read_fps f r ;;
      Some (fp :: rest)
    end
  end.

(* the extensions field of a tile leaf: empty = archival; else exactly one leaf_index *)
Definition read_leaf_ext (ext : bytes) : option (bool * Z) :=
  match ext with
  | [] => Some (true, 0%Z)
  | _ =>
    '(ty, e1) <- rd_u 1 ext ;;
    if negb (ty =? 0) then None else
    '(data, e2) <- rd_lp 2 e1 ;;
    '(v, d2) <- rd_u 5 data ;;
    match d2, e2 with
    | [], [] => Some (false, Z.of_N v)
    | _, _ => None
    end
  end.

Definition read_tile_leaf_raw (tile : bytes) : option (leaf * bytes) :=
  '(ts, s) <- rd_u 8 tile ;;
  '(ty, s) <- rd_u 2 s ;;
  if 9223372036854775807 <? ts then None else
  if ty =? 0 then
    '(cert, s) <- rd_lp 3 s ;;
    '(ext, s) <- rd_lp 2 s ;;
    '(fpb, s) <- rd_lp 2 s ;;
    '(arch, idx) <- read_leaf_ext ext ;;
    fps <- read_fps (length fpb) fpb ;;
    Some (mkLeaf cert false (zeros 32) fps [] idx arch (Z.of_N ts), s)
  else if ty =? 1 then
    '(ikh, s) <- rd_bytes 32 s ;;
    '(cert, s) <- rd_lp 3 s ;;
    '(ext, s) <- rd_lp 2 s ;;
    '(pre, s) <- rd_lp 3 s ;;
    '(fpb, s) <- rd_lp 2 s ;;
    '(arch, idx) <- read_leaf_ext ext ;;
    fps <- read_fps (length fpb) fpb ;;
    Some (mkLeaf cert true ikh fps pre idx arch (Z.of_N ts), s)
  else None.

Definition read_tile_leaf_maybe_archival := read_tile_leaf_raw.

Definition read_tile_leaf (tile : bytes) : option (leaf * bytes) :=
  '(e, r) <- read_tile_leaf_raw tile ;;
  if l_arch e then None else Some (e, r).

(* ---- well-formedness = the documented limits ---- *)
Definition wf_leaf (e : leaf) : bool :=
  (blen (l_cert e) <? 16777216)
  && (blen (l_precert e) <? 16777216)
  && (length (l_ikh e) =? 32)%nat
  && forallb (fun f => (length f =? 32)%nat) (l_fps e)
  && (length (l_fps e) <=? 2047)%nat
  && (0 <=? l_ts e)%Z && (l_ts e <? two63)%Z
  && (if l_arch e then (l_idx e =? 0)%Z else (0 <=? l_idx e)%Z && (l_idx e <? two40)%Z)
  && (if l_pre e then true else bytes_eqb (l_ikh e) (zeros 32) && bytes_eqb (l_precert e) []).

(* ---- RFC 6962 MerkleTreeLeaf written from the presentation language, independently of the
        builder-call transcription above ---- *)
Definition tls_uint (k : nat) (v : N) : bytes := be k v.
Definition tls_vector (k : nat) (body : bytes) : bytes := be k (blen body) ++ body.

Definition tls_ct_extensions (e : leaf) : bytes :=
  if l_arch e then tls_vector 2 []
  else tls_vector 2 (tls_uint 1 0 ++ tls_vector 2 (tls_uint 5 (Z.to_N (l_idx e)))).

Definition tls_merkle_tree_leaf_spec (e : leaf) : bytes :=
  tls_uint 1 0 (* Version v1 *) ++
  tls_uint 1 0 (* MerkleLeafType timestamped_entry *) ++
  tls_uint 8 (Z.to_N (l_ts e)) ++
  (if l_pre e
   then tls_uint 2 1 ++ l_ikh e ++ tls_vector 3 (l_cert e)
   else tls_uint 2 0 ++ tls_vector 3 (l_cert e)) ++
  tls_ct_extensions e.

(* fields covered by the Merkle leaf *)
Definition covered (e : leaf) : bool * bytes * bytes * Z * bool * Z :=
  (l_pre e, l_cert e, (if l_pre e then l_ikh e else []), l_ts e, l_arch e, l_idx e).

(* ================= tile paths ================= *)

Record tile := mkTile { t_H : Z; t_L : Z; t_N : Z; t_W : Z }.

Fixpoint nstr_loop (fuel : nat) (n : Z) (acc : bytes) : bytes :=
  match fuel with
  | O => acc
  | S f =>
    if (n >=? 1000)%Z then
      let n' := (n / 1000)%Z in
      nstr_loop f n' (x78 :: pad3 (Z.to_N (n' mod 1000)) ++ x2f :: acc)
    else acc
  end.

(* the NNN element(s); n >= 0 (negative N is outside the modelled domain) *)
Definition nstr (n : Z) : bytes := nstr_loop 30 n (pad3 (Z.to_N (n mod 1000))).

Definition tlog_tile_path (t : tile) : bytes :=
  s2b "tile/" ++ decZ (t_H t) ++ x2f ::
  (if (t_L t =? -1)%Z then s2b "data" else decZ (t_L t)) ++ x2f ::
  nstr (t_N t) ++
  (if (t_W t =? 2 ^ t_H t)%Z then [] else s2b ".p/" ++ decZ (t_W t)).

Fixpoint parse_nnn (f : list bytes) (n : Z) : option Z :=
  match f with
  | [] => Some n
  | s :: r =>
    nn <- atoi (trim_prefix [x78] s) ;;
    if (nn <? 0)%Z || (nn >=? 1000)%Z then None
    else parse_nnn r (n * 1000 + nn)%Z
  end.

Definition strip_last2 (b : bytes) : bytes := firstn (length b - 2) b.

Definition tlog_parse_tile_path (path : bytes) : option tile :=
  let f := split_slash path in
  if (length f <? 4)%nat then None else
  if negb (bytes_eqb (nth 0 f []) (s2b "tile")) then None else
  h <- atoi (nth 1 f []) ;;
  let isData := bytes_eqb (nth 2 f []) (s2b "data") in
  l <- atoi (if isData then [x30] else nth 2 f []) ;;
  if (h <? 1)%Z || (l <? 0)%Z || (h >? 30)%Z then None else
  let f := if isData then firstn 2 f ++ [x30] :: skipn 3 f else f in
  let len := length f in
  let dotP := nth (len - 2) f [] in
  '(w, f) <-
    (if has_suffix (s2b ".p") dotP then
       ww <- atoi (nth (len - 1) f []) ;;
       if (ww <=? 0)%Z || (ww >=? 2 ^ h)%Z then None
       else Some (ww, firstn (len - 2) f ++ [strip_last2 dotP])
     else Some ((2 ^ h)%Z, f)) ;;
  n <- parse_nnn (skipn 3 f) 0 ;;
  (* int64 accumulation: a value that does not fit wraps, and the canonical re-print below
     then never equals the input; modelled as rejection *)
  if (n >=? two63)%Z then None else
  let t := mkTile h (if isData then -1 else l)%Z n w in
  if bytes_eqb path (tlog_tile_path t) then Some t else None.

(* sunlight.TilePath (panics unless H = 8: modelled as None) *)
Definition tile_path (t : tile) : option bytes :=
  if negb (t_H t =? 8)%Z then None else
  if (t_L t =? -2)%Z then
    Some (s2b "tile/names/" ++
          trim_prefix (s2b "tile/8/data/") (tlog_tile_path (mkTile 8 (-1) (t_N t) (t_W t))))
  else Some (s2b "tile/" ++ trim_prefix (s2b "tile/8/") (tlog_tile_path t)).

Definition parse_tile_path (path : bytes) : option tile :=
  match cut_prefix (s2b "tile/names/") path with
  | Some rest =>
    t <- tlog_parse_tile_path (s2b "tile/8/data/" ++ rest) ;;
    Some (mkTile (t_H t) (-2) (t_N t) (t_W t))
  | None =>
    match cut_prefix (s2b "tile/") path with
    | Some rest => tlog_parse_tile_path (s2b "tile/8/" ++ rest)
    | None => None
    end
  end.

Definition valid_tile (t : tile) : bool :=
  (t_H t =? 8)%Z && (-2 <=? t_L t)%Z && (t_L t <? two63)%Z
  && (0 <=? t_N t)%Z && (t_N t <? two63)%Z && (1 <=? t_W t)%Z && (t_W t <=? 256)%Z.
