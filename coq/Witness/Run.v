(* Witness/Run.v — the SHA-256 / bytes instance of Witness/Model.v that ocaml/witness.ml runs
   against the lines of harness/witness, and the rendering of its answers (as bytes, so that
   vm_compute and the extracted code agree). Glue only: no theorem depends on this file. *)
From SL Require Export Witness.Model.
Open Scope N_scope.

Definition n_of_dec (b : bytes) : N := Z.to_N (parse_dec_Z b).

Definition bcfg (w1 w2 m : N) : wconfig :=
  mkCfg w1 w2 (if m =? 0 then None else Some m) (fun k => k / 16).

Definition bar : byte := x7c.
Definition comma : byte := x2c.
Definition colon : byte := x3a.
Definition dash : bytes := [x2d].

Definition show_keys (ks : list keyid) : bytes :=
  match ks with [] => dash | _ => join_with comma (map dec ks) end.

Definition join3 (a b c : bytes) : bytes := a ++ bar :: b ++ bar :: c.

Section Run.
Variable sha : bytes -> bytes.

Definition bnode := sha_node sha.
Definition bempty : bytes := sha [].
Definition bstep := step bytes bnode bempty bytes_eqb.

(* request decoding: header bytes (None = no blank line in the body) + the structural note *)
Definition decode_add (hdr : option bytes) (n : note bytes) : add_body bytes :=
  match hdr with
  | None => ABad
  | Some h => match parse_add_header h with
              | Some (old, p) => ABody old p n
              | None => ABad
              end
  end.

Definition decode_sub (hdr : option bytes) (n : note bytes) : sub_body bytes :=
  match hdr with
  | None => SBad
  | Some h => match parse_sub_header h with
              | Some (s, e, sh, p) => SBody s e sh p n
              | None => SBad
              end
  end.

(* status|body|signers *)
Definition show_output (o : output bytes) : bytes :=
  match o with
  | ONone => join3 (s2b "none") dash dash
  | OPending => join3 (s2b "pending") dash dash
  | OBlocked | OSpin => join3 (s2b "timeout") dash dash
  | OErr e => join3 (dec (status_of e)) (body_of e) dash
  | OCosig ks _ _ _ => join3 (s2b "200") dash (show_keys ks)
  | OSubsig s => join3 (s2b "200") dash (show_keys (ss_keys bytes s))
  | OAdmin true => s2b "ok"
  | OAdmin false => s2b "err"
  | OStarted os => dec (N.of_nat (length os))
  end.

(* origin:size:root:key ids of the signature lines (verified log signatures, then s1, s2) *)
Definition show_stored (c : wconfig) (s : stored bytes) : bytes :=
  hx (st_origin bytes s) ++ colon :: dec (st_size bytes s) ++ colon :: hx (st_root bytes s) ++ colon ::
  show_keys (st_logsigs bytes s ++ [wc_w1 c; wc_w2 c]).

Definition show_list (c : wconfig) (l : list (bytes * stored bytes)) : bytes :=
  match l with
  | [] => dash
  | _ => join_with x3b (map (fun e => show_stored c (snd e)) l)
  end.

(* lock=<effective register writes>|up=<effective uploads> between two worlds *)
Definition show_writes (c : wconfig) (w w' : world bytes) : bytes :=
  s2b "lock=" ++ show_list c (skipn (length (w_hist bytes w)) (w_hist bytes w')) ++ bar ::
  s2b "up=" ++ show_list c (skipn (length (w_bucket bytes w)) (w_bucket bytes w')).

(* a whole add-checkpoint request; returns the world and status|body|signers *)
Definition add_seq (c : wconfig) (w : world bytes) (i : N) (b : add_body bytes) (fetch_ok : bool) (fr fu : fault)
  : world bytes * output bytes :=
  let '(w1, o1) := bstep c w (EAdd i b fetch_ok) in
  match o1 with
  | OPending =>
    let origin := match b with ABody _ _ n => note_origin bytes n | ABad => [] end in
    let '(w2, o2) := bstep c w1 (EReplace i origin fr) in
    match o2 with
    | OPending => bstep c w2 (EUpload i origin fu)
    | _ => (w2, o2)
    end
  | _ => (w1, o1)
  end.

(* the next backend call of the request in flight: Replace, or Upload *)
Definition step_held (c : wconfig) (w : world bytes) (i : N) (o : bytes) (f : fault) : world bytes * output bytes :=
  match os_flight bytes (os_get bytes (w_os bytes w) (i, o)) with
  | FReplace _ _ => bstep c w (EReplace i o f)
  | FUpload _ => bstep c w (EUpload i o f)
  | _ => (w, ONone)
  end.

Definition full (c : wconfig) (w : world bytes) (r : world bytes * output bytes) : bytes :=
  show_output (snd r) ++ bar :: show_writes c w (fst r).

End Run.
