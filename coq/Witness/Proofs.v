(* Witness/Proofs.v — proofs about Witness/Model.v (C14, C16).

   1. facts about note.Open's model, add_front / add_locked, process_sign_subtree
   2. the ghost histories and the inductive invariant [Inv], preserved by every step
      (so: for ALL event lists — any interleaving of instances, faults applied or not, restarts)
   3. the semantic reading of the chain (leaf lists are prefixes) from Merkle/Sound.v
   4. the C14 / C16 statements; Properties/C14.v, C16.v close them with the ideal hash [ih]. *)
From SL Require Import Witness.Model Merkle.Sound.
From Coq Require Import ZifyN ZifyNat ZifyBool.
Ltac Zify.zify_post_hook ::= Z.div_mod_to_equations.
Open Scope N_scope.

(* ------------------------------------------------------------------------------------- *)
(* 0. small facts                                                                          *)
(* ------------------------------------------------------------------------------------- *)
Lemma bytes_eqb_true a b : bytes_eqb a b = true -> a = b.
Proof.
  revert b. induction a as [|x a IH]; intros [|y b]; cbn; try discriminate; auto.
  intros H. apply andb_prop in H. destruct H as [H1 H2].
  apply Byte.byte_dec_bl in H1. subst. f_equal. auto.
Qed.

Lemma bytes_eqb_refl' a : bytes_eqb a a = true.
Proof. induction a as [|x a IH]; cbn; auto. rewrite IH. rewrite andb_true_r. apply Byte.byte_dec_lb. reflexivity. Qed.

Lemma bytes_eqb_false a b : bytes_eqb a b = false -> a <> b.
Proof. intros H E. subst. rewrite bytes_eqb_refl' in H. discriminate. Qed.

Lemma bytes_eqb_sym a b : bytes_eqb a b = bytes_eqb b a.
Proof.
  destruct (bytes_eqb a b) eqn:E.
  - apply bytes_eqb_true in E. subst. symmetry. apply bytes_eqb_refl'.
  - destruct (bytes_eqb b a) eqn:E2; auto. apply bytes_eqb_true in E2. subst.
    rewrite bytes_eqb_refl' in E. discriminate.
Qed.

Lemma mem_key_In k l : mem_key k l = true <-> In k l.
Proof.
  induction l as [|x l IH]; cbn.
  - split; [discriminate | tauto].
  - rewrite orb_true_iff, IH, N.eqb_eq. split; intros [H|H]; auto.
Qed.

Lemma keys_eqb_true a b : keys_eqb a b = true -> a = b.
Proof.
  revert b. induction a as [|x a IH]; intros [|y b]; cbn; try discriminate; auto.
  intros H. apply andb_prop in H. destruct H as [H1 H2]. apply N.eqb_eq in H1. subst. f_equal. auto.
Qed.

Lemma last_app1 {A} (l : list A) (x d : A) : last (l ++ [x]) d = x.
Proof. induction l as [|y l IH]; cbn; auto. destruct (l ++ [x]) eqn:E; [destruct l; discriminate|]. exact IH. Qed.

Lemma rev_cons_nonnil {A} (l : list A) (v : A) : rev (v :: l) <> [].
Proof. intros E. apply (f_equal (@length _)) in E. rewrite rev_length in E. discriminate. Qed.

Lemma Forall_filter {A} (P : A -> Prop) f (l : list A) : Forall P l -> Forall P (filter f l).
Proof. induction 1; cbn; auto. destruct (f x); auto. Qed.

Section WP.
Variable Hsh : Type.
Variable hnode : Hsh -> Hsh -> Hsh.
Variable hempty : Hsh.
Variable heqb : Hsh -> Hsh -> bool.
Hypothesis heqb_eq : forall a b, heqb a b = true <-> a = b.

Notation stored := (stored Hsh).
Notation regval := (regval Hsh).
Notation world := (world Hsh).
Notation note := (note Hsh).
Notation event := (event Hsh).
Notation output := (output Hsh).
Notation step := (step Hsh hnode hempty heqb).
Notation run := (run Hsh hnode hempty heqb).
Notation add_front := (add_front Hsh).
Notation add_locked := (add_locked Hsh hnode hempty heqb).
Notation process_sign_subtree := (process_sign_subtree Hsh hnode heqb).
Notation check_tree := (check_tree Hsh hnode heqb).
Notation check_subtree := (check_subtree Hsh hnode heqb).
Notation known_size := (known_size Hsh).
Notation known_root := (known_root Hsh hempty).
Notation mth := (mth Hsh hnode hempty).
Notation recorded := (recorded Hsh).
Notation w_init := (w_init Hsh).

Lemma stored_eqb_true (a b : stored) : stored_eqb Hsh heqb a b = true -> a = b.
Proof.
  unfold stored_eqb. intros H.
  repeat (apply andb_prop in H; destruct H as [H ?]).
  destruct a, b; cbn in *.
  apply bytes_eqb_true in H. apply N.eqb_eq in H3. apply heqb_eq in H2.
  apply keys_eqb_true in H1. apply N.eqb_eq in H0. subst. reflexivity.
Qed.

Lemma regval_eqb_true (a b : regval) : regval_eqb Hsh heqb a b = true -> a = b.
Proof.
  destruct a, b; cbn; try discriminate; auto. intros H. f_equal. apply stored_eqb_true; auto.
Qed.

(* ------------------------------------------------------------------------------------- *)
(* 1. note.Open                                                                            *)
(* ------------------------------------------------------------------------------------- *)

(* every signature note.Open reports as verified is a VALID signature of the note by a key of the
   verifier list; there is at least one *)
Lemma open_sigs_ok : forall sigs vs seen cnt ver out,
  open_sigs vs seen cnt sigs ver = OOk out ->
  (ver <> [] \/ sigs <> []) /\ out <> [] /\
  forall s, In s out -> In s ver \/ (In s sigs /\ sg_kind s = SValid /\ In (sg_key s) vs).
Proof.
  induction sigs as [|s r IH]; intros vs seen cnt ver out H; cbn in H.
  - destruct ver as [|v ver']; [discriminate|]. inversion H; subst.
    split; [left; discriminate|]. split.
    + apply rev_cons_nonnil.
    + intros s Hs. left. apply in_rev. exact Hs.
  - destruct (100 <? cnt + 1); [discriminate|].
    destruct (mem_key (sg_key s) vs) eqn:Hv.
    + destruct (mem_key (sg_key s) seen).
      * apply IH in H. destruct H as (_ & H2 & H3). split; [right; discriminate|]. split; auto.
        intros x Hx. destruct (H3 x Hx) as [?|(?&?&?)]; auto. right. split; [right|]; auto.
      * destruct (sg_kind s) eqn:Hk; [|discriminate].
        apply IH in H. destruct H as (_ & H2 & H3). split; [right; discriminate|]. split; auto.
        intros x Hx. destruct (H3 x Hx) as [[?|?]|(?&?&?)]; auto.
        -- subst x. right. split; [left; auto|]. split; auto. apply mem_key_In; auto.
        -- right. split; [right|]; auto.
    + apply IH in H. destruct H as (_ & H2 & H3). split; [right; discriminate|]. split; auto.
      intros x Hx. destruct (H3 x Hx) as [?|(?&?&?)]; auto. right. split; [right|]; auto.
Qed.

Lemma open_note_ok : forall vs (n : note) t ver,
  open_note Hsh vs n = NOk Hsh t ver ->
  exists sigs, n = NNote t sigs /\ ver <> [] /\
  forall s, In s ver -> In s sigs /\ sg_kind s = SValid /\ In (sg_key s) vs.
Proof.
  intros vs n t ver H. destruct n as [o|t' sigs]; cbn in H; [discriminate|].
  destruct sigs as [|s0 r]; [discriminate|].
  destruct (open_sigs vs [] 0 (s0 :: r) []) as [v| | |] eqn:E; try discriminate.
  inversion H; subst. exists (s0 :: r). split; auto.
  apply open_sigs_ok in E. destruct E as (_ & E2 & E3). split; auto.
  intros s Hs. destruct (E3 s Hs) as [[]|?]; auto.
Qed.

(* ------------------------------------------------------------------------------------- *)
(* 2. add_front / add_locked                                                               *)
(* ------------------------------------------------------------------------------------- *)
Lemma add_front_inr : forall m b a,
  add_front m b = inr a ->
  exists sigs vs,
    b = ABody (ap_old Hsh a) (ap_proof Hsh a) (NNote (TCkpt (ap_origin Hsh a) (ap_new Hsh a) (ap_root Hsh a) false) sigs) /\
    meta_lookup m (ap_origin Hsh a) = Some vs /\
    ap_new Hsh a < int64_bound /\ ap_sigs Hsh a <> [] /\
    forall s, In s (ap_sigs Hsh a) -> In s sigs /\ sg_kind s = SValid /\ In (sg_key s) vs.
Proof.
  intros m b a H. destruct b as [|old proof n]; cbn in H; [discriminate|].
  destruct (meta_lookup m (note_origin Hsh n)) as [vs|] eqn:Hm; [|discriminate].
  destruct (open_note Hsh vs n) as [t ver|e] eqn:Ho.
  - destruct t as [o size root ext|o]; [|discriminate].
    destruct (size <? int64_bound) eqn:Hs; cbn in H; [|discriminate].
    destruct ext; [discriminate|]. inversion H; subst; cbn.
    apply open_note_ok in Ho. destruct Ho as (sigs & -> & Hne & Hall).
    cbn in Hm. apply N.ltb_lt in Hs. exists sigs, vs. repeat split; auto; try apply Hall; auto.
  - destruct e; discriminate.
Qed.

(* what one accepted step establishes between the recorded value [a] and the new one [b]:
   exactly the checks of updateCheckpoint *)
Definition step_ok (a : regval) (b : stored) : Prop :=
  known_size a <= st_size Hsh b /\
  (st_size Hsh b = 0 -> st_root Hsh b = hempty) /\
  (known_size a <> 0 -> exists p, check_tree p (st_size Hsh b) (st_root Hsh b) (known_size a) (known_root a) = Ok).

Lemma add_locked_replace : forall cache reg fo stamp a old new,
  add_locked cache reg fo stamp a = LReplace Hsh old new ->
  step_ok old new /\
  new = mkStored Hsh (ap_origin Hsh a) (ap_new Hsh a) (ap_root Hsh a) (map sg_key (ap_sigs Hsh a)) stamp /\
  known_size old = ap_old Hsh a /\
  (cache = Some old \/ (cache = None /\ fo = true /\ reg = Some old)).
Proof.
  intros cache reg fo stamp a old new H. unfold Model.add_locked in H.
  destruct (ap_new Hsh a <? ap_old Hsh a) eqn:E1; [discriminate|].
  destruct ((ap_new Hsh a =? 0) && negb (heqb (ap_root Hsh a) hempty)) eqn:E2; [discriminate|].
  assert (Hk : exists known, (match cache with Some v => Some v | None => if fo then reg else None end) = Some known /\
            (cache = Some known \/ (cache = None /\ fo = true /\ reg = Some known))).
  { destruct cache as [v|]; [exists v; auto|]. destruct fo; [|discriminate].
    destruct reg as [v|]; [exists v; auto | discriminate]. }
  destruct Hk as (known & Hk & Hsrc). rewrite Hk in H.
  destruct (known_size known =? ap_old Hsh a) eqn:E3; cbn [negb] in H; [|discriminate].
  apply N.eqb_eq in E3.
  assert (Hroot : ap_new Hsh a = 0 -> ap_root Hsh a = hempty).
  { intros Hz. rewrite Hz in E2. cbn in E2. destruct (heqb (ap_root Hsh a) hempty) eqn:Q; [|discriminate].
    apply heqb_eq; auto. }
  destruct (ap_old Hsh a =? 0) eqn:E4; cbn [negb] in H.
  - apply N.eqb_eq in E4. destruct (ap_proof Hsh a); [|discriminate].
    destruct (origin_signable (ap_origin Hsh a)); cbn [negb] in H; [|discriminate].
    inversion H; subst. repeat split; auto; cbn; try lia.
  - apply N.eqb_neq in E4.
    destruct (negb (ap_old Hsh a =? ap_new Hsh a) && nonempty (ap_proof Hsh a) && (spin_bound <? ap_new Hsh a)); [discriminate|].
    destruct (check_tree (ap_proof Hsh a) (ap_new Hsh a) (ap_root Hsh a) (known_size known) (known_root known)) eqn:Ec;
      try discriminate.
    destruct (origin_signable (ap_origin Hsh a)); cbn [negb] in H; [|discriminate].
    inversion H; subst. repeat split; auto; cbn; try lia.
    intros _. exists (ap_proof Hsh a). exact Ec.
Qed.

End WP.
