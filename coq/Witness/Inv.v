(* Witness/Inv.v — the inductive invariant of the witness model and its preservation by every
   step; hence it holds after ALL event lists (any interleaving of instances and of their
   per-origin critical sections, faults applied or not, restarts anywhere). *)
From SL Require Import Witness.Model Witness.Proofs Merkle.Sound.
From Coq Require Import ZifyN ZifyNat ZifyBool.
Ltac Zify.zify_post_hook ::= Z.div_mod_to_equations.
Open Scope N_scope.

Section Inv.
Variable Hsh : Type.
Variable hnode : Hsh -> Hsh -> Hsh.
Variable hempty : Hsh.
Variable heqb : Hsh -> Hsh -> bool.
Hypothesis heqb_eq : forall a b, heqb a b = true <-> a = b.

Notation stored := (stored Hsh).
Notation regval := (regval Hsh).
Notation world := (world Hsh).
Notation event := (event Hsh).
Notation output := (output Hsh).
Notation flight := (flight Hsh).
Notation release := (release Hsh).
Notation step := (step Hsh hnode hempty heqb).
Notation run := (run Hsh hnode hempty heqb).
Notation recorded := (recorded Hsh).
Notation step_ok := (step_ok Hsh hnode hempty heqb).
Notation w_init := (w_init Hsh).

(* ---------- histories as functions of the ghost list ---------- *)
Definition rec_of (o : bytes) (h : list (bytes * stored)) : list stored :=
  map snd (filter (fun e => bytes_eqb o (fst e)) h).

Lemma recorded_rec_of o (w : world) : recorded o w = rec_of o (w_hist Hsh w).
Proof. reflexivity. Qed.

Lemma rec_of_app o h x new :
  rec_of o (h ++ [(x, new)]) = rec_of o h ++ (if bytes_eqb o x then [new] else []).
Proof.
  unfold rec_of. rewrite filter_app, map_app. cbn. destruct (bytes_eqb o x); reflexivity.
Qed.

(* the chain: each recorded checkpoint was accepted against its predecessor *)
Fixpoint chain_from (a : regval) (l : list stored) : Prop :=
  match l with
  | [] => True
  | b :: r => step_ok a b /\ chain_from (Some b) r
  end.

Definition cur_of (l : list stored) : regval := last (map Some l) None.

Lemma cur_of_app l x : cur_of (l ++ [x]) = Some x.
Proof. unfold cur_of. rewrite map_app. cbn. apply last_app1. Qed.

Lemma last_cons_indep {A} (l : list A) (x d d' : A) : last (x :: l) d = last (x :: l) d'.
Proof. revert x. induction l as [|y l IH]; intros x; [reflexivity|]. cbn. apply (IH y). Qed.

Lemma chain_from_app : forall l a b,
  chain_from a l -> step_ok (last (map Some l) a) b -> chain_from a (l ++ [b]).
Proof.
  induction l as [|x l IH]; intros a b H1 H2.
  - cbn in *. split; auto.
  - destruct H1 as [H1 H1']. split; auto. apply IH; auto.
    destruct l as [|y l']; [exact H2|].
    change (map Some (x :: y :: l')) with (Some x :: Some y :: map Some l') in H2.
    change (last (Some x :: Some y :: map Some l') a) with (last (Some y :: map Some l') a) in H2.
    rewrite (last_cons_indep _ _ a (Some x)) in H2. exact H2.
Qed.

(* ---------- the invariant ---------- *)
Definition signed_ok (ek : list (bytes * keyid)) (s : stored) : Prop :=
  st_logsigs Hsh s <> [] /\ forall k, In k (st_logsigs Hsh s) -> In (st_origin Hsh s, k) ek.

Definition meta_ok (ek : list (bytes * keyid)) (m : meta) : Prop :=
  forall o ks k, meta_lookup m o = Some ks -> In k ks -> In (o, k) ek.

Definition flight_ok (h : list (bytes * stored)) (ek : list (bytes * keyid)) (o : bytes) (f : flight) : Prop :=
  match f with
  | FReplace old new => step_ok old new /\ st_origin Hsh new = o /\ signed_ok ek new
  | FUpload new => In new (rec_of o h)
  | _ => True
  end.

Definition rel_ok (c : wconfig) (h : list (bytes * stored)) (r : release) : Prop :=
  rl_keys Hsh r = [wc_w1 c; wc_w2 c] /\
  exists s, In s (firstn (rl_at Hsh r) (rec_of (rl_origin Hsh r) h)) /\
            st_size Hsh s = rl_size Hsh r /\ st_root Hsh s = rl_root Hsh r.

Record Inv (c : wconfig) (w : world) : Prop := mkInv {
  inv_chain : forall o, chain_from None (rec_of o (w_hist Hsh w));
  inv_reg : forall o v, reg_lookup Hsh (w_reg Hsh w) o = Some v -> v = cur_of (rec_of o (w_hist Hsh w));
  inv_noreg : forall o, reg_lookup Hsh (w_reg Hsh w) o = None -> rec_of o (w_hist Hsh w) = [];
  inv_flight : Forall (fun e => flight_ok (w_hist Hsh w) (w_everkeys Hsh w) (snd (fst e)) (os_flight Hsh (snd e))) (w_os Hsh w);
  inv_tags : Forall (fun e => st_origin Hsh (snd e) = fst e /\ signed_ok (w_everkeys Hsh w) (snd e)) (w_hist Hsh w);
  inv_rel : Forall (rel_ok c (w_hist Hsh w)) (w_rel Hsh w);
  inv_conf : meta_ok (w_everkeys Hsh w) (w_conf Hsh w);
  inv_meta : Forall (fun e => meta_ok (w_everkeys Hsh w) (snd e)) (w_meta Hsh w)
}.

Lemma inv_init c : Inv c w_init.
Proof.
  constructor; cbn; auto.
  - intros o v H. discriminate.
  - intros o ks k H. discriminate.
Qed.

(* ---------- monotonicity in the ghost lists ---------- *)
Lemma signed_ok_mono ek ek' s : incl ek ek' -> signed_ok ek s -> signed_ok ek' s.
Proof. intros Hi [H1 H2]. split; auto. Qed.

Lemma meta_ok_mono ek ek' m : incl ek ek' -> meta_ok ek m -> meta_ok ek' m.
Proof. intros Hi H o ks k H1 H2. apply Hi. eapply H; eauto. Qed.

Lemma flight_ok_mono h ek ek' o f x new :
  incl ek ek' -> flight_ok h ek o f -> flight_ok (h ++ [(x, new)]) ek' o f.
Proof.
  intros Hi H. destruct f; cbn in *; auto.
  - destruct H as (H1 & H2 & H3). split; [|split]; auto. eapply signed_ok_mono; eauto.
  - rewrite rec_of_app. apply in_or_app. auto.
Qed.

Lemma flight_ok_mono_ek h ek ek' o f :
  incl ek ek' -> flight_ok h ek o f -> flight_ok h ek' o f.
Proof.
  intros Hi H. destruct f; cbn in *; auto.
  destruct H as (H1 & H2 & H3). split; [|split]; auto. eapply signed_ok_mono; eauto.
Qed.

Lemma rel_ok_mono c h r x new : rel_ok c h r -> rel_ok c (h ++ [(x, new)]) r.
Proof.
  intros [H1 (s & Hs & H2 & H3)]. split; auto. exists s. split; [|split]; auto.
  rewrite rec_of_app, firstn_app. apply in_or_app. auto.
Qed.

(* ---------- association lists ---------- *)
Lemma reg_lookup_set l o v o' :
  reg_lookup Hsh (reg_set Hsh l o v) o' = if bytes_eqb o' o then Some v else reg_lookup Hsh l o'.
Proof.
  unfold reg_set. cbn. destruct (bytes_eqb o' o) eqn:E; auto.
  induction l as [|[k x] l IH]; cbn; auto.
  destruct (bytes_eqb o k) eqn:E2; cbn.
  - apply bytes_eqb_true in E2. subst k. rewrite E. exact IH.
  - destruct (bytes_eqb o' k); auto.
Qed.

Lemma ikey_eqb_true a b : ikey_eqb a b = true -> a = b.
Proof.
  destruct a, b. unfold ikey_eqb. cbn. intros H. apply andb_prop in H. destruct H as [H1 H2].
  apply N.eqb_eq in H1. apply bytes_eqb_true in H2. subst. reflexivity.
Qed.

Lemma os_lookup_In (l : list (ikey * ostate Hsh)) k v : os_lookup Hsh l k = Some v -> In (k, v) l.
Proof.
  induction l as [|[k' x] l IH]; cbn; [discriminate|].
  destruct (ikey_eqb k k') eqn:E.
  - intros H. inversion H; subst. apply ikey_eqb_true in E. subst. left. reflexivity.
  - intros H. right. auto.
Qed.

Lemma os_get_flight (P : ikey * ostate Hsh -> Prop) l k :
  Forall P l -> P (k, os_init Hsh) -> P (k, os_get Hsh l k).
Proof.
  intros HF H0. unfold os_get. destruct (os_lookup Hsh l k) eqn:E; auto.
  apply os_lookup_In in E. rewrite Forall_forall in HF. apply HF; auto.
Qed.

Lemma Forall_os_set (P : ikey * ostate Hsh -> Prop) l k v :
  Forall P l -> P (k, v) -> Forall P (os_set Hsh l k v).
Proof. intros. unfold os_set. constructor; auto. apply Forall_filter; auto. Qed.

Lemma inst_lookup_In (l : list (N * meta)) i m : inst_lookup l i = Some m -> exists j, In (j, m) l.
Proof.
  induction l as [|[j x] l IH]; cbn; [discriminate|].
  destruct (i =? j).
  - intros H. inversion H; subst. exists j. left. reflexivity.
  - intros H. destruct (IH H) as [j' ?]. exists j'. right. auto.
Qed.

Lemma Forall_inst_set (P : N * meta -> Prop) l i m :
  Forall P l -> P (i, m) -> Forall P (inst_set l i m).
Proof. intros. unfold inst_set. constructor; auto. apply Forall_filter; auto. Qed.

Lemma meta_lookup_app m o ks o' :
  meta_lookup (m ++ [(o, ks)]) o' =
  match meta_lookup m o' with Some x => Some x | None => if bytes_eqb o' o then Some ks else None end.
Proof.
  induction m as [|[k x] m IH]; cbn; auto.
  destruct (bytes_eqb o' k); auto.
Qed.

Lemma Forall_impl' {A} (P Q : A -> Prop) l : (forall a, P a -> Q a) -> Forall P l -> Forall Q l.
Proof. intros H. induction 1; constructor; auto. Qed.

(* the flight of (i, o) satisfies flight_ok *)
Lemma flight_of c w i o : Inv c w ->
  flight_ok (w_hist Hsh w) (w_everkeys Hsh w) o (os_flight Hsh (os_get Hsh (w_os Hsh w) (i, o))).
Proof.
  intros I.
  apply (os_get_flight (fun e => flight_ok (w_hist Hsh w) (w_everkeys Hsh w) (snd (fst e)) (os_flight Hsh (snd e)))
           (w_os Hsh w) (i, o)).
  - apply (inv_flight _ _ I).
  - cbn. exact Logic.I.
Qed.

(* ---------- preservation ---------- *)
Lemma step_inv c w ev : Inv c w -> Inv c (fst (step c w ev)).
Proof.
  intros I. destruct ev as [i|i o keys fcreate fok cfok fconf|i b fok|i o f|i o f|i b]; cbn [Model.step].
  - (* ERestart *)
    cbn. destruct I. constructor; cbn; auto.
    + apply Forall_filter; auto.
    + apply Forall_inst_set; auto.
  - (* EAddLog *)
    destruct (inst_lookup (w_meta Hsh w) i) as [m|] eqn:Hi; [|exact I].
    assert (Hm : meta_ok (w_everkeys Hsh w) m).
    { destruct (inst_lookup_In _ _ _ Hi) as [j Hj]. pose proof (inv_meta _ _ I) as F.
      rewrite Forall_forall in F. apply (F _ Hj). }
    destruct (meta_lookup m o) as [ks|] eqn:Hl.
    + destruct (negb (forallb (fun k => mem_key k ks) keys)); [exact I|].
      destruct (negb cfok); [exact I|]. cbn [fst].
      destruct (applied fconf); [|exact I].
      destruct I. constructor; cbn; auto.
    + (* new log *)
      set (reg1 := match reg_lookup Hsh (w_reg Hsh w) o with
                   | None => if applied fcreate then reg_set Hsh (w_reg Hsh w) o None else w_reg Hsh w
                   | Some _ => w_reg Hsh w end).
      assert (Hreg : forall o' v, reg_lookup Hsh reg1 o' = Some v -> v = cur_of (rec_of o' (w_hist Hsh w))).
      { intros o' v. unfold reg1. destruct (reg_lookup Hsh (w_reg Hsh w) o) eqn:E.
        - apply (inv_reg _ _ I).
        - destruct (applied fcreate); [|apply (inv_reg _ _ I)].
          rewrite reg_lookup_set. destruct (bytes_eqb o' o) eqn:E2; [|apply (inv_reg _ _ I)].
          apply bytes_eqb_true in E2. subst o'. intros H. inversion H.
          rewrite (inv_noreg _ _ I o E). reflexivity. }
      assert (Hnoreg : forall o', reg_lookup Hsh reg1 o' = None -> rec_of o' (w_hist Hsh w) = []).
      { intros o'. unfold reg1. destruct (reg_lookup Hsh (w_reg Hsh w) o) eqn:E.
        - apply (inv_noreg _ _ I).
        - destruct (applied fcreate); [|apply (inv_noreg _ _ I)].
          rewrite reg_lookup_set. destruct (bytes_eqb o' o); [discriminate|apply (inv_noreg _ _ I)]. }
      destruct (if fok then reg_lookup Hsh reg1 o else None).
      2:{ cbn [fst]. destruct I. constructor; cbn; auto. }
      destruct (negb cfok).
      { cbn [fst]. destruct I. constructor; cbn; auto. }
      cbn [fst].
      set (ek2 := if applied fconf then w_everkeys Hsh w ++ map (fun k => (o, k)) keys else w_everkeys Hsh w).
      assert (Hincl : incl (w_everkeys Hsh w) ek2).
      { unfold ek2. destruct (applied fconf); [apply incl_appl|]; apply incl_refl. }
      assert (Hm' : applied fconf = true -> meta_ok ek2 (m ++ [(o, keys)])).
      { intros Ha. unfold ek2. rewrite Ha. intros o' ks k H1 H2. rewrite meta_lookup_app in H1.
        destruct (meta_lookup m o') eqn:E.
        - inversion H1; subst. apply in_or_app. left. eapply Hm; eauto.
        - destruct (bytes_eqb o' o) eqn:E2; [|discriminate]. inversion H1; subst.
          apply bytes_eqb_true in E2. subst. apply in_or_app. right. apply in_map_iff. exists k. auto. }
      destruct I. constructor; cbn; auto.
      * eapply Forall_impl'; [|exact inv_flight0]. intros a. apply flight_ok_mono_ek; auto.
      * eapply Forall_impl'; [|exact inv_tags0]. intros a [? ?]. split; auto. eapply signed_ok_mono; eauto.
      * destruct (applied fconf) eqn:Ha; [apply Hm'; auto|]. eapply meta_ok_mono; eauto.
      * destruct (succeeded fconf) eqn:Hs.
        -- apply Forall_inst_set.
           ++ eapply Forall_impl'; [|exact inv_meta0]. intros a. apply meta_ok_mono; auto.
           ++ cbn. apply Hm'. destruct fconf; cbn in *; auto; discriminate.
        -- eapply Forall_impl'; [|exact inv_meta0]. intros a. apply meta_ok_mono; auto.
  - (* EAdd *)
    destruct (inst_lookup (w_meta Hsh w) i) as [m|] eqn:Hi; [|exact I].
    assert (Hm : meta_ok (w_everkeys Hsh w) m).
    { destruct (inst_lookup_In _ _ _ Hi) as [j Hj]. pose proof (inv_meta _ _ I) as F.
      rewrite Forall_forall in F. apply (F _ Hj). }
    destruct (add_front Hsh m b) as [e|a] eqn:Hf; [exact I|].
    destruct (os_flight Hsh (os_get Hsh (w_os Hsh w) (i, ap_origin Hsh a))) eqn:Hfl; try exact I.
    destruct (add_locked Hsh hnode hempty heqb (os_cache Hsh (os_get Hsh (w_os Hsh w) (i, ap_origin Hsh a)))
                (reg_lookup Hsh (w_reg Hsh w) (ap_origin Hsh a)) fok (w_nstamp Hsh w) a) as [e c'|c'|old new] eqn:Hl;
      cbn [fst].
    + destruct I. constructor; cbn; auto. apply Forall_os_set; auto. cbn. exact Logic.I.
    + destruct I. constructor; cbn; auto. apply Forall_os_set; auto. cbn. exact Logic.I.
    + apply (add_locked_replace Hsh hnode hempty heqb heqb_eq) in Hl. destruct Hl as (Hs & Hn & _ & _).
      apply add_front_inr in Hf. destruct Hf as (sigs & vs & _ & Hvs & _ & Hne & Hall).
      destruct I. constructor; cbn; auto. apply Forall_os_set; auto. cbn.
      split; [exact Hs|]. split; [|split].
      * subst new. reflexivity.
      * subst new. cbn. destruct (ap_sigs Hsh a); [congruence|discriminate].
      * subst new. cbn. intros k Hk. apply in_map_iff in Hk. destruct Hk as (s & <- & Hs').
        destruct (Hall s Hs') as (_ & _ & Hin). eapply Hm; eauto.
  - (* EReplace *)
    pose proof (flight_of c w i o I) as Hfo.
    destruct (os_flight Hsh (os_get Hsh (w_os Hsh w) (i, o))) as [| |old new|new] eqn:Hfl; try exact I.
    cbn in Hfo. destruct Hfo as (Hstep & Horig & Hsig).
    set (can := match reg_lookup Hsh (w_reg Hsh w) o with Some cur => regval_eqb Hsh heqb cur old | None => false end).
    assert (Hcan : can = true -> reg_lookup Hsh (w_reg Hsh w) o = Some old).
    { unfold can. destruct (reg_lookup Hsh (w_reg Hsh w) o) as [cur|]; [|discriminate].
      intros H. apply (regval_eqb_true Hsh heqb heqb_eq) in H. subst. reflexivity. }
    (* the effect on registers and history, common to both answers *)
    assert (Heff : can && applied f = true ->
       Inv c (mkW Hsh (reg_set Hsh (w_reg Hsh w) o (Some new)) (w_conf Hsh w) (w_meta Hsh w) (w_os Hsh w) (w_bucket Hsh w)
                (w_nstamp Hsh w) (w_hist Hsh w ++ [(o, new)]) (w_rel Hsh w) (w_everkeys Hsh w))).
    { intros He. apply andb_prop in He. destruct He as [Hc _]. specialize (Hcan Hc).
      pose proof (inv_reg _ _ I o _ Hcan) as Hold.
      destruct I. constructor; cbn [w_reg w_conf w_meta w_os w_bucket w_nstamp w_hist w_rel w_everkeys].
      - intros o'. rewrite rec_of_app. destruct (bytes_eqb o' o) eqn:E.
        + apply bytes_eqb_true in E. subst o'. apply chain_from_app; auto.
          fold (cur_of (rec_of o (w_hist Hsh w))). rewrite <- Hold. exact Hstep.
        + rewrite app_nil_r. auto.
      - intros o' v. rewrite reg_lookup_set, rec_of_app. destruct (bytes_eqb o' o) eqn:E.
        + intros H. inversion H. rewrite cur_of_app. reflexivity.
        + rewrite app_nil_r. auto.
      - intros o'. rewrite reg_lookup_set, rec_of_app. destruct (bytes_eqb o' o) eqn:E; [discriminate|].
        rewrite app_nil_r. auto.
      - eapply Forall_impl'; [|exact inv_flight0]. intros a. apply flight_ok_mono. apply incl_refl.
      - apply Forall_app. split; auto.
      - eapply Forall_impl'; [|exact inv_rel0]. intros a. apply rel_ok_mono.
      - auto.
      - auto. }
    fold can.
    destruct (can && succeeded f) eqn:Hs; cbn [fst].
    + assert (He : can && applied f = true).
      { apply andb_prop in Hs. destruct Hs as [-> Hs]. destruct f; cbn in *; auto; discriminate. }
      rewrite He. specialize (Heff He). destruct Heff.
      constructor; cbn [w_reg w_conf w_meta w_os w_bucket w_nstamp w_hist w_rel w_everkeys] in *; auto.
      apply Forall_os_set; auto. cbn [fst snd os_flight flight_ok]. rewrite rec_of_app, bytes_eqb_refl'. apply in_or_app. right. left. reflexivity.
    + destruct (can && applied f) eqn:He.
      * specialize (Heff eq_refl). destruct Heff.
        constructor; cbn [w_reg w_conf w_meta w_os w_bucket w_nstamp w_hist w_rel w_everkeys] in *; auto.
        apply Forall_os_set; auto. cbn. exact Logic.I.
      * destruct I. constructor; cbn; auto. apply Forall_os_set; auto. cbn. exact Logic.I.
  - (* EUpload *)
    pose proof (flight_of c w i o I) as Hfo.
    destruct (os_flight Hsh (os_get Hsh (w_os Hsh w) (i, o))) as [| |old new|new] eqn:Hfl; try exact I.
    cbn in Hfo.
    destruct (succeeded f); cbn [fst].
    + destruct I. constructor; cbn; auto.
      * apply Forall_os_set; auto. cbn. exact Logic.I.
      * apply Forall_app. split; auto. constructor; auto. split; cbn; auto.
        exists new. rewrite firstn_all. auto.
    + destruct I. constructor; cbn; auto. apply Forall_os_set; auto. cbn. exact Logic.I.
  - (* ESub *)
    destruct (inst_lookup (w_meta Hsh w) i); [|exact I].
    destruct (Model.process_sign_subtree Hsh hnode heqb c m b); exact I.
Qed.

Theorem run_inv c : forall evs w, Inv c w -> Inv c (run c w evs).
Proof. induction evs as [|ev r IH]; intros w I; cbn; auto. apply IH. apply step_inv; auto. Qed.

Corollary run_inv_init c evs : Inv c (run c w_init evs).
Proof. apply run_inv. apply inv_init. Qed.

End Inv.
