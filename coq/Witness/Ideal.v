(* Witness/Ideal.v — the witness model over the free hash algebra [ih] (Merkle/Sound.v), for which
   injectivity of the node hash is a theorem: the closed forms of the C14 / C16 statements are
   instances of Witness/Theorems.v. Plus concrete runs (non-vacuity of every hypothesis). *)
From SL Require Import Witness.Model Witness.Proofs Witness.Inv Witness.Theorems Merkle.Sound.
Open Scope N_scope.

Definition istep := step ih INode IEmpty ih_eqb.
Definition irun := run ih INode IEmpty ih_eqb.
Definition ioutputs := outputs ih INode IEmpty ih_eqb.
Definition iinit : world ih := w_init ih.
Definition irecorded := recorded ih.
Definition isign_subtree := process_sign_subtree ih INode ih_eqb.

(* ---- a concrete witness, log and two histories sharing a prefix ---- *)
Definition ex_cfg : wconfig := mkCfg 16 17 (Some 32) (fun k => k / 16).
Definition ex_o : bytes := s2b "example.com/log".
Definition la := ILeaf 0. Definition lb := ILeaf 1. Definition lc := ILeaf 2. Definition ld := ILeaf 3.
Definition r2 : ih := imth [la; lb].
Definition r3 : ih := imth [la; lb; lc].
Definition r3' : ih := imth [la; lb; ld].               (* the fork *)
Definition lsig : list nsig := [mkSig 48 SValid].
Definition ck (n : N) (r : ih) (sigs : list nsig) : note ih := NNote (TCkpt ex_o n r false) sigs.

Definition ex_setup : list (event ih) := [ERestart 1; EAddLog 1 ex_o [48] FOk true true FOk].
Definition ex_grow : list (event ih) :=
  ex_setup ++
  [EAdd 1 (ABody 0 [] (ck 2 r2 lsig)) true; EReplace 1 ex_o FOk; EUpload 1 ex_o FOk;
   EAdd 1 (ABody 2 [lc] (ck 3 r3 lsig)) true; EReplace 1 ex_o FOk; EUpload 1 ex_o FOk].

Definition sizes_roots (l : list (stored ih)) : list (N * ih) := map (fun s => (st_size ih s, st_root ih s)) l.

Definition ex_out_ok (o : output ih) (n : N) (r : ih) : bool :=
  match o with
  | OCosig [16; 17] _ n' r' => (n =? n') && ih_eqb r r'
  | _ => false
  end.

Definition ex_status (o : output ih) : N :=
  match o with OErr e => status_of e | OCosig _ _ _ _ | OSubsig _ => 200 | _ => 0 end.

(* ---- closed instances ---- *)
Definition ideal_chain := chain_thm ih INode IEmpty ih_eqb ih_eqb_eq INode_inj.
Definition ideal_release := release_thm ih INode IEmpty ih_eqb ih_eqb_eq.
Definition ideal_release_stamp := release_stamp_thm ih INode IEmpty ih_eqb ih_eqb_eq.
Definition ideal_mono := recorded_mono ih INode IEmpty ih_eqb.
Definition ideal_signed := signed_thm ih INode IEmpty ih_eqb ih_eqb_eq.
Definition ideal_accept := accept_thm ih INode IEmpty ih_eqb ih_eqb_eq.
Definition ideal_cas := cas_thm ih INode IEmpty ih_eqb ih_eqb_eq.
Definition ideal_refusal := refusal_thm ih INode IEmpty ih_eqb.
Definition ideal_spin := spin_thm ih INode IEmpty ih_eqb.
Definition ideal_subtree := subtree_thm ih INode IEmpty ih_eqb ih_eqb_eq INode_inj.
Definition ideal_subtree_none := subtree_none_thm ih INode IEmpty ih_eqb ih_eqb_eq INode_inj.

Lemma status_table :
  status_of EUnknownLog = 404 /\ status_of EInvalidSignature = 403 /\ status_of EBadRequest = 400 /\
  status_of EBadCheckpoint = 400 /\ status_of EExtensions = 400 /\ status_of EProof = 422 /\
  (forall n, status_of (EConflict n) = 409 /\ body_of (EConflict n) = dec n) /\
  (forall w, status_of (EInternal w) = 500).
Proof. repeat split; reflexivity. Qed.

Definition codes_statement : Prop :=
  (* 400 malformed request *)
  (forall m, add_front ih m ABad = inl EBadRequest) /\
  (* 404 unknown log: before anything else about the note is looked at *)
  (forall m old p (n : note ih), meta_lookup m (note_origin ih n) = None ->
     add_front ih m (ABody old p n) = inl EUnknownLog) /\
  (* 403: a known key's signature does not verify, or no known key signed *)
  (forall m old p (n : note ih) vs, meta_lookup m (note_origin ih n) = Some vs ->
     open_note ih vs n = NErr ih OInvalidSig \/ open_note ih vs n = NErr ih OUnverified ->
     add_front ih m (ABody old p n) = inl EInvalidSignature) /\
  (* no valid signature by a configured key: refused with 403 (or 400 if malformed), never accepted *)
  (forall m old p t sigs vs, meta_lookup m (text_origin ih t) = Some vs ->
     (forall s, In s sigs -> In (sg_key s) vs -> sg_kind s = SInvalid) ->
     exists e, add_front ih m (ABody old p (NNote t sigs)) = inl e /\ (status_of e = 403 \/ status_of e = 400)) /\
  (* 400 extension lines *)
  (forall m old p o n r sigs vs ver, meta_lookup m o = Some vs ->
     open_note ih vs (NNote (TCkpt o n r true) sigs) = NOk ih (TCkpt o n r true) ver -> n < int64_bound ->
     add_front ih m (ABody old p (NNote (TCkpt o n r true) sigs)) = inl EExtensions) /\
  (* 400 old > new *)
  (forall cache reg fok stamp (a : add_parsed ih), ap_new ih a < ap_old ih a ->
     add_locked ih INode IEmpty ih_eqb cache reg fok stamp a = LErr ih EBadRequest cache) /\
  (* 409 with the recorded size *)
  (forall (cache reg : option (regval ih)) (fok : bool) stamp (a : add_parsed ih) (known : regval ih),
     ap_old ih a <= ap_new ih a -> (ap_new ih a = 0 -> ap_root ih a = IEmpty) ->
     (match cache with Some v => Some v | None => if fok then reg else None end) = Some known ->
     known_size ih known <> ap_old ih a ->
     add_locked ih INode IEmpty ih_eqb cache reg fok stamp a = LErr ih (EConflict (known_size ih known)) (Some known)
     /\ status_of (EConflict (known_size ih known)) = 409
     /\ body_of (EConflict (known_size ih known)) = dec (known_size ih known)) /\
  (* 422: size 0 with a non-empty-tree hash, a proof from size 0, a proof that does not verify *)
  (forall (cache reg : option (regval ih)) (fok : bool) stamp (a : add_parsed ih) (known : regval ih),
     ap_old ih a <= ap_new ih a ->
     (match cache with Some v => Some v | None => if fok then reg else None end) = Some known ->
     known_size ih known = ap_old ih a ->
     ((ap_new ih a = 0 /\ ap_root ih a <> IEmpty) \/
      (ap_old ih a = 0 /\ ap_proof ih a <> []) \/
      (ap_old ih a <> 0 /\ ap_new ih a <= spin_bound /\
       icheck_tree (ap_proof ih a) (ap_new ih a) (ap_root ih a) (known_size ih known) (known_root ih IEmpty known) <> Ok)) ->
     exists c', add_locked ih INode IEmpty ih_eqb cache reg fok stamp a = LErr ih EProof c') /\
  (* the table *)
  status_of EUnknownLog = 404 /\ status_of EInvalidSignature = 403 /\ status_of EBadRequest = 400 /\
  status_of EBadCheckpoint = 400 /\ status_of EExtensions = 400 /\ status_of EProof = 422 /\
  (forall n, status_of (EConflict n) = 409 /\ body_of (EConflict n) = dec n) /\
  (forall w, status_of (EInternal w) = 500).

Lemma ideal_codes : codes_statement.
Proof.
  unfold codes_statement.
  split; [exact (code_malformed ih)|].
  split; [exact (code_unknown ih)|].
  split; [exact (code_badsig ih)|].
  split; [exact (code_not_signed ih)|].
  split; [exact (code_extension ih)|].
  split; [exact (code_old_gt_new ih INode IEmpty ih_eqb)|].
  split; [exact (code_conflict ih INode IEmpty ih_eqb ih_eqb_eq INode_inj)|].
  split; [exact (code_proof ih INode IEmpty ih_eqb ih_eqb_eq INode_inj)|].
  exact status_table.
Qed.
