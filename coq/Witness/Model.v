(* Witness/Model.v — executable model of the add-checkpoint and sign-subtree paths of
   /repo/internal/witness/witness.go (C14, C16):

     NewWitness (config load), PullLogList (one new log), serveAddCheckpoint /
     processAddCheckpointRequest / updateCheckpoint / checkpointLocked / openCheckpoint,
     serveSignSubtree / processSignSubtreeRequest, the error -> HTTP status mapping,

   over
     * a lock backend holding one compare-and-swap register per log origin
       (key backendKeyForCheckpoint) and the config register (backendKeyForConfig),
       with faults FOk | FFailNotApplied | FFailApplied on every write,
     * an object store receiving <origin hash>/checkpoint,
     * any number of witness INSTANCES (same keys, same stores): a restarted process is a reset
       instance; a zombie of the previous incarnation is another instance id. Per instance and
       origin: the cached LockedCheckpoint (logState.checkpoint, nil = not fetched) and the
       request currently inside the per-origin mutex.

   One add-checkpoint request is three steps, cut at the backend calls, so that event lists range
   over every interleaving of instances:   EAdd (everything up to and including note.Sign; contains
   the Lock.Fetch of checkpointLocked when the cache is nil)  ->  EReplace (Lock.Replace, cache
   update / drop)  ->  EUpload (Backend.Upload, release of the cosignature).

   The hash type is abstract (Section variables, as in Merkle/Proofs.v). Signatures are SYMBOLIC:
   a note carries a list of (key id, valid | invalid); "valid" means: verifies over the note's
   own text under that key. Unforgeability (nobody but the key holder produces a valid one) is
   therefore an assumption of every theorem, listed in the trusted base. Key ids are numbers;
   [kname] gives the key NAME of a key id (two keys may share a name: the witness's Ed25519 and
   ML-DSA-44 keys do).

   Byte-level syntax of the two request bodies (everything before the first blank line) is modelled
   on bytes (parse_add_header, parse_sub_header); the signed note after it is structural.
   Definitions only; proofs are in Witness/Proofs.v. *)
From SL Require Export Merkle.Proofs.
From SL Require Ckpt.Model.
Open Scope N_scope.

(* ------------------------------------------------------------------------------------- *)
(* 1. byte-level syntax of the request headers                                            *)
(* ------------------------------------------------------------------------------------- *)

(* strings.Split(s, "\n") *)
Definition split_nl (s : bytes) : list bytes := split_on x0a s [].

(* strings.Cut(s, " ") *)
Fixpoint cut_space (s : bytes) : option (bytes * bytes) :=
  match s with
  | [] => None
  | b :: r =>
    if Byte.eqb b x20 then Some ([], r)
    else match cut_space r with Some (h, t) => Some (b :: h, t) | None => None end
  end.

(* strconv.ParseInt(s, 10, 64) without error, >= 0, s == strconv.FormatInt(v, 10) *)
Definition parse_canon (s : bytes) : option N :=
  match SL.Ckpt.Model.parse_size s with Some z => Some (Z.to_N z) | None => None end.

(* tlog.ParseHash: base64.StdEncoding.DecodeString without error and 32 bytes *)
Definition parse_hash (l : bytes) : option bytes :=
  match SL.Ckpt.Model.b64_decode l with
  | Some h => if blen h =? 32 then Some h else None
  | None => None
  end.

Fixpoint parse_hashes (ls : list bytes) : option (list bytes) :=
  match ls with
  | [] => Some []
  | l :: r =>
    match parse_hash l, parse_hashes r with
    | Some h, Some t => Some (h :: t)
    | _, _ => None
    end
  end.

(* add-checkpoint: "old <size>" then the consistency proof, one hash per line *)
Definition parse_add_header (hdr : bytes) : option (N * list bytes) :=
  match split_nl hdr with
  | [] => None                                           (* len(lines) < 1: cannot happen *)
  | l0 :: rest =>
    match cut_prefix (s2b "old ") l0 with
    | None => None
    | Some sz =>
      match parse_canon sz with
      | None => None
      | Some old =>
        match parse_hashes rest with
        | None => None
        | Some p => Some (old, p)
        end
      end
    end
  end.

(* sign-subtree: "subtree <start> <end>", the subtree hash, then the subtree proof.
   (torchwood.ValidSubtree(start, end) is checked between the numbers and the hash; every one of
   these refusals is errBadRequest, so their relative order is not observable: the range check is
   made by process_sign_subtree.) *)
Definition parse_sub_header (hdr : bytes) : option (N * N * bytes * list bytes) :=
  match split_nl hdr with
  | l0 :: l1 :: rest =>
    match cut_prefix (s2b "subtree ") l0 with
    | None => None
    | Some se =>
      match cut_space se with
      | None => None
      | Some (ss, es) =>
        match parse_canon ss, parse_canon es with
        | Some s, Some e =>
          match parse_hash l1, parse_hashes rest with
          | Some sh, Some p => Some (s, e, sh, p)
          | _, _ => None
          end
        | _, _ => None
        end
      end
    end
  | _ => None                                            (* len(lines) < 2 *)
  end.

(* ------------------------------------------------------------------------------------- *)
(* 2. keys, symbolic signatures, notes, note.Open                                         *)
(* ------------------------------------------------------------------------------------- *)
Definition keyid := N.

Fixpoint mem_key (k : keyid) (l : list keyid) : bool :=
  match l with [] => false | x :: r => (k =? x) || mem_key k r end.

Fixpoint keys_eqb (a b : list keyid) : bool :=
  match a, b with
  | [], [] => true
  | x :: a', y :: b' => (x =? y) && keys_eqb a' b'
  | _, _ => false
  end.

Inductive sigkind := SValid | SInvalid.
Record nsig := mkSig { sg_key : keyid; sg_kind : sigkind }.

(* the witness's own keys: Ed25519 cosigner s1, ML-DSA-44 cosigner s2, optional ML-DSA-44 mirror
   cosigner sm; kname = key name of a key id *)
Record wconfig := mkCfg { wc_w1 : keyid; wc_w2 : keyid; wc_m : option keyid; wc_kname : keyid -> N }.

Inductive fault := FOk | FFailNotApplied | FFailApplied.
Definition applied (f : fault) : bool := match f with FFailNotApplied => false | _ => true end.
Definition succeeded (f : fault) : bool := match f with FOk => true | _ => false end.

(* error values of witness.go; EInternal = the fmtErrorf("internal error: ...") values *)
Inductive ierr := IFetch | ISign | IStore | IUpload | IReverify.
Inductive werr :=
| EUnknownLog | EInvalidSignature | EBadRequest | EBadCheckpoint | EExtensions | EProof
| EConflict (known : N)
| EInternal (why : ierr).

(* serveAddCheckpoint / serveSignSubtree: the response table *)
Definition status_of (e : werr) : N :=
  match e with
  | EUnknownLog => 404
  | EInvalidSignature => 403
  | EBadRequest | EBadCheckpoint | EExtensions => 400
  | EProof => 422
  | EConflict _ => 409
  | EInternal _ => 500
  end.

(* the response body (http.Error appends a newline; 409: text/x.tlog.size "<known>\n") *)
Definition body_of (e : werr) : bytes :=
  match e with
  | EUnknownLog => s2b "unknown log"
  | EInvalidSignature => s2b "invalid signature"
  | EBadRequest => s2b "invalid input"
  | EBadCheckpoint => s2b "invalid checkpoint"
  | EExtensions => s2b "invalid checkpoint: extension lines are not supported"
  | EProof => s2b "bad consistency proof"
  | EConflict n => dec n
  | EInternal IFetch => s2b "internal error: couldn't fetch checkpoint for known log"
  | EInternal ISign => s2b "internal error: failed to sign note"
  | EInternal IStore => s2b "internal error: failed to store new checkpoint"
  | EInternal IUpload => s2b "internal error: failed to upload new checkpoint to backend"
  | EInternal IReverify => s2b "internal error: failed to re-verify signature"
  end.

Definition int64_bound : N := 9223372036854775808.        (* 2^63 *)
Definition spin_bound : N := 4611686018427387904.         (* 2^62 *)

Section Witness.
Variable Hsh : Type.
Variable hnode : Hsh -> Hsh -> Hsh.
Variable hempty : Hsh.                (* emptyTreeHash = tlog.TreeHash(0, nil) = SHA-256("") *)
Variable heqb : Hsh -> Hsh -> bool.

(* the text of a signed note as the witness sees it *)
Inductive ntext :=
| TCkpt (o : bytes) (n : N) (r : Hsh) (ext : bool)   (* first line o; decimal n; root r; ext = has extension lines.
                                                        torchwood.ParseCheckpoint accepts it iff n < 2^63 *)
| TBad (o : bytes).                                  (* first line o; ParseCheckpoint refuses it *)

Inductive note :=
| NMalformed (o : bytes)                             (* note.Open: errMalformedNote; first line o *)
| NNote (t : ntext) (sigs : list nsig).

Definition text_origin (t : ntext) : bytes := match t with TCkpt o _ _ _ => o | TBad o => o end.
(* origin, _, _ := strings.Cut(string(noteBytes), "\n") *)
Definition note_origin (n : note) : bytes :=
  match n with NMalformed o => o | NNote t _ => text_origin t end.

(* x/mod note.Open(msg, note.VerifierList(vs...)) on the signature lines, in order:
   more than 100 lines -> malformed; unknown key -> unverified (kept aside, never used by the
   witness); known key already seen -> skipped WITHOUT verification; known key, first time:
   must verify or the whole note is refused (InvalidSignatureError); no verified signature at the
   end -> UnverifiedNoteError. *)
Inductive opened := OOk (ver : list nsig) | OMalformed | OInvalidSig | OUnverified.

Fixpoint open_sigs (vs seen : list keyid) (cnt : N) (sigs : list nsig) (ver : list nsig) : opened :=
  match sigs with
  | [] => match ver with [] => OUnverified | _ => OOk (rev ver) end
  | s :: r =>
    if 100 <? cnt + 1 then OMalformed else
    if mem_key (sg_key s) vs then
      if mem_key (sg_key s) seen then open_sigs vs seen (cnt + 1) r ver
      else match sg_kind s with
           | SValid => open_sigs vs (sg_key s :: seen) (cnt + 1) r (s :: ver)
           | SInvalid => OInvalidSig
           end
    else open_sigs vs seen (cnt + 1) r ver
  end.

Inductive nopened := NOk (t : ntext) (ver : list nsig) | NErr (e : opened).

Definition open_note (vs : list keyid) (n : note) : nopened :=
  match n with
  | NMalformed _ => NErr OMalformed
  | NNote t [] => NErr OMalformed                     (* len(sigs) == 0 *)
  | NNote t sigs =>
    match open_sigs vs [] 0 sigs [] with
    | OOk ver => NOk t ver
    | e => NErr e
    end
  end.

(* ------------------------------------------------------------------------------------- *)
(* 3. stored checkpoints, the register, per-origin witness state                           *)
(* ------------------------------------------------------------------------------------- *)

(* the note written by updateCheckpoint: re-encoded (origin, size, root), the VERIFIED log
   signatures of the submission, the cosignatures of s1 and s2 (always both: not a field).
   st_stamp stands for the bytes that differ between two signings of the same checkpoint
   (timestamp, hedged ML-DSA signature): the number of Replace calls prepared before. *)
Record stored := mkStored {
  st_origin : bytes; st_size : N; st_root : Hsh; st_logsigs : list keyid; st_stamp : N }.

(* contents of the register: None = empty bytes (as created by PullLogList) *)
Definition regval := option stored.

Definition stored_eqb (a b : stored) : bool :=
  bytes_eqb (st_origin a) (st_origin b) && (st_size a =? st_size b) && heqb (st_root a) (st_root b)
  && keys_eqb (st_logsigs a) (st_logsigs b) && (st_stamp a =? st_stamp b).

Definition regval_eqb (a b : regval) : bool :=
  match a, b with
  | None, None => true
  | Some x, Some y => stored_eqb x y
  | _, _ => false
  end.

(* openCheckpoint: empty bytes -> tree of size 0 with emptyTreeHash *)
Definition known_size (v : regval) : N := match v with None => 0 | Some s => st_size s end.
Definition known_root (v : regval) : Hsh := match v with None => hempty | Some s => st_root s end.

(* ------------------------------------------------------------------------------------- *)
(* 4. add-checkpoint                                                                       *)
(* ------------------------------------------------------------------------------------- *)
Inductive add_body :=
| ABad                                                (* no blank line, or parse_add_header fails *)
| ABody (old : N) (proof : list Hsh) (n : note).

Definition meta := list (bytes * list keyid).          (* Witness.meta: origin -> verifier keys *)

Fixpoint meta_lookup (m : meta) (o : bytes) : option (list keyid) :=
  match m with
  | [] => None
  | (o', ks) :: r => if bytes_eqb o o' then Some ks else meta_lookup r o
  end.

Record add_parsed := mkAP {
  ap_origin : bytes; ap_old : N; ap_new : N; ap_root : Hsh; ap_proof : list Hsh;
  ap_sigs : list nsig                                 (* submitted.Sigs: the verified signatures *) }.

(* processAddCheckpointRequest, up to the call of updateCheckpoint *)
Definition add_front (m : meta) (b : add_body) : werr + add_parsed :=
  match b with
  | ABad => inl EBadRequest
  | ABody old proof n =>
    match meta_lookup m (note_origin n) with
    | None => inl EUnknownLog
    | Some vs =>
      match open_note vs n with
      | NErr OInvalidSig | NErr OUnverified => inl EInvalidSignature
      | NErr _ => inl EBadRequest
      | NOk (TBad _) _ => inl EBadCheckpoint
      | NOk (TCkpt o size root ext) ver =>
        if negb (size <? int64_bound) then inl EBadCheckpoint
        else if ext then inl EExtensions
        else inr (mkAP o old size root proof ver)
      end
    end
  end.

(* updateCheckpoint from l.mu.Lock() up to (not including) w.c.Lock.Replace.
   cache = l.checkpoint on entry; reg = the register (None: no such key); fetch_ok = false makes a
   needed Lock.Fetch fail.  *)
Inductive lock_outcome :=
| LErr (e : werr) (cache : option regval)             (* answer e; l.checkpoint afterwards *)
| LSpin (cache : option regval)                       (* tlog.CheckTree does not return (see below) *)
| LReplace (old : regval) (new : stored).             (* go on to Lock.Replace(l.checkpoint = old, signed = new) *)

Definition nonempty {A} (l : list A) : bool := match l with [] => false | _ => true end.

(* the ML-DSA signer (formatSubtreeV1 / subtreeCosignedMessage) refuses origins outside 1..255 bytes *)
Definition origin_signable (o : bytes) : bool := (1 <=? blen o) && (blen o <=? 255).

Definition add_locked (cache : option regval) (reg : option regval) (fetch_ok : bool) (stamp : N)
    (a : add_parsed) : lock_outcome :=
  if ap_new a <? ap_old a then LErr EBadRequest cache else
  if (ap_new a =? 0) && negb (heqb (ap_root a) hempty) then LErr EProof cache else
  (* known, err := l.checkpointLocked(ctx, w) *)
  match (match cache with Some v => Some v | None => if fetch_ok then reg else None end) with
  | None => LErr (EInternal IFetch) None
  | Some known =>
    let cache' := Some known in
    if negb (known_size known =? ap_old a) then LErr (EConflict (known_size known)) cache' else
    if negb (ap_old a =? 0) then
      (* tlog.CheckTree(proof, newSize, newHash, known.N, known.Hash): for newSize > 2^62,
         known.N < newSize and a non-empty proof, tlog.maxpow2 never terminates
         (1<<uint(l+1) wraps to <= 0 and stays < n): the request spins holding l.mu *)
      if negb (ap_old a =? ap_new a) && nonempty (ap_proof a) && (spin_bound <? ap_new a)
      then LSpin cache' else
      match check_tree Hsh hnode heqb (ap_proof a) (ap_new a) (ap_root a) (known_size known) (known_root known) with
      | Ok =>
        if negb (origin_signable (ap_origin a)) then LErr (EInternal ISign) cache' else
        LReplace known (mkStored (ap_origin a) (ap_new a) (ap_root a) (map sg_key (ap_sigs a)) stamp)
      | _ => LErr EProof cache'
      end
    else
      match ap_proof a with
      | [] =>
        if negb (origin_signable (ap_origin a)) then LErr (EInternal ISign) cache' else
        LReplace known (mkStored (ap_origin a) (ap_new a) (ap_root a) (map sg_key (ap_sigs a)) stamp)
      | _ => LErr EProof cache'
      end
  end.

(* ------------------------------------------------------------------------------------- *)
(* 5. sign-subtree                                                                         *)
(* ------------------------------------------------------------------------------------- *)
Inductive sub_body :=
| SBad                                                (* no blank line, or parse_sub_header fails *)
| SBody (s e : N) (sh : Hsh) (proof : list Hsh) (n : note).

(* verifiers := [s2] (+ [sm] if configured) *)
Definition sub_verifiers (c : wconfig) : list keyid :=
  wc_w2 c :: match wc_m c with Some m => [m] | None => [] end.

(* for _, sig := range n.Sigs { if s2 matches: append s2; if sm != nil && sm matches: append sm } *)
Fixpoint select_signers (c : wconfig) (ver : list nsig) : list keyid :=
  match ver with
  | [] => []
  | s :: r =>
    (if sg_key s =? wc_w2 c then [wc_w2 c] else []) ++
    (match wc_m c with Some m => if sg_key s =? m then [m] else [] | None => [] end) ++
    select_signers c r
  end.

(* the safety check before signing: splitSignatures(noteBytes, s.Name()) keeps the signature lines
   with the signer's NAME; the re-serialised checkpoint plus those lines must open under
   note.VerifierList(s.Verifier()) alone *)
Definition reverify (c : wconfig) (sigs : list nsig) (k : keyid) : bool :=
  match open_sigs [k] [] 0 (filter (fun s => wc_kname c (sg_key s) =? wc_kname c k) sigs) [] with
  | OOk _ => true
  | _ => false
  end.

Definition note_sigs (n : note) : list nsig := match n with NNote _ sigs => sigs | NMalformed _ => [] end.

Record subsig := mkSub { ss_keys : list keyid; ss_origin : bytes; ss_start : N; ss_end : N; ss_hash : Hsh }.

Definition process_sign_subtree (c : wconfig) (m : meta) (b : sub_body) : werr + subsig :=
  match b with
  | SBad => inl EBadRequest
  | SBody s e sh p n =>
    if negb (valid_subtree s e) then inl EBadRequest else
    match meta_lookup m (note_origin n) with
    | None => inl EUnknownLog
    | Some _ =>
      match open_note (sub_verifiers c) n with
      | NErr OInvalidSig | NErr OUnverified => inl EInvalidSignature
      | NErr _ => inl EBadRequest
      | NOk (TBad _) _ => inl EBadCheckpoint
      | NOk (TCkpt o size root ext) ver =>
        if negb (size <? int64_bound) then inl EBadCheckpoint
        else if ext then inl EExtensions
        else if size <? e then inl EBadRequest
        else
          match check_subtree Hsh hnode heqb p size root s e sh with
          | Ok =>
            let ks := select_signers c ver in
            if forallb (reverify c (note_sigs n)) ks then inr (mkSub ks o s e sh)
            else inl (EInternal IReverify)
          | _ => inl EProof
          end
      end
    end
  end.

(* ------------------------------------------------------------------------------------- *)
(* 6. the world: stores, instances, events                                                 *)
(* ------------------------------------------------------------------------------------- *)

(* the request inside the per-origin mutex of one instance *)
Inductive flight :=
| FIdle
| FStuck                                              (* spinning in tlog.CheckTree, mutex held for ever *)
| FReplace (old : regval) (new : stored)              (* about to call Lock.Replace(old, new) *)
| FUpload (new : stored).                             (* Replace returned nil; about to call Backend.Upload *)

Record ostate := mkOS { os_cache : option regval; os_flight : flight }.
Definition os_init : ostate := mkOS None FIdle.

(* a cosignature handed out: the signing keys and the (origin, size, root) the signed message is
   the re-encoding of; rl_at = number of checkpoints recorded for the origin at that moment *)
Record release := mkRel { rl_keys : list keyid; rl_origin : bytes; rl_size : N; rl_root : Hsh; rl_at : nat }.

Definition ikey := (N * bytes)%type.                  (* (instance, origin) *)
Definition ikey_eqb (a b : ikey) : bool := (fst a =? fst b) && bytes_eqb (snd a) (snd b).

Record world := mkW {
  w_reg : list (bytes * regval);        (* lock backend: the checkpoint register of each origin *)
  w_conf : meta;                        (* lock backend: the config register ({} = []) *)
  w_meta : list (N * meta);             (* live instances and their in-memory meta *)
  w_os : list (ikey * ostate);          (* per instance and origin: cache + request in the mutex *)
  w_bucket : list (bytes * stored);     (* object store: every effective upload of <origin hash>/checkpoint, oldest
                                           first (the object is the last one of its origin) *)
  w_nstamp : N;                         (* signing counter, see st_stamp *)
  (* ghost state (never read by the transitions): *)
  w_hist : list (bytes * stored);       (* every Replace that took effect, oldest first *)
  w_rel : list release;                 (* every cosignature handed out, oldest first *)
  w_everkeys : list (bytes * keyid)     (* every (origin, key) ever written to the config *)
}.

Definition w_init : world := mkW [] [] [] [] [] 0 [] [] [].

Fixpoint reg_lookup (l : list (bytes * regval)) (o : bytes) : option regval :=
  match l with
  | [] => None
  | (o', v) :: r => if bytes_eqb o o' then Some v else reg_lookup r o
  end.

Fixpoint inst_lookup (l : list (N * meta)) (i : N) : option meta :=
  match l with
  | [] => None
  | (j, m) :: r => if i =? j then Some m else inst_lookup r i
  end.

Fixpoint os_lookup (l : list (ikey * ostate)) (k : ikey) : option ostate :=
  match l with
  | [] => None
  | (k', v) :: r => if ikey_eqb k k' then Some v else os_lookup r k
  end.
Definition os_get (l : list (ikey * ostate)) (k : ikey) : ostate :=
  match os_lookup l k with Some v => v | None => os_init end.
Definition os_set (l : list (ikey * ostate)) (k : ikey) (v : ostate) : list (ikey * ostate) :=
  (k, v) :: filter (fun e => negb (ikey_eqb k (fst e))) l.

Definition reg_set (l : list (bytes * regval)) (o : bytes) (v : regval) : list (bytes * regval) :=
  (o, v) :: filter (fun e => negb (bytes_eqb o (fst e))) l.
Definition bucket_set (l : list (bytes * stored)) (o : bytes) (v : stored) : list (bytes * stored) :=
  l ++ [(o, v)].
Definition inst_set (l : list (N * meta)) (i : N) (m : meta) : list (N * meta) :=
  (i, m) :: filter (fun e => negb (i =? fst e)) l.

(* ghost history of one origin, oldest first *)
Definition recorded (o : bytes) (w : world) : list stored :=
  map snd (filter (fun e => bytes_eqb o (fst e)) (w_hist w)).
Definition released (o : bytes) (w : world) : list release :=
  filter (fun r => bytes_eqb o (rl_origin r)) (w_rel w).

Inductive event :=
| ERestart (i : N)                      (* NewWitness on the same stores: meta := stored config, no cache, nothing in flight *)
| EAddLog (i : N) (o : bytes) (keys : list keyid)
          (fcreate : fault) (fetch_ok : bool) (cfetch_ok : bool) (fconf : fault)
                                        (* PullLogList with a list of one log (mirror = false) *)
| EAdd (i : N) (b : add_body) (fetch_ok : bool)       (* add-checkpoint up to Lock.Replace *)
| EReplace (i : N) (o : bytes) (f : fault)            (* the Lock.Replace of the request in flight *)
| EUpload (i : N) (o : bytes) (f : fault)             (* its Backend.Upload, then the answer *)
| ESub (i : N) (b : sub_body).                        (* sign-subtree (no state) *)

Inductive output :=
| ONone                                 (* event not enabled (no such instance / nothing in flight) *)
| OPending                              (* the request now waits at its next backend call *)
| OBlocked                              (* the request waits for the per-origin mutex (never served in this model) *)
| OSpin                                 (* the request spins in CheckTree holding the mutex *)
| OErr (e : werr)
| OCosig (ks : list keyid) (o : bytes) (n : N) (r : Hsh)   (* 200: cosignature lines by ks over the re-encoded (o, n, r) *)
| OSubsig (s : subsig)                  (* 200: subtree signature lines *)
| OAdmin (ok : bool)                    (* PullLogList returned nil / an error *)
| OStarted (origins : list bytes).      (* NewWitness: the known origins *)

Definition set_os (w : world) (k : ikey) (v : ostate) : world :=
  mkW (w_reg w) (w_conf w) (w_meta w) (os_set (w_os w) k v) (w_bucket w) (w_nstamp w)
      (w_hist w) (w_rel w) (w_everkeys w).

Definition step (c : wconfig) (w : world) (ev : event) : world * output :=
  match ev with
  | ERestart i =>
    (mkW (w_reg w) (w_conf w) (inst_set (w_meta w) i (w_conf w))
         (filter (fun e => negb (fst (fst e) =? i)) (w_os w)) (w_bucket w) (w_nstamp w)
         (w_hist w) (w_rel w) (w_everkeys w),
     OStarted (map fst (w_conf w)))
  | EAddLog i o keys fcreate fetch_ok cfetch_ok fconf =>
    match inst_lookup (w_meta w) i with
    | None => (w, ONone)
    | Some m =>
      match meta_lookup m o with
      | Some ks =>
        (* already known: the listed key must be one of the configured ones; then the (unchanged)
           config is written back *)
        if negb (forallb (fun k => mem_key k ks) keys) then (w, OAdmin false)
        else if negb cfetch_ok then (w, OAdmin false)
        else
          ((if applied fconf
            then mkW (w_reg w) m (w_meta w) (w_os w) (w_bucket w) (w_nstamp w) (w_hist w) (w_rel w)
                     (w_everkeys w)
            else w), OAdmin (succeeded fconf))
      | None =>
        (* createErr := Lock.Create(key, nil); Lock.Fetch(key) must succeed *)
        let reg1 := match reg_lookup (w_reg w) o with
                    | None => if applied fcreate then reg_set (w_reg w) o None else w_reg w
                    | Some _ => w_reg w
                    end in
        let w1 := mkW reg1 (w_conf w) (w_meta w) (w_os w) (w_bucket w) (w_nstamp w) (w_hist w) (w_rel w)
                      (w_everkeys w) in
        match (if fetch_ok then reg_lookup reg1 o else None) with
        | None => (w1, OAdmin false)
        | Some _ =>
          if negb cfetch_ok then (w1, OAdmin false) else
          let m' := m ++ [(o, keys)] in
          (* Lock.Replace(oldConfig, json(newMeta)) *)
          let conf2 := if applied fconf then m' else w_conf w in
          let ek2 := if applied fconf then w_everkeys w ++ map (fun k => (o, k)) keys else w_everkeys w in
          let meta2 := if succeeded fconf then inst_set (w_meta w) i m' else w_meta w in
          (mkW reg1 conf2 meta2 (w_os w) (w_bucket w) (w_nstamp w) (w_hist w) (w_rel w) ek2,
           OAdmin (succeeded fconf))
        end
      end
    end
  | EAdd i b fetch_ok =>
    match inst_lookup (w_meta w) i with
    | None => (w, ONone)
    | Some m =>
      match add_front m b with
      | inl e => (w, OErr e)
      | inr a =>
        let k := (i, ap_origin a) in
        let os := os_get (w_os w) k in
        match os_flight os with
        | FIdle =>
          match add_locked (os_cache os) (reg_lookup (w_reg w) (ap_origin a)) fetch_ok (w_nstamp w) a with
          | LErr e c' => (set_os w k (mkOS c' FIdle), OErr e)
          | LSpin c' => (set_os w k (mkOS c' FStuck), OSpin)
          | LReplace old new =>
            (mkW (w_reg w) (w_conf w) (w_meta w) (os_set (w_os w) k (mkOS (Some old) (FReplace old new)))
                 (w_bucket w) (w_nstamp w + 1) (w_hist w) (w_rel w) (w_everkeys w), OPending)
          end
        | _ => (w, OBlocked)
        end
      end
    end
  | EReplace i o f =>
    let k := (i, o) in
    let os := os_get (w_os w) k in
    match os_flight os with
    | FReplace old new =>
      (* the compare-and-swap: succeeds iff the register still holds the bytes of [old] *)
      let can := match reg_lookup (w_reg w) o with Some cur => regval_eqb cur old | None => false end in
      let eff := can && applied f in
      let reg' := if eff then reg_set (w_reg w) o (Some new) else w_reg w in
      let hist' := if eff then w_hist w ++ [(o, new)] else w_hist w in
      if can && succeeded f then
        (mkW reg' (w_conf w) (w_meta w) (os_set (w_os w) k (mkOS (Some (Some new)) (FUpload new)))
             (w_bucket w) (w_nstamp w) hist' (w_rel w) (w_everkeys w), OPending)
      else
        (* "We don't know if it was persisted, let it be re-fetched at the next update." *)
        (mkW reg' (w_conf w) (w_meta w) (os_set (w_os w) k (mkOS None FIdle))
             (w_bucket w) (w_nstamp w) hist' (w_rel w) (w_everkeys w), OErr (EInternal IStore))
    | _ => (w, ONone)
    end
  | EUpload i o f =>
    let k := (i, o) in
    let os := os_get (w_os w) k in
    match os_flight os with
    | FUpload new =>
      let bucket' := if applied f then bucket_set (w_bucket w) o new else w_bucket w in
      let os' := os_set (w_os w) k (mkOS (os_cache os) FIdle) in
      if succeeded f then
        let ks := [wc_w1 c; wc_w2 c] in
        (mkW (w_reg w) (w_conf w) (w_meta w) os' bucket' (w_nstamp w) (w_hist w)
             (w_rel w ++ [mkRel ks o (st_size new) (st_root new) (length (recorded o w))]) (w_everkeys w),
         OCosig ks o (st_size new) (st_root new))
      else
        (mkW (w_reg w) (w_conf w) (w_meta w) os' bucket' (w_nstamp w) (w_hist w) (w_rel w) (w_everkeys w),
         OErr (EInternal IUpload))
    | _ => (w, ONone)
    end
  | ESub i b =>
    match inst_lookup (w_meta w) i with
    | None => (w, ONone)
    | Some m =>
      match process_sign_subtree c m b with
      | inl e => (w, OErr e)
      | inr s => (w, OSubsig s)
      end
    end
  end.

Fixpoint run (c : wconfig) (w : world) (evs : list event) : world :=
  match evs with
  | [] => w
  | ev :: r => run c (fst (step c w ev)) r
  end.

(* the outputs of a run, in order *)
Fixpoint outputs (c : wconfig) (w : world) (evs : list event) : list output :=
  match evs with
  | [] => []
  | ev :: r => snd (step c w ev) :: outputs c (fst (step c w ev)) r
  end.

End Witness.

Arguments TCkpt {Hsh}.
Arguments TBad {Hsh}.
Arguments NMalformed {Hsh}.
Arguments NNote {Hsh}.
Arguments ABad {Hsh}.
Arguments ABody {Hsh}.
Arguments SBad {Hsh}.
Arguments SBody {Hsh}.
Arguments FIdle {Hsh}.
Arguments FStuck {Hsh}.
Arguments FReplace {Hsh}.
Arguments FUpload {Hsh}.
Arguments ERestart {Hsh}.
Arguments EAddLog {Hsh}.
Arguments EAdd {Hsh}.
Arguments EReplace {Hsh}.
Arguments EUpload {Hsh}.
Arguments ESub {Hsh}.
Arguments ONone {Hsh}.
Arguments OPending {Hsh}.
Arguments OBlocked {Hsh}.
Arguments OSpin {Hsh}.
Arguments OErr {Hsh}.
Arguments OCosig {Hsh}.
Arguments OSubsig {Hsh}.
Arguments OAdmin {Hsh}.
Arguments OStarted {Hsh}.
