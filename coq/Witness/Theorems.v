(* Witness/Theorems.v — the C14 / C16 statements over an abstract injective hash, and their closed
   instances over the free hash algebra [ih] (Merkle/Sound.v).

   Reading of "consistent" (C14): the witness cannot know whether a root it is shown is the root of
   any leaf list at all (a log may sign 32 arbitrary bytes). The strongest statement that does
   not assume an honest log is RELATIVE TO COMMITMENTS: whenever a recorded checkpoint x is the
   tree hash of a list L (of its stated size), EVERY checkpoint recorded before it for that origin
   is the tree hash of the prefix of L of its own size — no hypothesis is needed on the earlier
   ones — and so any list an earlier checkpoint commits to IS that prefix (mth_inj). Two
   checkpoints of equal size have equal roots without any hypothesis. *)
From SL Require Import Witness.Model Witness.Proofs Witness.Inv Merkle.Sound.
From Coq Require Import ZifyN ZifyNat ZifyBool.
Ltac Zify.zify_post_hook ::= Z.div_mod_to_equations.
Open Scope N_scope.

Section Thm.
Variable Hsh : Type.
Variable hnode : Hsh -> Hsh -> Hsh.
Variable hempty : Hsh.
Variable heqb : Hsh -> Hsh -> bool.
Hypothesis heqb_eq : forall a b, heqb a b = true <-> a = b.
Hypothesis hnode_inj : forall a b c d, hnode a b = hnode c d -> a = c /\ b = d.

Notation stored := (stored Hsh).
Notation regval := (regval Hsh).
Notation world := (world Hsh).
Notation event := (event Hsh).
Notation output := (output Hsh).
Notation step := (step Hsh hnode hempty heqb).
Notation run := (run Hsh hnode hempty heqb).
Notation recorded := (recorded Hsh).
Notation step_ok := (step_ok Hsh hnode hempty heqb).
Notation chain_from := (chain_from Hsh hnode hempty heqb).
Notation Inv := (Inv Hsh hnode hempty heqb).
Notation w_init := (w_init Hsh).
Notation known_size := (known_size Hsh).
Notation known_root := (known_root Hsh hempty).
Notation mth := (mth Hsh hnode hempty).
Notation check_tree := (check_tree Hsh hnode heqb).
Notation check_subtree := (check_subtree Hsh hnode heqb).
Notation rec_of := (rec_of Hsh).
Notation process_sign_subtree := (process_sign_subtree Hsh hnode heqb).

(* ------------------------------------------------------------------------------------- *)
(* 1. the chain, semantically                                                              *)
(* ------------------------------------------------------------------------------------- *)
Definition wf (a : regval) : Prop := known_size a = 0 -> known_root a = hempty.

Lemma wf_none : wf None.
Proof. intros _. reflexivity. Qed.

Lemma wf_next a b : step_ok a b -> wf (Some b).
Proof. intros (_ & H & _). exact H. Qed.

Lemma step_sem a b L : wf a -> step_ok a b ->
  N.of_nat (length L) = st_size Hsh b -> st_root Hsh b = mth L ->
  known_root a = mth (firstn (N.to_nat (known_size a)) L).
Proof.
  intros Hw (Hle & _ & Hp) Hlen Hroot.
  destruct (N.eq_dec (known_size a) 0) as [Hz|Hnz].
  - rewrite Hz. cbn. rewrite (Hw Hz). symmetry. apply (mth_nil Hsh hnode hempty).
  - destruct (Hp Hnz) as [p Hc]. rewrite <- Hlen, Hroot in Hc.
    apply (check_tree_sound Hsh hnode hempty heqb heqb_eq hnode_inj L p); auto. lia.
Qed.

Lemma chain_sizes : forall pre a c post,
  chain_from a (pre ++ c :: post) ->
  known_size a <= st_size Hsh c /\ forall d, In d pre -> st_size Hsh d <= st_size Hsh c.
Proof.
  induction pre as [|d pre IH]; intros a c post H.
  - cbn in H. destruct H as [(Hle & _) _]. split; auto. intros d [].
  - cbn in H. destruct H as [(Hle & _) H]. apply IH in H. cbn in H. destruct H as [H1 H2].
    split; [lia|]. intros x [<-|Hx]; auto.
Qed.

Lemma chain_sem : forall pre a c post,
  wf a -> chain_from a (pre ++ c :: post) ->
  forall L, N.of_nat (length L) = st_size Hsh c -> st_root Hsh c = mth L ->
  known_root a = mth (firstn (N.to_nat (known_size a)) L) /\
  forall d, In d pre -> st_root Hsh d = mth (firstn (N.to_nat (st_size Hsh d)) L).
Proof.
  induction pre as [|d pre IH]; intros a c post Hw H L Hlen Hroot.
  - cbn in H. destruct H as [Hs _]. split; [|intros d []]. eapply step_sem; eauto.
  - pose proof (chain_sizes (d :: pre) a c post H) as [Hsz1 Hsz2].
    cbn in H. destruct H as [Hs H].
    destruct (IH (Some d) c post (wf_next _ _ Hs) H L Hlen Hroot) as [Hd Hpre]. cbn in Hd.
    assert (Hdle : st_size Hsh d <= st_size Hsh c) by (apply Hsz2; left; reflexivity).
    split.
    + rewrite (step_sem a d (firstn (N.to_nat (st_size Hsh d)) L) Hw Hs); auto.
      * rewrite firstn_firstn. f_equal. f_equal. destruct Hs as (Hle & _). lia.
      * rewrite firstn_length. lia.
    + intros x [<-|Hx]; auto.
Qed.

(* CheckTree between trees of the same size accepts only the same root *)
Lemma run_tree_same f (p : list Hsh) n h : 1 <= n ->
  run_tree_proof Hsh hnode (S f) p 0 n n h = match p with [] => RVal (h, h) | _ => RFailed end.
Proof.
  intros Hn. cbn [run_tree_proof].
  assert (G1 : (0 <? n) && (n <=? n) = true).
  { apply andb_true_intro. split; [apply N.ltb_lt|apply N.leb_le]; lia. }
  rewrite G1, N.eqb_refl. cbn [negb]. reflexivity.
Qed.

Lemma check_tree_same_size p n th h : check_tree p n th n h = Ok -> th = h.
Proof.
  unfold Proofs.check_tree.
  destruct ((n <? 1) || (n <? 1) || (n <? n)) eqn:G; [discriminate|].
  assert (Hn : 1 <= n).
  { apply orb_false_elim in G. destruct G as [G _]. apply orb_false_elim in G. destruct G as [G _].
    apply N.ltb_ge in G. exact G. }
  change 64%nat with (S 63). rewrite (run_tree_same 63 p n h Hn).
  destruct p; [|discriminate].
  destruct (heqb h th && heqb h h) eqn:Q; [|discriminate].
  intros _. apply andb_prop in Q. destruct Q as [Q _]. apply heqb_eq in Q. auto.
Qed.

Lemma step_same_size a b : wf a -> step_ok a b -> known_size a = st_size Hsh b -> known_root a = st_root Hsh b.
Proof.
  intros Hw (_ & Hz & Hp) He.
  destruct (N.eq_dec (known_size a) 0) as [Z|NZ].
  - rewrite (Hw Z). symmetry. apply Hz. lia.
  - destruct (Hp NZ) as [p Hc]. rewrite He in Hc. apply check_tree_same_size in Hc. auto.
Qed.

Lemma chain_same_size : forall pre a c post,
  wf a -> chain_from a (pre ++ c :: post) ->
  (known_size a = st_size Hsh c -> known_root a = st_root Hsh c) /\
  forall d, In d pre -> st_size Hsh d = st_size Hsh c -> st_root Hsh d = st_root Hsh c.
Proof.
  induction pre as [|d pre IH]; intros a c post Hw H.
  - cbn in H. destruct H as [Hs _]. split; [|intros d []]. apply step_same_size; auto.
  - pose proof (chain_sizes (d :: pre) a c post H) as [Hsz1 Hsz2].
    cbn in H. destruct H as [Hs H].
    destruct (IH (Some d) c post (wf_next _ _ Hs) H) as [Hd Hpre]. cbn in Hd.
    assert (Hdle : st_size Hsh d <= st_size Hsh c) by (apply Hsz2; left; reflexivity).
    split.
    + intros He. destruct Hs as (Hle & Hs2). assert (E : known_size a = st_size Hsh d) by lia.
      rewrite (step_same_size a d Hw (conj Hle Hs2) E). apply Hd. lia.
    + intros x [<-|Hx]; auto.
Qed.

(* ------------------------------------------------------------------------------------- *)
(* 2. C14                                                                                  *)
(* ------------------------------------------------------------------------------------- *)
Lemma rec_of_In o h (s : stored) : In s (rec_of o h) -> In (o, s) h.
Proof.
  unfold Inv.rec_of. intros H. apply in_map_iff in H. destruct H as ([o' s'] & E & H). cbn in E. subst s'.
  apply filter_In in H. destruct H as [H1 H2]. cbn in H2. apply bytes_eqb_true in H2. subst. exact H1.
Qed.

(* C14_chain: all checkpoints ever recorded for an origin — whatever the order of requests,
   instances, faults, restarts — form one chain *)
Theorem chain_thm : forall c evs o pre x post,
  recorded o (run c w_init evs) = pre ++ x :: post ->
  forall d, In d pre ->
    st_size Hsh d <= st_size Hsh x /\
    (st_size Hsh d = st_size Hsh x -> st_root Hsh d = st_root Hsh x) /\
    forall L, N.of_nat (length L) = st_size Hsh x -> st_root Hsh x = mth L ->
      st_root Hsh d = mth (firstn (N.to_nat (st_size Hsh d)) L) /\
      forall Ld, N.of_nat (length Ld) = st_size Hsh d -> st_root Hsh d = mth Ld ->
        Ld = firstn (N.to_nat (st_size Hsh d)) L.
Proof.
  intros c evs o pre x post Hrec d Hd.
  pose proof (run_inv_init Hsh hnode hempty heqb heqb_eq c evs) as I.
  pose proof (inv_chain _ _ _ _ _ _ I o) as Hc.
  rewrite <- recorded_rec_of, Hrec in Hc.
  destruct (chain_sizes pre None x post Hc) as [_ Hsz].
  destruct (chain_same_size pre None x post wf_none Hc) as [_ Hsame].
  split; [auto|]. split; [auto|].
  intros L Hlen Hroot.
  destruct (chain_sem pre None x post wf_none Hc L Hlen Hroot) as [_ Hsem].
  split; [auto|].
  intros Ld Hl Hr. apply (mth_inj Hsh hnode hempty hnode_inj).
  - rewrite firstn_length. specialize (Hsz d Hd). lia.
  - rewrite <- Hr. auto.
Qed.

(* C14_recorded_before_release / C14_covers: a cosignature leaves the witness only in the step
   that follows a successful Backend.Upload, is made by exactly the two witness keys, covers exactly
   (origin, size, root) of a checkpoint that is ALREADY in the recorded history of that origin *)
Theorem release_thm : forall c evs ev w' ks o n r,
  step c (run c w_init evs) ev = (w', OCosig ks o n r) ->
  ks = [wc_w1 c; wc_w2 c] /\
  exists s, In s (recorded o (run c w_init evs)) /\
            st_origin Hsh s = o /\ st_size Hsh s = n /\ st_root Hsh s = r.
Proof.
  intros c evs ev w' ks o n r H.
  pose proof (run_inv_init Hsh hnode hempty heqb heqb_eq c evs) as I.
  set (w := run c w_init evs) in *.
  destruct ev as [i|i o' keys fcreate fok cfok fconf|i b fok|i o' f|i o' f|i b]; cbn [Model.step] in H.
  - inversion H.
  - destruct (inst_lookup (w_meta Hsh w) i); [|inversion H].
    destruct (meta_lookup m o').
    + destruct (negb (forallb (fun k => mem_key k l) keys)); [inversion H|].
      destruct (negb cfok); inversion H.
    + destruct (if fok then _ else None); [|inversion H]. destruct (negb cfok); inversion H.
  - destruct (inst_lookup (w_meta Hsh w) i); [|inversion H].
    destruct (add_front Hsh m b); [inversion H|].
    destruct (os_flight Hsh _); try solve [inversion H].
    destruct (add_locked Hsh hnode hempty heqb _ _ _ _ _); inversion H.
  - destruct (os_flight Hsh _); try solve [inversion H].
    destruct (_ && succeeded f); inversion H.
  - pose proof (flight_of Hsh hnode hempty heqb c w i o' I) as Hfo.
    destruct (os_flight Hsh (os_get Hsh (w_os Hsh w) (i, o'))) as [| |old new|new]; try solve [inversion H].
    cbn in Hfo. destruct (succeeded f); inversion H; subst. split; auto.
    exists new. split; [rewrite recorded_rec_of; exact Hfo|]. split; auto.
    apply rec_of_In in Hfo. pose proof (inv_tags _ _ _ _ _ _ I) as T. rewrite Forall_forall in T.
    destruct (T _ Hfo) as [T1 _]. exact T1.
  - destruct (inst_lookup (w_meta Hsh w) i); [|inversion H].
    destruct (Model.process_sign_subtree Hsh hnode heqb c m b); inversion H.
Qed.

(* state form, with the recorded-count stamp: every released cosignature is for a checkpoint among
   the first rl_at entries of the history, rl_at being the length of the history when it was released *)
Theorem release_stamp_thm : forall c evs r,
  In r (w_rel Hsh (run c w_init evs)) ->
  rl_keys Hsh r = [wc_w1 c; wc_w2 c] /\
  exists s, In s (firstn (rl_at Hsh r) (recorded (rl_origin Hsh r) (run c w_init evs))) /\
            st_size Hsh s = rl_size Hsh r /\ st_root Hsh s = rl_root Hsh r.
Proof.
  intros c evs r Hr.
  pose proof (run_inv_init Hsh hnode hempty heqb heqb_eq c evs) as I.
  pose proof (inv_rel _ _ _ _ _ _ I) as F. rewrite Forall_forall in F. apply (F r Hr).
Qed.

(* the history only grows *)
Theorem recorded_mono : forall c w ev o, exists suf, recorded o (fst (step c w ev)) = recorded o w ++ suf.
Proof.
  intros c w ev o.
  assert (Same : forall w', w_hist Hsh w' = w_hist Hsh w -> exists suf, recorded o w' = recorded o w ++ suf).
  { intros w' E. exists []. rewrite app_nil_r. unfold Model.recorded. rewrite E. reflexivity. }
  destruct ev as [i|i o' keys fcreate fok cfok fconf|i b fok|i o' f|i o' f|i b]; cbn [Model.step].
  - apply Same. reflexivity.
  - destruct (inst_lookup (w_meta Hsh w) i); [|apply Same; reflexivity].
    destruct (meta_lookup m o').
    + destruct (negb (forallb (fun k => mem_key k l) keys)); [apply Same; reflexivity|].
      destruct (negb cfok); [apply Same; reflexivity|]. cbn [fst]. destruct (applied fconf); apply Same; reflexivity.
    + destruct (if fok then _ else None); [|apply Same; reflexivity].
      destruct (negb cfok); apply Same; reflexivity.
  - destruct (inst_lookup (w_meta Hsh w) i); [|apply Same; reflexivity].
    destruct (add_front Hsh m b); [apply Same; reflexivity|].
    destruct (os_flight Hsh _); try (apply Same; reflexivity).
    destruct (add_locked Hsh hnode hempty heqb _ _ _ _ _); apply Same; reflexivity.
  - destruct (os_flight Hsh _); try (apply Same; reflexivity).
    match goal with |- context [if ?c && applied f then _ else _] => destruct (c && applied f) eqn:E; destruct (c && succeeded f) end;
      cbn [fst]; try (apply Same; reflexivity);
      rewrite !recorded_rec_of; cbn [w_hist]; rewrite rec_of_app; eexists; reflexivity.
  - destruct (os_flight Hsh _); try (apply Same; reflexivity).
    destruct (succeeded f); apply Same; reflexivity.
  - destruct (inst_lookup (w_meta Hsh w) i); [|apply Same; reflexivity].
    destruct (Model.process_sign_subtree Hsh hnode heqb c m b); apply Same; reflexivity.
Qed.

(* C14_signed_by_log: every recorded checkpoint is for its origin and carries at least one
   signature that verified under a key configured for that origin *)
Theorem signed_thm : forall c evs o s,
  In s (recorded o (run c w_init evs)) ->
  st_origin Hsh s = o /\ st_logsigs Hsh s <> [] /\
  forall k, In k (st_logsigs Hsh s) -> In (o, k) (w_everkeys Hsh (run c w_init evs)).
Proof.
  intros c evs o s Hs.
  pose proof (run_inv_init Hsh hnode hempty heqb heqb_eq c evs) as I.
  rewrite recorded_rec_of in Hs. apply rec_of_In in Hs.
  pose proof (inv_tags _ _ _ _ _ _ I) as T. rewrite Forall_forall in T.
  destruct (T _ Hs) as [T1 [T2 T3]]. cbn in *. subst o. auto.
Qed.

(* what an accepted add-checkpoint request (one that reaches Lock.Replace) looked like *)
Theorem accept_thm : forall c w i b fok w' m,
  inst_lookup (w_meta Hsh w) i = Some m ->
  step c w (EAdd i b fok) = (w', OPending) ->
  exists old proof o n r sigs vs known new,
    b = ABody old proof (NNote (TCkpt o n r false) sigs) /\
    meta_lookup m o = Some vs /\
    (exists s, In s sigs /\ sg_kind s = SValid /\ In (sg_key s) vs) /\
    known_size known = old /\ step_ok known new /\
    st_origin Hsh new = o /\ st_size Hsh new = n /\ st_root Hsh new = r /\
    (forall k, In k (st_logsigs Hsh new) -> In k vs /\ In (mkSig k SValid) sigs) /\
    os_flight Hsh (os_get Hsh (w_os Hsh w') (i, o)) = FReplace known new /\
    (os_cache Hsh (os_get Hsh (w_os Hsh w) (i, o)) = Some known \/
     (os_cache Hsh (os_get Hsh (w_os Hsh w) (i, o)) = None /\ fok = true /\ reg_lookup Hsh (w_reg Hsh w) o = Some known)).
Proof.
  intros c w i b fok w' m Hi H. cbn [Model.step] in H. rewrite Hi in H.
  destruct (add_front Hsh m b) as [e|a] eqn:Hf; [inversion H|].
  destruct (os_flight Hsh (os_get Hsh (w_os Hsh w) (i, ap_origin Hsh a))) eqn:Hfl; try solve [inversion H].
  destruct (add_locked Hsh hnode hempty heqb _ _ _ _ _) as [e c'|c'|known new] eqn:Hl; try solve [inversion H].
  inversion H; subst w'. clear H.
  apply (add_locked_replace Hsh hnode hempty heqb heqb_eq) in Hl. destruct Hl as (Hs & Hn & Hk & Hsrc).
  apply add_front_inr in Hf. destruct Hf as (sigs & vs & Hb & Hvs & _ & Hne & Hall).
  exists (ap_old Hsh a), (ap_proof Hsh a), (ap_origin Hsh a), (ap_new Hsh a), (ap_root Hsh a), sigs, vs, known, new.
  split; [exact Hb|]. split; [exact Hvs|]. split.
  { destruct (ap_sigs Hsh a) as [|s0 r0] eqn:E; [congruence|]. exists s0. apply Hall. left. reflexivity. }
  split; [exact Hk|]. split; [exact Hs|]. subst new. cbn [st_origin st_size st_root st_logsigs].
  split; [reflexivity|]. split; [reflexivity|]. split; [reflexivity|]. split.
  { intros k Hk'. apply in_map_iff in Hk'. destruct Hk' as (s & <- & Hs').
    destruct (Hall s Hs') as (H1 & H2 & H3). split; auto. destruct s; cbn in *. subst. exact H1. }
  split; [|exact Hsrc].
  cbn [w_os]. unfold os_get, os_set. cbn [os_lookup].
  assert (E : ikey_eqb (i, ap_origin Hsh a) (i, ap_origin Hsh a) = true).
  { unfold ikey_eqb. cbn. rewrite N.eqb_refl, bytes_eqb_refl'. reflexivity. }
  rewrite E. reflexivity.
Qed.

(* the compare-and-swap: a Replace takes effect only if the register holds exactly the value the
   checks were made against *)
Theorem cas_thm : forall c w i o f,
  w_hist Hsh (fst (step c w (EReplace i o f))) <> w_hist Hsh w ->
  exists old new, os_flight Hsh (os_get Hsh (w_os Hsh w) (i, o)) = FReplace old new /\
                  reg_lookup Hsh (w_reg Hsh w) o = Some old /\
                  w_hist Hsh (fst (step c w (EReplace i o f))) = w_hist Hsh w ++ [(o, new)].
Proof.
  intros c w i o f H. cbn [Model.step] in *.
  destruct (os_flight Hsh (os_get Hsh (w_os Hsh w) (i, o))) as [| |old new|new]; try (exfalso; apply H; reflexivity).
  exists old, new. split; auto.
  destruct (reg_lookup Hsh (w_reg Hsh w) o) as [cur|] eqn:Hr.
  - destruct (regval_eqb Hsh heqb cur old) eqn:E.
    + apply (regval_eqb_true Hsh heqb heqb_eq) in E. subst cur. split; auto.
      cbn [andb] in *. destruct f; cbn in *; auto; exfalso; apply H; reflexivity.
    + cbn [andb] in *. exfalso. apply H. reflexivity.
  - cbn [andb] in *. exfalso. apply H. reflexivity.
Qed.

(* C14_codes: refusals and their answers, in the order of the code *)
Definition resp_status (o : output) : option N := match o with OErr e => Some (status_of e) | OCosig _ _ _ _ => Some 200 | OSubsig _ => Some 200 | _ => None end.

Lemma code_malformed m : add_front Hsh m ABad = inl EBadRequest.
Proof. reflexivity. Qed.

Lemma code_unknown m old p (n : note Hsh) :
  meta_lookup m (note_origin Hsh n) = None -> add_front Hsh m (ABody old p n) = inl EUnknownLog.
Proof. intros H. cbn. rewrite H. reflexivity. Qed.

Lemma code_badsig m old p (n : note Hsh) vs :
  meta_lookup m (note_origin Hsh n) = Some vs ->
  (open_note Hsh vs n = NErr Hsh OInvalidSig \/ open_note Hsh vs n = NErr Hsh OUnverified) ->
  add_front Hsh m (ABody old p n) = inl EInvalidSignature.
Proof. intros H [E|E]; cbn; rewrite H, E; reflexivity. Qed.

(* no signature of the note verifies under a configured key -> 403 or 400, never accepted *)
Lemma code_not_signed m old p t sigs vs :
  meta_lookup m (text_origin Hsh t) = Some vs ->
  (forall s, In s sigs -> In (sg_key s) vs -> sg_kind s = SInvalid) ->
  exists e, add_front Hsh m (ABody old p (NNote t sigs)) = inl e /\ (status_of e = 403 \/ status_of e = 400).
Proof.
  intros H Hall. destruct (add_front Hsh m (ABody old p (NNote t sigs))) as [e|a] eqn:E.
  - exists e. split; auto. unfold Model.add_front in E. cbn [note_origin] in E. rewrite H in E.
    destruct (open_note Hsh vs (NNote t sigs)) as [t' ver|oe] eqn:Ho.
    + exfalso. apply open_note_ok in Ho. destruct Ho as (sigs' & Hn & Hne & Hv). inversion Hn; subst.
      destruct ver as [|s0 r]; [congruence|]. destruct (Hv s0 (or_introl eq_refl)) as (H1 & H2 & H3).
      rewrite (Hall s0 H1 H3) in H2. discriminate.
    + destruct oe; inversion E; cbn; auto.
  - exfalso. apply add_front_inr in E. destruct E as (sigs' & vs' & Hb & Hvs & _ & Hne & Hv).
    inversion Hb; subst. cbn [text_origin] in H. rewrite H in Hvs. inversion Hvs; subst.
    destruct (ap_sigs Hsh a) as [|s0 r]; [congruence|]. destruct (Hv s0 (or_introl eq_refl)) as (H1 & H2 & H3).
    rewrite (Hall s0 H1 H3) in H2. discriminate.
Qed.

Lemma code_extension m old p o n r sigs vs ver :
  meta_lookup m o = Some vs -> open_note Hsh vs (NNote (TCkpt o n r true) sigs) = NOk Hsh (TCkpt o n r true) ver ->
  n < int64_bound -> add_front Hsh m (ABody old p (NNote (TCkpt o n r true) sigs)) = inl EExtensions.
Proof.
  intros H E Hn. cbn [Model.add_front note_origin text_origin]. rewrite H, E.
  apply N.ltb_lt in Hn. rewrite Hn. reflexivity.
Qed.

Lemma code_old_gt_new cache reg fok stamp (a : add_parsed Hsh) :
  ap_new Hsh a < ap_old Hsh a -> Model.add_locked Hsh hnode hempty heqb cache reg fok stamp a = LErr Hsh EBadRequest cache.
Proof. intros H. unfold Model.add_locked. apply N.ltb_lt in H. rewrite H. reflexivity. Qed.

Lemma code_conflict (cache reg : option regval) (fok : bool) stamp (a : add_parsed Hsh) (known : regval) :
  ap_old Hsh a <= ap_new Hsh a -> (ap_new Hsh a = 0 -> ap_root Hsh a = hempty) ->
  (match cache with Some v => Some v | None => if fok then reg else None end) = Some known ->
  known_size known <> ap_old Hsh a ->
  Model.add_locked Hsh hnode hempty heqb cache reg fok stamp a = LErr Hsh (EConflict (known_size known)) (Some known)
  /\ status_of (EConflict (known_size known)) = 409 /\ body_of (EConflict (known_size known)) = dec (known_size known).
Proof.
  intros H1 H2 H3 H4. split; [|split; reflexivity]. unfold Model.add_locked.
  assert (E1 : ap_new Hsh a <? ap_old Hsh a = false) by (apply N.ltb_ge; lia). rewrite E1.
  assert (E2 : (ap_new Hsh a =? 0) && negb (heqb (ap_root Hsh a) hempty) = false).
  { destruct (ap_new Hsh a =? 0) eqn:Z; auto. apply N.eqb_eq in Z. cbn.
    assert (Q : heqb (ap_root Hsh a) hempty = true) by (apply heqb_eq; auto). rewrite Q. reflexivity. }
  rewrite E2, H3. apply N.eqb_neq in H4. rewrite H4. reflexivity.
Qed.

Lemma code_proof (cache reg : option regval) (fok : bool) stamp (a : add_parsed Hsh) (known : regval) :
  ap_old Hsh a <= ap_new Hsh a ->
  (match cache with Some v => Some v | None => if fok then reg else None end) = Some known ->
  known_size known = ap_old Hsh a ->
  ((ap_new Hsh a = 0 /\ ap_root Hsh a <> hempty) \/
   (ap_old Hsh a = 0 /\ ap_proof Hsh a <> []) \/
   (ap_old Hsh a <> 0 /\ ap_new Hsh a <= spin_bound /\
    check_tree (ap_proof Hsh a) (ap_new Hsh a) (ap_root Hsh a) (known_size known) (known_root known) <> Ok)) ->
  exists c', Model.add_locked Hsh hnode hempty heqb cache reg fok stamp a = LErr Hsh EProof c'.
Proof.
  intros H1 H3 H4 H. unfold Model.add_locked.
  assert (E1 : ap_new Hsh a <? ap_old Hsh a = false) by (apply N.ltb_ge; lia). rewrite E1.
  destruct H as [[Hz Hr]|H].
  - rewrite Hz. cbn. destruct (heqb (ap_root Hsh a) hempty) eqn:Q; [apply heqb_eq in Q; contradiction|].
    cbn. eexists; reflexivity.
  - destruct ((ap_new Hsh a =? 0) && negb (heqb (ap_root Hsh a) hempty)); [eexists; reflexivity|].
    rewrite H3. apply N.eqb_eq in H4. rewrite H4. cbn [negb].
    destruct H as [[Hz Hp]|(Hnz & Hb & Hc)].
    + rewrite Hz. cbn. destruct (ap_proof Hsh a); [congruence|]. eexists; reflexivity.
    + apply N.eqb_neq in Hnz. rewrite Hnz. cbn [negb].
      assert (Sp : spin_bound <? ap_new Hsh a = false) by (apply N.ltb_ge; lia). rewrite Sp, andb_false_r.
      destruct (check_tree _ _ _ _ _); try congruence; eexists; reflexivity.
Qed.

(* a request that is answered with an error other than the store failure changes neither the
   registers, nor the history, nor the set of released cosignatures *)
Theorem refusal_thm : forall c w ev e,
  snd (step c w ev) = OErr e -> e <> EInternal IStore ->
  w_hist Hsh (fst (step c w ev)) = w_hist Hsh w /\ w_reg Hsh (fst (step c w ev)) = w_reg Hsh w /\
  w_rel Hsh (fst (step c w ev)) = w_rel Hsh w.
Proof.
  intros c w ev e H Hne.
  destruct ev as [i|i o' keys fcreate fok cfok fconf|i b fok|i o' f|i o' f|i b]; cbn [Model.step] in *.
  - discriminate.
  - destruct (inst_lookup (w_meta Hsh w) i); [|discriminate].
    destruct (meta_lookup m o').
    + destruct (negb (forallb (fun k => mem_key k l) keys)); [discriminate|].
      destruct (negb cfok); discriminate.
    + destruct (if fok then _ else None); [|discriminate]. destruct (negb cfok); discriminate.
  - destruct (inst_lookup (w_meta Hsh w) i); [|discriminate].
    destruct (add_front Hsh m b); [auto|].
    destruct (os_flight Hsh _); try discriminate.
    destruct (add_locked Hsh hnode hempty heqb _ _ _ _ _); cbn in *; auto; discriminate.
  - destruct (os_flight Hsh _); try discriminate.
    destruct (_ && succeeded f); cbn [snd] in H; [discriminate|]. inversion H. congruence.
  - destruct (os_flight Hsh _); try discriminate.
    destruct (succeeded f); cbn in *; auto; discriminate.
  - destruct (inst_lookup (w_meta Hsh w) i); [|discriminate].
    destruct (Model.process_sign_subtree Hsh hnode heqb c m b); cbn; auto.
Qed.

(* the non-terminating CheckTree is reachable only above 2^62 and never records or releases *)
Theorem spin_thm : forall cache reg fok stamp (a : add_parsed Hsh) c',
  Model.add_locked Hsh hnode hempty heqb cache reg fok stamp a = LSpin Hsh c' ->
  spin_bound < ap_new Hsh a /\ ap_old Hsh a <> 0 /\ ap_old Hsh a <> ap_new Hsh a /\ ap_proof Hsh a <> [].
Proof.
  intros cache reg fok stamp a c' H. unfold Model.add_locked in H.
  destruct (ap_new Hsh a <? ap_old Hsh a); [discriminate|].
  destruct ((ap_new Hsh a =? 0) && _); [discriminate|].
  destruct (match cache with Some v => Some v | None => if fok then reg else None end); [|discriminate].
  destruct (negb (known_size r =? ap_old Hsh a)); [discriminate|].
  destruct (ap_old Hsh a =? 0) eqn:Z; cbn [negb] in H.
  - destruct (ap_proof Hsh a); [destruct (origin_signable _)|]; discriminate.
  - destruct (negb (ap_old Hsh a =? ap_new Hsh a) && nonempty (ap_proof Hsh a) && (spin_bound <? ap_new Hsh a)) eqn:S.
    + apply andb_prop in S. destruct S as [S S3]. apply andb_prop in S. destruct S as [S1 S2].
      apply N.ltb_lt in S3. apply N.eqb_neq in Z. apply negb_true_iff in S1. apply N.eqb_neq in S1.
      repeat split; auto. destruct (ap_proof Hsh a); [discriminate|congruence].
    + destruct (check_tree _ _ _ _ _); try discriminate; destruct (origin_signable _); discriminate.
Qed.

(* ------------------------------------------------------------------------------------- *)
(* 3. C16                                                                                  *)
(* ------------------------------------------------------------------------------------- *)
Lemma select_signers_spec c ver k :
  In k (select_signers c ver) ->
  (k = wc_w2 c \/ wc_m c = Some k) /\ exists s, In s ver /\ sg_key s = k.
Proof.
  induction ver as [|s r IH]; cbn; [tauto|]. intros H.
  apply in_app_or in H. destruct H as [H|H].
  - destruct (sg_key s =? wc_w2 c) eqn:E; [|destruct H]. destruct H as [<-|[]].
    apply N.eqb_eq in E. split; auto. exists s. auto.
  - apply in_app_or in H. destruct H as [H|H].
    + destruct (wc_m c) as [m|] eqn:Em; [|destruct H]. destruct (sg_key s =? m) eqn:E; [|destruct H].
      destruct H as [<-|[]]. apply N.eqb_eq in E. split; auto. exists s. auto.
    + destruct (IH H) as [H1 (s' & H2 & H3)]. split; auto. exists s'. auto.
Qed.

Lemma select_signers_nonempty c ver :
  ver <> [] -> (forall s, In s ver -> In (sg_key s) (sub_verifiers c)) -> select_signers c ver <> [].
Proof.
  destruct ver as [|s r]; [congruence|]. intros _ H. specialize (H s (or_introl eq_refl)). cbn.
  unfold sub_verifiers in H. destruct H as [H|H].
  - rewrite <- H, N.eqb_refl. cbn [app]. discriminate.
  - destruct (wc_m c) as [m|]; [|destruct H]. destruct H as [H|[]]. rewrite <- H, N.eqb_refl.
    destruct (m =? wc_w2 c); cbn [app]; discriminate.
Qed.

(* C16: an answer with signatures implies everything the property asks for *)
Theorem subtree_thm : forall c m b sg,
  process_sign_subtree c m b = inr sg ->
  exists p size root sigs,
    b = SBody (ss_start Hsh sg) (ss_end Hsh sg) (ss_hash Hsh sg) p
              (NNote (TCkpt (ss_origin Hsh sg) size root false) sigs) /\
    meta_lookup m (ss_origin Hsh sg) <> None /\
    valid_subtree (ss_start Hsh sg) (ss_end Hsh sg) = true /\
    ss_end Hsh sg <= size /\ size < int64_bound /\
    check_subtree p size root (ss_start Hsh sg) (ss_end Hsh sg) (ss_hash Hsh sg) = Ok /\
    (forall L, N.of_nat (length L) = size -> root = mth L ->
       ss_hash Hsh sg = mth (firstn (N.to_nat (ss_end Hsh sg - ss_start Hsh sg)) (skipn (N.to_nat (ss_start Hsh sg)) L))) /\
    ss_keys Hsh sg <> [] /\
    forall k, In k (ss_keys Hsh sg) ->
      (k = wc_w2 c \/ wc_m c = Some k) /\ In (mkSig k SValid) sigs.
Proof.
  intros c m b sg H. destruct b as [|s e sh p n]; cbn in H; [discriminate|].
  destruct (valid_subtree s e) eqn:Hv; cbn [negb] in H; [|discriminate].
  destruct (meta_lookup m (note_origin Hsh n)) as [vs|] eqn:Hm; [|discriminate].
  destruct (open_note Hsh (sub_verifiers c) n) as [t ver|oe] eqn:Ho; [|destruct oe; discriminate].
  destruct t as [o size root ext|o]; [|discriminate].
  destruct (size <? int64_bound) eqn:Hs; cbn [negb] in H; [|discriminate].
  destruct ext; [discriminate|].
  destruct (size <? e) eqn:He; [discriminate|].
  destruct (check_subtree p size root s e sh) eqn:Hc; try discriminate.
  destruct (forallb _ _); [|discriminate]. inversion H; subst sg; cbn. clear H.
  apply open_note_ok in Ho. destruct Ho as (sigs & -> & Hne & Hall). cbn in Hm.
  apply N.ltb_lt in Hs. apply N.ltb_ge in He.
  exists p, size, root, sigs. split; [reflexivity|]. split; [congruence|]. split; [auto|]. split; [auto|].
  split; [auto|]. split; [auto|]. split.
  { intros L Hl Hr. subst root. rewrite <- Hl in Hc.
    apply (check_subtree_sound Hsh hnode hempty heqb heqb_eq hnode_inj L p s e sh); auto. lia. }
  split.
  { apply select_signers_nonempty; auto. intros x Hx. apply Hall; auto. }
  intros k Hk. apply select_signers_spec in Hk. destruct Hk as [Hk (x & Hx & <-)]. split; auto.
  destruct (Hall x Hx) as (H1 & H2 & _). destruct x; cbn in *. subst. exact H1.
Qed.

(* C16_none: each refusal class yields no signature *)
Theorem subtree_none_thm : forall c m s e sh p (n : note Hsh),
  (valid_subtree s e = false -> process_sign_subtree c m (SBody s e sh p n) = inl EBadRequest) /\
  ((forall x, In x (note_sigs Hsh n) -> sg_kind x = SValid -> ~ In (sg_key x) (sub_verifiers c)) ->
     exists err, process_sign_subtree c m (SBody s e sh p n) = inl err) /\
  (forall o size root sigs, n = NNote (TCkpt o size root false) sigs ->
     (size < e \/
      check_subtree p size root s e sh <> Ok \/
      (exists L, N.of_nat (length L) = size /\ root = mth L /\
                 sh <> mth (firstn (N.to_nat (e - s)) (skipn (N.to_nat s) L)))) ->
     exists err, process_sign_subtree c m (SBody s e sh p n) = inl err).
Proof.
  intros c m s e sh p n. split; [|split].
  - intros H. cbn. rewrite H. reflexivity.
  - intros H. destruct (process_sign_subtree c m (SBody s e sh p n)) as [err|sg] eqn:E; [eauto|].
    exfalso. apply subtree_thm in E. destruct E as (p' & size & root & sigs & Hb & _ & _ & _ & _ & _ & _ & Hne & Hk).
    inversion Hb; subst. destruct (ss_keys Hsh sg) as [|k r]; [congruence|].
    destruct (Hk k (or_introl eq_refl)) as [Hown Hin].
    apply (H _ Hin eq_refl). cbn. unfold sub_verifiers. destruct Hown as [->|Hm]; [left; reflexivity|].
    rewrite Hm. right. left. reflexivity.
  - intros o size root sigs Hn H. destruct (process_sign_subtree c m (SBody s e sh p n)) as [err|sg] eqn:E; [eauto|].
    exfalso. apply subtree_thm in E. destruct E as (p' & size' & root' & sigs' & Hb & _ & _ & Hle & _ & Hc & Hsem & _).
    subst n. inversion Hb; subst. destruct H as [H|[H|(L & Hl & Hr & Hx)]].
    + lia.
    + contradiction.
    + apply Hx. apply Hsem; auto.
Qed.

End Thm.
