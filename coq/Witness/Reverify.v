(* Witness/Reverify.v — the per-signer "safety check" of processSignSubtreeRequest (re-open the
   re-serialised checkpoint with the signature lines of the signer's NAME under that signer's verifier
   alone) can never fail once the first note.Open succeeded: in the model the branch
   EInternal IReverify is dead code (the harness never observes it either). *)
From SL Require Import Witness.Model Witness.Proofs Witness.Theorems.
From Coq Require Import ZifyN ZifyNat ZifyBool.
Open Scope N_scope.

Lemma open_sigs_count : forall sigs vs seen cnt ver out,
  cnt <= 100 -> open_sigs vs seen cnt sigs ver = OOk out -> cnt + N.of_nat (length sigs) <= 100.
Proof.
  induction sigs as [|s r IH]; intros vs seen cnt ver out Hc H; cbn [length]; [lia|].
  cbn [open_sigs] in H. destruct (100 <? cnt + 1) eqn:E; [discriminate|]. apply N.ltb_ge in E.
  assert (cnt + 1 + N.of_nat (length r) <= 100).
  { destruct (mem_key (sg_key s) vs).
    - destruct (mem_key (sg_key s) seen); [eapply IH; eauto|].
      destruct (sg_kind s); [eapply IH; eauto|discriminate].
    - eapply IH; eauto. }
  lia.
Qed.

Definition first_valid (k : keyid) (l : list nsig) : Prop :=
  exists pre s post, l = pre ++ s :: post /\ (forall x, In x pre -> sg_key x <> k) /\
                     sg_key s = k /\ sg_kind s = SValid.

Lemma open_first_valid : forall sigs vs seen cnt ver out k,
  open_sigs vs seen cnt sigs ver = OOk out -> In k vs -> ~ In k seen ->
  (forall s, In s sigs -> sg_key s <> k) \/ first_valid k sigs.
Proof.
  induction sigs as [|s r IH]; intros vs seen cnt ver out k H Hv Hs.
  - left. intros s [].
  - cbn [open_sigs] in H. destruct (100 <? cnt + 1); [discriminate|].
    destruct (N.eq_dec (sg_key s) k) as [E|NE].
    + right. assert (M : mem_key (sg_key s) vs = true) by (apply mem_key_In; rewrite E; auto).
      rewrite M in H. destruct (mem_key (sg_key s) seen) eqn:M2.
      * apply mem_key_In in M2. rewrite E in M2. contradiction.
      * destruct (sg_kind s) eqn:K; [|discriminate].
        exists [], s, r. split; [reflexivity|]. split; [intros x []|]. auto.
    + assert (R : (forall x, In x r -> sg_key x <> k) \/ first_valid k r).
      { destruct (mem_key (sg_key s) vs).
        - destruct (mem_key (sg_key s) seen); [eapply IH; eauto|].
          destruct (sg_kind s); [|discriminate]. eapply IH; eauto. intros [?|?]; auto.
        - eapply IH; eauto. }
      destruct R as [R|(pre & x & post & -> & Hp & Hk & Hvld)].
      * left. intros x [<-|Hx]; auto.
      * right. exists (s :: pre), x, post. split; [reflexivity|]. split; auto.
        intros y [<-|Hy]; auto.
Qed.

Lemma single_open : forall F k seen cnt ver,
  cnt + N.of_nat (length F) <= 100 ->
  (In k seen -> ver <> []) ->
  (In k seen \/ first_valid k F) ->
  exists out, open_sigs [k] seen cnt F ver = OOk out.
Proof.
  induction F as [|x r IH]; intros k seen cnt ver Hc Hver Hf.
  - destruct Hf as [Hs|(pre & s & post & E & _)].
    + cbn. specialize (Hver Hs). destruct ver; [congruence|]. eexists; reflexivity.
    + destruct pre; discriminate.
  - cbn [length] in Hc. cbn [open_sigs].
    assert (E : 100 <? cnt + 1 = false) by (apply N.ltb_ge; lia). rewrite E.
    assert (Hc' : cnt + 1 + N.of_nat (length r) <= 100) by lia.
    cbn [mem_key]. rewrite orb_false_r.
    destruct (sg_key x =? k) eqn:Ek.
    + apply N.eqb_eq in Ek. destruct (mem_key (sg_key x) seen) eqn:M.
      * apply IH; auto. left. apply mem_key_In in M. rewrite Ek in M. exact M.
      * destruct Hf as [Hs|(pre & s & post & E2 & Hp & Hk & Hvld)].
        { exfalso. apply mem_key_In in Hs. rewrite <- Ek in Hs. congruence. }
        destruct pre as [|y pre'].
        -- cbn in E2. inversion E2; subst s post. rewrite Hvld. apply IH; auto.
           ++ intros _. discriminate.
           ++ left. left. exact Ek.
        -- cbn in E2. inversion E2; subst y. exfalso. apply (Hp x); [left; reflexivity|exact Ek].
    + apply N.eqb_neq in Ek. apply IH; auto.
      destruct Hf as [Hs|(pre & s & post & E2 & Hp & Hk & Hvld)]; [left; exact Hs|].
      right. destruct pre as [|y pre'].
      * cbn in E2. inversion E2; subst s. congruence.
      * cbn in E2. inversion E2; subst y. exists pre', s, post. split; [reflexivity|]. split; auto.
        intros z Hz. apply Hp. right. exact Hz.
Qed.

Lemma filter_first_valid f k l :
  (forall s, sg_key s = k -> f s = true) -> first_valid k l -> first_valid k (filter f l).
Proof.
  intros Hf (pre & s & post & -> & Hp & Hk & Hv).
  exists (filter f pre), s, (filter f post). split.
  - rewrite filter_app. cbn. rewrite (Hf s Hk). reflexivity.
  - split; auto. intros x Hx. apply filter_In in Hx. destruct Hx. auto.
Qed.

Lemma filter_length_le {A} (f : A -> bool) l : (length (filter f l) <= length l)%nat.
Proof. induction l as [|x l IH]; cbn; auto. destruct (f x); cbn; lia. Qed.

Lemma reverify_ok : forall c vs sigs ver k,
  open_sigs vs [] 0 sigs [] = OOk ver -> In k vs -> (exists s, In s ver /\ sg_key s = k) ->
  reverify c sigs k = true.
Proof.
  intros c vs sigs ver k H Hv (s & Hs & Hk).
  assert (H100 : 0 <= 100) by lia.
  pose proof (open_sigs_count sigs vs [] 0 [] ver H100 H) as Hcnt.
  destruct (open_first_valid _ _ _ _ _ _ k H Hv (fun x => x)) as [Hno|Hfv].
  - exfalso. apply open_sigs_ok in H. destruct H as (_ & _ & Hall).
    destruct (Hall s Hs) as [[]|(Hin & _ & _)]. exact (Hno s Hin Hk).
  - unfold reverify.
    destruct (single_open (filter (fun s0 => wc_kname c (sg_key s0) =? wc_kname c k) sigs) k [] 0 []) as [out E].
    + pose proof (filter_length_le (fun s0 => wc_kname c (sg_key s0) =? wc_kname c k) sigs). lia.
    + intros [].
    + right. apply filter_first_valid; auto. intros x Hx. rewrite Hx. apply N.eqb_refl.
    + rewrite E. reflexivity.
Qed.

Section Dead.
Variable Hsh : Type.
Variable hnode : Hsh -> Hsh -> Hsh.
Variable heqb : Hsh -> Hsh -> bool.

Theorem reverify_dead : forall c m (b : sub_body Hsh),
  process_sign_subtree Hsh hnode heqb c m b <> inl (EInternal IReverify).
Proof.
  intros c m b H. destruct b as [|s e sh p n]; cbn in H; [discriminate|].
  destruct (valid_subtree s e); cbn [negb] in H; [|discriminate].
  destruct (meta_lookup m (note_origin Hsh n)); [|discriminate].
  destruct (open_note Hsh (sub_verifiers c) n) as [t ver|oe] eqn:Ho; [|destruct oe; discriminate].
  destruct t as [o size root ext|o]; [|discriminate].
  destruct (size <? int64_bound); cbn [negb] in H; [|discriminate].
  destruct ext; [discriminate|]. destruct (size <? e); [discriminate|].
  destruct (check_subtree Hsh hnode heqb p size root s e sh); try discriminate.
  destruct (forallb (reverify c (note_sigs Hsh n)) (select_signers c ver)) eqn:F; [discriminate|].
  assert (T : forallb (reverify c (note_sigs Hsh n)) (select_signers c ver) = true); [|congruence].
  apply forallb_forall. intros k Hk.
  destruct n as [o'|t sigs]; cbn in Ho; [discriminate|].
  destruct sigs as [|s0 r]; [discriminate|].
  destruct (open_sigs (sub_verifiers c) [] 0 (s0 :: r) []) as [v| | |] eqn:E; try discriminate.
  inversion Ho; subst. cbn [note_sigs].
  apply select_signers_spec in Hk. destruct Hk as [Hown (x & Hx & Hkx)].
  apply (reverify_ok c (sub_verifiers c) (s0 :: r) ver k E); eauto.
  unfold sub_verifiers. destruct Hown as [->|Hm]; [left; reflexivity|]. rewrite Hm. right. left. reflexivity.
Qed.
End Dead.
