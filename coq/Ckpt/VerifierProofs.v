(* Ckpt/VerifierProofs.v — structure of the RFC 6962 note verifier closure: what exactly it
   checks (verifier_iff), injectivity of the STH signature input, and the strictness corollaries.
   Nothing is assumed about the signature primitive. *)
From SL Require Import Base.Bytes Base.Cryptobyte Base.BytesProofs Codec.Leaf Ckpt.Model.
From Coq Require Import ZifyN ZifyNat ZifyBool.
Open Scope N_scope.
Ltac Zify.zify_post_hook ::= Z.div_mod_to_equations.

Definition two64N : N := 18446744073709551616.
Definition two16N : N := 65536.

Lemma pow256_8 : pow256 8 = two64N. Proof. reflexivity. Qed.
Lemma pow256_2 : pow256 2 = two16N. Proof. reflexivity. Qed.
Lemma pow256_1 : pow256 1 = 256. Proof. reflexivity. Qed.

Lemma be1 v : be 1 v = [byte_of_N v].
Proof. reflexivity. Qed.

(* the RFC6962NoteSignature layout: uint64 timestamp, hash alg 4, signature alg,
   opaque signature<0..2^16-1>, and nothing after it *)
Definition note_signature (ts : N) (sa : byte) (sig : bytes) : bytes :=
  be 8 ts ++ [x04; sa] ++ be 2 (blen sig) ++ sig.

Lemma parse_note_signature_iff blob ts sa sig :
  parse_note_signature blob = Some (ts, sa, sig) <->
  ts < two64N /\ blen sig < two16N /\ blob = note_signature ts sa sig.
Proof.
  unfold parse_note_signature, note_signature. split.
  - destruct (rd_u 8 blob) as [[ts0 s1]|] eqn:E1; [|discriminate].
    destruct (rd_u 1 s1) as [[ha s2]|] eqn:E2; [|discriminate].
    destruct (N.eqb_spec ha 4) as [->|]; cbn [negb]; [|discriminate].
    destruct (rd_u 1 s2) as [[sa0 s3]|] eqn:E3; [|discriminate].
    destruct (rd_lp 2 s3) as [[sg s4]|] eqn:E4; [|discriminate].
    destruct s4; [|discriminate].
    intro X; inversion X; subst; clear X.
    apply rd_u_inv in E1. destruct E1 as [-> H1].
    apply rd_u_inv in E2. destruct E2 as [-> _].
    apply rd_u_inv in E3. destruct E3 as [-> _].
    apply rd_lp_inv in E4. destruct E4 as [-> H4].
    rewrite pow256_8 in H1. rewrite pow256_2 in H4.
    repeat split; try assumption.
    rewrite !be1, app_nil_r. reflexivity.
  - intros (H1 & H2 & ->).
    rewrite rd_u_be by (rewrite pow256_8; exact H1).
    change ([x04; sa] ++ be 2 (blen sig) ++ sig) with (be 1 4 ++ [sa] ++ be 2 (blen sig) ++ sig).
    rewrite rd_u_be by (rewrite pow256_1; lia).
    cbn [N.eqb Pos.eqb negb].
    replace ([sa] ++ be 2 (blen sig) ++ sig) with (be 1 (Byte.to_N sa) ++ be 2 (blen sig) ++ sig ++ [])
      by (rewrite be1, byte_of_N_to_N, app_nil_r; reflexivity).
    rewrite rd_u_be by (rewrite pow256_1; apply to_N_lt).
    rewrite rd_lp_enc by (rewrite pow256_2; exact H2).
    now rewrite byte_of_N_to_N.
Qed.

Lemma app_inj_len {A} (a c b d : list A) : length a = length c -> a ++ b = c ++ d -> a = c /\ b = d.
Proof.
  revert c; induction a as [|x a IH]; destruct c as [|y c]; cbn; intros L E; try discriminate.
  - auto.
  - inversion E; subst. destruct (IH c) as [-> ->]; [lia|assumption|]. auto.
Qed.

(* the signature input determines the tuple *)
Lemma sth_input_inj n ts r n' ts' r' :
  n < two64N -> ts < two64N -> n' < two64N -> ts' < two64N ->
  sth_signature_input n ts r = sth_signature_input n' ts' r' ->
  n = n' /\ ts = ts' /\ r = r'.
Proof.
  intros Hn Ht Hn' Ht' E. unfold sth_signature_input in E.
  apply (f_equal (skipn 2)) in E. cbn [skipn] in E.
  apply app_inj_len in E; [|now rewrite !length_be]. destruct E as [E1 E].
  apply app_inj_len in E; [|now rewrite !length_be]. destruct E as [E2 E3].
  apply be_inj in E1; try (rewrite pow256_8; assumption).
  apply be_inj in E2; try (rewrite pow256_8; assumption).
  auto.
Qed.

Lemma note_signature_inj ts sa sig ts' sa' sig' :
  ts < two64N -> ts' < two64N -> blen sig < two16N -> blen sig' < two16N ->
  note_signature ts sa sig = note_signature ts' sa' sig' -> ts = ts' /\ sa = sa' /\ sig = sig'.
Proof.
  intros H1 H2 H3 H4 E. unfold note_signature in E.
  apply app_inj_len in E; [|now rewrite !length_be]. destruct E as [E1 E].
  apply app_inj_len in E; [|reflexivity]. destruct E as [Ea E].
  apply app_inj_len in E; [|now rewrite !length_be]. destruct E as [_ E].
  apply be_inj in E1; try (rewrite pow256_8; assumption).
  injection Ea as Ea. auto.
Qed.

Section Verifier.
  Variable pubkey : Type.
  Variable sig_alg : pubkey -> option byte.
  Variable raw_verify : pubkey -> bytes -> bytes -> bool.

  Notation verify_extract := (verify_extract pubkey sig_alg).
  Notation rfc6962_verify := (rfc6962_verify pubkey sig_alg raw_verify).

  Lemma verify_extract_iff name pk msg blob input sig :
    verify_extract name pk msg blob = Some (input, sig) <->
    exists n root ts a,
      parse_checkpoint msg = Some (mkCkpt name n root []) /\
      sig_alg pk = Some a /\ ts < two64N /\ blen sig < two16N /\
      blob = note_signature ts a sig /\
      input = sth_signature_input (u64 n) ts root.
  Proof.
    unfold Model.verify_extract. split.
    - destruct (parse_checkpoint msg) as [c|] eqn:Ep; [|discriminate].
      destruct (bytes_eqb (c_origin c) name) eqn:Eo; cbn [negb]; [|discriminate].
      apply bytes_eqb_eq in Eo.
      destruct (c_ext c) eqn:Ee; [|discriminate].
      destruct (parse_note_signature blob) as [[[ts sa] sg]|] eqn:Eb; [|discriminate].
      destruct (sig_alg pk) as [a|] eqn:Ea; [|discriminate].
      destruct (Byte.eqb sa a) eqn:Esa; [|discriminate].
      apply byte_eqb_eq in Esa. subst sa.
      intro X; inversion X; subst; clear X.
      apply parse_note_signature_iff in Eb. destruct Eb as (H1 & H2 & ->).
      exists (c_n c), (c_hash c), ts, a. repeat split; try assumption.
      destruct c; cbn in *; subst; reflexivity.
    - intros (n & root & ts & a & Hp & Ha & H1 & H2 & -> & ->).
      rewrite Hp. cbn [c_origin c_ext c_n c_hash]. rewrite bytes_eqb_refl. cbn [negb].
      assert (E : parse_note_signature (note_signature ts a sig) = Some (ts, a, sig))
        by (apply parse_note_signature_iff; auto).
      rewrite E, Ha.
      replace (Byte.eqb a a) with true by (symmetry; now apply byte_eqb_eq). reflexivity.
  Qed.

  (* WHAT THE CLOSURE CHECKS. It returns true exactly when the message parses as a checkpoint
     whose origin is byte-for-byte the verifier's name and which has no extension line, the
     signature blob is exactly timestamp || 4 || alg(pk) || u16-length || signature with nothing
     after it, and the primitive accepts that signature for the STH input of the tuple
     (size, timestamp, root). *)
  Theorem verifier_iff name pk msg blob :
    rfc6962_verify name pk msg blob = true <->
    exists n root ts s a,
      parse_checkpoint msg = Some (mkCkpt name n root []) /\
      sig_alg pk = Some a /\ ts < two64N /\ blen s < two16N /\
      blob = be 8 ts ++ [x04; a] ++ be 2 (blen s) ++ s /\
      raw_verify pk (sth_signature_input (u64 n) ts root) s = true.
  Proof.
    unfold Model.rfc6962_verify. split.
    - destruct (verify_extract name pk msg blob) as [[i s]|] eqn:E; [|discriminate].
      intro Hr. apply verify_extract_iff in E.
      destruct E as (n & root & ts & a & Hp & Ha & H1 & H2 & Hb & ->).
      exists n, root, ts, s, a. repeat split; assumption.
    - intros (n & root & ts & s & a & Hp & Ha & H1 & H2 & Hb & Hr).
      assert (E : verify_extract name pk msg blob = Some (sth_signature_input (u64 n) ts root, s)).
      { apply verify_extract_iff. exists n, root, ts, a. repeat split; assumption. }
      rewrite E. exact Hr.
  Qed.

  (* ---- strictness corollaries ---- *)

  (* acceptance implies that the primitive accepted exactly the tuple the note claims: the
     parsed (size, root) and the timestamp in the first 8 bytes of the blob *)
  Theorem strict_tuple name pk msg blob c :
    rfc6962_verify name pk msg blob = true -> parse_checkpoint msg = Some c ->
    c_origin c = name /\ c_ext c = [] /\
    exists ts s a, sig_alg pk = Some a /\ blob = note_signature ts a s /\ ts < two64N /\ blen s < two16N /\
      raw_verify pk (sth_signature_input (u64 (c_n c)) ts (c_hash c)) s = true.
  Proof.
    intros H Hp. apply verifier_iff in H.
    destruct H as (n & root & ts & s & a & Hp' & Ha & H1 & H2 & Hb & Hr).
    rewrite Hp in Hp'. inversion Hp'; subst c; cbn.
    repeat split. exists ts, s, a. repeat split; assumption.
  Qed.

  Theorem strict_unparsable name pk msg blob :
    parse_checkpoint msg = None -> rfc6962_verify name pk msg blob = false.
  Proof.
    intro H. unfold Model.rfc6962_verify, Model.verify_extract. now rewrite H.
  Qed.

  Theorem strict_foreign_origin name pk msg blob c :
    parse_checkpoint msg = Some c -> c_origin c <> name -> rfc6962_verify name pk msg blob = false.
  Proof.
    intros Hp Hn. destruct (rfc6962_verify name pk msg blob) eqn:E; [|reflexivity].
    destruct (strict_tuple _ _ _ _ _ E Hp) as [Ho _]. contradiction.
  Qed.

  Theorem strict_extension name pk msg blob c :
    parse_checkpoint msg = Some c -> c_ext c <> [] -> rfc6962_verify name pk msg blob = false.
  Proof.
    intros Hp Hn. destruct (rfc6962_verify name pk msg blob) eqn:E; [|reflexivity].
    destruct (strict_tuple _ _ _ _ _ E Hp) as (_ & He & _). contradiction.
  Qed.

  (* bytes after a well-formed signature blob: rejected unconditionally *)
  Theorem strict_trailing name pk msg ts a s extra :
    ts < two64N -> blen s < two16N -> extra <> [] ->
    rfc6962_verify name pk msg (note_signature ts a s ++ extra) = false.
  Proof.
    intros H1 H2 Hx.
    unfold Model.rfc6962_verify, Model.verify_extract.
    destruct (parse_checkpoint msg) as [c|]; [|reflexivity].
    destruct (negb (bytes_eqb (c_origin c) name)); [reflexivity|].
    destruct (c_ext c); [|reflexivity].
    assert (E : parse_note_signature (note_signature ts a s ++ extra) = None).
    { unfold parse_note_signature, note_signature.
      rewrite <- !app_assoc.
      rewrite rd_u_be by (rewrite pow256_8; exact H1).
      change ([x04; a] ++ be 2 (blen s) ++ s ++ extra) with (be 1 4 ++ [a] ++ be 2 (blen s) ++ s ++ extra).
      rewrite rd_u_be by (rewrite pow256_1; lia).
      cbn [N.eqb Pos.eqb negb].
      replace ([a] ++ be 2 (blen s) ++ s ++ extra) with (be 1 (Byte.to_N a) ++ be 2 (blen s) ++ s ++ extra)
        by (rewrite be1, byte_of_N_to_N; reflexivity).
      rewrite rd_u_be by (rewrite pow256_1; apply to_N_lt).
      rewrite rd_lp_enc by (rewrite pow256_2; exact H2).
      destruct extra; [contradiction|reflexivity]. }
    now rewrite E.
  Qed.

  (* wrong hash algorithm, wrong signature algorithm for the key type, unsupported key type *)
  Theorem strict_alg name pk msg ts a s :
    sig_alg pk <> Some a -> rfc6962_verify name pk msg (note_signature ts a s) = false.
  Proof.
    intro Hn. destruct (rfc6962_verify name pk msg (note_signature ts a s)) eqn:E; [|reflexivity].
    apply verifier_iff in E. destruct E as (n & root & ts' & s' & a' & Hp & Ha & H1 & H2 & Hb & Hr).
    exfalso. apply Hn. rewrite Ha. f_equal.
    (* the algorithm byte sits at offset 9 of both renderings *)
    unfold note_signature in Hb.
    apply app_inj_len in Hb; [|now rewrite !length_be]. destruct Hb as [_ Hb].
    apply app_inj_len in Hb; [|reflexivity]. destruct Hb as [Hb _].
    now injection Hb as Hb.
  Qed.

  (* Any accepted (message, blob) whose claimed tuple differs from a reference tuple makes the
     primitive accept a signature over a DIFFERENT signature input: the verifier never maps two
     tuples to the same signed bytes. *)
  Theorem strict_changed_tuple name pk msg blob c ts s a n0 ts0 root0 :
    rfc6962_verify name pk msg blob = true -> parse_checkpoint msg = Some c ->
    blob = note_signature ts a s -> ts < two64N -> blen s < two16N ->
    n0 < two64N -> ts0 < two64N ->
    (u64 (c_n c), ts, c_hash c) <> (n0, ts0, root0) ->
    sth_signature_input (u64 (c_n c)) ts (c_hash c) <> sth_signature_input n0 ts0 root0 /\
    raw_verify pk (sth_signature_input (u64 (c_n c)) ts (c_hash c)) s = true.
  Proof.
    intros H Hp Hb H1 H2 Hn0 Ht0 Hne.
    destruct (strict_tuple _ _ _ _ _ H Hp) as (_ & _ & ts' & s' & a' & Ha & Hb' & H1' & H2' & Hr).
    rewrite Hb in Hb'. apply note_signature_inj in Hb'; try assumption.
    destruct Hb' as (<- & <- & <-).
    split; [|exact Hr].
    intro E. apply sth_input_inj in E; try assumption.
    - destruct E as (E1 & E2 & E3). apply Hne. congruence.
    - unfold u64, two64N. pose proof (Z.mod_pos_bound (c_n c) two64 eq_refl). unfold two64 in *. lia.
  Qed.

  (* With the unforgeability of the primitive as an explicit hypothesis (every accepted
     (message, signature) pair was produced by the key holder for a message in `signed`), the
     verifier accepts only tuples whose signature input the key holder signed. *)
  Theorem accepted_tuple_was_signed (signed : list bytes) name pk msg blob c :
    (forall m s, raw_verify pk m s = true -> In m signed) ->
    rfc6962_verify name pk msg blob = true -> parse_checkpoint msg = Some c ->
    exists ts, rd_u 8 blob = Some (ts, skipn 8 blob) /\
      In (sth_signature_input (u64 (c_n c)) ts (c_hash c)) signed.
  Proof.
    intros Hunf H Hp.
    destruct (strict_tuple _ _ _ _ _ H Hp) as (_ & _ & ts & s & a & Ha & Hb & H1 & H2 & Hr).
    exists ts. split; [|eapply Hunf; exact Hr].
    subst blob. unfold note_signature.
    assert (E : skipn 8 (be 8 ts ++ [x04; a] ++ be 2 (blen s) ++ s) = [x04; a] ++ be 2 (blen s) ++ s).
    { replace 8%nat with (length (be 8 ts)) at 1 by apply length_be.
      now rewrite skipn_app, skipn_all, Nat.sub_diag. }
    rewrite E. apply rd_u_be. rewrite pow256_8. exact H1.
  Qed.

End Verifier.
