(* Ckpt/NameProofs.v — facts about UTF-8 names: a valid name has no newline; appending ASCII
   text to a well-formed string; note.Open's scan of a checkpoint text reduces to the scan of the
   origin. *)
From SL Require Import Base.Bytes Base.Cryptobyte Base.BytesProofs Codec.Leaf Codec.LeafProofs Codec.PathProofs
  Ckpt.Model Ckpt.Base64Proofs Ckpt.CodecProofs.
From Coq Require Import ZifyN ZifyNat ZifyBool.
Open Scope N_scope.
Ltac Zify.zify_post_hook ::= Z.div_mod_to_equations.

Lemma eqb_nl_N b : Byte.eqb b nl = true -> Byte.to_N b = 10.
Proof. intro H. apply byte_eqb_eq in H. now subst. Qed.

Lemma high_not_nl b : 128 <= Byte.to_N b -> Byte.eqb b nl = false.
Proof. intro H. destruct (Byte.eqb b nl) eqn:E; [|reflexivity]. apply eqb_nl_N in E. lia. Qed.

Lemma in_rng_high b lo hi : in_rng b lo hi = true -> 128 <= lo -> 128 <= Byte.to_N b.
Proof. unfold in_rng. lia. Qed.

Definition nsp (r : N) : bool := negb (is_space r).

Lemma utf8_no_nl : forall n s rs, (length s <= n)%nat ->
  utf8_runes s = Some rs -> forallb nsp rs = true -> no_nl s = true.
Proof.
  induction n as [|n IH]; intros s rs Hl H Hs.
  - destruct s; [reflexivity|cbn in Hl; lia].
  - destruct s as [|b0 r0]; [reflexivity|].
    cbn [utf8_runes] in H. cbn [length] in Hl.
    destruct (N.ltb_spec (Byte.to_N b0) 128) as [L0|L0].
    { destruct (utf8_runes r0) as [t|] eqn:E; [|discriminate]. inversion H; subst; clear H.
      cbn [forallb] in Hs. apply andb_true_iff in Hs. destruct Hs as [Hs0 Hs].
      unfold no_nl. cbn [forallb]. fold (no_nl r0). rewrite (IH r0 t) by (lia || assumption).
      destruct (Byte.eqb b0 nl) eqn:Eb; [|reflexivity].
      apply eqb_nl_N in Eb. unfold nsp in Hs0. rewrite Eb in Hs0. discriminate Hs0. }
    assert (N0 : Byte.eqb b0 nl = false) by (apply high_not_nl; lia).
    destruct ((194 <=? Byte.to_N b0) && (Byte.to_N b0 <=? 223)).
    { destruct r0 as [|b1 r1]; [discriminate|].
      destruct (in_rng b1 128 191) eqn:R1; [|discriminate].
      destruct (utf8_runes r1) as [t|] eqn:E; [|discriminate]. inversion H; subst; clear H.
      cbn [forallb] in Hs. apply andb_true_iff in Hs. destruct Hs as [_ Hs].
      unfold no_nl. cbn [forallb]. fold (no_nl r1).
      rewrite N0, (high_not_nl b1) by (eapply in_rng_high; [eassumption|lia]).
      rewrite (IH r1 t) by (cbn [length] in Hl; lia || assumption). reflexivity. }
    destruct ((224 <=? Byte.to_N b0) && (Byte.to_N b0 <=? 239)).
    { destruct r0 as [|b1 [|b2 r2]]; try discriminate.
      destruct (in_rng b1 _ _) eqn:R1; cbn [andb] in H; [|discriminate].
      destruct (in_rng b2 128 191) eqn:R2; [|discriminate].
      destruct (utf8_runes r2) as [t|] eqn:E; [|discriminate]. inversion H; subst; clear H.
      cbn [forallb] in Hs. apply andb_true_iff in Hs. destruct Hs as [_ Hs].
      unfold no_nl. cbn [forallb]. fold (no_nl r2).
      rewrite N0, (high_not_nl b1), (high_not_nl b2).
      - rewrite (IH r2 t) by (cbn [length] in Hl; lia || assumption). reflexivity.
      - eapply in_rng_high; [eassumption|lia].
      - eapply in_rng_high; [eassumption|]. destruct (Byte.to_N b0 =? 224); lia. }
    destruct ((240 <=? Byte.to_N b0) && (Byte.to_N b0 <=? 244)); [|discriminate].
    destruct r0 as [|b1 [|b2 [|b3 r3]]]; try discriminate.
    destruct (in_rng b1 _ _) eqn:R1; cbn [andb] in H; [|discriminate].
    destruct (in_rng b2 128 191) eqn:R2; cbn [andb] in H; [|discriminate].
    destruct (in_rng b3 128 191) eqn:R3; [|discriminate].
    destruct (utf8_runes r3) as [t|] eqn:E; [|discriminate]. inversion H; subst; clear H.
    cbn [forallb] in Hs. apply andb_true_iff in Hs. destruct Hs as [_ Hs].
    unfold no_nl. cbn [forallb]. fold (no_nl r3).
    rewrite N0, (high_not_nl b1), (high_not_nl b2), (high_not_nl b3).
    + rewrite (IH r3 t) by (cbn [length] in Hl; lia || assumption). reflexivity.
    + eapply in_rng_high; [eassumption|lia].
    + eapply in_rng_high; [eassumption|lia].
    + eapply in_rng_high; [eassumption|]. destruct (Byte.to_N b0 =? 240); lia.
Qed.

(* isValidName rules out the newline: a valid origin is one line *)
Theorem valid_name_no_nl name : is_valid_name name = true -> no_nl name = true.
Proof.
  unfold is_valid_name. destruct name as [|b r]; [discriminate|].
  destruct (utf8_runes (b :: r)) as [rs|] eqn:E; [|discriminate].
  intro H. apply andb_true_iff in H. destruct H as [H _].
  eapply (utf8_no_nl (length (b :: r))); [apply le_n|exact E|exact H].
Qed.

Theorem valid_name_nonempty name : is_valid_name name = true -> name <> [].
Proof. destruct name; [discriminate|discriminate]. Qed.

(* ---- appending ASCII ---- *)

Definition ascii (s : bytes) : bool := forallb (fun b => Byte.to_N b <? 128) s.

Lemma utf8_ascii s : ascii s = true -> utf8_runes s = Some (map Byte.to_N s).
Proof.
  induction s as [|b s IH]; intro H; [reflexivity|].
  unfold ascii in H. cbn [forallb] in H. apply andb_true_iff in H. destruct H as [Hb Hs].
  cbn [utf8_runes map]. rewrite Hb, IH by assumption. reflexivity.
Qed.

Lemma utf8_app_ascii : forall n a ra, (length a <= n)%nat -> utf8_runes a = Some ra ->
  forall b, ascii b = true -> utf8_runes (a ++ b) = Some (ra ++ map Byte.to_N b).
Proof.
  induction n as [|n IH]; intros a ra Hl H b Hb.
  - destruct a; [|cbn in Hl; lia]. inversion H; subst. now apply utf8_ascii.
  - destruct a as [|b0 r0]; [inversion H; subst; now apply utf8_ascii|].
    cbn [utf8_runes] in H. cbn [app utf8_runes]. cbn [length] in Hl.
    destruct (Byte.to_N b0 <? 128).
    { destruct (utf8_runes r0) as [t|] eqn:E; [|discriminate]. inversion H; subst; clear H.
      rewrite (IH r0 t) by (lia || assumption). reflexivity. }
    destruct ((194 <=? Byte.to_N b0) && (Byte.to_N b0 <=? 223)).
    { destruct r0 as [|b1 r1]; [discriminate|]. cbn [app].
      destruct (in_rng b1 128 191); [|discriminate].
      destruct (utf8_runes r1) as [t|] eqn:E; [|discriminate]. inversion H; subst; clear H.
      rewrite (IH r1 t) by (cbn [length] in Hl; lia || assumption). reflexivity. }
    destruct ((224 <=? Byte.to_N b0) && (Byte.to_N b0 <=? 239)).
    { destruct r0 as [|b1 [|b2 r2]]; try discriminate. cbn [app].
      destruct (in_rng b1 _ _ && in_rng b2 128 191); [|discriminate].
      destruct (utf8_runes r2) as [t|] eqn:E; [|discriminate]. inversion H; subst; clear H.
      rewrite (IH r2 t) by (cbn [length] in Hl; lia || assumption). reflexivity. }
    destruct ((240 <=? Byte.to_N b0) && (Byte.to_N b0 <=? 244)); [|discriminate].
    destruct r0 as [|b1 [|b2 [|b3 r3]]]; try discriminate. cbn [app].
    destruct (in_rng b1 _ _ && in_rng b2 128 191 && in_rng b3 128 191); [|discriminate].
    destruct (utf8_runes r3) as [t|] eqn:E; [|discriminate]. inversion H; subst; clear H.
    rewrite (IH r3 t) by (cbn [length] in Hl; lia || assumption). reflexivity.
Qed.

Definition okrune (r : N) : bool := negb ((r <? 32) && negb (r =? 10)).
Definition okbyte (b : byte) : bool := (Byte.to_N b <? 128) && okrune (Byte.to_N b).

(* note.Open's scan of name ++ tail for a printable-ASCII-or-newline tail is the scan of name *)
Lemma note_text_ok_app name tail :
  note_text_ok name = true -> forallb okbyte tail = true -> note_text_ok (name ++ tail) = true.
Proof.
  unfold note_text_ok. destruct (utf8_runes name) as [rs|] eqn:E; [|discriminate].
  intros Hn Ht.
  assert (Ha : ascii tail = true).
  { unfold ascii. apply forallb_forall. intros x Hx. rewrite forallb_forall in Ht.
    specialize (Ht x Hx). unfold okbyte in Ht. apply andb_true_iff in Ht. tauto. }
  rewrite (utf8_app_ascii (length name) name rs) by (auto || apply le_n).
  fold okrune in *. rewrite forallb_app, Hn. cbn [andb].
  apply forallb_forall. intros r Hr. apply in_map_iff in Hr. destruct Hr as (x & <- & Hx).
  rewrite forallb_forall in Ht. specialize (Ht x Hx). unfold okbyte in Ht.
  apply andb_true_iff in Ht. tauto.
Qed.

Lemma digit_okbyte b : is_digit b = true -> okbyte b = true.
Proof. intro H. destruct b; try reflexivity; vm_compute in H; discriminate H. Qed.

Lemma b64_out_okbyte b : b64_out b = true -> okbyte b = true.
Proof. intro H. destruct b; try reflexivity; vm_compute in H; discriminate H. Qed.

(* the text signTreeHead signs: origin, canonical size, canonical root, no extension *)
Theorem note_text_ok_checkpoint name n hash :
  (0 <= n < two63)%Z -> note_text_ok name = true ->
  note_text_ok (format_checkpoint (mkCkpt name n hash [])) = true.
Proof.
  intros Hn Hname. unfold format_checkpoint. cbn [c_origin c_n c_hash c_ext].
  apply note_text_ok_app; [assumption|].
  cbn [forallb]. rewrite forallb_app. cbn [forallb]. rewrite forallb_app. cbn [forallb].
  replace (okbyte nl) with true by reflexivity. cbn [andb].
  rewrite andb_true_r.
  apply andb_true_iff. split.
  - rewrite decZ_nonneg by lia. apply forallb_forall. intros x Hx. apply digit_okbyte.
    destruct (dec_spec (Z.to_N n)) as (_ & Hd & _); [unfold two63 in Hn; lia|].
    unfold alldig in Hd. rewrite forallb_forall in Hd. auto.
  - apply forallb_forall. intros x Hx. apply b64_out_okbyte.
    pose proof (encode_out (length hash) hash (le_n _)) as H. rewrite forallb_forall in H. auto.
Qed.
