(* Ckpt/Model.v — executable model of /repo/checkpoint.go (NewRFC6962Verifier, isValidName,
   RFC6962SignatureTimestamp, NewRFC6962InjectedSigner), of the checkpoint text codec it
   delegates to (filippo.io/torchwood Checkpoint.String / ParseCheckpoint, Go's
   base64.StdEncoding, strconv.ParseInt), of ct-go's SerializeSTHSignatureInput, of
   digitallySign / signTreeHead in internal/ctlog/ctlog.go, of torchwood's ML-DSA cosignature
   signer/verifier, and a structural model of x/mod note.Sign / note.Open (signature lines are
   triples (name, key hash, blob); the text encoding of signature lines is not modelled).
   Signatures are symbolic: the raw primitives are Section variables. No proofs here. *)
From SL Require Export Base.Bytes Base.Cryptobyte Codec.Leaf.
Open Scope N_scope.

(* ------------------------------------------------------------------------------------- *)
(* encoding/base64 StdEncoding (padded, non-strict)                                        *)
(* ------------------------------------------------------------------------------------- *)

Definition b64_alphabet : bytes :=
  s2b "ABCDEFGHIJKLMNOPQRSTUVWXYZabcdefghijklmnopqrstuvwxyz0123456789+/".

Definition b64_char (n : N) : byte := nth (N.to_nat (n mod 64)) b64_alphabet x41.

(* decodeMap: value of an alphabet character, None for every other byte *)
Definition b64_val (b : byte) : option N :=
  let n := Byte.to_N b in
  if (65 <=? n) && (n <=? 90) then Some (n - 65)
  else if (97 <=? n) && (n <=? 122) then Some (n - 71)
  else if (48 <=? n) && (n <=? 57) then Some (n + 4)
  else if n =? 43 then Some 62
  else if n =? 47 then Some 63
  else None.

Definition b64_pad : byte := x3d.

Fixpoint b64_encode (s : bytes) : bytes :=
  match s with
  | [] => []
  | [a] =>
      let v := Byte.to_N a * 16 in
      [b64_char (v / 64); b64_char v; b64_pad; b64_pad]
  | [a; b] =>
      let v := (Byte.to_N a * 256 + Byte.to_N b) * 4 in
      [b64_char (v / 4096); b64_char (v / 64); b64_char v; b64_pad]
  | a :: b :: c :: r =>
      let v := Byte.to_N a * 65536 + Byte.to_N b * 256 + Byte.to_N c in
      b64_char (v / 262144) :: b64_char (v / 4096) :: b64_char (v / 64) :: b64_char v :: b64_encode r
  end.

(* '\r' and '\n' are skipped wherever they occur (decodeQuantum: `j--; continue`, and the
   "skip over newlines" loops around the padding) *)
Definition is_crlf (b : byte) : bool := Byte.eqb b x0a || Byte.eqb b x0d.
Definition strip_crlf (s : bytes) : bytes := filter (fun b => negb (is_crlf b)) s.

(* quanta of an input without CR/LF: 4 alphabet characters, or a final padded quantum
   "xx==" / "xxx=" followed by nothing; unused trailing bits are ignored (non-strict) *)
Fixpoint b64_quanta (s : bytes) : option bytes :=
  match s with
  | [] => Some []
  | a :: b :: c :: d :: r =>
    match b64_val a, b64_val b with
    | Some va, Some vb =>
      match b64_val c with
      | Some vc =>
        match b64_val d with
        | Some vd =>
          let v := va * 262144 + vb * 4096 + vc * 64 + vd in
          match b64_quanta r with
          | Some t => Some (byte_of_N (v / 65536) :: byte_of_N (v / 256) :: byte_of_N v :: t)
          | None => None
          end
        | None =>
          if Byte.eqb d b64_pad then
            match r with
            | [] => let v := va * 4096 + vb * 64 + vc in
                    Some [byte_of_N (v / 1024); byte_of_N (v / 4)]
            | _ => None                                    (* trailing garbage *)
            end
          else None
        end
      | None =>
        if Byte.eqb c b64_pad && Byte.eqb d b64_pad then
          match r with
          | [] => let v := va * 64 + vb in Some [byte_of_N (v / 16)]
          | _ => None
          end
        else None
      end
    | _, _ => None
    end
  | _ => None                                              (* 1..3 characters left: padding is required *)
  end.

(* base64.StdEncoding.DecodeString: Some = nil error *)
Definition b64_decode (s : bytes) : option bytes := b64_quanta (strip_crlf s).

(* ------------------------------------------------------------------------------------- *)
(* torchwood.Checkpoint, Checkpoint.String, ParseCheckpoint                                *)
(* ------------------------------------------------------------------------------------- *)

Record checkpoint := mkCkpt {
  c_origin : bytes;        (* Origin string *)
  c_n : Z;                 (* tlog.Tree.N int64 *)
  c_hash : bytes;          (* tlog.Tree.Hash, [32]byte in Go *)
  c_ext : bytes            (* Extension string *)
}.

Definition nl : byte := x0a.

(* fmt.Sprintf("%s\n%d\n%s\n%s", Origin, N, base64(Hash), Extension) *)
Definition format_checkpoint (c : checkpoint) : bytes :=
  c_origin c ++ nl :: decZ (c_n c) ++ nl :: b64_encode (c_hash c) ++ nl :: c_ext c.

Definition count_nl (s : bytes) : N :=
  fold_left (fun acc b => if Byte.eqb b nl then acc + 1 else acc) s 0.

(* strings.Cut(s, "\n") when the separator is present *)
Fixpoint cut_nl (s : bytes) : option (bytes * bytes) :=
  match s with
  | [] => None
  | b :: r =>
    if Byte.eqb b nl then Some ([], r)
    else match cut_nl r with Some (h, t) => Some (b :: h, t) | None => None end
  end.

Definition ends_nl (s : bytes) : bool := has_suffix [nl] s.

(* strconv.ParseInt(l, 10, 64) without error, n >= 0, and l == strconv.FormatInt(n, 10) *)
Definition parse_size (l : bytes) : option Z :=
  match atoi l with
  | Some n => if (n <? 0)%Z then None else if bytes_eqb l (decZ n) then Some n else None
  | None => None
  end.

(* the extension loop: every line non-empty and newline-terminated.
   at_start = the scan is at the beginning of a line *)
Fixpoint ext_ok_aux (at_start : bool) (s : bytes) : bool :=
  match s with
  | [] => at_start
  | b :: r =>
    if Byte.eqb b nl then (if at_start then false else ext_ok_aux true r)
    else ext_ok_aux false r
  end.
Definition ext_ok (s : bytes) : bool := ext_ok_aux true s.

Definition max_checkpoint_size : N := 1000000.
Definition hash_size : N := 32.

Definition parse_checkpoint (text : bytes) : option checkpoint :=
  if (count_nl text <? 3) || (max_checkpoint_size <? blen text) then None
  else if negb (ends_nl text) then None
  else
    '(l0, r0) <- cut_nl text ;;
    '(l1, r1) <- cut_nl r0 ;;
    '(l2, rest) <- cut_nl r1 ;;
    n <- parse_size l1 ;;
    h <- b64_decode l2 ;;
    if negb (blen h =? hash_size) then None
    else if negb (ext_ok rest) then None
    else Some (mkCkpt l0 n h rest).

(* ------------------------------------------------------------------------------------- *)
(* UTF-8, unicode.IsSpace, isValidName, and note.Open's well-formedness scan              *)
(* ------------------------------------------------------------------------------------- *)

Definition in_rng (b : byte) (lo hi : N) : bool :=
  let n := Byte.to_N b in (lo <=? n) && (n <=? hi).

(* the runes of a valid UTF-8 string (utf8.ValidString = Some): shortest form only,
   no surrogates, at most U+10FFFF — the acceptance table of unicode/utf8 *)
Fixpoint utf8_runes (s : bytes) : option (list N) :=
  match s with
  | [] => Some []
  | b0 :: r0 =>
    let n0 := Byte.to_N b0 in
    if n0 <? 128 then
      match utf8_runes r0 with Some t => Some (n0 :: t) | None => None end
    else if (194 <=? n0) && (n0 <=? 223) then
      match r0 with
      | b1 :: r1 =>
        if in_rng b1 128 191 then
          match utf8_runes r1 with
          | Some t => Some (((n0 - 192) * 64 + (Byte.to_N b1 - 128)) :: t)
          | None => None
          end
        else None
      | _ => None
      end
    else if (224 <=? n0) && (n0 <=? 239) then
      match r0 with
      | b1 :: b2 :: r2 =>
        if in_rng b1 (if n0 =? 224 then 160 else 128) (if n0 =? 237 then 159 else 191)
           && in_rng b2 128 191 then
          match utf8_runes r2 with
          | Some t => Some (((n0 - 224) * 4096 + (Byte.to_N b1 - 128) * 64 + (Byte.to_N b2 - 128)) :: t)
          | None => None
          end
        else None
      | _ => None
      end
    else if (240 <=? n0) && (n0 <=? 244) then
      match r0 with
      | b1 :: b2 :: b3 :: r3 =>
        if in_rng b1 (if n0 =? 240 then 144 else 128) (if n0 =? 244 then 143 else 191)
           && in_rng b2 128 191 && in_rng b3 128 191 then
          match utf8_runes r3 with
          | Some t => Some (((n0 - 240) * 262144 + (Byte.to_N b1 - 128) * 4096
                             + (Byte.to_N b2 - 128) * 64 + (Byte.to_N b3 - 128)) :: t)
          | None => None
          end
        else None
      | _ => None
      end
    else None
  end.

(* unicode.IsSpace: the White_Space property *)
Definition is_space (r : N) : bool :=
  ((9 <=? r) && (r <=? 13)) || (r =? 32) || (r =? 133) || (r =? 160) || (r =? 5760)
  || ((8192 <=? r) && (r <=? 8202)) || (r =? 8232) || (r =? 8233) || (r =? 8239)
  || (r =? 8287) || (r =? 12288).

(* isValidName (checkpoint.go, identical copies in torchwood and x/mod note) *)
Definition is_valid_name (name : bytes) : bool :=
  match name with
  | [] => false
  | _ =>
    match utf8_runes name with
    | Some rs => forallb (fun r => negb (is_space r)) rs
                 && forallb (fun b => negb (Byte.eqb b x2b)) name
    | None => false
    end
  end.

(* first loop of note.Open: valid UTF-8 and no control character below U+0020 except '\n' *)
Definition note_text_ok (msg : bytes) : bool :=
  match utf8_runes msg with
  | Some rs => forallb (fun r => negb ((r <? 32) && negb (r =? 10))) rs
  | None => false
  end.

(* ------------------------------------------------------------------------------------- *)
(* ct-go SerializeSTHSignatureInput (tls.Marshal of TreeHeadSignature)                    *)
(* ------------------------------------------------------------------------------------- *)

(* version v1 (0), signature_type tree_hash (1), uint64 timestamp, uint64 tree_size,
   opaque sha256_root_hash[32] *)
Definition sth_signature_input (n ts : N) (root : bytes) : bytes :=
  x00 :: x01 :: be 8 ts ++ be 8 n ++ root.

(* TLS DigitallySigned: hash alg (4 = sha256), signature alg, opaque signature<0..2^16-1> *)
Definition digitally_signed (sigalg : byte) (sig : bytes) : builder :=
  add_lp 2 (b_add sig b_empty) (b_add [x04; sigalg] b_empty).

(* RFC6962NoteSignature reader of the verifier closure:
   ReadUint64 ts, ReadUint8 hashAlg == 4, ReadUint8 sigAlg, ReadUint16LengthPrefixed sig, Empty *)
Definition parse_note_signature (blob : bytes) : option (N * byte * bytes) :=
  '(ts, s1) <- rd_u 8 blob ;;
  '(ha, s2) <- rd_u 1 s1 ;;
  if negb (ha =? 4) then None
  else
    '(sa, s3) <- rd_u 1 s2 ;;
    '(sig, s4) <- rd_lp 2 s3 ;;
    match s4 with [] => Some (ts, byte_of_N sa, sig) | _ => None end.

(* RFC6962SignatureTimestamp on the signature bytes after the 4-byte key hash *)
Definition rfc6962_signature_timestamp (blob : bytes) : option Z :=
  '(ts, _) <- rd_u 8 blob ;;
  if 9223372036854775807 <? ts then None else Some (Z.of_N ts).

Record sigline := mkSig { sl_name : bytes; sl_hash : N; sl_blob : bytes }.
Record nverifier := mkVerifier { v_name : bytes; v_hash : N; v_verify : bytes -> bytes -> bool }.

Section Symbolic.
  (* public keys, the signature algorithm byte the verifier closure demands for the key's Go
     type (rsa.PublicKey -> 1, ecdsa.PublicKey -> 3, anything else: no case = reject), and the
     raw check "signature sig is valid for SHA-256(msg) under pk" (rsa.VerifyPKCS1v15 /
     ecdsa.VerifyASN1). Nothing is assumed about raw_verify. *)
  Variable pubkey : Type.
  Variable sig_alg : pubkey -> option byte.
  Variable raw_verify : pubkey -> bytes -> bytes -> bool.

  (* everything the closure does before the cryptographic check: the (STH input, signature)
     pair it hands to the primitive, None = it returned false before *)
  Definition verify_extract (name : bytes) (pk : pubkey) (msg blob : bytes) : option (bytes * bytes) :=
    c <- parse_checkpoint msg ;;
    if negb (bytes_eqb (c_origin c) name) then None
    else match c_ext c with
    | _ :: _ => None
    | [] =>
      '(ts, sa, sig) <- parse_note_signature blob ;;
      match sig_alg pk with
      | Some a => if Byte.eqb sa a then Some (sth_signature_input (u64 (c_n c)) ts (c_hash c), sig) else None
      | None => None
      end
    end.

  (* v.verify of NewRFC6962Verifier *)
  Definition rfc6962_verify (name : bytes) (pk : pubkey) (msg blob : bytes) : bool :=
    match verify_extract name pk msg blob with
    | Some (input, sig) => raw_verify pk input sig
    | None => false
    end.

  (* key hash of the verifier: first 4 bytes of SHA-256(name "\n" 0x05 SHA-256(SPKI)); the hash
     function is not modelled, the key hash is a function of (name, key) *)
  Variable rfc_key_hash : bytes -> pubkey -> N.

  (* NewRFC6962Verifier: error for an invalid name (x509.MarshalPKIXPublicKey errors for
     unsupported key types are outside the model: such keys have sig_alg = None) *)
  Definition new_rfc6962_verifier (name : bytes) (pk : pubkey) : option nverifier :=
    if is_valid_name name then Some (mkVerifier name (rfc_key_hash name pk) (rfc6962_verify name pk))
    else None.

  (* NewRFC6962InjectedSigner(name, key, sig, timestamp).Sign(msg): the blob is
     uint64(timestamp) || sig, returned only if the verifier accepts it for msg *)
  Definition injected_blob (sig : bytes) (timestamp : Z) : bytes := be 8 (u64 timestamp) ++ sig.

  Definition injected_sign (name : bytes) (pk : pubkey) (sig : bytes) (timestamp : Z) (msg : bytes) : option bytes :=
    if is_valid_name name then
      if rfc6962_verify name pk msg (injected_blob sig timestamp) then Some (injected_blob sig timestamp)
      else None
    else None.

  (* ---- the independent verifier (ct-go SignatureVerifier.VerifySTHSignature on the tuple) ---- *)
  Definition independent_sth_verify (pk : pubkey) (n ts : N) (root : bytes) (sa : byte) (sig : bytes) : bool :=
    match sig_alg pk with
    | Some a => Byte.eqb sa a && raw_verify pk (sth_signature_input n ts root) sig
    | None => false
    end.

  (* ---- torchwood ML-DSA-44 cosignature (formatSubtreeV1 + subtreeCosignedMessage) ---- *)
  Variable wpubkey : Type.
  Variable w_verify : wpubkey -> bytes -> bytes -> bool.     (* mldsa.Verify(k, m, sig, nil) == nil *)
  Variable w_key_hash : bytes -> wpubkey -> N.

  Definition mldsa44_sig_size : N := 2420.

  Definition subtree_cosigned_message (name : bytes) (t : N) (origin : bytes) (start end_ : Z) (hash : bytes) : option bytes :=
    if (blen name =? 0) || (255 <? blen name) then None
    else if 9223372036854775807 <? t then None
    else if negb (t =? 0) && negb (start =? 0)%Z then None
    else if (blen origin =? 0) || (255 <? blen origin) then None
    else Some (s2b "subtree/v1" ++ [x0a; x00] ++ be 1 (blen name) ++ name ++ be 8 t
               ++ be 1 (blen origin) ++ origin ++ be 8 (u64 start) ++ be 8 (u64 end_) ++ hash).

  Definition format_subtree_v1 (name : bytes) (t : N) (msg : bytes) : option bytes :=
    c <- parse_checkpoint msg ;;
    match c_ext c with
    | _ :: _ => None
    | [] =>
      if negb (bytes_eqb msg (format_checkpoint c)) then None
      else subtree_cosigned_message name t (c_origin c) 0 (c_n c) (c_hash c)
    end.

  Definition cosig_verify (name : bytes) (wpk : wpubkey) (msg sig : bytes) : bool :=
    if negb (blen sig =? 8 + mldsa44_sig_size) then false
    else
      let t := be_dec (firstn 8 sig) in
      if 9223372036854775807 <? t then false
      else match format_subtree_v1 name t msg with
           | Some m => w_verify wpk m (skipn 8 sig)
           | None => false
           end.

  Definition new_cosig_verifier (name : bytes) (wpk : wpubkey) : option nverifier :=
    if is_valid_name name then Some (mkVerifier name (w_key_hash name wpk) (cosig_verify name wpk))
    else None.

  (* CosignatureSigner.Sign at wall-clock second `now` with raw ML-DSA signature ws *)
  Definition cosig_sign (name : bytes) (now : N) (ws : bytes -> bytes) (msg : bytes) : option bytes :=
    m <- format_subtree_v1 name now msg ;;
    Some (be 8 now ++ ws m).

  (* ---- structural model of x/mod note ---- *)

  Definition sig_matches (name : bytes) (hash : N) (v : nverifier) : bool :=
    bytes_eqb (v_name v) name && (v_hash v =? hash).

  (* the loop of note.Open over the signature lines. seen = verified (name, hash) pairs.
     None = Open returns an error (ambiguous verifier or invalid signature). *)
  Fixpoint open_lines (known : list nverifier) (text : bytes) (lines : list sigline)
                      (seen : list (bytes * N)) (acc : list sigline) : option (list sigline) :=
    match lines with
    | [] => Some (rev acc)
    | l :: rest =>
      match filter (sig_matches (sl_name l) (sl_hash l)) known with
      | [] => open_lines known text rest seen acc                        (* unknown key: unverified *)
      | [v] =>
        if existsb (fun p => bytes_eqb (fst p) (sl_name l) && (snd p =? sl_hash l)) seen
        then open_lines known text rest seen acc
        else if v_verify v text (sl_blob l)
             then open_lines known text rest ((sl_name l, sl_hash l) :: seen) (l :: acc)
             else None                                                   (* InvalidSignatureError *)
      | _ => None                                                        (* ambiguous verifier *)
      end
    end.

  (* note.Open: well-formedness scan of the whole message (text and the names on the signature
     lines; base64 is ASCII), every signature name valid, every decoded signature at least 5
     bytes (4 key hash + 1), at most 100 signatures, at least one verified signature *)
  Definition note_open (known : list nverifier) (text : bytes) (lines : list sigline) : option (list sigline) :=
    if negb (note_text_ok text && forallb (fun l => note_text_ok (sl_name l)) lines) then None
    else if negb (forallb (fun l => is_valid_name (sl_name l) && (1 <=? blen (sl_blob l))) lines) then None
    else if 100 <? N.of_nat (length lines) then None
    else match open_lines known text lines [] [] with
         | Some (s :: r) => Some (s :: r)
         | _ => None
         end.

  (* ---- internal/ctlog: digitallySign and signTreeHead ---- *)
  Variable seckey : Type.
  Variable pub : seckey -> pubkey.
  Variable raw_sign : seckey -> bytes -> bytes.            (* k.Sign(nil, SHA-256(msg), SHA256): a function = deterministic *)

  (* digitallySign(k, msg): hash 4, signature 3 (ecdsa) *)
  Definition digitally_sign (sk : seckey) (msg : bytes) : builder := digitally_signed x03 (raw_sign sk msg).

  (* signTreeHead(c, tree): the text, the RFC 6962 signature line and the cosignature line.
     rfc_first = outcome of the shuffle of the two signers; grease = the UnverifiedSigs. The
     lines are returned in the order note.Sign writes them: old (grease) signatures, then the
     signers'. A signer error aborts note.Sign whatever the order. *)
  Definition sign_tree_head (name : bytes) (sk : seckey) (wpk : wpubkey) (ws : bytes -> bytes)
             (n : Z) (hash : bytes) (time : Z) (now : N) (rfc_first : bool) (grease : list sigline)
             : option (bytes * list sigline) :=
    let sth := sth_signature_input (u64 n) (u64 time) hash in
    ths <- digitally_sign sk sth ;;
    if negb (is_valid_name name) then None                 (* both signer constructors *)
    else
      let text := format_checkpoint (mkCkpt name n hash []) in
      if negb (ends_nl text) then None
      else
        rblob <- injected_sign name (pub sk) ths time text ;;
        wblob <- cosig_sign name now ws text ;;
        let rl := mkSig name (rfc_key_hash name (pub sk)) rblob in
        let wl := mkSig name (w_key_hash name wpk) wblob in
        Some (text, grease ++ (if rfc_first then [rl; wl] else [wl; rl])).

End Symbolic.
