(* Ckpt/Run.v — entry points of the C11 model for the correspondence driver: each takes the
   parsed arguments of one harness line and renders the result exactly as the Go driver does.
   Keys are represented by the signature-algorithm byte their Go type demands (1 = RSA,
   3 = ECDSA, anything else = unsupported key type). *)
From SL Require Export Ckpt.Model.
Open Scope N_scope.

Definition alg_of (k : N) : option byte :=
  if k =? 1 then Some x01 else if k =? 3 then Some x03 else None.

Definition comma : byte := x2c.

Definition run_parse (text : bytes) : bytes :=
  match parse_checkpoint text with
  | Some c => s2b "ok:" ++ join_with comma [hx (c_origin c); decZ (c_n c); hx (c_hash c); hx (c_ext c)]
  | None => s2b "err"
  end.

Definition run_format (origin : bytes) (n : Z) (hash ext : bytes) : bytes :=
  hx (format_checkpoint (mkCkpt origin n hash ext)).

Definition run_b64d (s : bytes) : bytes :=
  match b64_decode s with Some b => s2b "ok:" ++ hx b | None => s2b "err" end.
Definition run_b64e (s : bytes) : bytes := hx (b64_encode s).

Definition run_name (s : bytes) : bytes := b2i (is_valid_name s).
Definition run_textok (s : bytes) : bytes := b2i (note_text_ok s).

Definition run_sthin (n ts : Z) (root : bytes) : bytes :=
  hx (sth_signature_input (Z.to_N n) (Z.to_N ts) root).

Definition run_dsig (alg : N) (sig : bytes) : bytes :=
  match digitally_signed (byte_of_N alg) sig with Some b => s2b "ok:" ++ hx b | None => s2b "err" end.

(* the closure's verdict given the oracle's answer rv for the pair (oin, osig) the harness
   extracted on its own; if the model reaches the primitive with a different pair the
   correspondence is broken and says so *)
Definition run_verify (name : bytes) (key : N) (msg blob oin osig : bytes) (rv : bool) : bytes :=
  match verify_extract N alg_of name key msg blob with
  | None => b2i false
  | Some (i, s) =>
    if bytes_eqb i oin && bytes_eqb s osig then b2i rv else s2b "oracle-mismatch"
  end.

Definition run_inject (ts : Z) (sig : bytes) : bytes := hx (injected_blob sig ts).

Definition run_ts (blob : bytes) : bytes :=
  match rfc6962_signature_timestamp blob with Some t => s2b "ok:" ++ decZ t | None => s2b "err" end.

(* signTreeHead with an ECDSA key whose raw signature over the STH input is rawsig (supplied by
   the harness from the real output; the injected signer's self-check is answered `true`, which
   the harness confirms separately by verifying the produced note) *)
Definition run_sign (name : bytes) (n : Z) (root : bytes) (time : Z) (rawsig : bytes) (now : Z) : bytes :=
  match sign_tree_head N alg_of (fun _ _ _ => true) (fun _ _ => 0) unit (fun _ _ => 0)
          unit (fun _ => 3) (fun _ _ => rawsig)
          name tt tt (fun _ => []) n root time (Z.to_N now) true [] with
  | Some (text, rl :: _) =>
    s2b "ok:" ++ join_with comma
      [hx text; hx (sl_blob rl);
       match format_subtree_v1 name (Z.to_N now) text with Some m => hx m | None => s2b "none" end]
  | Some (_, []) => s2b "nolines"
  | None => s2b "err"
  end.
