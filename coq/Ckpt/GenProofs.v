(* Ckpt/GenProofs.v — the RFC6962NoteSignature reader of NewRFC6962Verifier's closure, the reader of
   RFC6962SignatureTimestamp, and the builders of digitallySign / NewRFC6962InjectedSigner, as
   GENERATED from checkpoint.go and ctlog.go (Gen/Readers.v, Gen/Builders2.v, rewritten by
   /verif/translate on every check run), are the hand-written model's functions. *)
From SL Require Import Base.Bytes Base.Cryptobyte Base.ReaderGen Gen.Readers Gen.Builders2 Codec.Leaf Ckpt.Model.
From Coq Require Import String List Lia.
Open Scope N_scope.

(* what the rest of the closure uses of the parsed signature: timestamp, sigAlg, signature *)
Definition nsig_result (o : outcome gen_nsig_st) : option (N * byte * bytes) :=
  match o with
  | Done _ st => Some (gen_nsig_timestamp st, byte_of_N (gen_nsig_sigalg st), gen_nsig_signature st)
  | _ => None
  end.

Lemma gen_nsig_is_model blob : nsig_result (gen_nsig blob) = parse_note_signature blob.
Proof.
  unfold gen_nsig, parse_note_signature, nsig_result.
  cbn [gen_nsig_zero gen_nsig_set_s gen_nsig_s].
  destruct (rd_u 8 blob) as [[ts s1]|]; [|reflexivity].
  cbn [gen_nsig_set_s gen_nsig_set_timestamp gen_nsig_s gen_nsig_timestamp].
  destruct (rd_u 1 s1) as [[ha s2]|]; [|reflexivity].
  cbn [gen_nsig_set_s gen_nsig_set_hashalg gen_nsig_s gen_nsig_hashalg].
  destruct (negb (ha =? 4)); [reflexivity|].
  destruct (rd_u 1 s2) as [[sa s3]|]; [|reflexivity].
  cbn [gen_nsig_set_s gen_nsig_set_sigalg gen_nsig_s gen_nsig_sigalg].
  destruct (rd_lp 2 s3) as [[sg s4]|]; [|reflexivity].
  cbn [gen_nsig_set_s gen_nsig_set_signature gen_nsig_s gen_nsig_sigalg gen_nsig_signature gen_nsig_timestamp
       gen_nsig_set_sigalg gen_nsig_set_hashalg gen_nsig_set_timestamp].
  destruct s4; reflexivity.
Qed.

Definition ret_false : string := "false".
Definition ret_fragment_end : string := "<fragment end>".

(* every rejection of the generated reader is the closure's `return false`, and never an out-of-fuel value *)
Lemma gen_nsig_rejects_with_false blob :
  match gen_nsig blob with Fail r => r = ret_false | Done r _ => r = ret_fragment_end | _ => False end.
Proof.
  unfold gen_nsig. cbn [gen_nsig_zero gen_nsig_set_s gen_nsig_s].
  destruct (rd_u 8 blob) as [[ts s1]|]; [|reflexivity].
  cbn [gen_nsig_set_s gen_nsig_set_timestamp gen_nsig_s].
  destruct (rd_u 1 s1) as [[ha s2]|]; [|reflexivity].
  cbn [gen_nsig_set_s gen_nsig_set_hashalg gen_nsig_s gen_nsig_hashalg].
  destruct (negb (ha =? 4)); [reflexivity|].
  destruct (rd_u 1 s2) as [[sa s3]|]; [|reflexivity].
  cbn [gen_nsig_set_s gen_nsig_set_sigalg gen_nsig_s].
  destruct (rd_lp 2 s3) as [[sg s4]|]; [|reflexivity].
  cbn [gen_nsig_set_s gen_nsig_set_signature gen_nsig_s].
  destruct s4; reflexivity.
Qed.

(* the statements after the fragment start with the STH the signature is checked against *)
Lemma gen_nsig_continues_with_sth :
  String.substring 0 22 gen_nsig_continues = "sth := ct.SignedTreeHe"%string.
Proof. reflexivity. Qed.

Definition sigts_result (o : outcome gen_sigts_st) : option Z :=
  match o with Done _ st => Some (Z.of_N (gen_sigts_timestamp st)) | _ => None end.

(* RFC6962SignatureTimestamp skips the 4-byte key hash and then reads as the model does *)
Lemma gen_sigts_is_model blob :
  sigts_result (gen_sigts blob) =
  match rd_bytes 4 blob with Some (_, r) => rfc6962_signature_timestamp r | None => None end.
Proof.
  unfold gen_sigts, rfc6962_signature_timestamp, sigts_result.
  cbn [gen_sigts_zero gen_sigts_set_s gen_sigts_s].
  destruct (rd_bytes 4 blob) as [[kh r]|]; [|reflexivity].
  cbn [gen_sigts_set_s gen_sigts_s].
  destruct (rd_u 8 r) as [[ts r2]|]; [|reflexivity].
  cbn [gen_sigts_set_s gen_sigts_set_timestamp gen_sigts_s gen_sigts_timestamp].
  destruct (9223372036854775807 <? ts); reflexivity.
Qed.

Lemma gen_sigts_whole_function : gen_sigts_continues = ""%string.
Proof. reflexivity. Qed.

(* digitallySign's builder is the TLS DigitallySigned of the model with hash 4, signature 3 *)
Lemma gen_digitally_sign_is_model sig : gen_digitally_sign sig = digitally_signed x03 sig.
Proof. reflexivity. Qed.

Lemma gen_digitally_sign_returns_bytes : gen_digitally_sign_returns = "b.Bytes()"%string.
Proof. reflexivity. Qed.

(* NewRFC6962InjectedSigner's blob: uint64(timestamp) || sig *)
Lemma gen_injected_blob_is_model sig ts : gen_injected_blob sig (u64 ts) = Some (be 8 (u64 ts) ++ sig).
Proof. reflexivity. Qed.
