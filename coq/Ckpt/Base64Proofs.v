(* Ckpt/Base64Proofs.v — the base64 model: decode (encode s) = s, the encoder's output alphabet *)
From SL Require Import Base.Bytes Base.Cryptobyte Base.BytesProofs Codec.Leaf Ckpt.Model.
From Coq Require Import ZifyN ZifyNat ZifyBool.
Open Scope N_scope.
Ltac Zify.zify_post_hook ::= Z.div_mod_to_equations.

Lemma byte_of_N_eq n b : n mod 256 = Byte.to_N b -> byte_of_N n = b.
Proof. intro H. unfold byte_of_N. rewrite H. now rewrite Byte.of_to_N. Qed.

(* finite sweep over the 64 alphabet positions *)
Definition char_ok (k : N) : bool :=
  match b64_val (b64_char k) with Some v => v =? k | None => false end.

Lemma char_sweep : forallb char_ok (map N.of_nat (seq 0 64)) = true.
Proof. vm_compute. reflexivity. Qed.

Lemma b64_char_mod k : b64_char k = b64_char (k mod 64).
Proof. unfold b64_char. now rewrite N.mod_mod by lia. Qed.

Lemma b64_val_char k : b64_val (b64_char k) = Some (k mod 64).
Proof.
  rewrite b64_char_mod. set (j := k mod 64). assert (Hj : j < 64) by (apply N.mod_lt; lia).
  pose proof char_sweep as S. rewrite forallb_forall in S. specialize (S j).
  assert (Hin : In j (map N.of_nat (seq 0 64))).
  { replace j with (N.of_nat (N.to_nat j)) by lia. apply in_map. apply in_seq. lia. }
  specialize (S Hin). unfold char_ok in S.
  destruct (b64_val (b64_char j)) as [v|]; [|discriminate]. f_equal. lia.
Qed.

Global Opaque b64_char.

Lemma b64_val_pad : b64_val b64_pad = None.
Proof. reflexivity. Qed.

(* characters the encoder can emit *)
Definition b64_out (x : byte) : bool :=
  match b64_val x with Some _ => true | None => Byte.eqb x b64_pad end.

Lemma b64_out_char k : b64_out (b64_char k) = true.
Proof. unfold b64_out. now rewrite b64_val_char. Qed.

Lemma b64_out_facts x : b64_out x = true -> is_crlf x = false /\ Byte.eqb x nl = false.
Proof. destruct x; intro H; try (vm_compute in H; discriminate H); split; reflexivity. Qed.

Lemma quanta_full a b c d r va vb vc vd :
  b64_val a = Some va -> b64_val b = Some vb -> b64_val c = Some vc -> b64_val d = Some vd ->
  b64_quanta (a :: b :: c :: d :: r) =
  match b64_quanta r with
  | Some t => let v := va * 262144 + vb * 4096 + vc * 64 + vd in
              Some (byte_of_N (v / 65536) :: byte_of_N (v / 256) :: byte_of_N v :: t)
  | None => None
  end.
Proof. intros Ha Hb Hc Hd. cbn [b64_quanta]. rewrite Ha, Hb, Hc, Hd. reflexivity. Qed.

Lemma quanta_pad1 a b c va vb vc :
  b64_val a = Some va -> b64_val b = Some vb -> b64_val c = Some vc ->
  b64_quanta [a; b; c; b64_pad] =
  let v := va * 4096 + vb * 64 + vc in Some [byte_of_N (v / 1024); byte_of_N (v / 4)].
Proof. intros Ha Hb Hc. cbn [b64_quanta]. rewrite Ha, Hb, Hc, b64_val_pad. reflexivity. Qed.

Lemma quanta_pad2 a b va vb :
  b64_val a = Some va -> b64_val b = Some vb ->
  b64_quanta [a; b; b64_pad; b64_pad] = let v := va * 64 + vb in Some [byte_of_N (v / 16)].
Proof. intros Ha Hb. cbn [b64_quanta]. rewrite Ha, Hb, b64_val_pad. reflexivity. Qed.

Lemma encode_nil : b64_encode [] = []. Proof. reflexivity. Qed.
Lemma encode_1 a : b64_encode [a] =
  let v := Byte.to_N a * 16 in [b64_char (v / 64); b64_char v; b64_pad; b64_pad].
Proof. reflexivity. Qed.
Lemma encode_2 a b : b64_encode [a; b] =
  let v := (Byte.to_N a * 256 + Byte.to_N b) * 4 in
  [b64_char (v / 4096); b64_char (v / 64); b64_char v; b64_pad].
Proof. reflexivity. Qed.
Lemma encode_3 a b c r : b64_encode (a :: b :: c :: r) =
  let v := Byte.to_N a * 65536 + Byte.to_N b * 256 + Byte.to_N c in
  b64_char (v / 262144) :: b64_char (v / 4096) :: b64_char (v / 64) :: b64_char v :: b64_encode r.
Proof. reflexivity. Qed.

Lemma quanta_encode_len : forall n s, (length s <= n)%nat -> b64_quanta (b64_encode s) = Some s.
Proof.
  induction n as [|n IH]; intros s Hl.
  - destruct s; [reflexivity|cbn in Hl; lia].
  - destruct s as [|a [|b [|c r]]].
    + reflexivity.
    + rewrite encode_1. cbv zeta.
      erewrite quanta_pad2 by apply b64_val_char. cbv zeta. f_equal. f_equal.
      apply byte_of_N_eq. pose proof (to_N_lt a). lia.
    + rewrite encode_2. cbv zeta.
      erewrite quanta_pad1 by apply b64_val_char. cbv zeta.
      pose proof (to_N_lt a). pose proof (to_N_lt b).
      f_equal. f_equal; [|f_equal]; apply byte_of_N_eq; lia.
    + rewrite encode_3. cbv zeta.
      erewrite quanta_full by apply b64_val_char.
      rewrite IH by (cbn in Hl; lia). cbv zeta.
      pose proof (to_N_lt a). pose proof (to_N_lt b). pose proof (to_N_lt c).
      f_equal. f_equal; [|f_equal; [|f_equal]]; apply byte_of_N_eq; lia.
Qed.

Lemma encode_out : forall n s, (length s <= n)%nat -> forallb b64_out (b64_encode s) = true.
Proof.
  induction n as [|n IH]; intros s Hl.
  - destruct s; [reflexivity|cbn in Hl; lia].
  - destruct s as [|a [|b [|c r]]].
    + reflexivity.
    + rewrite encode_1. cbv zeta. cbn [forallb]. now rewrite !b64_out_char.
    + rewrite encode_2. cbv zeta. cbn [forallb]. now rewrite !b64_out_char.
    + rewrite encode_3. cbv zeta. cbn [forallb]. rewrite !b64_out_char, IH by (cbn in Hl; lia). reflexivity.
Qed.

Definition no_nl (s : bytes) : bool := forallb (fun b => negb (Byte.eqb b nl)) s.

Lemma encode_no_nl s : no_nl (b64_encode s) = true.
Proof.
  unfold no_nl. apply forallb_forall. intros x Hx.
  pose proof (encode_out (length s) s (le_n _)) as H. rewrite forallb_forall in H.
  destruct (b64_out_facts x (H x Hx)) as [_ ->]. reflexivity.
Qed.

Lemma strip_encode s : strip_crlf (b64_encode s) = b64_encode s.
Proof.
  unfold strip_crlf.
  pose proof (encode_out (length s) s (le_n _)) as H. rewrite forallb_forall in H.
  induction (b64_encode s) as [|x l IH]; [reflexivity|].
  cbn [filter]. destruct (b64_out_facts x (H x (or_introl eq_refl))) as [-> _]. cbn [negb].
  f_equal. apply IH. intros y Hy. apply H. now right.
Qed.

Theorem b64_decode_encode s : b64_decode (b64_encode s) = Some s.
Proof. unfold b64_decode. rewrite strip_encode. now apply (quanta_encode_len (length s)). Qed.
