(* Ckpt/CodecProofs.v — checkpoint text codec: parse (format c) = c on the codec's domain, what an
   accepted text looks like (parse_inv), exactly when it is the canonical text, and the witnesses
   that parsing is NOT injective on text. Valid names contain no newline. *)
From SL Require Import Base.Bytes Base.Cryptobyte Base.BytesProofs Codec.Leaf Codec.LeafProofs Codec.PathProofs
  Ckpt.Model Ckpt.Base64Proofs.
From Coq Require Import ZifyN ZifyNat ZifyBool.
Open Scope N_scope.
Ltac Zify.zify_post_hook ::= Z.div_mod_to_equations.

(* ---- newline bookkeeping ---- *)

Lemma no_nl_app a b : no_nl (a ++ b) = no_nl a && no_nl b.
Proof. unfold no_nl. apply forallb_app. Qed.

Lemma count_nl_acc s : forall acc,
  fold_left (fun acc b => if Byte.eqb b nl then acc + 1 else acc) s acc =
  acc + fold_left (fun acc b => if Byte.eqb b nl then acc + 1 else acc) s 0.
Proof.
  induction s as [|x s IH]; intro acc; cbn [fold_left]; [lia|].
  rewrite IH. rewrite (IH (if Byte.eqb x nl then 0 + 1 else 0)). destruct (Byte.eqb x nl); lia.
Qed.

Lemma count_nl_cons x s : count_nl (x :: s) = (if Byte.eqb x nl then 1 else 0) + count_nl s.
Proof. unfold count_nl. cbn [fold_left]. rewrite count_nl_acc. destruct (Byte.eqb x nl); lia. Qed.

Lemma count_nl_app a b : count_nl (a ++ b) = count_nl a + count_nl b.
Proof.
  induction a as [|x a IH]; [cbn [app]; change (count_nl []) with 0; lia|].
  rewrite <- app_comm_cons, !count_nl_cons, IH. lia.
Qed.

Lemma nl_eqb : Byte.eqb nl nl = true. Proof. reflexivity. Qed.

Lemma cut_nl_app a r : no_nl a = true -> cut_nl (a ++ nl :: r) = Some (a, r).
Proof.
  induction a as [|x a IH]; intro H.
  - reflexivity.
  - unfold no_nl in H. cbn [forallb] in H. apply andb_true_iff in H. destruct H as [Hx Ha].
    cbn [app cut_nl]. destruct (Byte.eqb x nl); [discriminate|]. now rewrite IH.
Qed.

Lemma cut_nl_inv s : forall h t, cut_nl s = Some (h, t) -> s = h ++ nl :: t /\ no_nl h = true.
Proof.
  induction s as [|x s IH]; intros h t H; [discriminate|].
  cbn [cut_nl] in H. destruct (Byte.eqb x nl) eqn:E.
  - apply byte_eqb_eq in E. subst x. inversion H; subst. split; reflexivity.
  - destruct (cut_nl s) as [[h' t']|]; [|discriminate]. inversion H; subst.
    destruct (IH h' t eq_refl) as [-> Hn]. split; [reflexivity|].
    unfold no_nl. cbn [forallb]. rewrite E. exact Hn.
Qed.

Lemma has_suffix_last s x : has_suffix [x] (s ++ [x]) = true.
Proof.
  unfold has_suffix. rewrite rev_app_distr. cbn [rev app cut_prefix].
  replace (Byte.eqb x x) with true by (symmetry; now apply byte_eqb_eq). reflexivity.
Qed.

Lemma ends_nl_inv s : ends_nl s = true -> exists s', s = s' ++ [nl].
Proof.
  unfold ends_nl, has_suffix. cbn [rev app].
  destruct (rev s) as [|y r] eqn:E; cbn [cut_prefix]; [discriminate|].
  destruct (Byte.eqb nl y) eqn:Ey; [|discriminate]. intros _.
  apply byte_eqb_eq in Ey. subst y.
  exists (rev r). rewrite <- (rev_involutive s), E. reflexivity.
Qed.

Lemma ext_ok_aux_end s : forall b, ext_ok_aux b s = true ->
  (s = [] /\ b = true) \/ exists s', s = s' ++ [nl].
Proof.
  induction s as [|x s IH]; intros b H.
  - left. cbn in H. auto.
  - right. cbn [ext_ok_aux] in H. destruct (Byte.eqb x nl) eqn:E.
    + apply byte_eqb_eq in E. subst x. destruct b; [discriminate|].
      destruct (IH _ H) as [[-> _]|[s' ->]]; [exists []; reflexivity|exists (nl :: s'); reflexivity].
    + destruct (IH _ H) as [[_ X]|[s' ->]]; [discriminate|exists (x :: s'); reflexivity].
Qed.

(* ---- decimal sizes ---- *)

Lemma is_digit_not_nl b : is_digit b = true -> Byte.eqb b nl = false.
Proof. intro H. destruct b; try reflexivity; vm_compute in H; discriminate H. Qed.

Lemma alldig_no_nl s : alldig s -> no_nl s = true.
Proof.
  unfold alldig, no_nl. intro H. apply forallb_forall. intros x Hx.
  rewrite forallb_forall in H. now rewrite is_digit_not_nl by auto.
Qed.

Lemma parse_size_dec n : (0 <= n < two63)%Z -> parse_size (decZ n) = Some n.
Proof.
  intro H. unfold parse_size. rewrite atoi_decZ by assumption.
  destruct (Z.ltb_spec n 0); [lia|]. now rewrite bytes_eqb_refl.
Qed.

Lemma decZ_no_nl n : (0 <= n < two63)%Z -> no_nl (decZ n) = true.
Proof.
  intro H. rewrite decZ_nonneg by lia. apply alldig_no_nl.
  apply dec_spec. unfold two63 in H. lia.
Qed.

Lemma atoi_range l z : atoi l = Some z -> (- two63 <= z < two63)%Z.
Proof.
  unfold atoi, two63.
  set (p := match l with x2d :: r => (true, r) | x2b :: r => (false, r) | _ => (false, l) end).
  destruct p as [neg ds]. destruct ds as [|d ds]; [discriminate|].
  destruct (digits_val (d :: ds) 0) as [v|]; [|discriminate].
  destruct neg.
  - destruct (N.leb_spec v 9223372036854775808); [|discriminate]. intro X; inversion X. lia.
  - destruct (N.leb_spec v 9223372036854775807); [|discriminate]. intro X; inversion X. lia.
Qed.

Lemma parse_size_inv l n : parse_size l = Some n -> l = decZ n /\ (0 <= n < two63)%Z.
Proof.
  unfold parse_size. destruct (atoi l) as [z|] eqn:E; [|discriminate].
  destruct (Z.ltb_spec z 0); [discriminate|].
  destruct (bytes_eqb l (decZ z)) eqn:Eb; [|discriminate].
  intro X; inversion X; subst. apply bytes_eqb_eq in Eb.
  pose proof (atoi_range _ _ E). split; [assumption|lia].
Qed.

(* ---- the codec's domain ---- *)

Definition wf_ckpt (c : checkpoint) : Prop :=
  no_nl (c_origin c) = true /\ (0 <= c_n c < two63)%Z /\ length (c_hash c) = 32%nat /\
  ext_ok (c_ext c) = true /\ blen (format_checkpoint c) <= max_checkpoint_size.

Lemma format_ends_nl c : ext_ok (c_ext c) = true -> ends_nl (format_checkpoint c) = true.
Proof.
  intro H. unfold format_checkpoint, ends_nl.
  destruct (ext_ok_aux_end _ _ H) as [[-> _]|[s' ->]].
  - replace (c_origin c ++ nl :: decZ (c_n c) ++ nl :: b64_encode (c_hash c) ++ [nl])
      with ((c_origin c ++ nl :: decZ (c_n c) ++ nl :: b64_encode (c_hash c)) ++ [nl])
      by (rewrite <- !app_assoc; cbn; rewrite <- !app_assoc; reflexivity).
    apply has_suffix_last.
  - replace (c_origin c ++ nl :: decZ (c_n c) ++ nl :: b64_encode (c_hash c) ++ nl :: s' ++ [nl])
      with ((c_origin c ++ nl :: decZ (c_n c) ++ nl :: b64_encode (c_hash c) ++ nl :: s') ++ [nl]).
    + apply has_suffix_last.
    + rewrite <- !app_assoc. cbn. rewrite <- !app_assoc. cbn. rewrite <- !app_assoc. reflexivity.
Qed.

Lemma format_count c : 3 <= count_nl (format_checkpoint c).
Proof.
  unfold format_checkpoint.
  rewrite count_nl_app, count_nl_cons, count_nl_app, count_nl_cons, count_nl_app, count_nl_cons.
  rewrite nl_eqb. lia.
Qed.

(* print -> parse *)
Theorem parse_format c : wf_ckpt c -> parse_checkpoint (format_checkpoint c) = Some c.
Proof.
  intros (Ho & Hn & Hh & He & Hl).
  unfold parse_checkpoint.
  pose proof (format_count c) as Hc.
  destruct (N.ltb_spec (count_nl (format_checkpoint c)) 3); [lia|].
  destruct (N.ltb_spec max_checkpoint_size (blen (format_checkpoint c))); [lia|].
  cbn [orb]. rewrite format_ends_nl by assumption. cbn [negb].
  unfold format_checkpoint at 1.
  rewrite cut_nl_app by assumption.
  rewrite cut_nl_app by (now apply decZ_no_nl).
  rewrite cut_nl_app by apply encode_no_nl.
  rewrite parse_size_dec by assumption.
  rewrite b64_decode_encode.
  unfold blen, hash_size. rewrite Hh. cbn [N.of_nat Pos.of_succ_nat Pos.succ N.eqb Pos.eqb negb].
  rewrite He. cbn [negb]. destruct c; reflexivity.
Qed.

(* parse -> print: what an accepted text looks like. Only the root line is free: any text that
   base64.StdEncoding decodes to the 32-byte hash. *)
Theorem parse_inv text c : parse_checkpoint text = Some c ->
  (0 <= c_n c < two63)%Z /\ length (c_hash c) = 32%nat /\ ext_ok (c_ext c) = true /\
  no_nl (c_origin c) = true /\ blen text <= max_checkpoint_size /\
  exists l2, no_nl l2 = true /\ b64_decode l2 = Some (c_hash c) /\
    text = c_origin c ++ nl :: decZ (c_n c) ++ nl :: l2 ++ nl :: c_ext c.
Proof.
  unfold parse_checkpoint.
  destruct (N.ltb_spec (count_nl text) 3); [discriminate|].
  destruct (N.ltb_spec max_checkpoint_size (blen text)); [discriminate|].
  cbn [orb]. destruct (ends_nl text); cbn [negb]; [|discriminate].
  destruct (cut_nl text) as [[l0 r0]|] eqn:E0; [|discriminate].
  destruct (cut_nl r0) as [[l1 r1]|] eqn:E1; [|discriminate].
  destruct (cut_nl r1) as [[l2 rest]|] eqn:E2; [|discriminate].
  destruct (parse_size l1) as [n|] eqn:En; [|discriminate].
  destruct (b64_decode l2) as [h|] eqn:Eh; [|discriminate].
  destruct (N.eqb_spec (blen h) hash_size); cbn [negb]; [|discriminate].
  destruct (ext_ok rest) eqn:Ee; cbn [negb]; [|discriminate].
  intro X; inversion X; subst; clear X. cbn [c_origin c_n c_hash c_ext].
  apply cut_nl_inv in E0. destruct E0 as [-> Hc0].
  apply cut_nl_inv in E1. destruct E1 as [-> Hc1].
  apply cut_nl_inv in E2. destruct E2 as [-> Hc2].
  apply parse_size_inv in En. destruct En as [-> Hn].
  repeat split; try assumption; try lia.
  - unfold blen, hash_size in e. lia.
  - exists l2. repeat split; assumption.
Qed.

(* an accepted text is the canonical text of its value exactly when its root line is the
   canonical base64 of the hash *)
Theorem parse_canonical_iff text c : parse_checkpoint text = Some c ->
  (text = format_checkpoint c <->
   exists rest, text = c_origin c ++ nl :: decZ (c_n c) ++ nl :: b64_encode (c_hash c) ++ nl :: rest).
Proof.
  intro H. destruct (parse_inv _ _ H) as (_ & _ & _ & Ho & _ & l2 & Hl2 & _ & Et).
  split.
  - intro E. exists (c_ext c). rewrite E at 1. reflexivity.
  - intros [rest E]. unfold format_checkpoint. rewrite E. do 4 f_equal.
    rewrite E in Et.
    apply app_inv_head in Et. injection Et as Et.
    apply app_inv_head in Et. injection Et as Et.
    (* both sides: a newline-free line, a newline, the rest *)
    assert (C1 : cut_nl (b64_encode (c_hash c) ++ nl :: rest) = Some (b64_encode (c_hash c), rest))
      by (apply cut_nl_app, encode_no_nl).
    rewrite Et, cut_nl_app in C1 by assumption. now inversion C1.
Qed.

(* every accepted text re-formats to a text that parses to the same value *)
Theorem parse_wf text c : parse_checkpoint text = Some c ->
  blen (format_checkpoint c) <= max_checkpoint_size -> wf_ckpt c.
Proof.
  intros H Hl. destruct (parse_inv _ _ H) as (Hn & Hh & He & Ho & _). repeat split; assumption || lia.
Qed.

(* ---- parsing is not injective on text (DESIGN 0.2) ---- *)

Definition zero_root_text (last : string) : bytes :=
  s2b "example.com/log" ++ nl :: s2b "7" ++ nl :: s2b "AAAAAAAAAAAAAAAAAAAAAAAAAAAAAAAAAAAAAAAAAA" ++ s2b last ++ [nl].

(* 1. unused trailing bits of the last base64 character are ignored: "...AAA=" and "...AAB="
   (and "...AAC=", "...AAD=") are four texts of the same checkpoint *)
Theorem parse_injective_refuted_trailing_bits :
  exists t1 t2 c, t1 <> t2 /\ parse_checkpoint t1 = Some c /\ parse_checkpoint t2 = Some c /\
                  t1 = format_checkpoint c /\ t2 <> format_checkpoint c.
Proof.
  exists (zero_root_text "A="), (zero_root_text "B="), (mkCkpt (s2b "example.com/log") 7 (repeat x00 32) []).
  repeat split; try (vm_compute; reflexivity); intro E; vm_compute in E; discriminate E.
Qed.

(* 2. carriage returns anywhere in the root line are skipped by the base64 decoder *)
Theorem parse_injective_refuted_cr :
  exists t1 t2 c, t1 <> t2 /\ parse_checkpoint t1 = Some c /\ parse_checkpoint t2 = Some c.
Proof.
  exists (zero_root_text "A="), (zero_root_text ("A=" ++ String (Ascii.ascii_of_nat 13) EmptyString)),
         (mkCkpt (s2b "example.com/log") 7 (repeat x00 32) []).
  repeat split; try (vm_compute; reflexivity); intro E; vm_compute in E; discriminate E.
Qed.

(* the naive converse "parse text = Some c -> text = format c" is therefore false *)
Theorem parse_canonical_refuted :
  exists text c, parse_checkpoint text = Some c /\ text <> format_checkpoint c.
Proof.
  destruct parse_injective_refuted_trailing_bits as (t1 & t2 & c & _ & _ & H2 & _ & Hne).
  exists t2, c. auto.
Qed.

(* the empty origin is accepted by the parser (only NewRFC6962Verifier validates names) *)
Theorem parse_accepts_empty_origin :
  exists text c, parse_checkpoint text = Some c /\ c_origin c = [].
Proof.
  exists (nl :: s2b "7" ++ nl :: s2b "AAAAAAAAAAAAAAAAAAAAAAAAAAAAAAAAAAAAAAAAAAA=" ++ [nl]),
         (mkCkpt [] 7 (repeat x00 32) []).
  split; vm_compute; reflexivity.
Qed.
