(* Ckpt/NoteProofs.v — every checkpoint signTreeHead produces opens with the public verifiers
   (structural model of note.Sign / note.Open), carries both signatures, embeds the tree time,
   and its reconstructed tree head passes the independent verifier. Signing is a function of its
   inputs. Also: the names for which the produced note does NOT open. *)
From SL Require Import Base.Bytes Base.Cryptobyte Base.BytesProofs Codec.Leaf Codec.LeafProofs Codec.PathProofs
  Ckpt.Model Ckpt.Base64Proofs Ckpt.CodecProofs Ckpt.NameProofs Ckpt.VerifierProofs.
From Coq Require Import ZifyN ZifyNat ZifyBool.
Open Scope N_scope.
Ltac Zify.zify_post_hook ::= Z.div_mod_to_equations.

Lemma u64_small z : (0 <= z < two63)%Z -> u64 z = Z.to_N z.
Proof. intro H. unfold u64, two63, two64 in *. rewrite Z.mod_small by lia. reflexivity. Qed.

Lemma u64_lt z : u64 z < two64N.
Proof. unfold u64, two64N. pose proof (Z.mod_pos_bound z two64 eq_refl). unfold two64 in *. lia. Qed.

Lemma digitally_signed_some a sig b : digitally_signed a sig = Some b ->
  blen sig < two16N /\ b = [x04; a] ++ be 2 (blen sig) ++ sig.
Proof.
  unfold digitally_signed, add_lp, b_add, b_empty. cbn [app].
  destruct (N.ltb_spec (blen sig) (pow256 2)) as [H|H]; [|discriminate].
  intro X; inversion X. rewrite pow256_2 in H. split; [exact H|reflexivity].
Qed.

Lemma firstn_app_len {A} (a b : list A) : firstn (length a) (a ++ b) = a.
Proof. rewrite firstn_app, Nat.sub_diag, firstn_all, firstn_O, app_nil_r. reflexivity. Qed.

Lemma skipn_app_len {A} (a b : list A) : skipn (length a) (a ++ b) = b.
Proof. rewrite skipn_app, Nat.sub_diag, skipn_all. reflexivity. Qed.

Lemma firstn8_be v (x : bytes) : firstn 8 (be 8 v ++ x) = be 8 v.
Proof. pose proof (firstn_app_len (be 8 v) x) as H. now rewrite length_be in H. Qed.

Lemma skipn8_be v (x : bytes) : skipn 8 (be 8 v ++ x) = x.
Proof. pose proof (skipn_app_len (be 8 v) x) as H. now rewrite length_be in H. Qed.

Section Signed.
  Variable pubkey : Type.
  Variable sig_alg : pubkey -> option byte.
  Variable raw_verify : pubkey -> bytes -> bytes -> bool.
  Variable rfc_key_hash : bytes -> pubkey -> N.
  Variable wpubkey : Type.
  Variable w_verify : wpubkey -> bytes -> bytes -> bool.
  Variable w_key_hash : bytes -> wpubkey -> N.
  Variable seckey : Type.
  Variable pub : seckey -> pubkey.
  Variable raw_sign : seckey -> bytes -> bytes.

  Notation rfc6962_verify := (rfc6962_verify pubkey sig_alg raw_verify).
  Notation new_rfc6962_verifier := (new_rfc6962_verifier pubkey sig_alg raw_verify rfc_key_hash).
  Notation new_cosig_verifier := (new_cosig_verifier wpubkey w_verify w_key_hash).
  Notation cosig_verify := (cosig_verify wpubkey w_verify).
  Notation sign_tree_head := (sign_tree_head pubkey sig_alg raw_verify rfc_key_hash wpubkey w_key_hash seckey pub raw_sign).
  Notation independent_sth_verify := (independent_sth_verify pubkey sig_alg raw_verify).

  Definition unknown_to (known : list nverifier) (g : sigline) : Prop :=
    filter (sig_matches (sl_name g) (sl_hash g)) known = [].

  Definition line_wf (g : sigline) : Prop :=
    note_text_ok (sl_name g) = true /\ is_valid_name (sl_name g) = true /\ 1 <= blen (sl_blob g).

  Lemma open_lines_skip known text grease : forall rest seen acc,
    Forall (unknown_to known) grease ->
    open_lines known text (grease ++ rest) seen acc = open_lines known text rest seen acc.
  Proof.
    induction grease as [|g gs IH]; intros rest seen acc H; [reflexivity|].
    inversion H; subst. cbn [app open_lines]. unfold unknown_to in H2. rewrite H2. now apply IH.
  Qed.

  Lemma subtree_some name t origin start end_ hash m :
    subtree_cosigned_message name t origin start end_ hash = Some m -> t <= 9223372036854775807.
  Proof.
    unfold subtree_cosigned_message.
    destruct ((blen name =? 0) || (255 <? blen name)); [discriminate|].
    destruct (N.ltb_spec 9223372036854775807 t); [discriminate|]. intros _. assumption.
  Qed.

  Lemma format_subtree_some name t msg m : format_subtree_v1 name t msg = Some m ->
    t <= 9223372036854775807 /\ exists c, parse_checkpoint msg = Some c.
  Proof.
    unfold format_subtree_v1. destruct (parse_checkpoint msg) as [c|]; [|discriminate].
    destruct (c_ext c); [|discriminate].
    destruct (negb (bytes_eqb msg (format_checkpoint c))); [discriminate|].
    intro H. apply subtree_some in H. split; [assumption|eauto].
  Qed.

  (* what a successful signTreeHead returned *)
  Lemma sign_tree_head_inv name sk wpk ws n hash time now rfc_first grease text lines :
    sign_tree_head name sk wpk ws n hash time now rfc_first grease = Some (text, lines) ->
    let sth := sth_signature_input (u64 n) (u64 time) hash in
    let sig := raw_sign sk sth in
    let rblob := note_signature (u64 time) x03 sig in
    exists m,
      is_valid_name name = true /\ blen sig < two16N /\
      text = format_checkpoint (mkCkpt name n hash []) /\
      rfc6962_verify name (pub sk) text rblob = true /\
      format_subtree_v1 name now text = Some m /\
      let rl := mkSig name (rfc_key_hash name (pub sk)) rblob in
      let wl := mkSig name (w_key_hash name wpk) (be 8 now ++ ws m) in
      lines = grease ++ (if rfc_first then [rl; wl] else [wl; rl]).
  Proof.
    unfold Model.sign_tree_head, digitally_sign. intro H.
    destruct (digitally_signed x03 _) as [ths|] eqn:Ed; [|discriminate].
    apply digitally_signed_some in Ed. destruct Ed as [Hlen ->].
    destruct (is_valid_name name) eqn:Ev; cbn [negb] in H; [|discriminate].
    destruct (ends_nl _); cbn [negb] in H; [|discriminate].
    unfold injected_sign in H. rewrite Ev in H.
    unfold injected_blob in H.
    match type of H with context [if ?c then _ else _] => destruct c eqn:Er end; [|discriminate].
    unfold cosig_sign in H.
    destruct (format_subtree_v1 name now _) as [m|] eqn:Em; [|discriminate].
    inversion H; subst; clear H. cbv zeta.
    exists m. repeat split; try assumption.
  Qed.

  (* C11, first sentence. The hypotheses beyond "signTreeHead succeeded" are exactly:
     the tree size is a non-negative int64 and the hash has 32 bytes (Go types), the log name
     passes note.Open's scan (note_text_ok: no C0 control character — NOT implied by isValidName,
     see signed_head_opens_refuted), the ML-DSA primitive verifies what it signed with signatures
     of the ML-DSA-44 size, the two verifiers' 32-bit key hashes differ (else note.Open reports an
     ambiguous key), and the grease lines are well-formed and match neither verifier. *)
  Theorem signed_head_opens name sk wpk ws n hash time now rfc_first grease text lines v1 v2 :
    sign_tree_head name sk wpk ws n hash time now rfc_first grease = Some (text, lines) ->
    (0 <= n < two63)%Z -> length hash = 32%nat ->
    note_text_ok name = true ->
    (forall m, w_verify wpk m (ws m) = true) -> (forall m, blen (ws m) = mldsa44_sig_size) ->
    rfc_key_hash name (pub sk) <> w_key_hash name wpk ->
    new_rfc6962_verifier name (pub sk) = Some v1 -> new_cosig_verifier name wpk = Some v2 ->
    Forall (unknown_to [v1; v2]) grease -> Forall line_wf grease -> (length grease <= 98)%nat ->
    let sig := raw_sign sk (sth_signature_input (Z.to_N n) (u64 time) hash) in
    exists rl wl,
      text = format_checkpoint (mkCkpt name n hash []) /\
      (* opens, and both signatures are among the verified ones *)
      note_open [v1; v2] text lines = Some (if rfc_first then [rl; wl] else [wl; rl]) /\
      sl_name rl = name /\ sl_hash rl = v_hash v1 /\ sl_name wl = name /\ sl_hash wl = v_hash v2 /\
      (* the RFC 6962 signature blob: tree time, sha256, ecdsa, the deterministic signature *)
      sl_blob rl = be 8 (u64 time) ++ [x04; x03] ++ be 2 (blen sig) ++ sig /\
      ((0 <= time < two63)%Z -> rfc6962_signature_timestamp (sl_blob rl) = Some time) /\
      (* the reconstructed tree head verifies with the independent verifier *)
      independent_sth_verify (pub sk) (Z.to_N n) (u64 time) hash x03 sig = true.
  Proof.
    intros H Hn Hh Hname Hw Hwl Hkh Hv1 Hv2 Hg Hgw Hgl.
    apply sign_tree_head_inv in H. cbv zeta in H.
    destruct H as (m & Ev & Hlen & Et & Hr & Hm & El).
    rewrite (u64_small n Hn) in *.
    set (sig := raw_sign sk (sth_signature_input (Z.to_N n) (u64 time) hash)) in *.
    set (rblob := note_signature (u64 time) x03 sig) in *.
    set (rl := mkSig name (rfc_key_hash name (pub sk)) rblob) in *.
    set (wl := mkSig name (w_key_hash name wpk) (be 8 now ++ ws m)) in *.
    unfold Model.new_rfc6962_verifier in Hv1. rewrite Ev in Hv1. inversion Hv1; subst v1; clear Hv1.
    unfold Model.new_cosig_verifier in Hv2. rewrite Ev in Hv2. inversion Hv2; subst v2; clear Hv2.
    (* the verifier accepted: the parsed tuple is the signed tuple *)
    pose proof Hr as Hr'.
    apply verifier_iff in Hr'. destruct Hr' as (n' & root' & ts & s & a & Hp & Ha & H1 & H2 & Hb & Hraw).
    destruct (format_subtree_some _ _ _ _ Hm) as [Hnow _].
    assert (Hwf : wf_ckpt (mkCkpt name n hash [])).
    { destruct (parse_inv _ _ Hp) as (_ & _ & _ & _ & Hsz & _).
      repeat split; cbn [c_origin c_n c_hash c_ext]; try assumption; try lia.
      - now apply valid_name_no_nl.
      - rewrite <- Et. exact Hsz. }
    pose proof (parse_format _ Hwf) as Hpf. rewrite <- Et in Hpf. rewrite Hpf in Hp.
    inversion Hp; subst n' root'; clear Hp.
    fold (note_signature ts a s) in Hb. unfold rblob in Hb.
    apply note_signature_inj in Hb; try assumption; try apply u64_lt.
    destruct Hb as (<- & <- & <-).
    rewrite (u64_small n Hn) in Hraw.
    exists rl, wl. repeat split; try reflexivity; try assumption.
    - (* note_open *)
      unfold note_open.
      assert (Htext : note_text_ok text = true) by (rewrite Et; now apply note_text_ok_checkpoint).
      rewrite Htext. cbn [andb].
      assert (Hlines : forall l, In l lines -> line_wf l).
      { intros l Hl. rewrite El in Hl. apply in_app_or in Hl. destruct Hl as [Hl|Hl].
        - rewrite Forall_forall in Hgw. auto.
        - assert (Hrw : l = rl \/ l = wl) by (destruct rfc_first; cbn in Hl; intuition).
          destruct Hrw as [-> | ->]; unfold rl, wl, rblob, note_signature;
            repeat split; cbn [sl_name sl_blob]; try assumption;
            rewrite blen_app; unfold blen at 1; rewrite length_be; lia. }
      assert (F1 : forallb (fun l => note_text_ok (sl_name l)) lines = true).
      { apply forallb_forall. intros l Hl. apply Hlines in Hl. destruct Hl; assumption. }
      assert (F2 : forallb (fun l => is_valid_name (sl_name l) && (1 <=? blen (sl_blob l))) lines = true).
      { apply forallb_forall. intros l Hl. apply Hlines in Hl. destruct Hl as (_ & -> & Hb). lia. }
      rewrite F1, F2. cbn [negb].
      assert (F3 : (100 <? N.of_nat (length lines)) = false).
      { rewrite El, app_length. destruct rfc_first; cbn [length]; lia. }
      rewrite F3, El, open_lines_skip by assumption.
      (* the two signers' lines *)
      assert (M11 : sig_matches name (rfc_key_hash name (pub sk))
                      (mkVerifier name (rfc_key_hash name (pub sk)) (rfc6962_verify name (pub sk))) = true)
        by (unfold sig_matches; cbn; rewrite bytes_eqb_refl; lia).
      assert (M12 : sig_matches name (rfc_key_hash name (pub sk))
                      (mkVerifier name (w_key_hash name wpk) (cosig_verify name wpk)) = false)
        by (unfold sig_matches; cbn; rewrite bytes_eqb_refl; lia).
      assert (M21 : sig_matches name (w_key_hash name wpk)
                      (mkVerifier name (rfc_key_hash name (pub sk)) (rfc6962_verify name (pub sk))) = false)
        by (unfold sig_matches; cbn; rewrite bytes_eqb_refl; lia).
      assert (M22 : sig_matches name (w_key_hash name wpk)
                      (mkVerifier name (w_key_hash name wpk) (cosig_verify name wpk)) = true)
        by (unfold sig_matches; cbn; rewrite bytes_eqb_refl; lia).
      assert (Cw : cosig_verify name wpk text (be 8 now ++ ws m) = true).
      { unfold Model.cosig_verify.
        rewrite blen_app, Hwl. unfold blen at 1. rewrite length_be.
        rewrite N.eqb_refl. cbn [negb].
        rewrite firstn8_be, skipn8_be.
        rewrite be_dec_be_small by (rewrite pow256_8; unfold two64N; lia).
        destruct (N.ltb_spec 9223372036854775807 now); [lia|].
        rewrite Hm. apply Hw. }
      destruct rfc_first; cbn [open_lines filter sl_name sl_hash sl_blob rl wl v_verify existsb fst snd].
      + rewrite M11, M12. cbn [v_verify]. rewrite Hr.
        cbn [open_lines filter sl_name sl_hash sl_blob existsb fst snd].
        rewrite M21, M22. rewrite bytes_eqb_refl.
        destruct (N.eqb_spec (rfc_key_hash name (pub sk)) (w_key_hash name wpk)); [contradiction|].
        cbn [andb orb v_verify]. rewrite Cw. reflexivity.
      + rewrite M21, M22. cbn [v_verify]. rewrite Cw.
        cbn [open_lines filter sl_name sl_hash sl_blob existsb fst snd].
        rewrite M11, M12. rewrite bytes_eqb_refl.
        destruct (N.eqb_spec (w_key_hash name wpk) (rfc_key_hash name (pub sk))); [congruence|].
        cbn [andb orb v_verify]. rewrite Hr. reflexivity.
    - (* timestamp *)
      intro Ht. cbn [sl_blob rl]. unfold rblob, note_signature, rfc6962_signature_timestamp.
      rewrite rd_u_be by (rewrite pow256_8; apply u64_lt).
      rewrite (u64_small time Ht).
      destruct (N.ltb_spec 9223372036854775807 (Z.to_N time)); [unfold two63 in Ht; lia|].
      f_equal. lia.
    - (* independent verifier *)
      unfold Model.independent_sth_verify. rewrite Ha.
      replace (Byte.eqb x03 x03) with true by reflexivity. exact Hraw.
  Qed.

  (* the injected signer never emits a blob its own verifier rejects *)
  Theorem injected_sign_sound name pk sig timestamp msg blob :
    injected_sign pubkey sig_alg raw_verify name pk sig timestamp msg = Some blob ->
    blob = be 8 (u64 timestamp) ++ sig /\ rfc6962_verify name pk msg blob = true /\ is_valid_name name = true.
  Proof.
    unfold injected_sign. destruct (is_valid_name name); [|discriminate].
    destruct (rfc6962_verify name pk msg (injected_blob sig timestamp)) eqn:E; [|discriminate].
    intro X; inversion X; subst. auto.
  Qed.

  (* determinism: the RFC 6962 signature line is a function of (name, key, size, root, time);
     neither the cosigner's clock, nor the shuffle, nor the grease influence it *)
  Theorem sign_deterministic name sk wpk ws ws' n hash time now now' o o' g g' text text' lines lines' :
    sign_tree_head name sk wpk ws n hash time now o g = Some (text, lines) ->
    sign_tree_head name sk wpk ws' n hash time now' o' g' = Some (text', lines') ->
    text = text' /\
    exists rl, In rl lines /\ In rl lines' /\ sl_name rl = name /\ sl_hash rl = rfc_key_hash name (pub sk).
  Proof.
    intros H H'. apply sign_tree_head_inv in H. apply sign_tree_head_inv in H'. cbv zeta in *.
    destruct H as (m & _ & _ & -> & _ & _ & ->). destruct H' as (m' & _ & _ & -> & _ & _ & ->).
    split; [reflexivity|].
    exists (mkSig name (rfc_key_hash name (pub sk))
              (note_signature (u64 time) x03 (raw_sign sk (sth_signature_input (u64 n) (u64 time) hash)))).
    split; [|split; [|split; reflexivity]].
    - apply in_or_app. right. destruct o; [left; reflexivity|right; left; reflexivity].
    - apply in_or_app. right. destruct o'; [left; reflexivity|right; left; reflexivity].
  Qed.

End Signed.

(* ---- a valid name whose signed checkpoints do not open ---- *)

(* "a" 0x01 "b" passes isValidName (U+0001 is not a space), signTreeHead signs, and note.Open
   rejects the result as a malformed note: the first sentence of C11 fails for this origin.
   Instance: every primitive accepts, one key. *)
Definition ctl_name : bytes := [x61; x01; x62].

Theorem signed_head_opens_refuted :
  let sts := sign_tree_head unit (fun _ => Some x03) (fun _ _ _ => true) (fun _ _ => 1)
               unit (fun _ _ => 2) unit (fun _ => tt) (fun _ _ => [x30]) in
  is_valid_name ctl_name = true /\
  exists text lines,
    sts ctl_name tt tt (fun _ => repeat x00 2420) 5%Z (repeat x07 32) 1000%Z 1700000000 true [] = Some (text, lines) /\
    forall v1 v2,
      new_rfc6962_verifier unit (fun _ => Some x03) (fun _ _ _ => true) (fun _ _ => 1) ctl_name tt = Some v1 ->
      new_cosig_verifier unit (fun _ _ _ => true) (fun _ _ => 2) ctl_name tt = Some v2 ->
      note_open [v1; v2] text lines = None.
Proof.
  cbv zeta. split; [vm_compute; reflexivity|].
  eexists. eexists. split; [vm_compute; reflexivity|].
  intros v1 v2 H1 H2. unfold note_open.
  match goal with |- context [note_text_ok ?t] => replace (note_text_ok t) with false by (vm_compute; reflexivity) end.
  reflexivity.
Qed.

(* a negative tree time is signed, opens, but its timestamp cannot be extracted *)
Theorem negative_time_timestamp_refuted :
  exists blob, blob = injected_blob [x04; x03; x00; x01; x30] (-1) /\
    rfc6962_signature_timestamp blob = None.
Proof. eexists. split; [reflexivity|vm_compute; reflexivity]. Qed.
