(* Ctlog/Model.v — executable model of sunlight's sequencer (internal/ctlog/ctlog.go):
   CreateLog, LoadLog, addLeafToPool, sequence/sequencePool, the stop path of RunSequencer,
   over an object store, a compare-and-swap lock register and a per-instance dedup cache.
   One step = one storage/lock operation of one instance (or one local action), so that
   event lists range over all interleavings, fault placements (applied / not applied) and
   crash points. Definitions only; proofs are in Ctlog/Inv*.v. *)
From SL Require Export Base.Bytes Base.Cryptobyte Codec.Leaf Merkle.Tiles.
Open Scope N_scope.

Section Seq.
(* SHA-256 enters as a parameter: the model is RUN with the real function and PROVED for all *)
Variable sha : bytes -> bytes.

Definition hleaf (b : bytes) : bytes := sha (x00 :: b).
Definition hnode (l r : bytes) : bytes := sha (x01 :: l ++ r).
Definition hempty : bytes := sha [].
Definition mroot (hs : list bytes) : bytes := mth bytes hnode hempty hs.

(* ---------- entries and leaves ---------- *)
Record entry := mkEntry {
  e_cert : bytes; e_pre : bool; e_ikh : bytes; e_issuers : list bytes; e_precert : bytes;
  e_names : bytes   (* template of the names-tile line of this entry (JSON of TrimmedEntry +
                       newline) in which byte 0xff stands for the decimal leaf timestamp; [] when
                       the certificate does not parse. x509/JSON are not modelled: the harness
                       obtains the template from the real TrimmedEntry with a sentinel timestamp *)
}.

Definition names_line (tmpl : bytes) (ts : Z) : bytes :=
  concat (map (fun b => if Byte.eqb b xff then decZ ts else [b]) tmpl).

Definition leaf_of (e : entry) (idx : N) (ts : Z) : leaf :=
  mkLeaf (e_cert e) (e_pre e) (e_ikh e) (map sha (e_issuers e)) (e_precert e) (Z.of_N idx) false ts.

Definition leaf_hash (l : leaf) : bytes :=
  match merkle_tree_leaf l with Some b => hleaf b | None => hempty end.

(* computeCacheHash *)
Definition cache_preimage (cert : bytes) (pre : bool) (ikh : bytes) : builder :=
  if negb pre then add_lp 3 (b_add cert b_empty) (add_u 2 0 b_empty)
  else add_lp 3 (b_add cert b_empty) (b_add ikh (add_u 2 1 b_empty)).
Definition ckey (e : entry) : bytes :=
  match cache_preimage (e_cert e) (e_pre e) (e_ikh e) with Some b => sha b | None => [] end.

(* the dedup key as cmd/recompute-cache derives it from a parsed log entry (its own copy of
   computeCacheHash over Certificate / IsPrecert / IssuerKeyHash of the sunlight.LogEntry) *)
Definition leaf_ckey (l : leaf) : bytes := ckey (mkEntry (l_cert l) (l_pre l) (l_ikh l) [] [] []).

(* a sequenced leaf together with the names line it contributes *)
Record sleaf := mkSleaf { sl_leaf : leaf; sl_names : bytes }.

(* ---------- checkpoints, objects, stores ---------- *)
Record cp := mkCp { cp_origin : bytes; cp_size : N; cp_root : bytes; cp_ts : Z;
                    cp_key : N;     (* which log key signed it (symbolic signature) *)
                    cp_ext : bytes  (* extension lines; sunlight never produces any *) }.

Definition cp_eqb (a b : cp) : bool :=
  bytes_eqb (cp_origin a) (cp_origin b) && (cp_size a =? cp_size b) && bytes_eqb (cp_root a) (cp_root b)
  && (cp_ts a =? cp_ts b)%Z && (cp_key a =? cp_key b) && bytes_eqb (cp_ext a) (cp_ext b).

Inductive uopt := UHash | UData | UNames | UStaging | UIssuer | UCheckpoint | URoots.
Definition immutable (o : uopt) : bool :=
  match o with UCheckpoint | URoots => false | _ => true end.

Record upload := mkUp { u_key : bytes; u_opt : uopt; u_data : bytes }.

Inductive obj :=
| OB (b : bytes)            (* tiles (uncompressed), issuers, roots, junk *)
| OC (c : cp)               (* a signed checkpoint note *)
| OS (ups : list upload).   (* a staging bundle *)

Fixpoint uploads_eqb (a b : list upload) : bool :=
  match a, b with
  | [], [] => true
  | x :: a', y :: b' => bytes_eqb (u_key x) (u_key y) && bytes_eqb (u_data x) (u_data y) && uploads_eqb a' b'
  | _, _ => false
  end.

Definition obj_eqb (a b : obj) : bool :=
  match a, b with
  | OB x, OB y => bytes_eqb x y
  | OC x, OC y => cp_eqb x y
  | OS x, OS y => uploads_eqb x y
  | _, _ => false
  end.

Definition store := list (bytes * obj).

Fixpoint lookup (s : store) (k : bytes) : option obj :=
  match s with
  | [] => None
  | (k', o) :: r => if bytes_eqb k k' then Some o else lookup r k
  end.

Fixpoint remove (s : store) (k : bytes) : store :=
  match s with
  | [] => []
  | (k', o) :: r => if bytes_eqb k k' then remove r k else (k', o) :: remove r k
  end.

Definition put (s : store) (k : bytes) (o : obj) : store := (k, o) :: remove s k.

Inductive fault := FOk | FFailNotApplied | FFailApplied.
Definition applied (f : fault) : bool := match f with FFailNotApplied => false | _ => true end.
Definition succeeded (f : fault) : bool := match f with FOk => true | _ => false end.

(* Backend.Upload as the simulated object store implements it: an immutable object may be
   re-uploaded with identical bytes only. Returns (new store, success). *)
Definition do_upload (s : store) (k : bytes) (o : obj) (imm : bool) (f : fault) : store * bool :=
  match lookup s k with
  | Some old =>
    if imm && negb (obj_eqb old o) then (s, false)
    else ((if applied f then put s k o else s), succeeded f)
  | None => ((if applied f then put s k o else s), succeeded f)
  end.

(* ---------- paths ---------- *)
Definition hash_tile_path (t : tcoord) : bytes :=
  match tile_path (mkTile 8 (Z.of_nat (tc_L t)) (Z.of_N (tc_N t)) (Z.of_N (tc_W t))) with
  | Some p => p | None => [] end.
Definition data_tile_path (n w : N) : bytes :=
  match tile_path (mkTile 8 (-1) (Z.of_N n) (Z.of_N w)) with Some p => p | None => [] end.
Definition names_tile_path (n w : N) : bytes :=
  match tile_path (mkTile 8 (-2) (Z.of_N n) (Z.of_N w)) with Some p => p | None => [] end.
Definition staging_path (n : N) (root : bytes) : bytes :=
  s2b "staging/" ++ dec n ++ x2d :: hex root.
Definition legacy_staging_path (n : N) (root : bytes) : bytes :=
  s2b "staging/" ++ nstr (Z.of_N n) ++ x2f :: hex root.
Definition issuer_path (fp : bytes) : bytes := s2b "issuer/" ++ hex fp.
Definition k_checkpoint : bytes := s2b "checkpoint".
Definition k_roots : bytes := s2b "_roots.pem".

(* ---------- rendering of the leaf sequence into tiles (specification level) ---------- *)
Definition leaf_hashes (ls : list sleaf) : list bytes := map (fun s => leaf_hash (sl_leaf s)) ls.

Definition data_tile_bytes (ls : list sleaf) : bytes :=
  fold_left (fun acc s => match append_tile_leaf acc (sl_leaf s) with Some b => b | None => acc end) ls [].
Definition names_tile_bytes (ls : list sleaf) : bytes := concat (map sl_names ls).

Definition slice {A} (l : list A) (from count : N) : list A :=
  firstn (N.to_nat count) (skipn (N.to_nat from) l).

Definition hash_tile_bytes (ls : list sleaf) (t : tcoord) : bytes :=
  concat (tile_hashes bytes hnode (leaf_hashes ls) (tc_L t) (tc_N t) (tc_W t)).

(* data + names tile uploads for the tiles touched when growing from old to new leaves;
   in the order sequencePool stages them (data tile j, names tile j, for increasing j) *)
Fixpoint entry_tile_uploads (fuel : nat) (all : list sleaf) (j : N) (new : N) : list upload :=
  match fuel with
  | O => []
  | S f =>
    if j * 256 <? new then
      let w := N.min 256 (new - j * 256) in
      let ls := slice all (j * 256) w in
      mkUp (data_tile_path j w) UData (data_tile_bytes ls)
      :: mkUp (names_tile_path j w) UNames (names_tile_bytes ls)
      :: entry_tile_uploads f all (j + 1) new
    else []
  end.

Definition round_uploads (all : list sleaf) (old new : N) : list upload :=
  if old =? new then [] else
  entry_tile_uploads (S (N.to_nat (new / 256 - old / 256))) all (old / 256) new
  ++ map (fun t => mkUp (hash_tile_path t) UHash (hash_tile_bytes all t)) (new_tiles old new).

(* ---------- configuration, pools, instances ---------- *)
Record cfg := mkCfg { c_name : bytes; c_key : N; c_poolsize : N }.

Inductive wstatus := WWait | WEvicted.
Record pend := mkPend { p_entry : entry; p_low : bool; p_wid : N }.

(* a pool: pendingLeaves with the waiter of each slot, plus byHash entries of evicted slots *)
Record pool := mkPool { pl_leaves : list pend; pl_evicted : list (bytes * N) (* ckey, wid of evicted *) }.
Definition empty_pool : pool := mkPool [] [].

Inductive errc :=   (* error classes (strings are not compared) *)
| EClosed | ERateLimit | EEvicted | EIssuer | ENonFatal | EFatal | ECanceled | ESunset.

Inductive phase :=
| RClock | RStaging | RCas | RTiles (todo : list upload) (failed : bool) | RCheckpoint | RDiscard.

Inductive lphase :=
| LLock | LPub | LLegacy | LStaging | LApply (todo : list upload) (failed : bool)
| LEdge (todo : list tcoord) | LData | LRoots.

Inductive pc :=
| PNone | PCreate (k : nat) | PLoad (ph : lphase) | PIdle | PRound (ph : phase) | PStopped | PDead.

Record round_ctx := mkRctx {
  r_ts : Z; r_all : list sleaf; r_new : cp; r_ups : list upload; r_first : N }.

Record inst := mkInst {
  i_cfg : cfg;
  i_pc : pc;
  i_tree : cp;                 (* l.tree as a checkpoint value: size, root, timestamp *)
  i_lockcp : cp;               (* l.lockCheckpoint *)
  i_leaves : list sleaf;       (* the leaf sequence of l.tree (specification-level stand-in for edgeTiles) *)
  i_pool : pool;               (* currentPool *)
  i_inseq : pool;              (* inSequencing (the pool being sequenced) *)
  i_closed : option errc;      (* currentPool.err once the sequencer stopped *)
  i_issuers : list bytes;      (* fingerprints already uploaded or checked *)
  i_cache : list (bytes * (N * Z));   (* dedup cache: key -> (index, timestamp) *)
  i_rctx : round_ctx;
  i_pub : cp                   (* checkpoint fetched from object storage during load *)
}.

Definition cp0 : cp := mkCp [] 0 [] 0 0 [].
Definition rctx0 : round_ctx := mkRctx 0 [] cp0 [] 0.
Definition inst0 (c : cfg) : inst :=
  mkInst c PNone cp0 cp0 [] empty_pool empty_pool None [] [] rctx0 cp0.

(* ---------- the world ---------- *)
Record ack := mkAck { a_wid : N; a_inst : nat; a_entry : entry; a_res : option (N * Z) (* idx, ts *);
                      a_err : option errc; a_pub : option cp (* published checkpoint at release *) }.

Record world := mkWorld {
  w_store : store;
  w_lock : option cp;
  w_now : Z;
  w_insts : list (nat * inst);
  w_nextwid : N;
  (* ghost components, used only by the statements *)
  w_lockhist : list (cp * list sleaf);   (* every checkpoint whose Create/Replace took effect, oldest first *)
  w_pubhist : list (cp * nat);           (* every checkpoint object that became readable under "checkpoint",
                                            with the number of checkpoints committed so far at that moment *)
  w_acks : list ack;
  w_discards : list (bytes * option cp)  (* discarded key, published checkpoint at that moment *)
}.

Definition init : world := mkWorld [] None 0 [] 0 [] [] [] [].

Fixpoint get_inst (l : list (nat * inst)) (i : nat) : option inst :=
  match l with
  | [] => None
  | (j, x) :: r => if (i =? j)%nat then Some x else get_inst r i
  end.
Fixpoint set_inst (l : list (nat * inst)) (i : nat) (x : inst) : list (nat * inst) :=
  match l with
  | [] => [(i, x)]
  | (j, y) :: r => if (i =? j)%nat then (i, x) :: r else (j, y) :: set_inst r i x
  end.

Definition published (w : world) : option cp :=
  match lookup (w_store w) k_checkpoint with Some (OC c) => Some c | _ => None end.

Fixpoint hist_leaves (h : list (cp * list sleaf)) (c : cp) : option (list sleaf) :=
  match h with
  | [] => None
  | (c', ls) :: r => if cp_eqb c c' then Some ls else hist_leaves r c
  end.

(* ---------- observations ---------- *)
Inductive opkind := KUpload | KFetch | KDiscard | KLockFetch | KLockReplace | KLockCreate.

Inductive obs :=
| ObsOp (i : nat) (k : opkind) (key : bytes) (o : option uopt) (payload : option obj) (f : fault) (ok : bool)
| ObsCreate (i : nat) (res : option errc) (why : string)
| ObsLoad (i : nat) (ok : bool) (why : string)
| ObsRound (i : nat) (res : option errc) (size : N) (root : bytes) (ts : Z)
| ObsSubmit (i : nat) (wid : N) (src : string)
| ObsAck (wid : N) (res : option (N * Z)) (err : option errc)
| ObsNote (s : string)
| ObsCache (i : nat) (rows : list (bytes * (N * Z))).   (* contents of the dedup cache file *)

(* ---------- openCheckpoint ---------- *)
Definition open_checkpoint (c : cfg) (now : Z) (o : obj) : option cp + string :=
  match o with
  | OC x =>
    (* the note verifier is bound to (name, key): a foreign name fails signature verification *)
    if negb (cp_key x =? c_key c) || negb (bytes_eqb (cp_origin x) (c_name c)) then inr "signature"%string
    else if (now <? cp_ts x)%Z then inr "future"%string
    else if negb (bytes_eqb (cp_ext x) []) then inr "extension"%string
    else inl (Some x)
  | _ => inr "malformed"%string
  end.

(* ---------- helpers on instances ---------- *)
Definition upd_pc (x : inst) (p : pc) : inst :=
  mkInst (i_cfg x) p (i_tree x) (i_lockcp x) (i_leaves x) (i_pool x) (i_inseq x) (i_closed x)
         (i_issuers x) (i_cache x) (i_rctx x) (i_pub x).

Definition set_i (w : world) (i : nat) (x : inst) : world :=
  mkWorld (w_store w) (w_lock w) (w_now w) (set_inst (w_insts w) i x) (w_nextwid w)
          (w_lockhist w) (w_pubhist w) (w_acks w) (w_discards w).

Definition set_store (w : world) (s : store) : world :=
  mkWorld s (w_lock w) (w_now w) (w_insts w) (w_nextwid w) (w_lockhist w) (w_pubhist w) (w_acks w) (w_discards w).

Definition add_acks (w : world) (a : list ack) : world :=
  mkWorld (w_store w) (w_lock w) (w_now w) (w_insts w) (w_nextwid w) (w_lockhist w) (w_pubhist w)
          (w_acks w ++ a) (w_discards w).

(* Backend.Upload of instance i: performs it on the world, records a published checkpoint *)
Definition world_upload (w : world) (i : nat) (u_k : bytes) (o : obj) (opt : uopt) (f : fault) : world * bool * obs :=
  let '(s', ok) := do_upload (w_store w) u_k o (immutable opt) f in
  let changed := negb (match lookup (w_store w) u_k, lookup s' u_k with
                       | Some a, Some b => obj_eqb a b | None, None => true | _, _ => false end) in
  let ph := match o with
            | OC c => if bytes_eqb u_k k_checkpoint && applied f && (changed || true)
                           && match lookup s' u_k with Some (OC c') => cp_eqb c c' | _ => false end
                      then w_pubhist w ++ [(c, length (w_lockhist w))] else w_pubhist w
            | _ => w_pubhist w end in
  (mkWorld s' (w_lock w) (w_now w) (w_insts w) (w_nextwid w) (w_lockhist w) ph (w_acks w) (w_discards w),
   ok, ObsOp i KUpload u_k (Some opt) (Some o) f ok).

Definition fetch (w : world) (i : nat) (k : bytes) (f : fault) : option obj * obs :=
  let r := if succeeded f then lookup (w_store w) k else None in
  (r, ObsOp i KFetch k None None f (match r with Some _ => true | None => false end)).

(* remove one upload with the given key from a todo list *)
Fixpoint take_upload (todo : list upload) (k : bytes) : option (upload * list upload) :=
  match todo with
  | [] => None
  | u :: r => if bytes_eqb (u_key u) k then Some (u, r)
              else match take_upload r k with Some (x, r') => Some (x, u :: r') | None => None end
  end.

Definition opt_obj (u : upload) : obj := OB (u_data u).

(* ---------- acknowledgements ---------- *)
Definition acks_of_pool (w : world) (i : nat) (p : pool) (res : pend -> nat -> option (N * Z) * option errc) : list ack :=
  let fix go (l : list pend) (k : nat) :=
    match l with
    | [] => []
    | x :: r => let '(ok, er) := res x k in
                mkAck (p_wid x) i (p_entry x) ok er (published w) :: go r (S k)
    end in go (pl_leaves p) O.

Definition obs_of_acks (l : list ack) : list obs := map (fun a => ObsAck (a_wid a) (a_res a) (a_err a)) l.

Definition fail_pool (w : world) (i : nat) (p : pool) (e : errc) : world * list obs :=
  let a := acks_of_pool w i p (fun _ _ => (None, Some e)) in
  (add_acks w a, obs_of_acks a).

(* ---------- CreateLog ---------- *)
Definition step_create (w : world) (i : nat) (x : inst) (k : nat) (f : fault) : world * list obs :=
  let c := i_cfg x in
  let stop (w : world) (r : option errc) (why : string) (o : list obs) :=
      (set_i w i (upd_pc x PNone), o ++ [ObsCreate i r why]) in
  match k with
  | O => (* Lock.Fetch: only a successful fetch stops creation *)
    (* the lock store is keyed by log ID (the key): another log's entry is not found *)
    let found := succeeded f && match w_lock w with Some lc => cp_key lc =? c_key c | None => false end in
    let o := ObsOp i KLockFetch [] None None f found in
    if found then stop w (Some ENonFatal) "exists"%string [o]
    else (set_i w i (upd_pc x (PCreate 1)), [o])
  | 1%nat =>
    let '(r, o) := fetch w i k_checkpoint f in
    match r with
    | Some _ => stop w (Some ENonFatal) "storage-has-checkpoint"%string [o]
    | None => (set_i w i (upd_pc x (PCreate 2)), [o])
    end
  | 2%nat => (* Lock.Create with the signed empty tree *)
    let c0 := mkCp (c_name c) 0 hempty (w_now w) (c_key c) [] in
    let can := match w_lock w with None => true | Some _ => false end in
    let eff := can && applied f in
    let ok := can && succeeded f in
    let w1 := if eff then mkWorld (w_store w) (Some c0) (w_now w) (w_insts w) (w_nextwid w)
                                  (w_lockhist w ++ [(c0, [])]) (w_pubhist w) (w_acks w) (w_discards w)
              else w in
    let o := ObsOp i KLockCreate [] None (Some (OC c0)) f ok in
    let x1 := mkInst c (PCreate 3) c0 c0 [] (i_pool x) (i_inseq x) (i_closed x) (i_issuers x) (i_cache x) (i_rctx x) (i_pub x) in
    if ok then (set_i w1 i x1, [o]) else stop w1 (Some ENonFatal) "lock-create"%string [o]
  | 3%nat =>
    let '(w1, ok, o) := world_upload w i k_checkpoint (OC (i_tree x)) UCheckpoint f in
    if ok then (set_i w1 i (upd_pc x (PCreate 4)), [o]) else stop w1 (Some ENonFatal) "upload-checkpoint"%string [o]
  | _ =>
    let '(w1, ok, o) := world_upload w i k_roots (OB []) URoots f in
    if ok then stop w1 None "created"%string [o] else stop w1 (Some ENonFatal) "upload-roots"%string [o]
  end.

(* ---------- LoadLog ---------- *)
Definition load_fail (w : world) (i : nat) (x : inst) (why : string) (o : list obs) : world * list obs :=
  (set_i w i (upd_pc x PNone), o ++ [ObsLoad i false why]).

Definition set_load (x : inst) (ph : lphase) (lockc pub : cp) : inst :=
  mkInst (i_cfg x) (PLoad ph) lockc lockc (i_leaves x) (i_pool x) (i_inseq x) (i_closed x)
         (i_issuers x) (i_cache x) (i_rctx x) pub.

(* after the staged uploads (if any): read the right edge *)
Definition after_apply (w : world) (i : nat) (x : inst) : world * list obs :=
  if cp_size (i_lockcp x) =? 0 then (set_i w i (upd_pc x (PLoad LRoots)), [])
  else (set_i w i (upd_pc x (PLoad (LEdge (rev (edge_tiles (cp_size (i_lockcp x))))))), []).

Definition step_load (w : world) (i : nat) (x : inst) (ph : lphase) (f : fault) (choice : bytes) : world * list obs :=
  let c := i_cfg x in
  match ph with
  | LLock =>
    (* the lock store is keyed by log ID = hash of the key: a foreign key finds nothing *)
    let r := if succeeded f then (match w_lock w with
                                  | Some lc => if cp_key lc =? c_key c then Some lc else None
                                  | None => None end) else None in
    let o := ObsOp i KLockFetch [] None None f (match r with Some _ => true | None => false end) in
    match r with
    | None => load_fail w i x "lock-fetch" [o]
    | Some lc =>
      match open_checkpoint c (w_now w) (OC lc) with
      | inl (Some lc') => (set_i w i (set_load x LPub lc' cp0), [o])
      | inl None => load_fail w i x "lock-open" [o]
      | inr why => load_fail w i x ("lock-" ++ why)%string [o]
      end
    end
  | LPub =>
    let '(r, o) := fetch w i k_checkpoint f in
    match r with
    | None => load_fail w i x "pub-fetch" [o]
    | Some ob =>
      match open_checkpoint c (w_now w) ob with
      | inr why => load_fail w i x ("pub-" ++ why)%string [o]
      | inl None => load_fail w i x "pub-open" [o]
      | inl (Some p) =>
        let lc := i_lockcp x in
        if (cp_size p =? cp_size lc) && negb (bytes_eqb (cp_root p) (cp_root lc)) then load_fail w i x "hash-mismatch" [o]
        else if cp_size lc <? cp_size p then load_fail w i x "storage-ahead" [o]
        else if cp_size p <? cp_size lc then (set_i w i (set_load x LLegacy lc p), [o])
        else let '(w1, o1) := after_apply w i (set_load x LLock lc p) in (w1, o :: o1)
      end
    end
  | LLegacy =>
    let lc := i_lockcp x in
    let '(r, o) := fetch w i (legacy_staging_path (cp_size lc) (cp_root lc)) f in
    match r with
    | Some _ => load_fail w i x "legacy-staging" [o]
    | None => (set_i w i (upd_pc x (PLoad LStaging)), [o])
    end
  | LStaging =>
    let lc := i_lockcp x in
    let '(r, o) := fetch w i (staging_path (cp_size lc) (cp_root lc)) f in
    match r with
    | Some (OS ups) =>
      match ups with
      | [] => let '(w1, o1) := after_apply w i x in (w1, o :: o1)
      | _ => (set_i w i (upd_pc x (PLoad (LApply ups false))), [o])
      end
    | _ => load_fail w i x "staging-fetch" [o]
    end
  | LApply todo failed =>
    match take_upload todo choice with
    | None => (w, [ObsNote "no-such-pending-upload"])
    | Some (u, rest) =>
      let '(w1, ok, o) := world_upload w i (u_key u) (opt_obj u) (u_opt u) f in
      let failed' := failed || negb ok in
      match rest with
      | [] => if failed' then load_fail w1 i x "apply-staged" [o]
              else let '(w2, o2) := after_apply w1 i x in (w2, o :: o2)
      | _ => (set_i w1 i (upd_pc x (PLoad (LApply rest failed'))), [o])
      end
    end
  | LEdge todo =>
    (* TileHashReader: fetch and authenticate the right-most tile of each level, top level
       first. Specification of the verifying reader: accept exactly the tiles of the tree
       the lock checkpoint commits to. *)
    match todo with
    | [] => (set_i w i (upd_pc x (PLoad LData)), [])
    | t :: rest =>
      let '(r, o) := fetch w i (hash_tile_path t) f in
      let want := match hist_leaves (w_lockhist w) (i_lockcp x) with
                  | Some ls => Some (hash_tile_bytes ls t) | None => None end in
      match r, want with
      | Some (OB b), Some wb =>
        if bytes_eqb b wb then
          (set_i w i (upd_pc x (PLoad (match rest with [] => LData | _ => LEdge rest end))), [o])
        else load_fail w i x "edge" [o]
      | _, _ => load_fail w i x "edge" [o]
      end
    end
  | LData =>
    let n := cp_size (i_lockcp x) in
    let tn := (n - 1) / 256 in
    let tw := n - tn * 256 in
    let '(r, o) := fetch w i (data_tile_path tn tw) f in
    match r, hist_leaves (w_lockhist w) (i_lockcp x) with
    | Some (OB b), Some ls =>
      if bytes_eqb b (data_tile_bytes (slice ls (tn * 256) tw)) then
        (set_i w i (upd_pc x (PLoad LRoots)), [o])
      else load_fail w i x "data" [o]
    | _, _ => load_fail w i x "data" [o]
    end
  | LRoots =>
    let '(r, o) := fetch w i k_roots f in   (* a failure is tolerated *)
    let ls := match hist_leaves (w_lockhist w) (i_lockcp x) with Some l => l | None => [] end in
    let x1 := mkInst c PIdle (i_lockcp x) (i_lockcp x) ls empty_pool empty_pool None [] (i_cache x) rctx0 (i_pub x) in
    (set_i w i x1, [o; ObsLoad i true "loaded"])
  end.

(* ---------- admission (addLeafToPool) ---------- *)
Fixpoint find_pool (l : list pend) (k : bytes) : option N :=
  match l with
  | [] => None
  | p :: r => if bytes_eqb (ckey (p_entry p)) k then Some (p_wid p) else find_pool r k
  end.
Fixpoint find_evicted (l : list (bytes * N)) (k : bytes) : option N :=
  match l with
  | [] => None
  | (k', wd) :: r => if bytes_eqb k k' then Some wd else find_evicted r k
  end.
Fixpoint cache_get (c : list (bytes * (N * Z))) (k : bytes) : option (N * Z) :=
  match c with
  | [] => None
  | (k', v) :: r => if bytes_eqb k k' then Some v else cache_get r k
  end.
Definition in_pool (p : pool) (k : bytes) : option N :=
  match find_pool (pl_leaves p) k with
  | Some wd => Some wd
  | None => find_evicted (pl_evicted p) k
  end.

Fixpoint replace_nth {A} (l : list A) (n : nat) (x : A) : list A :=
  match l, n with
  | [], _ => []
  | _ :: r, O => x :: r
  | y :: r, S n' => y :: replace_nth r n' x
  end.

Definition lows (p : pool) : list nat :=
  let fix go (l : list pend) (k : nat) :=
    match l with [] => [] | x :: r => if p_low x then k :: go r (S k) else go r (S k) end
  in go (pl_leaves p) O.

Inductive admit_res :=
| AClosed (e : errc) | ADup (wid : N) | ACached (idx : N) (ts : Z) | ARateLimited
| AAppended (wid : N) | AEvicting (wid : N) (victim_wid : N).

(* the mutex-protected part of addLeafToPool; [victim] resolves Go's map iteration order *)
Definition admission (c : cfg) (closed : option errc) (p inseq : pool) (cache : list (bytes * (N * Z)))
                 (e : entry) (low : bool) (victim : nat) (wid : N) : pool * admit_res :=
  match closed with
  | Some er => (p, AClosed er)
  | None =>
    let k := ckey e in
    match in_pool p k with
    | Some wd => (p, ADup wd)
    | None =>
      match in_pool inseq k with
      | Some wd => (p, ADup wd)
      | None =>
        match cache_get cache k with
        | Some (idx, ts) => (p, ACached idx ts)
        | None =>
          let n := N.of_nat (length (pl_leaves p)) in
          if (0 <? c_poolsize c) && (c_poolsize c <=? n) then
            if low then (p, ARateLimited)
            else match lows p with
                 | [] => (p, ARateLimited)
                 | l0 :: _ =>
                   let v := if existsb (Nat.eqb victim) (lows p) then victim else l0 in
                   match nth_error (pl_leaves p) v with
                   | Some old =>
                     (mkPool (replace_nth (pl_leaves p) v (mkPend e low wid))
                             ((ckey (p_entry old), p_wid old) :: pl_evicted p),
                      AEvicting wid (p_wid old))
                   | None => (p, ARateLimited)
                   end
                 end
          else (mkPool (pl_leaves p ++ [mkPend e low wid]) (pl_evicted p), AAppended wid)
        end
      end
    end
  end.

(* uploadIssuer for each issuer, in order; faults are consumed two per issuer (fetch, upload) *)
Fixpoint upload_issuers (w : world) (i : nat) (known : list bytes) (iss : list bytes) (fs : list fault)
  : world * list bytes * bool * list obs :=
  match iss with
  | [] => (w, known, true, [])
  | b :: r =>
    let fp := sha b in
    if existsb (bytes_eqb fp) known then upload_issuers w i known r fs
    else
      let f1 := hd FOk fs in let f2 := hd FOk (tl fs) in
      let '(got, o1) := fetch w i (issuer_path fp) f1 in
      match got with
      | Some ob =>
        if obj_eqb ob (OB b) then
          let '(w', k', ok, o') := upload_issuers w i (fp :: known) r (tl fs) in (w', k', ok, o1 :: o')
        else (w, known, false, [o1])
      | None =>
        let '(w1, ok, o2) := world_upload w i (issuer_path fp) (OB b) UIssuer f2 in
        if ok then
          let '(w', k', ok', o') := upload_issuers w1 i (fp :: known) r (tl (tl fs)) in (w', k', ok', o1 :: o2 :: o')
        else (w1, known, false, [o1; o2])
      end
  end.

Definition step_submit (w : world) (i : nat) (x : inst) (e : entry) (low : bool) (victim : nat) (fs : list fault)
  : world * list obs :=
  let wid := w_nextwid w in
  let bump (w : world) := mkWorld (w_store w) (w_lock w) (w_now w) (w_insts w) (wid + 1)
                                  (w_lockhist w) (w_pubhist w) (w_acks w) (w_discards w) in
  let '(w1, known, ok, o) := upload_issuers w i (i_issuers x) (e_issuers e) fs in
  let x1 := mkInst (i_cfg x) (i_pc x) (i_tree x) (i_lockcp x) (i_leaves x) (i_pool x) (i_inseq x) (i_closed x)
                   known (i_cache x) (i_rctx x) (i_pub x) in
  if negb ok then
    let a := mkAck wid i e None (Some EIssuer) (published w1) in
    (bump (add_acks (set_i w1 i x1) [a]), o ++ [ObsSubmit i wid "issuer"; ObsAck wid None (Some EIssuer)])
  else
    let '(p', r) := admission (i_cfg x) (i_closed x) (i_pool x) (i_inseq x) (i_cache x) e low victim wid in
    let x2 := mkInst (i_cfg x) (i_pc x) (i_tree x) (i_lockcp x) (i_leaves x) p' (i_inseq x) (i_closed x)
                     known (i_cache x) (i_rctx x) (i_pub x) in
    let w2 := set_i w1 i x2 in
    match r with
    | AClosed er => let a := mkAck wid i e None (Some er) (published w2) in
                    (bump (add_acks w2 [a]), o ++ [ObsSubmit i wid "closed"; ObsAck wid None (Some er)])
    | ADup wd => (bump w2, o ++ [ObsSubmit i wd "pool"])
    | ACached idx ts => let a := mkAck wid i e (Some (idx, ts)) None (published w2) in
                        (bump (add_acks w2 [a]), o ++ [ObsSubmit i wid "cache"; ObsAck wid (Some (idx, ts)) None])
    | ARateLimited => let a := mkAck wid i e None (Some ERateLimit) (published w2) in
                      (bump (add_acks w2 [a]), o ++ [ObsSubmit i wid "ratelimit"; ObsAck wid None (Some ERateLimit)])
    | AAppended wd => (bump w2, o ++ [ObsSubmit i wd "sequencer"])
    | AEvicting wd vw =>
      let a := mkAck vw i e None (Some EEvicted) (published w2) in
      (bump (add_acks w2 [a]), o ++ [ObsSubmit i wd "sequencer"; ObsAck vw None (Some EEvicted)])
    end.

(* ---------- a sequencing round ---------- *)
Definition new_sleaves (p : pool) (first : N) (ts : Z) : list sleaf :=
  let fix go (l : list pend) (k : N) :=
    match l with
    | [] => []
    | x :: r => mkSleaf (leaf_of (p_entry x) k ts) (names_line (e_names (p_entry x)) ts) :: go r (k + 1)
    end in go (pl_leaves p) first.

(* sequence(): rotate the pools (under poolMu); sequencePool then reads the clock *)
Definition step_tick (w : world) (i : nat) (x : inst) : world * list obs :=
  match i_pc x with
  | PIdle =>
    let x1 := mkInst (i_cfg x) (PRound RClock) (i_tree x) (i_lockcp x) (i_leaves x) empty_pool (i_pool x) (i_closed x)
                     (i_issuers x) (i_cache x) (i_rctx x) (i_pub x) in
    (set_i w i x1, [])
  | _ => (w, [ObsNote "tick-ignored"])
  end.

(* sequencePool up to its first storage operation: read the clock, build the new tree *)
Definition step_clock (w : world) (i : nat) (x : inst) : world * list obs :=
    let p := i_inseq x in
    let ts := w_now w in
    let old := cp_size (i_tree x) in
    if (ts <=? cp_ts (i_tree x))%Z then
      (* fatal: time did not progress; RunSequencer then stops: both pools fail *)
      let x1 := mkInst (i_cfg x) PStopped (i_tree x) (i_lockcp x) (i_leaves x) empty_pool empty_pool (Some EFatal)
                       (i_issuers x) (i_cache x) (i_rctx x) (i_pub x) in
      let '(w1, o1) := fail_pool (set_i w i x1) i p EFatal in
      let '(w2, o2) := fail_pool w1 i (i_pool x) EFatal in
      (w2, o1 ++ o2 ++ [ObsRound i (Some EFatal) old (cp_root (i_tree x)) ts])
    else
      let nl := new_sleaves p old ts in
      let all := i_leaves x ++ nl in
      let new := old + N.of_nat (length nl) in
      let ups := round_uploads all old new in
      let ncp := mkCp (c_name (i_cfg x)) new (mroot (leaf_hashes all)) ts (c_key (i_cfg x)) [] in
      let r := mkRctx ts all ncp ups old in
      let x1 := mkInst (i_cfg x) (PRound (match ups with [] => RCas | _ => RStaging end)) (i_tree x) (i_lockcp x)
                       (i_leaves x) (i_pool x) p (i_closed x) (i_issuers x) (i_cache x) r (i_pub x) in
      (set_i w i x1, []).

Definition end_round (w : world) (i : nat) (x : inst) (res : option errc) : world * list obs :=
  let r := i_rctx x in
  let p := i_inseq x in
  match res with
  | None =>
    (* success: acknowledge, then cachePut (all or nothing: INSERT fails on an existing key) *)
    let a := acks_of_pool w i p (fun _ k => (Some (r_first r + N.of_nat k, r_ts r), None)) in
    let newkv := map (fun s => (ckey (mkEntry (l_cert (sl_leaf s)) (l_pre (sl_leaf s)) (l_ikh (sl_leaf s)) [] [] []),
                                (Z.to_N (l_idx (sl_leaf s)), l_ts (sl_leaf s))))
                     (skipn (N.to_nat (r_first r)) (r_all r)) in
    let clash := existsb (fun kv => match cache_get (i_cache x) (fst kv) with Some _ => true | None => false end) newkv in
    let cache' := if clash then i_cache x else i_cache x ++ newkv in
    let x1 := mkInst (i_cfg x) PIdle (i_tree x) (i_lockcp x) (i_leaves x) (i_pool x) empty_pool (i_closed x)
                     (i_issuers x) cache' (i_rctx x) (i_pub x) in
    (add_acks (set_i w i x1) a,
     obs_of_acks a ++ [ObsRound i None (cp_size (i_tree x)) (cp_root (i_tree x)) (cp_ts (i_tree x))])
  | Some EFatal =>
    let x1 := mkInst (i_cfg x) PStopped (i_tree x) (i_lockcp x) (i_leaves x) empty_pool empty_pool (Some EFatal)
                     (i_issuers x) (i_cache x) (i_rctx x) (i_pub x) in
    let '(w1, o1) := fail_pool (set_i w i x1) i p EFatal in
    let '(w2, o2) := fail_pool w1 i (i_pool x) EFatal in
    (w2, o1 ++ o2 ++ [ObsRound i (Some EFatal) (cp_size (i_tree x)) (cp_root (i_tree x)) (cp_ts (i_tree x))])
  | Some e =>
    let x1 := mkInst (i_cfg x) PIdle (i_tree x) (i_lockcp x) (i_leaves x) (i_pool x) empty_pool (i_closed x)
                     (i_issuers x) (i_cache x) (i_rctx x) (i_pub x) in
    let '(w1, o1) := fail_pool (set_i w i x1) i p e in
    (w1, o1 ++ [ObsRound i (Some e) (cp_size (i_tree x)) (cp_root (i_tree x)) (cp_ts (i_tree x))])
  end.

Definition step_round (w : world) (i : nat) (x : inst) (ph : phase) (f : fault) (choice : bytes) : world * list obs :=
  let r := i_rctx x in
  let ncp := r_new r in
  let spath := staging_path (cp_size ncp) (cp_root ncp) in
  match ph with
  | RClock => step_clock w i x
  | RStaging =>
    let '(w1, ok, o) := world_upload w i spath (OS (r_ups r)) UStaging f in
    if ok then (set_i w1 i (upd_pc x (PRound RCas)), [o])
    else let '(w2, o2) := end_round w1 i x (Some ENonFatal) in (w2, o :: o2)
  | RCas =>
    let can := match w_lock w with Some c => cp_eqb c (i_lockcp x) | None => false end in
    let eff := can && applied f in
    let ok := can && succeeded f in
    let w1 := if eff then mkWorld (w_store w) (Some ncp) (w_now w) (w_insts w) (w_nextwid w)
                                  (w_lockhist w ++ [(ncp, r_all r)]) (w_pubhist w) (w_acks w) (w_discards w)
              else w in
    let o := ObsOp i KLockReplace [] None (Some (OC ncp)) f ok in
    if ok then
      let x1 := mkInst (i_cfg x) (PRound (match r_ups r with [] => RCheckpoint | _ => RTiles (r_ups r) false end))
                       ncp ncp (r_all r) (i_pool x) (i_inseq x) (i_closed x) (i_issuers x) (i_cache x) r (i_pub x) in
      (set_i w1 i x1, [o])
    else let '(w2, o2) := end_round w1 i x (Some EFatal) in (w2, o :: o2)
  | RTiles todo failed =>
    match take_upload todo choice with
    | None => (w, [ObsNote "no-such-pending-upload"])
    | Some (u, rest) =>
      let '(w1, ok, o) := world_upload w i (u_key u) (opt_obj u) (u_opt u) f in
      let failed' := failed || negb ok in
      match rest with
      | [] => if failed' then let '(w2, o2) := end_round w1 i x (Some EFatal) in (w2, o :: o2)
              else (set_i w1 i (upd_pc x (PRound RCheckpoint)), [o])
      | _ => (set_i w1 i (upd_pc x (PRound (RTiles rest failed'))), [o])
      end
    end
  | RCheckpoint =>
    let '(w1, ok, o) := world_upload w i k_checkpoint (OC ncp) UCheckpoint f in
    if ok then
      match r_ups r with
      | [] => let '(w2, o2) := end_round w1 i x None in (w2, o :: o2)
      | _ => (set_i w1 i (upd_pc x (PRound RDiscard)), [o])
      end
    else let '(w2, o2) := end_round w1 i x (Some ENonFatal) in (w2, o :: o2)
  | RDiscard =>
    (* Backend.Discard of the staging bundle; its outcome is ignored *)
    let s' := if applied f then remove (w_store w) spath else w_store w in
    let w1 := mkWorld s' (w_lock w) (w_now w) (w_insts w) (w_nextwid w) (w_lockhist w) (w_pubhist w) (w_acks w)
                      (w_discards w ++ [(spath, published w)]) in
    let o := ObsOp i KDiscard spath None None f (succeeded f) in
    let '(w2, o2) := end_round w1 i x None in (w2, o :: o2)
  end.

(* ---------- cmd/recompute-cache ---------- *)
(* The tool opens the published checkpoint with the log's public key, iterates
   Client.Entries(tree, 0) (batches of 50 data tiles, each batch fetched and authenticated before
   any of its entries is yielded; the trailing partial tile only when the tree has no full tile) and
   executes one autocommitted INSERT OR IGNORE per entry. Reader specification as in LoadLog: a data
   tile is accepted exactly when it is the rendering of the committed leaf sequence. *)
Definition cache_insert_ignore (c : list (bytes * (N * Z))) (k : bytes) (v : N * Z) : list (bytes * (N * Z)) :=
  match cache_get c k with Some _ => c | None => c ++ [(k, v)] end.

Fixpoint recompute_entries (c : list (bytes * (N * Z))) (ls : list sleaf) (pos : N)
  : list (bytes * (N * Z)) * bool :=
  match ls with
  | [] => (c, true)
  | sl :: r =>
    if (l_idx (sl_leaf sl) =? Z.of_N pos)%Z then
      recompute_entries (cache_insert_ignore c (leaf_ckey (sl_leaf sl)) (pos, l_ts (sl_leaf sl))) r (pos + 1)
    else (c, false)
  end.

Definition rc_top (n : N) : N := let t := n / 256 * 256 in if t =? 0 then n else t.

Fixpoint rc_batch_tiles (k : nat) (tile_start top : N) : list (N * N) :=
  match k with
  | O => []
  | S k' => if tile_start <? top then
              (tile_start / 256, N.min 256 (top - tile_start)) :: rc_batch_tiles k' (tile_start + 256) top
            else []
  end.

Definition rc_tile_ok (s : store) (ls : list sleaf) (t : N * N) : bool :=
  match lookup s (data_tile_path (fst t) (snd t)) with
  | Some (OB b) => bytes_eqb b (data_tile_bytes (slice ls (fst t * 256) (snd t)))
  | _ => false
  end.

(* [lim] = Some m: the process is killed after m entries were inserted *)
Fixpoint rc_loop (fuel : nat) (s : store) (ls : list sleaf) (top start : N) (lim : option N)
                 (c : list (bytes * (N * Z))) : list (bytes * (N * Z)) * string :=
  match fuel with
  | O => (c, "fuel"%string)
  | S f =>
    if top <=? start then (c, "ok"%string) else
    if forallb (rc_tile_ok s ls) (rc_batch_tiles 50 start top) then
      let stop := N.min top (start + 12800) in
      let ents := slice ls start (stop - start) in
      let ents' := match lim with Some m => firstn (N.to_nat (m - start)) ents | None => ents end in
      let '(c1, ok) := recompute_entries c ents' start in
      if negb ok then (c1, "index"%string)
      else if (match lim with Some m => m <? stop | None => false end) then (c1, "killed"%string)
      else rc_loop f s ls top stop lim c1
    else (c, "tile"%string)
  end.

Definition set_cache (x : inst) (c : list (bytes * (N * Z))) : inst :=
  mkInst (i_cfg x) (i_pc x) (i_tree x) (i_lockcp x) (i_leaves x) (i_pool x) (i_inseq x)
         (i_closed x) (i_issuers x) c (i_rctx x) (i_pub x).

Definition step_recompute (w : world) (i : nat) (x : inst) (key : N) (lim : option N) : world * list obs :=
  match published w with
  | None => (w, [ObsNote "recompute-nocheckpoint"; ObsCache i (i_cache x)])
  | Some p =>
    if negb (cp_key p =? key) then (w, [ObsNote "recompute-signature"; ObsCache i (i_cache x)]) else
    match hist_leaves (w_lockhist w) p with
    | None => (w, [ObsNote "recompute-tile"; ObsCache i (i_cache x)])
    | Some ls =>
      let top := rc_top (cp_size p) in
      let '(c1, why) := rc_loop (N.to_nat (top / 12800) + 2) (w_store w) ls top 0 lim (i_cache x) in
      (set_i w i (set_cache x c1), [ObsNote ("recompute-" ++ why); ObsCache i c1])
    end
  end.

(* ---------- events ---------- *)
Inductive stop_why := SCancel | SSunset.

Inductive ev :=
| EvClock (now : Z)
| EvCreate (i : nat) (c : cfg)                 (* start CreateLog *)
| EvStart (i : nat) (c : cfg) (keepcache : option nat)   (* start LoadLog; cache taken over from instance keepcache *)
| EvStep (i : nat) (f : fault) (choice : bytes)          (* next storage/lock operation of instance i *)
| EvSubmit (i : nat) (e : entry) (low : bool) (victim : nat) (fs : list fault)
| EvTick (i : nat)
| EvCrash (i : nat)
| EvStop (i : nat) (why : stop_why)
| EvCacheDrop (i : nat) (keep : nat)          (* lose all but the first [keep] cache rows (rollback / loss) *)
| EvTamper (k : bytes) (o : option obj)      (* anything may be done to object storage *)
| EvRecompute (i : nat) (key : N) (lim : option N).  (* cmd/recompute-cache on the cache file of instance i *)

Definition step (w : world) (e : ev) : world * list obs :=
  match e with
  | EvClock now => (mkWorld (w_store w) (w_lock w) now (w_insts w) (w_nextwid w) (w_lockhist w) (w_pubhist w)
                            (w_acks w) (w_discards w), [])
  | EvCreate i c => (set_i w i (upd_pc (inst0 c) (PCreate 0)), [])
  | EvStart i c keep =>
    let cache := match keep with
                 | Some j => match get_inst (w_insts w) j with Some y => i_cache y | None => [] end
                 | None => [] end in
    let x := inst0 c in
    (set_i w i (mkInst c (PLoad LLock) cp0 cp0 [] empty_pool empty_pool None [] cache rctx0 cp0), [])
  | EvStep i f choice =>
    match get_inst (w_insts w) i with
    | None => (w, [ObsNote "no-such-instance"])
    | Some x =>
      match i_pc x with
      | PCreate k => step_create w i x k f
      | PLoad ph => step_load w i x ph f choice
      | PRound ph => step_round w i x ph f choice
      | _ => (w, [ObsNote "step-ignored"])
      end
    end
  | EvSubmit i e low victim fs =>
    match get_inst (w_insts w) i with
    | Some x => match i_pc x with
                | PIdle | PRound _ | PStopped => step_submit w i x e low victim fs
                | _ => (w, [ObsNote "submit-ignored"])
                end
    | None => (w, [ObsNote "no-such-instance"])
    end
  | EvTick i =>
    match get_inst (w_insts w) i with
    | Some x => step_tick w i x
    | None => (w, [ObsNote "no-such-instance"])
    end
  | EvCrash i =>
    match get_inst (w_insts w) i with
    | Some x => (set_i w i (upd_pc x PDead), [])
    | None => (w, [])
    end
  | EvStop i why =>
    match get_inst (w_insts w) i with
    | Some x =>
      match i_pc x with
      | PIdle =>
        (* RunSequencer returns ctx.Err() or SunsetLogError; its deferred handler fails the pool with it *)
        let er := match why with SCancel => ECanceled | SSunset => ESunset end in
        let x1 := mkInst (i_cfg x) PStopped (i_tree x) (i_lockcp x) (i_leaves x) empty_pool empty_pool (Some er)
                         (i_issuers x) (i_cache x) (i_rctx x) (i_pub x) in
        fail_pool (set_i w i x1) i (i_pool x) er
      | _ => (w, [ObsNote "stop-ignored"])
      end
    | None => (w, [])
    end
  | EvCacheDrop i keep =>
    match get_inst (w_insts w) i with
    | Some x => (set_i w i (mkInst (i_cfg x) (i_pc x) (i_tree x) (i_lockcp x) (i_leaves x) (i_pool x) (i_inseq x)
                                   (i_closed x) (i_issuers x) (firstn keep (i_cache x)) (i_rctx x) (i_pub x)), [])
    | None => (w, [])
    end
  | EvTamper k o =>
    (match o with
     | Some ob => set_store w (put (w_store w) k ob)
     | None => set_store w (remove (w_store w) k)
     end, [])
  | EvRecompute i key lim =>
    match get_inst (w_insts w) i with
    | Some x => step_recompute w i x key lim
    | None => (w, [ObsNote "no-such-instance"])
    end
  end.

Definition run (evs : list ev) (w : world) : world := fold_left (fun w e => fst (step w e)) evs w.

Fixpoint run_obs (evs : list ev) (w : world) : world * list (list obs) :=
  match evs with
  | [] => (w, [])
  | e :: r => let '(w1, o) := step w e in let '(w2, os) := run_obs r w1 in (w2, o :: os)
  end.

End Seq.
