(* Ctlog/Solo.v — histories in which at most one instance is live at a time (crashes and restarts:
   the quantifier of C01/C02/C03). In every such history each upload of the checkpoint object
   carries the then-current lock value (PubMono.uploads_current), hence the published history is
   append-only (PubMono.published_history_append_only). With two live instances this is false
   of the code: Properties/C06.v, C06_published_rollback_refuted. *)
From SL Require Import Base.BytesProofs Ctlog.Model Ctlog.Recompute Ctlog.Spec Ctlog.Inv Ctlog.InvStep Ctlog.PubMono.
From Coq Require Import ZifyN ZifyNat ZifyBool.
Open Scope N_scope.

Section S.
Variable sha : bytes -> bytes.
Notation step := (step sha).
Notation run := (run sha).
Notation Inv := (Inv sha).
Notation end_round := (end_round sha).
Notation step_create := (step_create sha).
Notation step_load := (step_load sha).
Notation step_round := (step_round sha).
Notation step_clock := (step_clock sha).
Notation step_submit := (step_submit sha).

Definition live (x : inst) : bool :=
  match i_pc x with PNone | PDead | PStopped => false | _ => true end.

Definition solo (w : world) : Prop :=
  forall i j x y, get_inst (w_insts w) i = Some x -> get_inst (w_insts w) j = Some y ->
                  live x = true -> live y = true -> i = j.

(* every state along the run has at most one live instance *)
Fixpoint solo_run (evs : list ev) (w : world) : Prop :=
  match evs with
  | [] => solo w
  | e :: r => solo w /\ solo_run r (fst (step w e))
  end.

(* the checkpoint value an instance takes to be the current lock value *)
Definition believes (x : inst) : option cp :=
  match i_pc x with
  | PCreate k => if (3 <=? k)%nat then Some (i_tree x) else None
  | PLoad LLock => None
  | PLoad _ => Some (i_lockcp x)
  | PIdle | PRound _ => Some (i_lockcp x)
  | _ => None
  end.

Definition SInv (w : world) : Prop :=
  (forall i x c, get_inst (w_insts w) i = Some x -> believes x = Some c -> w_lock w = Some c)
  /\ uploads_current w.

Lemma believes_live x c : believes x = Some c -> live x = true.
Proof. unfold believes, live. destruct (i_pc x) as [|k|ph| |ph| |]; try discriminate; auto. Qed.

Lemma SInv_init : SInv init.
Proof. split; [cbn; discriminate|intros c k []]. Qed.

Ltac fields := cbn [w_lockhist w_lock w_pubhist w_insts w_store w_acks set_i add_acks set_store fst snd] in *.

(* the lock is untouched, one instance changes without acquiring a new belief *)
Lemma SInv_upd w w' i x x' :
  SInv w -> get_inst (w_insts w) i = Some x ->
  w_lockhist w' = w_lockhist w -> w_lock w' = w_lock w -> w_insts w' = set_inst (w_insts w) i x' ->
  w_pubhist w' = w_pubhist w ->
  (believes x' = None \/ believes x' = believes x) -> SInv w'.
Proof.
  intros [B U] G Eh El Ei Ep Hb. split.
  - rewrite El, Ei. intros j y c Gj Hc. destruct (Nat.eq_dec i j) as [->|N].
    + rewrite get_set_same in Gj. inversion Gj; subst y. destruct Hb as [Hb|Hb]; [congruence|].
      rewrite Hb in Hc. eauto.
    + rewrite get_set_other in Gj by assumption. eauto.
  - unfold uploads_current. rewrite Ep, Eh. exact U.
Qed.

(* an upload of the checkpoint object by an instance that believes in that checkpoint *)
Lemma SInv_upload w w1 i x x' k o opt f ok ob :
  Inv w -> SInv w -> get_inst (w_insts w) i = Some x ->
  world_upload w i k o opt f = (w1, ok, ob) ->
  (forall c, o = OC c -> believes x = Some c) ->
  (believes x' = None \/ believes x' = believes x) ->
  SInv (set_i w1 i x').
Proof.
  intros HI [B U] G E Hc Hb.
  apply upload_frame in E. destruct E as (A1 & A2 & A3 & A4). split.
  - fields. rewrite A2, A3. intros j y c Gj Hy. destruct (Nat.eq_dec i j) as [->|N].
    + rewrite get_set_same in Gj. inversion Gj; subst y. destruct Hb as [Hb|Hb]; [congruence|].
      rewrite Hb in Hy. eauto.
    + rewrite get_set_other in Gj by assumption. eauto.
  - unfold uploads_current. fields. rewrite A1.
    destruct A4 as [A4|[c [Eo A4]]]; rewrite A4; [exact U|].
    intros c0 k0 Hin. apply in_app_or in Hin. destruct Hin as [Hin|[Hin|[]]]; [eauto|].
    inversion Hin; subst c0 k0; clear Hin.
    specialize (Hc c Eo). pose proof (B _ _ _ G Hc) as Hl.
    destruct HI as (_ & LL & _). rewrite Hl in LL. destruct LL as (h' & ls & Eh).
    exists ls. rewrite Eh, app_length. cbn [length].
    replace (length h' + 1 - 1)%nat with (length h') by lia.
    rewrite nth_error_app2 by lia. rewrite Nat.sub_diag. split; [reflexivity|lia].
Qed.

Lemma SInv_same w0 w :
  SInv w0 -> w_lockhist w = w_lockhist w0 -> w_lock w = w_lock w0 -> w_insts w = w_insts w0 ->
  w_pubhist w = w_pubhist w0 -> SInv w.
Proof. intros [B U] Eh El Ei Ep. split; [rewrite El, Ei; exact B|unfold uploads_current; rewrite Ep, Eh; exact U]. Qed.

Lemma end_round_sinv w i x res :
  SInv w -> get_inst (w_insts w) i = Some x -> believes x = Some (i_lockcp x) ->
  SInv (fst (end_round w i x res)).
Proof.
  intros HS G Hb. destruct (end_round w i x res) as [w1 o] eqn:E. cbn [fst].
  apply end_round_frame in E. destruct E as (A1 & A2 & A3 & x1 & A4 & Hpc & T1 & T2 & T3).
  eapply SInv_upd with (i := i) (x' := x1); try eassumption.
  destruct Hpc as [Hp|Hp].
  - right. unfold believes at 1. rewrite Hp, T2. symmetry. exact Hb.
  - left. unfold believes. rewrite Hp. reflexivity.
Qed.

Lemma sinv_of_upload_then w w1 i k o opt f ok ob :
  SInv w -> world_upload w i k o opt f = (w1, ok, ob) -> (forall c, o <> OC c) -> SInv w1.
Proof.
  intros HS E Hn. apply upload_frame in E. destruct E as (A1 & A2 & A3 & A4).
  eapply SInv_same; try eassumption.
  destruct A4 as [A4|[c [Eo _]]]; [assumption|]. exfalso. eapply Hn; eauto.
Qed.

Lemma end_round_fatal w i x w1 o :
  end_round w i x (Some EFatal) = (w1, o) ->
  w_lockhist w1 = w_lockhist w /\ w_lock w1 = w_lock w /\ w_pubhist w1 = w_pubhist w /\
  exists x1, w_insts w1 = set_inst (w_insts w) i x1 /\ i_pc x1 = PStopped.
Proof.
  unfold Model.end_round.
  destruct (fail_pool _ _ _ _) as [wa oa] eqn:Ea.
  destruct (fail_pool wa _ _ _) as [wb ob] eqn:Eb.
  apply fail_pool_frame in Ea. destruct Ea as (A1 & A2 & A3 & A4).
  apply fail_pool_frame in Eb. destruct Eb as (B1 & B2 & B3 & B4).
  intro E; inversion E; subst; clear E. fields.
  split; [congruence|]. split; [congruence|]. split; [congruence|].
  eexists. split; [rewrite B3, A3; reflexivity|reflexivity].
Qed.

Ltac er_wrap :=
  match goal with
  | |- context [Model.end_round ?s ?a ?b ?c ?d] =>
    let E := fresh "E" in
    destruct (Model.end_round s a b c d) as [? ?] eqn:E; cbn [fst];
    match type of E with _ = (?w2, _) =>
      replace w2 with (fst (Model.end_round s a b c d)) by (rewrite E; reflexivity) end
  end.

Lemma step_round_sinv w i x ph f choice :
  Inv w -> solo w -> SInv w -> get_inst (w_insts w) i = Some x -> i_pc x = PRound ph ->
  SInv (fst (step_round w i x ph f choice)).
Proof.
  intros HI So HS G Hpc. pose proof (inst_of_inv _ _ _ _ HI G) as Hx.
  unfold Inv.inst_inv in Hx. rewrite Hpc in Hx.
  assert (Hb : believes x = Some (i_lockcp x)) by (unfold believes; rewrite Hpc; reflexivity).
  assert (Hlive : live x = true) by (unfold live; rewrite Hpc; reflexivity).
  destruct ph.
  - (* clock *)
    unfold Model.step_round, Model.step_clock.
    destruct (w_now w <=? cp_ts (i_tree x))%Z.
    + destruct (fail_pool _ _ _ _) as [w1 o1] eqn:E1.
      destruct (fail_pool w1 _ _ _) as [w2 o2] eqn:E2.
      apply fail_pool_frame in E1. destruct E1 as (A1 & A2 & A3 & A4).
      apply fail_pool_frame in E2. destruct E2 as (B1 & B2 & B3 & B4). fields.
      eapply SInv_upd with (i := i); try eassumption; fields; try congruence.
      * rewrite B3, A3. reflexivity.
      * left. reflexivity.
    + cbn [fst]. eapply SInv_upd with (i := i); try eassumption; fields; try reflexivity.
      right. rewrite Hb. reflexivity.
  - (* staging *)
    unfold Model.step_round.
    destruct (world_upload _ _ _ _ _ _) as [[w1 ok] o] eqn:E.
    assert (HS1 : SInv w1) by (eapply sinv_of_upload_then; eauto; intros c Hc; discriminate).
    pose proof (upload_frame _ _ _ _ _ _ _ _ _ E) as (A1 & A2 & A3 & A4).
    assert (G1 : get_inst (w_insts w1) i = Some x) by (rewrite A3; assumption).
    destruct ok.
    + cbn [fst]. eapply SInv_upd with (w := w1) (i := i) (x := x) (x' := upd_pc x (PRound RCas));
        try eassumption; fields; try reflexivity.
      right. rewrite Hb. reflexivity.
    + er_wrap. apply end_round_sinv; assumption.
  - (* compare-and-swap *)
    unfold Model.step_round.
    set (can := match w_lock w with Some c => cp_eqb c (i_lockcp x) | None => false end).
    destruct can; cbn [andb].
    + destruct (applied f) eqn:Eap.
      * (* the lock changes: nobody else believes anything, by solo *)
        assert (Others : forall j y c, get_inst (w_insts w) j = Some y -> believes y = Some c -> j = i).
        { intros j y c Gj Hy. apply (So j i y x Gj G); [eapply believes_live; eauto|assumption]. }
        destruct HS as [B U].
        set (w1 := mkWorld (w_store w) (Some (r_new (i_rctx x))) (w_now w) (w_insts w) (w_nextwid w)
                           (w_lockhist w ++ [(r_new (i_rctx x), r_all (i_rctx x))]) (w_pubhist w) (w_acks w) (w_discards w)).
        assert (U1 : uploads_current w1).
        { intros c k Hin. destruct (U c k Hin) as (ls & Hn & Hk). exists ls. split; [|assumption].
          subst w1. fields. rewrite nth_error_app1; [assumption|]. apply nth_error_Some. congruence. }
        destruct (succeeded f) eqn:Esu.
        -- cbn [fst]. split.
           ++ fields. intros j y c Gj Hy. destruct (Nat.eq_dec i j) as [->|N].
              ** rewrite get_set_same in Gj. inversion Gj; subst y. unfold believes in Hy. cbn [i_pc i_lockcp] in Hy.
                 destruct (r_ups (i_rctx x)); inversion Hy; reflexivity.
              ** rewrite get_set_other in Gj by assumption. exfalso. apply N. symmetry. eapply Others; eauto.
           ++ exact U1.
        -- destruct (end_round w1 i x (Some EFatal)) as [w2 o2] eqn:E2. cbn [fst].
           apply end_round_fatal in E2. destruct E2 as (A1 & A2 & A3 & x1 & A4 & Hp1).
           split.
           ++ rewrite A2, A4. subst w1. fields. intros j y c Gj Hy. destruct (Nat.eq_dec i j) as [->|N].
              ** rewrite get_set_same in Gj. inversion Gj; subst y. unfold believes in Hy. rewrite Hp1 in Hy. discriminate.
              ** rewrite get_set_other in Gj by assumption. exfalso. apply N. symmetry. eapply Others; eauto.
           ++ unfold uploads_current. rewrite A3, A1. exact U1.
      * assert (Esu : succeeded f = false) by (destruct f; cbn in *; congruence). rewrite Esu. cbv iota.
        er_wrap. apply end_round_sinv; assumption.
    + er_wrap. apply end_round_sinv; assumption.
  - (* tile uploads *)
    unfold Model.step_round.
    destruct (take_upload todo choice) as [[u rest]|]; [|exact HS].
    destruct (world_upload _ _ _ _ _ _) as [[w1 ok] o] eqn:E.
    assert (HS1 : SInv w1) by (eapply sinv_of_upload_then; eauto; intros c Hc; unfold opt_obj in Hc; discriminate).
    pose proof (upload_frame _ _ _ _ _ _ _ _ _ E) as (A1 & A2 & A3 & A4).
    assert (G1 : get_inst (w_insts w1) i = Some x) by (rewrite A3; assumption).
    destruct rest as [|u' rest'].
    + destruct (failed || negb ok).
      * er_wrap. apply end_round_sinv; assumption.
      * cbn [fst]. eapply SInv_upd with (w := w1) (i := i) (x := x) (x' := upd_pc x (PRound RCheckpoint));
          try eassumption; fields; try reflexivity.
        right. rewrite Hb. reflexivity.
    + cbn [fst]. eapply SInv_upd with (w := w1) (i := i) (x := x)
        (x' := upd_pc x (PRound (RTiles (u' :: rest') (failed || negb ok)))); try eassumption; fields; try reflexivity.
      right. rewrite Hb. reflexivity.
  - (* checkpoint upload: the instance believes in exactly this checkpoint *)
    destruct Hx as [[Lin Etree] R].
    unfold Model.step_round.
    destruct (world_upload _ _ _ _ _ _) as [[w1 ok] o] eqn:E.
    pose proof (upload_frame _ _ _ _ _ _ _ _ _ E) as (A1 & A2 & A3 & A4).
    assert (HSx : forall x', (believes x' = None \/ believes x' = believes x) -> SInv (set_i w1 i x')).
    { intros x' Hx'. eapply SInv_upload; eauto.
      intros c Hc. inversion Hc; subst c. rewrite Hb, R, Etree. reflexivity. }
    assert (HS1 : SInv w1).
    { pose proof (HSx x (or_intror eq_refl)) as H.
      destruct H as [B U]. split.
      - fields. intros j y c Gj Hy. apply (B j y c); [|assumption].
        rewrite A3 in Gj. destruct (Nat.eq_dec i j) as [->|N].
        + rewrite get_set_same. congruence.
        + rewrite get_set_other by assumption. rewrite A3. assumption.
      - exact U. }
    assert (G1 : get_inst (w_insts w1) i = Some x) by (rewrite A3; assumption).
    destruct ok.
    + destruct (r_ups (i_rctx x)).
      * er_wrap. apply end_round_sinv; assumption.
      * cbn [fst]. apply HSx. right. rewrite Hb. reflexivity.
    + er_wrap. apply end_round_sinv; assumption.
  - (* discard *)
    unfold Model.step_round.
    match goal with |- context [end_round ?a i x None] => set (w1 := a) end.
    er_wrap. apply end_round_sinv; try assumption.
    all: try (eapply SInv_same; try eassumption; try (subst w1; reflexivity)).
Qed.

Lemma SInv_upd_gen w w' i x' :
  SInv w ->
  w_lockhist w' = w_lockhist w -> w_lock w' = w_lock w -> w_insts w' = set_inst (w_insts w) i x' ->
  w_pubhist w' = w_pubhist w ->
  (forall c, believes x' = Some c -> w_lock w = Some c) -> SInv w'.
Proof.
  intros [B U] Eh El Ei Ep Hb. split.
  - rewrite El, Ei. intros j y c Gj Hc. destruct (Nat.eq_dec i j) as [->|N].
    + rewrite get_set_same in Gj. inversion Gj; subst y. auto.
    + rewrite get_set_other in Gj by assumption. eauto.
  - unfold uploads_current. rewrite Ep, Eh. exact U.
Qed.

Ltac gen_none i X :=
  cbn [fst]; eapply SInv_upd_gen with (i := i) (x' := X);
  [eassumption | cbn [w_lockhist set_i]; congruence | cbn [w_lock set_i]; congruence
  | cbn [w_insts set_i]; congruence | cbn [w_pubhist set_i]; congruence
  | try (intros ? Hbel; unfold believes in Hbel; cbn in Hbel; discriminate Hbel) ].

Lemma step_create_sinv w i x k f :
  Inv w -> SInv w -> get_inst (w_insts w) i = Some x -> i_pc x = PCreate k ->
  SInv (fst (step_create w i x k f)).
Proof.
  intros HI HS G Hpc. pose proof (inst_of_inv _ _ _ _ HI G) as Hx.
  unfold Inv.inst_inv in Hx. rewrite Hpc in Hx.
  unfold Model.step_create.
  destruct k as [|[|[|[|k]]]].
  - match goal with |- context [if ?b then _ else _] => destruct b end.
    + gen_none i (upd_pc x PNone).
    + gen_none i (upd_pc x (PCreate 1)).
  - destruct (fetch w i k_checkpoint f) as [r o]. destruct r.
    + gen_none i (upd_pc x PNone).
    + gen_none i (upd_pc x (PCreate 2)).
  - set (c0 := mkCp (c_name (i_cfg x)) 0 (hempty sha) (w_now w) (c_key (i_cfg x)) []).
    destruct (w_lock w) as [lc|] eqn:El; cbn [andb].
    + gen_none i (upd_pc x PNone).
    + destruct HS as [B U].
      assert (Nobody : forall j y c, get_inst (w_insts w) j = Some y -> believes y = Some c -> False).
      { intros j y c Gj Hy. specialize (B _ _ _ Gj Hy). congruence. }
      assert (U1 : forall ph, uploads_current
                (mkWorld (w_store w) (Some c0) (w_now w) (w_insts w) (w_nextwid w)
                         (w_lockhist w ++ [(c0, [])]) ph (w_acks w) (w_discards w)) -> True) by auto.
      destruct (applied f) eqn:Eap.
      * destruct (succeeded f) eqn:Esu; cbn [fst]; (split;
          [ fields; intros j y c Gj Hy; destruct (Nat.eq_dec i j) as [->|N];
            [ rewrite get_set_same in Gj; inversion Gj; subst y; unfold believes in Hy; cbn in Hy;
              try discriminate; inversion Hy; reflexivity
            | rewrite get_set_other in Gj by assumption; exfalso; eapply Nobody; eauto ]
          | intros c k Hin; fields; destruct (U c k Hin) as (ls & Hn & Hk); exists ls; split; [|assumption];
            rewrite nth_error_app1; [assumption|apply nth_error_Some; congruence] ]).
      * assert (Esu : succeeded f = false) by (destruct f; cbn in *; congruence). rewrite Esu.
        eapply SInv_upd_gen with (w := w) (i := i) (x' := upd_pc x PNone); fields; try reflexivity.
        -- split; assumption.
        -- intros c Hbel. unfold believes in Hbel. cbn in Hbel. discriminate.
  - (* upload of the first checkpoint: the instance believes in it *)
    destruct (world_upload _ _ _ _ _ _) as [[w1 ok] o] eqn:E.
    assert (Hb : believes x = Some (i_tree x)) by (unfold believes; rewrite Hpc; reflexivity).
    destruct ok; cbn [fst].
    + apply (SInv_upload _ _ _ _ (upd_pc x (PCreate 4)) _ _ _ _ _ _ HI HS G E).
      * intros c Hc; inversion Hc; subst; exact Hb.
      * right. rewrite Hb. reflexivity.
    + apply (SInv_upload _ _ _ _ (upd_pc x PNone) _ _ _ _ _ _ HI HS G E).
      * intros c Hc; inversion Hc; subst; exact Hb.
      * left. reflexivity.
  - destruct (world_upload _ _ _ _ _ _) as [[w1 ok] o] eqn:E.
    destruct ok; cbn [fst]; apply (SInv_upload _ _ _ _ (upd_pc x PNone) _ _ _ _ _ _ HI HS G E);
      try (intros c Hc; discriminate); left; reflexivity.
Qed.

Ltac gen_keep i X Hb :=
  cbn [fst]; eapply SInv_upd_gen with (i := i) (x' := X);
  [eassumption | cbn [w_lockhist set_i]; congruence | cbn [w_lock set_i]; congruence
  | cbn [w_insts set_i]; congruence | cbn [w_pubhist set_i]; congruence
  | intros ? Hbel; unfold believes in Hbel; cbn in Hbel; inversion Hbel; subst; exact Hb ].

Lemma after_apply_sinv w0 w i x :
  SInv w0 -> w_lockhist w = w_lockhist w0 -> w_lock w = w_lock w0 -> w_insts w = w_insts w0 ->
  w_pubhist w = w_pubhist w0 -> w_lock w0 = Some (i_lockcp x) ->
  SInv (fst (after_apply w i x)).
Proof.
  intros HS Eh El Ei Ep Hl. unfold after_apply.
  destruct (cp_size (i_lockcp x) =? 0).
  - gen_keep i (upd_pc x (PLoad LRoots)) Hl.
  - gen_keep i (upd_pc x (PLoad (LEdge (rev (edge_tiles (cp_size (i_lockcp x))))))) Hl.
Qed.

Ltac aa_wrap :=
  match goal with
  | |- context [after_apply ?a ?b ?c] =>
    let E := fresh "E" in
    destruct (after_apply a b c) as [? ?] eqn:E; cbn [fst];
    match type of E with _ = (?w2, _) =>
      replace w2 with (fst (after_apply a b c)) by (rewrite E; reflexivity) end
  end.

Lemma step_load_sinv w i x ph f choice :
  Inv w -> SInv w -> get_inst (w_insts w) i = Some x -> i_pc x = PLoad ph ->
  SInv (fst (step_load w i x ph f choice)).
Proof.
  intros HI HS G Hpc.
  assert (FAIL : forall why o, SInv (fst (load_fail w i x why o))).
  { intros why o. unfold load_fail. gen_none i (upd_pc x PNone). }
  assert (Hbl : ph <> LLock -> w_lock w = Some (i_lockcp x)).
  { intro Hne. destruct HS as [B _]. apply (B i x); [assumption|]. unfold believes. rewrite Hpc.
    destruct ph; try reflexivity. congruence. }
  unfold Model.step_load.
  destruct ph.
  - (* LLock: the belief is acquired from the lock store itself *)
    match goal with |- context [match ?r with Some _ => _ | None => load_fail _ _ _ _ _ end] => destruct r as [lc|] eqn:Er end;
      [|apply FAIL].
    destruct (open_checkpoint (i_cfg x) (w_now w) (OC lc)) as [[lc'|]|why] eqn:Eo; try apply FAIL.
    apply open_checkpoint_same in Eo. subst lc'.
    assert (Hl : w_lock w = Some lc).
    { destruct (succeeded f); [|discriminate]. destruct (w_lock w) as [l0|]; [|discriminate].
      destruct (cp_key l0 =? c_key (i_cfg x)); [|discriminate]. congruence. }
    gen_keep i (set_load x LPub lc cp0) Hl.
  - assert (Hl := Hbl ltac:(discriminate)).
    destruct (fetch w i k_checkpoint f) as [r o]. destruct r as [ob|]; [|apply FAIL].
    destruct (open_checkpoint (i_cfg x) (w_now w) ob) as [[p|]|why]; try apply FAIL.
    repeat match goal with |- context [if ?b then _ else _] => destruct b end; try apply FAIL.
    + gen_keep i (set_load x LLegacy (i_lockcp x) p) Hl.
    + aa_wrap. eapply after_apply_sinv; eauto.
  - assert (Hl := Hbl ltac:(discriminate)).
    destruct (fetch w i _ f) as [r o]. destruct r; [apply FAIL|].
    gen_keep i (upd_pc x (PLoad LStaging)) Hl.
  - assert (Hl := Hbl ltac:(discriminate)).
    destruct (fetch w i _ f) as [r o]. destruct r as [[b|c|ups]|]; try apply FAIL.
    destruct ups as [|u ups].
    + aa_wrap. eapply after_apply_sinv; eauto.
    + gen_keep i (upd_pc x (PLoad (LApply (u :: ups) false))) Hl.
  - assert (Hl := Hbl ltac:(discriminate)).
    destruct (take_upload todo choice) as [[u rest]|]; [|exact HS].
    destruct (world_upload _ _ _ _ _ _) as [[w1 ok] o] eqn:E.
    assert (HS1 : SInv w1) by (eapply sinv_of_upload_then; eauto; intros c Hc; unfold opt_obj in Hc; discriminate).
    pose proof (upload_frame _ _ _ _ _ _ _ _ _ E) as (A1 & A2 & A3 & A4).
    assert (A5 : w_pubhist w1 = w_pubhist w).
    { destruct A4 as [?|[c [X _]]]; [assumption|unfold opt_obj in X; discriminate]. }
    assert (Hl1 : w_lock w1 = Some (i_lockcp x)) by congruence.
    destruct rest as [|u' rest'].
    + destruct (failed || negb ok).
      * unfold load_fail. cbn [fst].
        eapply SInv_upd_gen with (w := w1) (i := i) (x' := upd_pc x PNone); try eassumption; fields; try reflexivity.
        intros c Hbel. unfold believes in Hbel. cbn in Hbel. discriminate.
      * aa_wrap. eapply after_apply_sinv with (w0 := w1); eauto.
    + cbn [fst]. eapply SInv_upd_gen with (w := w1) (i := i)
        (x' := upd_pc x (PLoad (LApply (u' :: rest') (failed || negb ok)))); try eassumption; fields; try reflexivity.
      intros c Hbel. unfold believes in Hbel. cbn in Hbel. inversion Hbel; subst. exact Hl1.
  - assert (Hl := Hbl ltac:(discriminate)).
    destruct todo as [|t rest].
    + gen_keep i (upd_pc x (PLoad LData)) Hl.
    + destruct (fetch w i _ f) as [r o].
      destruct r as [[b|c|ups]|]; try apply FAIL.
      destruct (hist_leaves (w_lockhist w) (i_lockcp x)); try apply FAIL.
      destruct (bytes_eqb b _); try apply FAIL.
      destruct rest; [gen_keep i (upd_pc x (PLoad LData)) Hl | gen_keep i (upd_pc x (PLoad (LEdge (t0 :: rest)))) Hl].
  - assert (Hl := Hbl ltac:(discriminate)).
    destruct (fetch w i _ f) as [r o].
    destruct r as [[b|c|ups]|]; try apply FAIL.
    destruct (hist_leaves (w_lockhist w) (i_lockcp x)); try apply FAIL.
    destruct (bytes_eqb b _); try apply FAIL.
    gen_keep i (upd_pc x (PLoad LRoots)) Hl.
  - assert (Hl := Hbl ltac:(discriminate)).
    destruct (fetch w i k_roots f) as [r o].
    match goal with |- SInv (fst (set_i w i ?X, _)) => gen_keep i X Hl end.
Qed.

Lemma step_submit_sinv w i x e low victim fs :
  SInv w -> get_inst (w_insts w) i = Some x ->
  SInv (fst (step_submit w i x e low victim fs)).
Proof.
  intros HS G. unfold Model.step_submit.
  destruct (upload_issuers sha w i (i_issuers x) (e_issuers e) fs) as [[[w1 known] ok] o] eqn:E.
  apply upload_issuers_frame in E. destruct E as (A1 & A2 & A3 & A4).
  assert (HS1 : SInv w1) by (eapply SInv_same; eauto).
  assert (G1 : get_inst (w_insts w1) i = Some x) by (rewrite A3; assumption).
  destruct ok; cbn [negb].
  - destruct (admission sha _ _ _ _ _ _ _ _ _) as [p' r].
    destruct r; cbn [fst];
      (eapply SInv_upd with (w := w1) (i := i) (x := x);
       [eassumption|eassumption|fields; reflexivity|fields; reflexivity|fields; reflexivity|fields; reflexivity|right; reflexivity]).
  - cbn [fst].
    eapply SInv_upd with (w := w1) (i := i) (x := x);
      [eassumption|eassumption|fields; reflexivity|fields; reflexivity|fields; reflexivity|fields; reflexivity|right; reflexivity].
Qed.

Theorem SInv_step w e : Inv w -> solo w -> SInv w -> SInv (fst (step w e)).
Proof.
  intros HI So HS. destruct e; unfold Model.step.
  - cbn [fst]. eapply SInv_same; eauto.
  - gen_none i (upd_pc (inst0 c) (PCreate 0)).
  - match goal with |- SInv (fst (set_i w i ?X, _)) => gen_none i X end.
  - destruct (get_inst (w_insts w) i) as [x|] eqn:G; [|exact HS].
    destruct (i_pc x) eqn:Hpc; try exact HS.
    + apply step_create_sinv; assumption.
    + apply step_load_sinv; assumption.
    + apply step_round_sinv; assumption.
  - destruct (get_inst (w_insts w) i) as [x|] eqn:G; [|exact HS].
    destruct (i_pc x); try exact HS; apply step_submit_sinv; assumption.
  - destruct (get_inst (w_insts w) i) as [x|] eqn:G; [|exact HS].
    unfold step_tick. destruct (i_pc x) eqn:Hpc; try exact HS.
    cbn [fst]. match goal with |- SInv (set_i w i ?X) =>
      eapply SInv_upd with (i := i) (x := x) (x' := X); try eassumption; fields; try reflexivity end.
    right. unfold believes. cbn [i_pc i_lockcp]. rewrite Hpc. reflexivity.
  - destruct (get_inst (w_insts w) i) as [x|] eqn:G; [|exact HS].
    gen_none i (upd_pc x PDead).
  - destruct (get_inst (w_insts w) i) as [x|] eqn:G; [|exact HS].
    destruct (i_pc x) eqn:Hpc; try exact HS.
    destruct (fail_pool _ _ _ _) as [w1 o1] eqn:E1.
    apply fail_pool_frame in E1. destruct E1 as (A1 & A2 & A3 & A4). fields.
    eapply SInv_upd_gen with (i := i); try eassumption; try congruence.
    intros c Hbel. unfold believes in Hbel. cbn in Hbel. discriminate.
  - destruct (get_inst (w_insts w) i) as [x|] eqn:G; [|exact HS].
    cbn [fst]. match goal with |- SInv (set_i w i ?X) =>
      eapply SInv_upd with (i := i) (x := x) (x' := X); try eassumption; fields; try reflexivity end.
    right. reflexivity.
  - cbn [fst]. destruct o; (eapply SInv_same; [eassumption|reflexivity..]).
  - destruct (get_inst (w_insts w) i) as [x|] eqn:G; [|exact HS].
    destruct (step_recompute_spec sha w i x key lim) as [E|(p & ls & c1 & why & _ & _ & _ & E)]; rewrite E; [exact HS|].
    match goal with |- SInv (set_i w i ?X) =>
      eapply SInv_upd with (i := i) (x := x) (x' := X); try eassumption; fields; try reflexivity end.
    right. reflexivity.
Qed.

(* whenever at most one instance is live at a time, every upload of the checkpoint object
   carries the current lock value *)
Theorem solo_uploads_current evs : forall w, Inv w -> SInv w -> solo_run evs w -> SInv (run evs w).
Proof.
  induction evs as [|e r IH]; intros w HI HS So; cbn in *; [assumption|].
  destruct So as [So1 So2]. apply IH; [apply Inv_step; assumption|apply SInv_step; assumption|assumption].
Qed.

Theorem solo_run_uploads_current evs : solo_run evs init -> uploads_current (run evs init).
Proof. intro So. apply (solo_uploads_current evs init (Inv_init sha) SInv_init So). Qed.

(* an executable check of [solo_run], for the non-vacuity examples *)
Definition count_live (l : list (nat * inst)) : nat := length (filter (fun p => live (snd p)) l).
Definition solo_b (w : world) : bool := (count_live (w_insts w) <=? 1)%nat.
Fixpoint solo_run_b (evs : list ev) (w : world) : bool :=
  match evs with
  | [] => solo_b w
  | e :: r => solo_b w && solo_run_b r (fst (step w e))
  end.

Lemma get_inst_in l i x : get_inst l i = Some x -> In (i, x) l.
Proof.
  induction l as [|[j y] r IH]; cbn; [discriminate|].
  destruct (Nat.eqb_spec i j); intro H; [inversion H; subst; left; reflexivity|right; auto].
Qed.

Lemma solo_b_sound w : solo_b w = true -> solo w.
Proof.
  unfold solo_b, solo, count_live. intros H i j x y Gi Gj Lx Ly.
  apply Nat.leb_le in H.
  destruct (Nat.eq_dec i j) as [E|N]; [assumption|exfalso].
  apply get_inst_in in Gi, Gj.
  set (f := fun p : nat * inst => live (snd p)) in *.
  assert (Fi : In (i, x) (filter f (w_insts w))) by (apply filter_In; split; [assumption|exact Lx]).
  assert (Fj : In (j, y) (filter f (w_insts w))) by (apply filter_In; split; [assumption|exact Ly]).
  destruct (filter f (w_insts w)) as [|a [|b r]]; [destruct Fi| |cbn in H; lia].
  destruct Fi as [Fi|[]], Fj as [Fj|[]]. congruence.
Qed.

Lemma solo_run_b_sound evs : forall w, solo_run_b evs w = true -> solo_run evs w.
Proof.
  induction evs as [|e r IH]; intros w H; cbn in *; [now apply solo_b_sound|].
  apply andb_true_iff in H. destruct H as [H1 H2]. split; [now apply solo_b_sound|auto].
Qed.

End S.
