(* Ctlog/Legacy.v — the dedup-cache lookup of cache.go with the pre-v0.8.1 128-bit table
   (cacheGet: cache256 first; on a miss, when the instance found a table "cache" at load time, that
   table under the key truncated to 16 bytes; when the table has been dropped meanwhile the
   fallback is switched off). Definitions only; proofs in Ctlog/LegacyProofs.v.

   The world model (Ctlog/Model.v) looks a key up with [cache_get] alone: lemma
   [cache_get2_plain] (LegacyProofs.v) shows that this is cacheGet for every instance whose cache
   file has no legacy table, which is the case the sequencer theorems speak about. *)
From SL Require Export Ctlog.Model.
Open Scope N_scope.

Definition rows := list (bytes * (N * Z)).

Record lcache := mkLc {
  lc_256 : rows;              (* table cache256 *)
  lc_legacy : option rows;    (* table cache, when it exists; keys are 16 bytes *)
  lc_flag : bool              (* Log.cacheLegacy, decided by LoadLog *)
}.

(* LoadLog: l.cacheLegacy = the table exists *)
Definition lc_load (r256 : rows) (leg : option rows) : lcache :=
  mkLc r256 leg (match leg with Some _ => true | None => false end).

Definition cache_get2 (c : lcache) (k : bytes) : option (N * Z) * lcache :=
  match cache_get (lc_256 c) k with
  | Some v => (Some v, c)
  | None =>
    if lc_flag c then
      match lc_legacy c with
      | Some l => (cache_get l (firstn 16 k), c)
      | None => (None, mkLc (lc_256 c) None false)   (* "no such table": the fallback is disabled *)
      end
    else (None, c)
  end.

(* a cache file as a version <= v0.8.0 wrote it: the same rows under keys truncated to 128 bits
   (PRIMARY KEY: of two rows with one truncated key only the first exists) *)
Fixpoint truncate_rows (r : rows) (acc : rows) : rows :=
  match r with
  | [] => acc
  | (k, v) :: t =>
    let k16 := firstn 16 k in
    truncate_rows t (match cache_get acc k16 with Some _ => acc | None => acc ++ [(k16, v)] end)
  end.

(* operator actions on the file while the log runs *)
Definition lc_drop (c : lcache) : lcache := mkLc (lc_256 c) None (lc_flag c).
Definition lc_put (c : lcache) (k : bytes) (v : N * Z) : lcache := mkLc (lc_256 c ++ [(k, v)]) (lc_legacy c) (lc_flag c).

(* rendering for the correspondence run *)
Definition show_get (r : option (N * Z)) : bytes :=
  match r with
  | Some (idx, ts) => s2b "lg hit " ++ dec idx ++ x20 :: decZ ts
  | None => s2b "lg miss"
  end.
