(* Ctlog/Origin.v — every leaf of every committed tree stems from an admitted submission: it is
   leaf_of e idx ts (with its names line) for an entry e that some EvSubmit of the history carried.
   No leaf is ever invented, duplicated from storage, or taken from a tampered object: what the
   sequencer commits is built from its pools only, and pools are filled by addLeafToPool only.
   Holds for ALL event lists (faults, crashes, restarts, several instances, tampering, cache
   loss, recompute-cache). Self-contained fifth invariant (does not need the other layers). *)
From SL Require Import Base.BytesProofs Ctlog.Model Ctlog.Recompute Ctlog.Spec Ctlog.Inv Ctlog.InvStep Ctlog.Mono.
Open Scope N_scope.

Section O.
Variable sha : bytes -> bytes.
Variable S : entry -> Prop.     (* the entries submitted in the history under consideration *)

Definition entries (p : pool) : list entry := map p_entry (pl_leaves p).

Definition from (ls : list sleaf) : Prop :=
  forall sl, In sl ls -> exists e idx ts, S e /\ sl = mkSleaf (leaf_of sha e idx ts) (names_line (e_names e) ts).

Definition pool_from (p : pool) : Prop := forall e, In e (entries p) -> S e.

Definition iok (x : inst) : Prop :=
  from (i_leaves x) /\ from (r_all (i_rctx x)) /\ pool_from (i_pool x) /\ pool_from (i_inseq x).

Definition OInv (w : world) : Prop :=
  (forall c ls, In (c, ls) (w_lockhist w) -> from ls) /\
  (forall i x, get_inst (w_insts w) i = Some x -> iok x).

Lemma from_nil : from []. Proof. intros sl []. Qed.
Lemma pool_from_empty : pool_from empty_pool. Proof. intros e []. Qed.
Lemma from_app a b : from a -> from b -> from (a ++ b).
Proof. intros A B sl H. apply in_app_or in H. destruct H; auto. Qed.

Lemma from_new_sleaves p first ts : pool_from p -> from (new_sleaves sha p first ts).
Proof.
  unfold pool_from, entries, new_sleaves. generalize first. induction (pl_leaves p) as [|x r IH]; intros k H sl Hin; [destruct Hin|].
  destruct Hin as [<-|Hin].
  - exists (p_entry x), k, ts. split; [apply H; left; reflexivity|reflexivity].
  - eapply IH; [|exact Hin]. intros e He. apply H. right. exact He.
Qed.

Lemma OInv_init : OInv init.
Proof. split; cbn; [intros ? ? []|discriminate]. Qed.

Lemma iok_inst0 c : iok (inst0 c).
Proof. repeat split; cbn; try apply from_nil; apply pool_from_empty. Qed.

Lemma OInv_set w i X : OInv w -> iok X -> OInv (set_i w i X).
Proof.
  intros [H I] HX. split; [exact H|]. cbn [w_insts set_i]. intros j y G.
  destruct (Nat.eq_dec j i) as [->|N].
  - rewrite get_set_same in G. inversion G; subst. exact HX.
  - rewrite get_set_other in G by congruence. eauto.
Qed.

Lemma OInv_frame w w' : OInv w -> w_lockhist w' = w_lockhist w -> w_insts w' = w_insts w -> OInv w'.
Proof. intros [H I] E1 E2. split; [rewrite E1; exact H|rewrite E2; exact I]. Qed.

Lemma OInv_ext w w' c ls : OInv w -> from ls ->
  w_lockhist w' = w_lockhist w ++ [(c, ls)] -> w_insts w' = w_insts w -> OInv w'.
Proof.
  intros [H I] F E1 E2. split; [|rewrite E2; exact I].
  rewrite E1. intros c0 l0 Hin. apply in_app_or in Hin. destruct Hin as [Hin|[Hin|[]]]; [eauto|].
  inversion Hin; subst. exact F.
Qed.

Lemma iok_of w i x : OInv w -> get_inst (w_insts w) i = Some x -> iok x.
Proof. intros [_ I] G. eauto. Qed.

Lemma iok_core x y :
  i_leaves y = i_leaves x -> r_all (i_rctx y) = r_all (i_rctx x) -> i_pool y = i_pool x -> i_inseq y = i_inseq x ->
  iok x -> iok y.
Proof. unfold iok. intros -> -> -> ->. auto. Qed.

Ltac same_inst Hx := eapply iok_core; [| | | |exact Hx]; reflexivity.
(* an instance built from x's fields, possibly with an emptied tree or emptied pools *)
Ltac inst_ok Hx :=
  let L := fresh "L" in let R := fresh "R" in let P := fresh "P" in let Q := fresh "Q" in
  pose proof Hx as (L & R & P & Q);
  unfold iok; cbn [i_leaves i_rctx r_all i_pool i_inseq upd_pc set_load set_cache];
  repeat split; first [assumption | apply from_nil | apply pool_from_empty].

(* ---------- frames of the helper functions ---------- *)
Lemma upload_oinv w i k o opt f w1 ok ob : world_upload w i k o opt f = (w1, ok, ob) -> OInv w -> OInv w1.
Proof. intros E H. apply upload_frame in E. destruct E as (A1 & _ & A3 & _). eapply OInv_frame; eauto. Qed.

Lemma fail_pool_oinv w i p e w1 o : fail_pool w i p e = (w1, o) -> OInv w -> OInv w1.
Proof. intros E H. apply fail_pool_frame in E. destruct E as (A1 & _ & A3 & _). eapply OInv_frame; eauto. Qed.

Lemma upload_issuers_oinv iss w i known fs w' k' ok o :
  upload_issuers sha w i known iss fs = (w', k', ok, o) -> OInv w -> OInv w'.
Proof. intros E H. apply (upload_issuers_frame sha) in E. destruct E as (A1 & _ & A3 & _). eapply OInv_frame; eauto. Qed.

Lemma end_round_oinv w i x res :
  OInv w -> iok x -> OInv (fst (end_round sha w i x res)).
Proof.
  intros H (L & R & P & Q). unfold end_round. destruct res as [e|].
  - destruct e;
      repeat match goal with
             | |- context [fail_pool ?a ?b ?c ?d] =>
               let E := fresh "E" in destruct (fail_pool a b c d) as [? ?] eqn:E
             end; cbn [fst];
      repeat match goal with E : fail_pool _ _ _ _ = (?w1, _) |- OInv ?w1 => eapply fail_pool_oinv; [exact E|] end;
      apply OInv_set; try assumption;
      repeat split; cbn [i_leaves i_rctx i_pool i_inseq]; try assumption; apply pool_from_empty.
  - cbn [fst]. eapply OInv_frame with (w := set_i w i _); [|reflexivity|reflexivity].
    apply OInv_set; [assumption|].
    repeat split; cbn [i_leaves i_rctx i_pool i_inseq]; try assumption; apply pool_from_empty.
Qed.

Ltac split_all :=
  repeat match goal with
         | |- context [let '(_, _) := ?x in _] => destruct x as [? ?] eqn:?
         | |- context [match ?x with _ => _ end] =>
           match type of x with
           | _ => destruct x eqn:?
           end
         end.

(* ---------- the steps ---------- *)
Lemma step_create_oinv w i x k f :
  OInv w -> get_inst (w_insts w) i = Some x -> OInv (fst (step_create sha w i x k f)).
Proof.
  intros H G. pose proof (iok_of _ _ _ H G) as Hx.
  unfold step_create, fetch. destruct k as [|[|[|[|k]]]]; split_all; cbn [fst].
  all: repeat match goal with E : world_upload _ _ _ _ _ _ = (?w1, _, _) |- _ => apply upload_oinv in E; [|assumption] end.
  all: try assumption.
  all: try (apply OInv_set; [assumption|inst_ok Hx]).
  (* Lock.Create took effect: the history gains the empty tree *)
  all: try (apply OInv_set; [|inst_ok Hx];
            eapply OInv_ext with (w := w) (ls := []); [assumption|apply from_nil|reflexivity|reflexivity]).
Qed.

Lemma after_apply_oinv w i x : OInv w -> iok x -> OInv (fst (after_apply w i x)).
Proof. intros H Hx. unfold after_apply. split_all; cbn [fst]; (apply OInv_set; [assumption|inst_ok Hx]). Qed.

Lemma step_load_oinv w i x ph f choice :
  OInv w -> get_inst (w_insts w) i = Some x -> OInv (fst (step_load sha w i x ph f choice)).
Proof.
  intros H G. pose proof (iok_of _ _ _ H G) as Hx. pose proof H as [HH _].
  unfold step_load, fetch, load_fail. destruct ph; split_all; cbn [fst].
  all: repeat match goal with E : world_upload _ _ _ _ _ _ = (?w1, _, _) |- _ => apply upload_oinv in E; [|assumption] end.
  all: try assumption.
  all: try (apply OInv_set; [assumption|inst_ok Hx]).
  (* the branches that go on through after_apply *)
  all: try (match goal with E : after_apply ?a ?b ?c = (?w1, _) |- OInv ?w1 =>
              replace w1 with (fst (after_apply a b c)) by (rewrite E; reflexivity);
              apply after_apply_oinv; [assumption|inst_ok Hx] end).
  (* LRoots: the instance takes the committed leaf sequence of its lock checkpoint *)
  all: try (apply OInv_set; [assumption|];
            pose proof Hx as (L & R & P & Q); unfold iok; cbn [i_leaves i_rctx r_all i_pool i_inseq rctx0];
            repeat split; try apply from_nil; try apply pool_from_empty;
            match goal with E : hist_leaves _ _ = Some ?ls |- from ?ls => apply hist_leaves_in in E; eapply HH; exact E end).
Qed.

Lemma replace_nth_entries (l : list pend) : forall v q x,
  In q (replace_nth l v x) -> In q l \/ q = x.
Proof.
  induction l as [|a l IH]; intros v q x Hq; [destruct v; destruct Hq|].
  destruct v; cbn in Hq; destruct Hq as [<-|Hq]; auto.
  - left. right. exact Hq.
  - left. left. reflexivity.
  - destruct (IH _ _ _ Hq) as [H|H]; auto. left. right. exact H.
Qed.

Lemma admission_entries c closed p inseq cache e low victim wid p' r :
  admission sha c closed p inseq cache e low victim wid = (p', r) ->
  forall e', In e' (entries p') -> In e' (entries p) \/ e' = e.
Proof.
  unfold admission. split_all; intro E; inversion E; subst; clear E; auto.
  all: unfold entries; cbn [pl_leaves]; intros e' Hin; apply in_map_iff in Hin; destruct Hin as (q & <- & Hq).
  all: try (apply replace_nth_entries in Hq; destruct Hq as [Hq|Hq]; [left; apply in_map; exact Hq|right; subst q; reflexivity]).
  all: try (apply in_app_or in Hq; destruct Hq as [Hq|[<-|[]]]; [left; apply in_map; exact Hq|right; reflexivity]).
Qed.

Lemma step_submit_oinv w i x e low victim fs :
  S e -> OInv w -> get_inst (w_insts w) i = Some x -> OInv (fst (step_submit sha w i x e low victim fs)).
Proof.
  intros He H G. pose proof (iok_of _ _ _ H G) as Hx.
  unfold step_submit.
  destruct (upload_issuers sha w i (i_issuers x) (e_issuers e) fs) as [[[w1 known] ok] o] eqn:E.
  apply upload_issuers_oinv in E; [|assumption].
  destruct ok; cbn [negb].
  - destruct (admission sha _ _ _ _ _ _ _ _ _) as [p' r] eqn:Ea.
    pose proof (admission_entries _ _ _ _ _ _ _ _ _ _ _ Ea) as Hp.
    assert (HX : iok (mkInst (i_cfg x) (i_pc x) (i_tree x) (i_lockcp x) (i_leaves x) p' (i_inseq x) (i_closed x)
                             known (i_cache x) (i_rctx x) (i_pub x))).
    { destruct Hx as (L & R & P & Q). repeat split; cbn [i_leaves i_rctx i_pool i_inseq]; try assumption.
      intros e' Hin. destruct (Hp _ Hin) as [H0|H0]; [auto|subst e'; exact He]. }
    destruct r; cbv zeta; cbn [fst].
    all: match type of HX with iok ?X =>
           apply OInv_frame with (w := set_i w1 i X); [apply OInv_set; [exact E|exact HX]| |] end.
    all: cbn [w_lockhist w_insts add_acks set_i]; reflexivity.
  - cbv zeta; cbn [fst].
    apply OInv_frame with (w := set_i w1 i (mkInst (i_cfg x) (i_pc x) (i_tree x) (i_lockcp x) (i_leaves x) (i_pool x)
                                                (i_inseq x) (i_closed x) known (i_cache x) (i_rctx x) (i_pub x)));
      [apply OInv_set; [exact E|inst_ok Hx]| |]; cbn [w_lockhist w_insts add_acks set_i]; reflexivity.
Qed.

Lemma step_clock_oinv w i x :
  OInv w -> get_inst (w_insts w) i = Some x -> OInv (fst (step_clock sha w i x)).
Proof.
  intros H G. pose proof (iok_of _ _ _ H G) as Hx.
  unfold step_clock. split_all; cbn [fst].
  all: repeat match goal with E : fail_pool _ _ _ _ = (?w1, _) |- OInv ?w1 => eapply fail_pool_oinv; [exact E|] end.
  all: apply OInv_set; try assumption.
  all: try (inst_ok Hx).
  all: pose proof Hx as (L & R & P & Q); unfold iok; cbn [i_leaves i_rctx r_all i_pool i_inseq];
       repeat split; try assumption; apply from_app; [assumption|apply from_new_sleaves; assumption].
Qed.

Lemma step_round_oinv w i x ph f choice :
  OInv w -> get_inst (w_insts w) i = Some x -> OInv (fst (step_round sha w i x ph f choice)).
Proof.
  intros H G. pose proof (iok_of _ _ _ H G) as Hx.
  destruct ph; [apply step_clock_oinv; assumption| | | | |]; unfold step_round.
  - (* staging *)
    destruct (world_upload _ _ _ _ _ _) as [[w1 ok] o] eqn:E. apply upload_oinv in E; [|assumption].
    destruct ok; cbn [fst].
    + apply OInv_set; [assumption|inst_ok Hx].
    + destruct (end_round sha w1 i x (Some ENonFatal)) as [w2 o2] eqn:E2. cbn [fst].
      replace w2 with (fst (end_round sha w1 i x (Some ENonFatal))) by (rewrite E2; reflexivity).
      apply end_round_oinv; assumption.
  - (* compare-and-swap *)
    set (can := match w_lock w with Some c => cp_eqb c (i_lockcp x) | None => false end).
    assert (HW : OInv (if can && applied f
                       then mkWorld (w_store w) (Some (r_new (i_rctx x))) (w_now w) (w_insts w) (w_nextwid w)
                              (w_lockhist w ++ [(r_new (i_rctx x), r_all (i_rctx x))]) (w_pubhist w) (w_acks w) (w_discards w)
                       else w)).
    { destruct (can && applied f); [|assumption].
      eapply OInv_ext with (w := w); [assumption|apply Hx|reflexivity|reflexivity]. }
    destruct (can && succeeded f).
    + cbn [fst]. apply OInv_set; [exact HW|].
      pose proof Hx as (L & R & P & Q). unfold iok; cbn [i_leaves i_rctx r_all i_pool i_inseq]. repeat split; assumption.
    + match goal with |- context [end_round sha ?a i x (Some EFatal)] =>
        destruct (end_round sha a i x (Some EFatal)) as [w2 o2] eqn:E2;
        replace w2 with (fst (end_round sha a i x (Some EFatal))) by (rewrite E2; reflexivity) end.
      cbn [fst]. apply end_round_oinv; assumption.
  - (* tiles *)
    destruct (take_upload todo choice) as [[u rest]|]; [|exact H].
    destruct (world_upload _ _ _ _ _ _) as [[w1 ok] o] eqn:E. apply upload_oinv in E; [|assumption].
    destruct rest as [|u' rest'].
    + destruct (failed || negb ok).
      * destruct (end_round sha w1 i x (Some EFatal)) as [w2 o2] eqn:E2. cbn [fst].
        replace w2 with (fst (end_round sha w1 i x (Some EFatal))) by (rewrite E2; reflexivity).
        apply end_round_oinv; assumption.
      * cbn [fst]. apply OInv_set; [assumption|inst_ok Hx].
    + cbn [fst]. apply OInv_set; [assumption|inst_ok Hx].
  - (* checkpoint *)
    destruct (world_upload _ _ _ _ _ _) as [[w1 ok] o] eqn:E. apply upload_oinv in E; [|assumption].
    destruct ok.
    + destruct (r_ups (i_rctx x)).
      * destruct (end_round sha w1 i x None) as [w2 o2] eqn:E2. cbn [fst].
        replace w2 with (fst (end_round sha w1 i x None)) by (rewrite E2; reflexivity).
        apply end_round_oinv; assumption.
      * cbn [fst]. apply OInv_set; [assumption|inst_ok Hx].
    + destruct (end_round sha w1 i x (Some ENonFatal)) as [w2 o2] eqn:E2. cbn [fst].
      replace w2 with (fst (end_round sha w1 i x (Some ENonFatal))) by (rewrite E2; reflexivity).
      apply end_round_oinv; assumption.
  - (* discard *)
    match goal with |- context [end_round sha ?a i x None] =>
      destruct (end_round sha a i x None) as [w2 o2] eqn:E2;
      replace w2 with (fst (end_round sha a i x None)) by (rewrite E2; reflexivity) end.
    cbn [fst]. apply end_round_oinv; [|assumption].
    eapply OInv_frame with (w := w); [assumption|reflexivity|reflexivity].
Qed.

(* the entries an event submits *)
Definition submits (ev0 : ev) (e : entry) : Prop :=
  match ev0 with EvSubmit _ e0 _ _ _ => e0 = e | _ => False end.

Theorem OInv_step w ev0 : (forall e, submits ev0 e -> S e) -> OInv w -> OInv (fst (step sha w ev0)).
Proof.
  intros HS H. destruct ev0; unfold step.
  - (* clock *) cbn [fst]. eapply OInv_frame; [exact H|reflexivity|reflexivity].
  - (* create *) cbn [fst]. apply OInv_set; [assumption|]. pose proof (iok_inst0 c) as Hx. inst_ok Hx.
  - (* start: the cache file is taken over, the pools start empty *)
    cbn [fst]. apply OInv_set; [assumption|].
    repeat split; cbn [i_leaves i_rctx r_all rctx0 i_pool i_inseq]; try apply from_nil; apply pool_from_empty.
  - destruct (get_inst (w_insts w) i) as [x|] eqn:G; [|exact H].
    destruct (i_pc x); try exact H.
    + apply step_create_oinv; assumption.
    + apply step_load_oinv; assumption.
    + apply step_round_oinv; assumption.
  - destruct (get_inst (w_insts w) i) as [x|] eqn:G; [|exact H].
    destruct (i_pc x); try exact H; (apply step_submit_oinv; [apply HS; reflexivity|assumption|assumption]).
  - (* tick: the pools rotate *)
    destruct (get_inst (w_insts w) i) as [x|] eqn:G; [|exact H].
    pose proof (iok_of _ _ _ H G) as Hx.
    unfold step_tick. destruct (i_pc x); try exact H. cbn [fst]. apply OInv_set; [assumption|inst_ok Hx].
  - destruct (get_inst (w_insts w) i) as [x|] eqn:G; [|exact H].
    pose proof (iok_of _ _ _ H G) as Hx. cbn [fst]. apply OInv_set; [assumption|inst_ok Hx].
  - (* stop *)
    destruct (get_inst (w_insts w) i) as [x|] eqn:G; [|exact H].
    pose proof (iok_of _ _ _ H G) as Hx.
    destruct (i_pc x); try exact H.
    destruct (fail_pool _ _ _ _) as [w1 o1] eqn:E1. cbn [fst]. eapply fail_pool_oinv; [exact E1|].
    apply OInv_set; [assumption|inst_ok Hx].
  - (* cache loss *)
    destruct (get_inst (w_insts w) i) as [x|] eqn:G; [|exact H].
    pose proof (iok_of _ _ _ H G) as Hx. cbn [fst]. apply OInv_set; [assumption|inst_ok Hx].
  - (* tampering touches object storage only *)
    cbn [fst]. destruct o; (eapply OInv_frame; [exact H|reflexivity|reflexivity]).
  - (* recompute-cache touches a cache file only *)
    destruct (get_inst (w_insts w) i) as [x|] eqn:G; [|exact H].
    pose proof (iok_of _ _ _ H G) as Hx.
    destruct (step_recompute_spec sha w i x key lim) as [E|(p & ls & c1 & why & _ & _ & _ & E)]; rewrite E; [exact H|].
    apply OInv_set; [assumption|inst_ok Hx].
Qed.

End O.

(* ---------- the statement over histories ---------- *)
Section R.
Variable sha : bytes -> bytes.

Definition submitted (evs : list ev) (e : entry) : Prop := exists ev0, In ev0 evs /\ submits ev0 e.

Lemma OInv_run (S : entry -> Prop) evs : forall w, (forall ev0 e, In ev0 evs -> submits ev0 e -> S e) ->
  OInv sha S w -> OInv sha S (run sha evs w).
Proof.
  induction evs as [|ev0 r IH]; intros w HS H; cbn; [assumption|].
  apply IH; [intros; eapply HS; [right|]; eassumption|].
  apply OInv_step; [intros e He; eapply HS; [left; reflexivity|exact He]|assumption].
Qed.

(* C07/C08: every leaf of every committed tree is leaf_of e idx ts for an entry e that an EvSubmit
   of this very history carried — at the position idx where it sits, by C04_leaf_i_carries_index_i *)
Theorem committed_leaves_were_submitted evs c ls sl :
  In (c, ls) (w_lockhist (run sha evs init)) -> In sl ls ->
  exists e idx ts, submitted evs e /\ sl = mkSleaf (leaf_of sha e idx ts) (names_line (e_names e) ts).
Proof.
  intros Hin Hsl.
  assert (H : OInv sha (submitted evs) (run sha evs init)).
  { apply OInv_run; [|apply OInv_init]. intros ev0 e Hev Hs. exists ev0. auto. }
  destruct H as [HH _]. exact (HH _ _ Hin _ Hsl).
Qed.

End R.
