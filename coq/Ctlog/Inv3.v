(* Ctlog/Inv3.v — third invariant layer (I3 of DESIGN.md 5.0), for histories without tampering:
   object storage is a complete, exact rendering of the committed leaf sequence.
   Definitions, store lemmas, monotonicity and the generic update lemma; the preservation by
   every event is in Ctlog/Inv3Step.v. *)
From SL Require Import Base.BytesProofs Merkle.TilesProofs Ctlog.Model Ctlog.Spec Ctlog.Inv Ctlog.InvStep Ctlog.Theorems2.
From Coq Require Import ZifyN ZifyNat ZifyBool.
Open Scope N_scope.

Section I.
Variable sha : bytes -> bytes.
Notation mroot := (mroot sha).
Notation leaf_hashes := (leaf_hashes sha).
Notation wfcp := (wfcp sha).
Notation chain := (chain sha).
Notation Inv := (Inv sha).
Notation round_uploads := (round_uploads sha).
Notation tcanon := (tcanon sha).
Notation tup := (tup sha).
Notation n63 := 9223372036854775808%N.

Definition len (ls : list sleaf) : N := N.of_nat (length ls).

(* ---------- lookup / put / remove ---------- *)
Lemma bytes_eqb_neq a b : a <> b -> bytes_eqb a b = false.
Proof. intro H. destruct (bytes_eqb a b) eqn:E; [|reflexivity]. apply bytes_eqb_eq in E. contradiction. Qed.

Lemma lookup_remove_same s k : lookup (remove s k) k = None.
Proof.
  induction s as [|[k' o] r IH]; cbn [remove lookup]; [reflexivity|].
  destruct (bytes_eqb k k') eqn:E; [assumption|]. cbn [lookup]. now rewrite E.
Qed.

Lemma lookup_remove_other s k k0 : k0 <> k -> lookup (remove s k) k0 = lookup s k0.
Proof.
  intro N. induction s as [|[k' o] r IH]; cbn [remove lookup]; [reflexivity|].
  destruct (bytes_eqb k k') eqn:E.
  - apply bytes_eqb_eq in E. subst k'. rewrite (bytes_eqb_neq _ _ N). assumption.
  - cbn [lookup]. destruct (bytes_eqb k0 k'); [reflexivity|assumption].
Qed.

Lemma lookup_remove_some s k k0 o : lookup (remove s k) k0 = Some o -> lookup s k0 = Some o.
Proof.
  intro H. destruct (list_eq_dec Byte.byte_eq_dec k0 k) as [->|N].
  - rewrite lookup_remove_same in H. discriminate.
  - rewrite lookup_remove_other in H by assumption. assumption.
Qed.

Lemma lookup_put_same s k o : lookup (put s k o) k = Some o.
Proof. unfold put. cbn [lookup]. now rewrite bytes_eqb_refl. Qed.

Lemma lookup_put_other s k o k0 : k0 <> k -> lookup (put s k o) k0 = lookup s k0.
Proof. intro N. unfold put. cbn [lookup]. rewrite (bytes_eqb_neq _ _ N). now apply lookup_remove_other. Qed.

Lemma obj_eqb_OB old b : obj_eqb old (OB b) = true -> old = OB b.
Proof. destruct old; cbn; try discriminate. intro H. apply bytes_eqb_eq in H. now subst. Qed.

(* the three facts about Backend.Upload *)
Lemma do_upload_lookup s k o imm f s' ok k0 o0 :
  do_upload s k o imm f = (s', ok) -> lookup s' k0 = Some o0 ->
  lookup s k0 = Some o0 \/ (k0 = k /\ o0 = o).
Proof.
  unfold do_upload. intros E H.
  assert (P : forall s1, (if applied f then put s k o else s) = s1 -> lookup s1 k0 = Some o0 ->
                         lookup s k0 = Some o0 \/ (k0 = k /\ o0 = o)).
  { intros s1 <-. destruct (applied f); [|auto].
    destruct (list_eq_dec Byte.byte_eq_dec k0 k) as [->|N].
    - rewrite lookup_put_same. intro X. inversion X. auto.
    - rewrite lookup_put_other by assumption. auto. }
  destruct (lookup s k) as [old|].
  - destruct (imm && negb (obj_eqb old o)); inversion E; subst; eauto.
  - inversion E; subst; eauto.
Qed.

Lemma do_upload_ok s k o imm f s' : do_upload s k o imm f = (s', true) -> lookup s' k = Some o.
Proof.
  unfold do_upload. intro E.
  assert (P : forall s1, ((if applied f then put s k o else s), succeeded f) = (s1, true) -> lookup s1 k = Some o).
  { intros s1 X. inversion X. destruct f; try discriminate. cbn. apply lookup_put_same. }
  destruct (lookup s k) as [old|]; [|auto].
  destruct (imm && negb (obj_eqb old o)); [discriminate|auto].
Qed.

Lemma do_upload_keep s k o imm f s' ok k0 o0 :
  do_upload s k o imm f = (s', ok) -> lookup s k0 = Some o0 ->
  (k0 <> k \/ (imm = true /\ exists b, o = OB b)) -> lookup s' k0 = Some o0.
Proof.
  unfold do_upload. intros E H C.
  destruct (list_eq_dec Byte.byte_eq_dec k0 k) as [->|N].
  - destruct C as [C|[-> [b ->]]]; [contradiction|]. rewrite H in E. cbn [andb] in E.
    destruct (obj_eqb o0 (OB b)) eqn:Eq; cbn [negb] in E.
    + apply obj_eqb_OB in Eq. subst o0. inversion E; subst.
      destruct (applied f); [apply lookup_put_same|assumption].
    + inversion E; subst. assumption.
  - assert (P : forall s1, (if applied f then put s k o else s) = s1 -> lookup s1 k0 = Some o0).
    { intros s1 <-. destruct (applied f); [|assumption]. rewrite lookup_put_other by assumption. assumption. }
    destruct (lookup s k) as [old|].
    + destruct (imm && negb (obj_eqb old o)); inversion E; subst; auto.
    + inversion E; subst; auto.
Qed.

Lemma upload_store w i k o opt f w1 ok ob :
  world_upload w i k o opt f = (w1, ok, ob) ->
  do_upload (w_store w) k o (immutable opt) f = (w_store w1, ok).
Proof.
  unfold world_upload. destruct (do_upload _ _ _ _ _) as [s' ok']. intro E. inversion E; subst. reflexivity.
Qed.

(* ---------- the committed leaf sequence ---------- *)
Definition Gof (h : list (cp * list sleaf)) : list sleaf := snd (last h (cp0, [])).

Lemma last_in {A} (l : list A) d : l <> [] -> In (last l d) l.
Proof.
  induction l as [|a [|b r] IH]; intro H; [contradiction|left; reflexivity|].
  right. apply IH. discriminate.
Qed.

Lemma Gof_in h : h <> [] -> exists c, In (c, Gof h) h.
Proof.
  intro H. exists (fst (last h (cp0, []))). unfold Gof. rewrite <- surjective_pairing. now apply last_in.
Qed.

Lemma Gof_snoc h c ls : Gof (h ++ [(c, ls)]) = ls.
Proof. unfold Gof. now rewrite last_last. Qed.

Lemma chain_in_prefix h c ls : chain h -> In (c, ls) h -> prefix ls (Gof h).
Proof.
  induction h as [|[c0 l0] r IH]; intros C Hin; [destruct Hin|].
  destruct r as [|p r'].
  - destruct Hin as [E|[]]. inversion E; subst. apply prefix_refl.
  - assert (Hne : p :: r' <> []) by discriminate.
    assert (EG : Gof ((c0, l0) :: p :: r') = Gof (p :: r')) by reflexivity. rewrite EG.
    destruct Hin as [E|Hin].
    + inversion E; subst. destruct (Gof_in _ Hne) as [cl Hl].
      destruct (chain_head_lt sha _ _ _ _ _ C Hl) as [P _]. exact P.
    + apply IH; [|assumption]. destruct C as (_ & _ & C). exact C.
Qed.

Lemma Gof_app_prefix h e : chain (h ++ e) -> prefix (Gof h) (Gof (h ++ e)).
Proof.
  intro C. destruct h as [|p r].
  - exists (Gof ([] ++ e)). reflexivity.
  - destruct (Gof_in (p :: r)) as [c Hc]; [discriminate|].
    eapply chain_in_prefix; [exact C|]. apply in_or_app. left. exact Hc.
Qed.

Lemma prefix_same_length {A} (a b : list A) : prefix a b -> length a = length b -> a = b.
Proof.
  intros [t ->] H. rewrite app_length in H. destruct t; [now rewrite app_nil_r|cbn in H; lia].
Qed.

Lemma do_upload_other s k o imm f s' ok k0 :
  do_upload s k o imm f = (s', ok) -> k0 <> k -> lookup s' k0 = lookup s k0.
Proof.
  unfold do_upload. intros E N.
  assert (P : forall s1, (if applied f then put s k o else s) = s1 -> lookup s1 k0 = lookup s k0).
  { intros s1 <-. destruct (applied f); [|reflexivity]. now apply lookup_put_other. }
  destruct (lookup s k) as [old|].
  - destruct (imm && negb (obj_eqb old o)); inversion E; subst; auto.
  - inversion E; subst; auto.
Qed.

(* re-uploading an immutable object that is already there changes nothing *)
Lemma do_upload_present s k b f s' ok old :
  do_upload s k (OB b) true f = (s', ok) -> lookup s k = Some old ->
  forall k0, lookup s' k0 = lookup s k0.
Proof.
  unfold do_upload. intros E H k0. rewrite H in E. cbn [andb] in E.
  destruct (obj_eqb old (OB b)) eqn:Eq; cbn [negb] in E.
  - apply obj_eqb_OB in Eq. subst old. inversion E; subst. destruct (applied f); [|reflexivity].
    destruct (list_eq_dec Byte.byte_eq_dec k0 k) as [->|N].
    + rewrite lookup_put_same. now symmetry.
    + now apply lookup_put_other.
  - inversion E; subst. reflexivity.
Qed.

(* ---------- bundles compared as Backend.Upload compares them: keys and contents ---------- *)
Definition kd (u0 u : upload) : Prop := u_key u0 = u_key u /\ u_data u0 = u_data u.

Definition kd_equiv (a b : list upload) : Prop :=
  (forall u, In u a -> exists v, In v b /\ kd u v) /\ (forall v, In v b -> exists u, In u a /\ kd u v).

Lemma kd_equiv_refl a : kd_equiv a a.
Proof. split; intros u H; exists u; (split; [assumption|split; reflexivity]). Qed.

Lemma kd_equiv_trans a b c : kd_equiv a b -> kd_equiv b c -> kd_equiv a c.
Proof.
  intros [A1 A2] [B1 B2]. split.
  - intros u H. destruct (A1 u H) as (v & Hv & K1 & K2). destruct (B1 v Hv) as (x & Hx & K3 & K4).
    exists x. split; [assumption|]. split; congruence.
  - intros x H. destruct (B2 x H) as (v & Hv & K3 & K4). destruct (A2 v Hv) as (u & Hu & K1 & K2).
    exists u. split; [assumption|]. split; congruence.
Qed.

Lemma uploads_eqb_kd a : forall b, uploads_eqb a b = true -> kd_equiv a b.
Proof.
  induction a as [|x a IH]; intros [|y b] E; cbn [uploads_eqb] in E; try discriminate E.
  - split; intros u [].
  - apply andb_true_iff in E. destruct E as [E E3]. apply andb_true_iff in E. destruct E as [E1 E2].
    apply bytes_eqb_eq in E1, E2. destruct (IH b E3) as [A B]. split.
    + intros u [<-|H]; [exists y; split; [left; reflexivity|split; assumption]|].
      destruct (A u H) as (v & Hv & K). exists v. split; [right; assumption|assumption].
    + intros v [<-|H]; [exists x; split; [left; reflexivity|split; assumption]|].
      destruct (B v H) as (u & Hu & K). exists u. split; [right; assumption|assumption].
Qed.

Lemma kd_equiv_nil a : kd_equiv a [] -> a = [].
Proof. intros [A _]. destruct a as [|x a]; [reflexivity|]. destruct (A x (or_introl eq_refl)) as (v & [] & _). Qed.

(* uploading a staging bundle (immutable): the key keeps its bundle or gets an equal one *)
Lemma do_upload_staging s k ups f s' ok old :
  do_upload s k (OS ups) true f = (s', ok) -> lookup s k = Some (OS old) ->
  lookup s' k = Some (OS old) \/ (lookup s' k = Some (OS ups) /\ kd_equiv old ups).
Proof.
  unfold do_upload. intros E H. rewrite H in E. cbn [andb obj_eqb] in E.
  destruct (uploads_eqb old ups) eqn:Eq; cbn [negb] in E.
  - inversion E; subst. destruct (applied f); [|auto]. right. split; [apply lookup_put_same|].
    now apply uploads_eqb_kd.
  - inversion E; subst. auto.
Qed.

(* ---------- the statements ---------- *)
(* T1: every tile object in the store is the canonical rendering of the committed sequence *)
Definition exact (s : store) (G : list sleaf) : Prop :=
  forall a o, tvalid a -> lookup s (tpath a) = Some o ->
    o = OB (tcanon G a) /\ twithin (len G) a.

(* T3: every tile of the tree with leaves ls is present with its canonical contents *)
Definition complete_exact (s : store) (ls : list sleaf) : Prop :=
  forall a, tneeded (len ls) a -> lookup s (tpath a) = Some (OB (tcanon ls a)).

(* the upload bundle of a round that extends a complete prefix of ls to ls *)
Definition bundle_for (s : store) (ls : list sleaf) (ups : list upload) : Prop :=
  exists pre, prefix pre ls /\ complete_exact s pre /\ ups = round_uploads ls (len pre) (len ls).

Definition present (s : store) (u : upload) : Prop := lookup s (u_key u) = Some (OB (u_data u)).

(* a bundle for ls in the course of being applied (sequencer after the CAS, or LoadLog) *)
Definition applying (s : store) (ls : list sleaf) (todo : list upload) (failed : bool) : Prop :=
  exists ups0, bundle_for s ls ups0 /\
    (forall u, In u todo -> immutable (u_opt u) = true /\ exists u0, In u0 ups0 /\ kd u0 u) /\
    (failed = false -> forall u0, In u0 ups0 -> (exists u, In u todo /\ kd u0 u) \/ present s u0).

(* uploads that only address tiles which are already there *)
Definition covered (s : store) (ls : list sleaf) (todo : list upload) : Prop :=
  complete_exact s ls /\
  forall u, In u todo -> immutable (u_opt u) = true /\ exists a, tneeded (len ls) a /\ u_key u = tpath a.

(* every upload of a staging bundle is immutable and addresses a tile of a tree of that size *)
Definition shape (n : N) (ups : list upload) : Prop :=
  forall u, In u ups -> immutable (u_opt u) = true /\ exists a, tneeded n a /\ u_key u = tpath a.

(* T2, first half: every staging object is the upload bundle of a round that extended a tree
   which is complete in the store to a tree with that size and root *)
Definition staged_ok (s : store) : Prop :=
  forall n root o, n < n63 -> lookup s (staging_path n root) = Some o ->
    exists ls ups, o = OS ups /\ len ls = n /\ root = mroot (leaf_hashes ls) /\ bundle_for s ls ups.

Definition spath_of (c : cp) : bytes := staging_path (cp_size c) (cp_root c).

(* T2, second half: a committed tree is complete in the store, or its staging bundle is there
   and applying it completes the tree (up to what Backend.Upload compares) *)
Definition good_for (s : store) (ls : list sleaf) (ups : list upload) : Prop :=
  exists ups0, bundle_for s ls ups0 /\ kd_equiv ups0 ups.

Definition recoverable (s : store) (c : cp) (ls : list sleaf) : Prop :=
  complete_exact s ls \/ exists ups, lookup s (spath_of c) = Some (OS ups) /\ good_for s ls ups.

Definition hist_ok (s : store) (h : list (cp * list sleaf)) : Prop :=
  forall c ls, In (c, ls) h -> recoverable s c ls.

Definition pub_ok (s : store) (h : list (cp * list sleaf)) : Prop :=
  forall P, lookup s k_checkpoint = Some (OC P) -> exists ls, In (P, ls) h /\ complete_exact s ls.

Definition inst3 (s : store) (h : list (cp * list sleaf)) (x : inst) : Prop :=
  let r := i_rctx x in
  match i_pc x with
  | PIdle | PRound RClock | PRound RCheckpoint | PRound RDiscard => complete_exact s (i_leaves x)
  | PRound RStaging =>
    complete_exact s (i_leaves x) /\ r_ups r = round_uploads (r_all r) (len (i_leaves x)) (len (r_all r))
  | PRound RCas =>
    complete_exact s (i_leaves x) /\ r_ups r = round_uploads (r_all r) (len (i_leaves x)) (len (r_all r)) /\
    cp_size (r_new r) = len (r_all r) /\
    (r_ups r = [] \/
     (exists ups, lookup s (spath_of (r_new r)) = Some (OS ups) /\ kd_equiv (r_ups r) ups) \/
     (exists c ls, In (c, ls) h /\ len (r_all r) <= len ls))
  | PRound (RTiles todo failed) => applying s (i_leaves x) todo failed
  | PLoad (LApply todo failed) =>
    exists ls, In (i_lockcp x, ls) h /\ (covered s ls todo \/ applying s ls todo failed)
  | PLoad (LEdge _) | PLoad LData | PLoad LRoots =>
    exists ls, In (i_lockcp x, ls) h /\ complete_exact s ls
  | _ => True
  end.

Definition Inv3 (w : world) : Prop :=
  exact (w_store w) (Gof (w_lockhist w)) /\ staged_ok (w_store w) /\ hist_ok (w_store w) (w_lockhist w)
  /\ pub_ok (w_store w) (w_lockhist w)
  /\ (forall i x, get_inst (w_insts w) i = Some x -> inst3 (w_store w) (w_lockhist w) x).

(* the size bound under which the object keys are injective (int64 sizes) *)
Definition small_hist (h : list (cp * list sleaf)) : Prop := forall c ls, In (c, ls) h -> len ls < n63.

Definition Small (w : world) : Prop :=
  small_hist (w_lockhist w) /\
  (forall i x, get_inst (w_insts w) i = Some x -> i_pc x = PRound RStaging \/ i_pc x = PRound RCas ->
     len (r_all (i_rctx x)) < n63).

Lemma complete_nil s : complete_exact s [].
Proof. intros a H. exfalso. exact (tneeded_0 a H). Qed.

Lemma Inv3_init : Inv3 init.
Proof.
  split; [|split; [|split; [|split]]].
  - intros a o _ H. cbn in H. discriminate.
  - intros n root o _ H. cbn in H. discriminate.
  - intros c ls [].
  - intros P H. cbn in H. discriminate.
  - intros i x H. cbn in H. discriminate.
Qed.

(* ---------- monotonicity in the store ---------- *)
(* tile objects are never lost nor changed *)
Definition sext (s s' : store) : Prop :=
  forall k o, kclass k = 116 -> lookup s k = Some o -> lookup s' k = Some o.

Lemma sext_refl s : sext s s.
Proof. intros k o _ H. exact H. Qed.

Lemma sext_trans a b c : sext a b -> sext b c -> sext a c.
Proof. intros H1 H2 k o K H. auto. Qed.

Lemma complete_mono s s' ls : sext s s' -> complete_exact s ls -> complete_exact s' ls.
Proof. intros E C a H. apply E; [apply kclass_tpath|auto]. Qed.

Lemma bundle_mono s s' ls ups : sext s s' -> bundle_for s ls ups -> bundle_for s' ls ups.
Proof. intros E (pre & P & C & U). exists pre. split; [assumption|]. split; [eapply complete_mono; eauto|assumption]. Qed.

Lemma good_mono s s' ls ups : sext s s' -> good_for s ls ups -> good_for s' ls ups.
Proof. intros E (u0 & B & K). exists u0. split; [eapply bundle_mono; eauto|assumption]. Qed.

Lemma prefix_len (a b : list sleaf) : prefix a b -> len a <= len b.
Proof. intro P. apply prefix_length in P. unfold len. lia. Qed.

Lemma bundle_in s ls ups u : bundle_for s ls ups -> In u ups ->
  exists a pre, prefix pre ls /\ tnew (len pre) (len ls) a /\ u = tup ls a.
Proof.
  intros (pre & P & C & ->) Hin. apply round_uploads_spec in Hin; [|now apply prefix_len].
  destruct Hin as (_ & a & Hn & E). eauto.
Qed.

Lemma bundle_shape s ls ups : bundle_for s ls ups -> shape (len ls) ups.
Proof.
  intros B u Hu. destruct (bundle_in _ _ _ _ B Hu) as (a & pre & P & Hn & ->).
  cbn [u_opt u_key TilesProofs.tup]. split; [apply topt_immutable|].
  exists a. split; [eapply tnew_needed; eauto|reflexivity].
Qed.

Lemma applying_mono s s' ls todo failed :
  sext s s' -> applying s ls todo failed -> applying s' ls todo failed.
Proof.
  intros E (ups0 & B & T & Pn). exists ups0. split; [eapply bundle_mono; eauto|]. split; [assumption|].
  intros F u0 Hu. destruct (Pn F u0 Hu) as [H|H]; [auto|right].
  destruct (bundle_in _ _ _ _ B Hu) as (a & pre & _ & _ & ->).
  unfold present in *. cbn [u_key u_data TilesProofs.tup] in *. apply E; [apply kclass_tpath|assumption].
Qed.

Lemma covered_mono s s' ls todo : sext s s' -> covered s ls todo -> covered s' ls todo.
Proof. intros E [C T]. split; [eapply complete_mono; eauto|assumption]. Qed.

Lemma inst3_core s h x y :
  i_pc x = i_pc y -> i_lockcp x = i_lockcp y -> i_leaves x = i_leaves y -> i_rctx x = i_rctx y ->
  inst3 s h x -> inst3 s h y.
Proof. unfold inst3. intros E1 E2 E3 E4. rewrite E1, E2, E3, E4. auto. Qed.

(* ---------- applying a bundle ---------- *)
Lemma twithin_mono a b x : a <= b -> twithin a x -> twithin b x.
Proof. intro H. destruct x as [t|n w|n w]; cbn [twithin]; [now apply within_mono|lia|lia]. Qed.

Lemma tcanon_prefix pre ls a : prefix pre ls -> twithin (len pre) a -> tcanon ls a = tcanon pre a.
Proof. intros [t ->] H. now apply tcanon_stable. Qed.

(* all uploads of the bundle are there: the tree is complete *)
Lemma bundle_done s ls ups :
  bundle_for s ls ups -> (forall u, In u ups -> present s u) -> complete_exact s ls.
Proof.
  intros (pre & P & C & ->) Hp a Hn.
  destruct (tneeded_step (len pre) (len ls) a (prefix_len _ _ P) Hn) as [Ho|[Hne Hw]].
  - rewrite (tcanon_prefix pre ls a P (tneeded_within _ _ Ho)). apply C. exact Ho.
  - assert (Hin : In (tup ls a) (round_uploads ls (len pre) (len ls))).
    { apply round_uploads_spec; [now apply prefix_len|]. split; [assumption|]. exists a. auto. }
    apply Hp in Hin. exact Hin.
Qed.

Lemma applying_done s ls : applying s ls [] false -> complete_exact s ls.
Proof.
  intros (ups0 & B & _ & Pn). eapply bundle_done; [exact B|].
  intros u Hu. destruct (Pn eq_refl u Hu) as [(v & [] & _)|H]. exact H.
Qed.

Lemma applying_start s ls ups : good_for s ls ups -> shape (len ls) ups -> applying s ls ups false.
Proof.
  intros (ups0 & B & [K1 K2]) Sh. exists ups0. split; [assumption|]. split.
  - intros u Hu. split; [apply Sh; assumption|]. destruct (K2 u Hu) as (u0 & H0 & K). eauto.
  - intros _ u0 H0. left. destruct (K1 u0 H0) as (u & Hu & K). eauto.
Qed.

Lemma applying_own s ls ups : bundle_for s ls ups -> applying s ls ups false.
Proof.
  intro B. apply applying_start; [|eapply bundle_shape; eauto]. exists ups. split; [assumption|apply kd_equiv_refl].
Qed.

Lemma take_upload_spec todo k u rest : take_upload todo k = Some (u, rest) ->
  In u todo /\ (forall v, In v rest -> In v todo) /\ (forall v, In v todo -> v = u \/ In v rest).
Proof.
  revert u rest. induction todo as [|y r IH]; intros u rest H; cbn [take_upload] in H; [discriminate|].
  destruct (bytes_eqb (u_key y) k).
  - inversion H; subst. split; [left; reflexivity|]. split; [intros v Hv; right; assumption|].
    intros v [Hv|Hv]; [left; now symmetry|right; assumption].
  - destruct (take_upload r k) as [[x r']|] eqn:E; [|discriminate]. inversion H; subst.
    destruct (IH _ _ eq_refl) as (A & B & C). split; [right; assumption|]. split.
    + intros v [Hv|Hv]; [left; assumption|right; auto].
    + intros v [Hv|Hv]; [right; left; assumption|]. destruct (C v Hv); [auto|right; right; assumption].
Qed.

Lemma applying_step s s' ls todo failed choice u rest imm f ok :
  applying s ls todo failed -> take_upload todo choice = Some (u, rest) ->
  do_upload s (u_key u) (opt_obj u) imm f = (s', ok) -> sext s s' ->
  applying s' ls rest (failed || negb ok).
Proof.
  intros A T D E. pose proof (applying_mono _ _ _ _ _ E A) as (ups0 & B & Sub & Pn).
  destruct (take_upload_spec _ _ _ _ T) as (Hu & Hr & Hs).
  exists ups0. split; [assumption|]. split; [auto|].
  intros F u0 H0. apply orb_false_iff in F. destruct F as [F1 F2]. destruct ok; [|discriminate].
  destruct (Pn F1 u0 H0) as [(v & Hv & K1 & K2)|H]; [|auto].
  destruct (Hs v Hv) as [->|H']; [|left; exists v; split; [assumption|split; assumption]].
  right. unfold present. rewrite K1, K2. eapply do_upload_ok. exact D.
Qed.

Lemma covered_step s ls todo choice u rest :
  covered s ls todo -> take_upload todo choice = Some (u, rest) -> covered s ls rest.
Proof.
  intros [C T] E. destruct (take_upload_spec _ _ _ _ E) as (_ & Hr & _). split; [assumption|auto].
Qed.

(* ---------- how the store may change in one step ---------- *)
Definition fresh (s' : store) (h' : list (cp * list sleaf)) (k : bytes) (o : obj) : Prop :=
  (exists a c ls, tvalid a /\ In (c, ls) h' /\ twithin (len ls) a /\ k = tpath a /\ o = OB (tcanon ls a))
  \/ (exists ls ups, len ls < n63 /\ k = staging_path (len ls) (mroot (leaf_hashes ls)) /\ o = OS ups /\
                     bundle_for s' ls ups)
  \/ (k = k_checkpoint /\ exists c ls, o = OC c /\ In (c, ls) h' /\ complete_exact s' ls)
  \/ kclass k = 95 \/ kclass k = 105.

(* a staging bundle stays (possibly replaced by an equal one) until an instance that has
   committed and completed its tree discards it *)
Definition stg_step (s s' : store) (h' : list (cp * list sleaf)) : Prop :=
  forall k ups, kclass k = 115 -> lookup s k = Some (OS ups) ->
    (exists ups', lookup s' k = Some (OS ups') /\ kd_equiv ups ups')
    \/ (exists c ls, In (c, ls) h' /\ k = spath_of c /\ complete_exact s' ls).

Definition sstep (s s' : store) (h' : list (cp * list sleaf)) : Prop :=
  sext s s' /\ (forall k o, lookup s' k = Some o -> lookup s k = Some o \/ fresh s' h' k o) /\ stg_step s s' h'.

Lemma stg_same s s' h' : (forall k, kclass k = 115 -> lookup s' k = lookup s k) -> stg_step s s' h'.
Proof. intros H k ups K L. left. exists ups. rewrite H by assumption. split; [assumption|apply kd_equiv_refl]. Qed.

Lemma sstep_refl s h' : sstep s s h'.
Proof. split; [apply sext_refl|]. split; [auto|]. apply stg_same. reflexivity. Qed.

Lemma sstep_noop s s' h' : (forall k, lookup s' k = lookup s k) -> sstep s s' h'.
Proof.
  intro H. split; [intros k o _ L; now rewrite H|]. split; [intros k o L; left; now rewrite <- H|].
  apply stg_same. auto.
Qed.

(* an upload under a key that is not a staging key *)
Lemma sstep_upload s k o imm f s' ok h' :
  do_upload s k o imm f = (s', ok) -> kclass k <> 115 ->
  (kclass k = 116 -> imm = true /\ exists b, o = OB b) ->
  (sext s s' -> fresh s' h' k o) -> sstep s s' h'.
Proof.
  intros D Ns K F.
  assert (E : sext s s').
  { intros k0 o0 K0 H. eapply do_upload_keep; [exact D|exact H|].
    destruct (list_eq_dec Byte.byte_eq_dec k0 k) as [->|N]; [right; auto|left; assumption]. }
  split; [assumption|]. split.
  - intros k0 o0 H. destruct (do_upload_lookup _ _ _ _ _ _ _ _ _ D H) as [H'|[-> ->]]; [auto|right; auto].
  - apply stg_same. intros k0 K0. eapply do_upload_other; [exact D|]. congruence.
Qed.

(* the upload of a staging bundle *)
Lemma sstep_staging s ls ups f s' ok h' :
  do_upload s (staging_path (len ls) (mroot (leaf_hashes ls))) (OS ups) true f = (s', ok) ->
  len ls < n63 -> bundle_for s ls ups -> sstep s s' h'.
Proof.
  intros D Hn B. set (n := len ls) in *. set (root := mroot (leaf_hashes ls)) in *.
  assert (E : sext s s').
  { intros k0 o0 K0 H. eapply do_upload_keep; [exact D|exact H|]. left.
    intro X. rewrite X, kclass_staging in K0. discriminate. }
  split; [exact E|split].
  - intros k0 o0 H. destruct (do_upload_lookup _ _ _ _ _ _ _ _ _ D H) as [H'|[-> ->]]; [auto|].
    right. right. left. exists ls, ups. split; [assumption|]. split; [reflexivity|]. split; [reflexivity|].
    eapply bundle_mono; eauto.
  - intros k0 old K0 H. left. destruct (list_eq_dec Byte.byte_eq_dec k0 (staging_path n root)) as [->|N].
    + destruct (do_upload_staging _ _ _ _ _ _ _ D H) as [H'|[H' Kd]].
      * exists old. split; [assumption|apply kd_equiv_refl].
      * exists ups. split; assumption.
    + exists old. rewrite (do_upload_other _ _ _ _ _ _ _ _ D N). split; [assumption|apply kd_equiv_refl].
Qed.

(* Backend.Discard of the staging bundle of a committed, completed tree *)
Lemma sstep_discard s c ls h' :
  In (c, ls) h' -> complete_exact s ls -> sstep s (remove s (spath_of c)) h'.
Proof.
  intros Hin Cm.
  assert (E : sext s (remove s (spath_of c))).
  { intros k0 o0 K0 H. rewrite lookup_remove_other; [assumption|].
    intro X. unfold spath_of in X. rewrite X, kclass_staging in K0. discriminate. }
  split; [assumption|]. split.
  - intros k0 o0 H. left. eapply lookup_remove_some; eauto.
  - intros k0 ups K0 H. destruct (list_eq_dec Byte.byte_eq_dec k0 (spath_of c)) as [->|N].
    + right. exists c, ls. split; [assumption|]. split; [reflexivity|]. eapply complete_mono; eauto.
    + left. exists ups. rewrite lookup_remove_other by assumption. split; [assumption|apply kd_equiv_refl].
Qed.

(* ---------- the generic preservation lemma ---------- *)
Lemma same_size_same_leaves h c1 l1 c2 l2 :
  chain h -> In (c1, l1) h -> In (c2, l2) h -> len l1 = len l2 -> l1 = l2.
Proof.
  intros C H1 H2 E. assert (El : length l1 = length l2) by (unfold len in E; lia).
  destruct (chain_comparable sha _ _ _ _ _ C H1 H2) as [P|P].
  - now apply prefix_same_length.
  - symmetry. now apply prefix_same_length.
Qed.

Lemma wf_len c ls : wfcp c ls -> cp_size c = len ls /\ cp_root c = mroot (leaf_hashes ls).
Proof. intros (A & B & _). auto. Qed.

(* a discarded staging key names the size of a committed, completed tree *)
Lemma discarded_size h' s' k n root :
  chain h' -> small_hist h' -> n < n63 -> k = staging_path n root ->
  (exists c ls, In (c, ls) h' /\ k = spath_of c /\ complete_exact s' ls) ->
  exists c ls, In (c, ls) h' /\ len ls = n /\ complete_exact s' ls.
Proof.
  intros C Sm Hn -> (c & ls & Hin & Ek & Cm). exists c, ls. split; [assumption|]. split; [|assumption].
  destruct (wf_len _ _ (chain_wf sha _ _ _ C Hin)) as [Sz _].
  unfold spath_of in Ek. apply staging_path_inj in Ek; [|assumption|rewrite Sz; eauto].
  destruct Ek as [-> _]. now symmetry.
Qed.

Lemma inst3_keep s s' h e x :
  sstep s s' (h ++ e) -> chain (h ++ e) -> small_hist (h ++ e) ->
  (i_pc x = PRound RCas -> len (r_all (i_rctx x)) < n63) ->
  inst3 s h x -> inst3 s' (h ++ e) x.
Proof.
  intros (E & _ & St) C Sm Hs. unfold inst3. destruct (i_pc x) as [|k|ph| |ph| |]; auto.
  - destruct ph; auto.
    + intros (ls & Hin & A). exists ls. split; [apply in_or_app; auto|].
      destruct A as [A|A]; [left; eapply covered_mono; eauto|right; eapply applying_mono; eauto].
    + intros (ls & Hin & Cm). exists ls. split; [apply in_or_app; auto|eapply complete_mono; eauto].
    + intros (ls & Hin & Cm). exists ls. split; [apply in_or_app; auto|eapply complete_mono; eauto].
    + intros (ls & Hin & Cm). exists ls. split; [apply in_or_app; auto|eapply complete_mono; eauto].
  - apply complete_mono; assumption.
  - destruct ph.
    + apply complete_mono; assumption.
    + intros [Cm U]. split; [eapply complete_mono; eauto|assumption].
    + intros (Cm & U & Sz & D). split; [eapply complete_mono; eauto|]. split; [assumption|]. split; [assumption|].
      destruct D as [D|[(ups & L & K)|(c & ls & Hin & Hl)]]; [auto| |].
      * destruct (St _ _ (kclass_staging _ _) L) as [(ups' & L' & K')|D'].
        -- right. left. exists ups'. split; [assumption|eapply kd_equiv_trans; eauto].
        -- right. right. specialize (Hs eq_refl). rewrite <- Sz in Hs.
           destruct (discarded_size _ _ _ _ _ C Sm Hs eq_refl D') as (c & ls & Hin & El & _).
           exists c, ls. split; [assumption|]. rewrite <- Sz, <- El. lia.
      * right. right. exists c, ls. split; [apply in_or_app; auto|assumption].
    + apply applying_mono; assumption.
    + apply complete_mono; assumption.
    + apply complete_mono; assumption.
Qed.

Lemma Inv3_upd_gen w w' e :
  Inv3 w -> Small w -> chain (w_lockhist w') -> small_hist (w_lockhist w') ->
  w_lockhist w' = w_lockhist w ++ e ->
  sstep (w_store w) (w_store w') (w_lockhist w') ->
  (forall c ls, In (c, ls) e -> recoverable (w_store w') c ls) ->
  (forall j y, get_inst (w_insts w') j = Some y ->
     get_inst (w_insts w) j = Some y \/ inst3 (w_store w') (w_lockhist w') y) ->
  Inv3 w'.
Proof.
  intros (T1 & T2 & TH & T3 & T4) [Sm1 Sm2] C Sm' Eh S He Hi. pose proof S as (E & F & St).
  assert (PG : prefix (Gof (w_lockhist w)) (Gof (w_lockhist w'))).
  { rewrite Eh. apply Gof_app_prefix. rewrite <- Eh. exact C. }
  split; [|split; [|split; [|split]]].
  - (* exactness *)
    intros a o Va H. destruct (F _ _ H) as [Ho|Hf].
    + destruct (T1 a o Va Ho) as [-> Wi]. split.
      * f_equal. symmetry. now apply tcanon_prefix.
      * eapply twithin_mono; [|exact Wi]. now apply prefix_len.
    + pose proof (kclass_tpath a) as K.
      destruct Hf as [(a' & c & ls & Va' & Hin & Wi & Ek & ->)|[(ls0 & ups & _ & Ek & _)|[[Ek _]|[Ek|Ek]]]].
      * apply tpath_inj in Ek; [|assumption|assumption]. subst a'.
        pose proof (chain_in_prefix _ _ _ C Hin) as P. split.
        -- f_equal. symmetry. now apply tcanon_prefix.
        -- eapply twithin_mono; [|exact Wi]. now apply prefix_len.
      * rewrite Ek, kclass_staging in K. discriminate.
      * rewrite Ek, kclass_checkpoint in K. discriminate.
      * rewrite Ek in K. discriminate.
      * rewrite Ek in K. discriminate.
  - (* staging objects *)
    intros n root o Hn H. destruct (F _ _ H) as [Ho|Hf].
    { destruct (T2 n root o Hn Ho) as (ls & ups & -> & L & R & B). exists ls, ups.
      split; [reflexivity|]. split; [assumption|]. split; [assumption|]. eapply bundle_mono; eauto. }
    pose proof (kclass_staging n root) as K.
    destruct Hf as [(a' & c & ls & Va' & Hin & Wi & Ek & ->)|[(ls & ups & Hs & Ek & -> & B)|[[Ek _]|[Ek|Ek]]]].
    + rewrite Ek, kclass_tpath in K. discriminate.
    + apply staging_path_inj in Ek; [|assumption|assumption]. destruct Ek as [-> ->].
      exists ls, ups. auto.
    + rewrite Ek, kclass_checkpoint in K. discriminate.
    + rewrite Ek in K. discriminate.
    + rewrite Ek in K. discriminate.
  - (* committed trees stay recoverable *)
    intros c ls Hin. assert (Hin' := Hin). rewrite Eh in Hin. apply in_app_or in Hin.
    destruct Hin as [Hin|Hin]; [|auto].
    destruct (TH c ls Hin) as [Cm|(ups & L & G)]; [left; eapply complete_mono; eauto|].
    destruct (St _ _ (kclass_staging _ _) L) as [(ups' & L' & K')|D'].
    + right. exists ups'. split; [assumption|]. destruct (good_mono _ _ _ _ E G) as (u0 & B & K0).
      exists u0. split; [assumption|eapply kd_equiv_trans; eauto].
    + left. destruct (wf_len _ _ (chain_wf sha _ _ _ C Hin')) as [Sz _].
      assert (Hn : cp_size c < n63) by (rewrite Sz; eauto).
      destruct (discarded_size _ _ _ _ _ C Sm' Hn eq_refl D') as (c2 & ls2 & Hin2 & El & Cm2).
      rewrite (same_size_same_leaves _ _ _ _ _ C Hin' Hin2); [assumption|congruence].
  - (* the published checkpoint *)
    intros P H. destruct (F _ _ H) as [Ho|Hf].
    + destruct (T3 P Ho) as (ls & Hin & Cm). exists ls. split; [rewrite Eh; apply in_or_app; auto|].
      eapply complete_mono; eauto.
    + pose proof kclass_checkpoint as K.
      destruct Hf as [(a' & c & ls & Va' & Hin & Wi & Ek & Eo)|[(ls0 & ups & _ & Ek & _)|[[_ (c & ls & Eo & Hin & Cm)]|[Ek|Ek]]]].
      * rewrite Ek, kclass_tpath in K. discriminate.
      * rewrite Ek, kclass_staging in K. discriminate.
      * inversion Eo; subst. eauto.
      * rewrite Ek in K. discriminate.
      * rewrite Ek in K. discriminate.
  - intros j y G. destruct (Hi j y G) as [Go|Hy]; [|assumption].
    rewrite Eh. apply inst3_keep with (s := w_store w); try (rewrite <- Eh; assumption); eauto.
Qed.

Lemma Inv3_upd w w' i x' e :
  Inv3 w -> Small w -> chain (w_lockhist w') -> small_hist (w_lockhist w') ->
  w_lockhist w' = w_lockhist w ++ e ->
  w_insts w' = set_inst (w_insts w) i x' ->
  sstep (w_store w) (w_store w') (w_lockhist w') ->
  (forall c ls, In (c, ls) e -> recoverable (w_store w') c ls) ->
  inst3 (w_store w') (w_lockhist w') x' -> Inv3 w'.
Proof.
  intros HI Sm C Sm' Eh Ei S He Hx. eapply Inv3_upd_gen; try eassumption.
  intros j y G. rewrite Ei in G. destruct (Nat.eq_dec i j) as [->|N].
  - rewrite get_set_same in G. inversion G; subst. right. assumption.
  - rewrite get_set_other in G by assumption. left. assumption.
Qed.

End I.
