(* Ctlog/Theorems2.v — consequences of the second invariant layer (C02, C07, C03/C04 parts) *)
From SL Require Import Base.BytesProofs Ctlog.Model Ctlog.Recompute Ctlog.Spec Ctlog.Inv Ctlog.InvStep Ctlog.Inv2 Ctlog.Inv2Step Ctlog.Mono.
From Coq Require Import ZifyN ZifyNat ZifyBool.
Open Scope N_scope.

Section T.
Variable sha : bytes -> bytes.
Notation run := (run sha).
Notation ckey := (ckey sha).

Lemma prefix_nth {A} (a b : list A) i : prefix a b -> (i < length a)%nat -> nth_error b i = nth_error a i.
Proof. intros [t ->] H. now rewrite nth_error_app1. Qed.

Lemma chain_comparable h c1 l1 c2 l2 :
  chain sha h -> In (c1, l1) h -> In (c2, l2) h -> prefix l1 l2 \/ prefix l2 l1.
Proof.
  intros C I1 I2. apply In_nth_error in I1, I2. destruct I1 as [i Hi], I2 as [j Hj].
  destruct (Nat.lt_trichotomy i j) as [H|[H|H]].
  - left. eapply (chain_pairs sha h C i j); eauto.
  - subst j. rewrite Hi in Hj. inversion Hj; subst. left. exists []. now rewrite app_nil_r.
  - right. eapply (chain_pairs sha h C j i); eauto.
Qed.

(* C02 (lock-store half) / C07: every acknowledgement — sequenced, or answered from the dedup
   cache, a cache taken over after a restart, or a rolled-back cache — names an index that holds
   an entry with the same dedup identity and exactly that timestamp in a committed tree, and in
   EVERY committed tree that is large enough (hence in all later ones). *)
Theorem ack_names_committed_leaf evs a idx ts :
  let w := run evs init in
  In a (w_acks w) -> a_res a = Some (idx, ts) ->
  (exists c ls, In (c, ls) (w_lockhist w) /\ (N.to_nat idx < length ls)%nat) /\
  forall c ls, In (c, ls) (w_lockhist w) -> (N.to_nat idx < length ls)%nat ->
    exists sl, nth_error ls (N.to_nat idx) = Some sl /\
      leaf_ckey sha (sl_leaf sl) = ckey (a_entry a) /\ l_ts (sl_leaf sl) = ts /\ l_idx (sl_leaf sl) = Z.of_N idx.
Proof.
  intros w Hin Hres.
  destruct (Inv2_reachable sha evs) as [A _]. pose proof (Inv_reachable sha evs) as (C & _).
  specialize (A a Hin). unfold ack_ok in A. rewrite Hres in A.
  destruct A as (c0 & ls0 & sl & H0 & Hn & Hk & Ht & Hi).
  assert (Hlt : (N.to_nat idx < length ls0)%nat) by (apply nth_error_Some; congruence).
  split; [eauto|].
  intros c ls Hc Hl.
  destruct (chain_comparable _ _ _ _ _ C H0 Hc) as [P|P].
  - exists sl. rewrite (prefix_nth _ _ _ P Hlt). auto.
  - exists sl. rewrite <- (prefix_nth _ _ _ P Hl). auto.
Qed.

(* C07: a run of cmd/recompute-cache that ends with "ok" leaves a row for every entry below the
   bound rc_top (all full tiles; everything when the tree has no full tile) of the published tree,
   so a resubmission of any of them is answered from the cache (resubmission_answered_from_cache)
   with an index that holds it (ack_names_committed_leaf, which covers recompute events). *)
Theorem recompute_restores_dedup evs i key x p ls :
  let w := run evs init in
  get_inst (w_insts w) i = Some x ->
  published w = Some p -> hist_leaves (w_lockhist w) p = Some ls ->
  In (ObsNote "recompute-ok") (snd (step sha w (EvRecompute i key None))) ->
  exists x', get_inst (w_insts (fst (step sha w (EvRecompute i key None)))) i = Some x' /\
    forall j sl, N.of_nat j < rc_top (cp_size p) -> nth_error ls j = Some sl ->
      cache_get (i_cache x') (leaf_ckey sha (sl_leaf sl)) <> None.
Proof.
  intros w G Hpub Hh Hobs.
  pose proof (Inv_reachable sha evs) as (C & _). fold w in C.
  assert (Hwf : wfcp sha p ls) by (eapply chain_wf; [exact C|apply hist_leaves_in; exact Hh]).
  destruct Hwf as [Hsz _].
  unfold Model.step in *. rewrite G in *. unfold step_recompute in *. rewrite Hpub in *.
  destruct (negb (cp_key p =? key)).
  { cbn [snd] in Hobs. destruct Hobs as [Hobs|[Hobs|[]]]; discriminate. }
  rewrite Hh in *.
  destruct (rc_loop sha _ _ _ _ _ _ _) as [c1 why] eqn:E.
  cbn [fst snd] in *. destruct Hobs as [Hobs|[Hobs|[]]]; [|discriminate].
  cbn in Hobs. inversion Hobs; subst why.
  eexists. split; [cbn [w_insts set_i]; apply get_set_same|].
  cbn [i_cache set_cache]. intros j sl Hj Hn.
  eapply rc_loop_all; [|exact E| |exact Hj|exact Hn].
  - pose proof (rc_top_le (cp_size p)). lia.
  - lia.
Qed.

(* every leaf of every committed tree carries its own position as leaf index (the SCT extension
   and the position in the tiles agree), whatever crashes, faults and restarts happened *)
Theorem committed_leaves_indexed evs c ls :
  In (c, ls) (w_lockhist (run evs init)) ->
  forall j sl, nth_error ls j = Some sl -> l_idx (sl_leaf sl) = Z.of_nat j.
Proof.
  intros Hin. pose proof (Inv_reachable sha evs) as (C & _).
  destruct (chain_wf sha _ _ _ C Hin) as (_ & _ & H). exact H.
Qed.

Theorem acks_never_retracted evs more a :
  In a (w_acks (run evs init)) -> In a (w_acks (run (evs ++ more) init)).
Proof. apply acks_monotone. Qed.

(* C07: a resubmission of an entry that is pending or being sequenced is answered with the
   waiter of the original and adds no leaf *)
Theorem resubmission_joins_pending c p inseq cache e low victim wid wd :
  in_pool sha p (ckey e) = Some wd \/ (in_pool sha p (ckey e) = None /\ in_pool sha inseq (ckey e) = Some wd) ->
  admission sha c None p inseq cache e low victim wid = (p, ADup wd).
Proof.
  unfold admission. intros [H|[H1 H2]]; [rewrite H|rewrite H1, H2]; reflexivity.
Qed.

(* C07: an entry found in the dedup cache is answered with the cached index and timestamp and adds no leaf *)
Theorem resubmission_answered_from_cache c p inseq cache e low victim wid idx ts :
  in_pool sha p (ckey e) = None -> in_pool sha inseq (ckey e) = None -> cache_get cache (ckey e) = Some (idx, ts) ->
  admission sha c None p inseq cache e low victim wid = (p, ACached idx ts).
Proof. unfold admission. intros H1 H2 H3. rewrite H1, H2, H3. reflexivity. Qed.

(* the dedup identity ignores everything but (type, issuer key hash, certificate / TBS) *)
Theorem ckey_only_identity e1 e2 :
  e_cert e1 = e_cert e2 -> e_pre e1 = e_pre e2 -> (e_pre e1 = true -> e_ikh e1 = e_ikh e2) -> ckey e1 = ckey e2.
Proof.
  unfold Model.ckey, cache_preimage. intros H1 H2 H3. rewrite H1, H2.
  destruct (e_pre e2) eqn:E; cbn [negb]; [|reflexivity]. rewrite H3; [reflexivity|congruence].
Qed.

(* C04 / C03: nothing but staging bundles is ever discarded *)
Theorem only_staging_is_discarded evs d :
  In d (w_discards (run evs init)) -> exists n root, fst d = staging_path n root.
Proof. apply only_staging_discarded. Qed.

End T.
