(* Ctlog/Theorems.v — consequences of the invariant, in the form used by Properties/C01, C06, C08,
   and the admission-control facts of C17 *)
From SL Require Import Base.BytesProofs Ctlog.Model Ctlog.Spec Ctlog.Inv Ctlog.InvStep.
From Coq Require Import ZifyN ZifyNat ZifyBool.
Open Scope N_scope.

Section T.
Variable sha : bytes -> bytes.
Notation run := (run sha).
Notation step := (step sha).

(* C01: for every event list (submissions, rounds, faults applied or not, crashes, restarts,
   any clock values, any number of instances, tamperings) *)
Theorem lock_history_append_only evs :
  append_only sha (w_lockhist (run evs init)).
Proof. apply chain_append_only. apply (Inv_reachable sha evs). Qed.

Theorem published_was_committed_first evs c k :
  In (c, k) (w_pubhist (run evs init)) ->
  exists ls, In (c, ls) (firstn k (w_lockhist (run evs init))).
Proof. destruct (Inv_reachable sha evs) as (_ & _ & _ & P). apply P. Qed.

(* C08: whatever happened to object storage, an instance that got through LoadLog (it is idle or in
   a round) works on exactly a committed tree: its checkpoint value is its lock checkpoint, and
   (checkpoint, leaf sequence) is an element of the lock history *)
Theorem running_instance_holds_committed_tree evs i x :
  get_inst (w_insts (run evs init)) i = Some x ->
  (i_pc x = PIdle \/ exists ph, i_pc x = PRound ph) ->
  In (i_tree x, i_leaves x) (w_lockhist (run evs init)) /\ i_tree x = i_lockcp x.
Proof.
  intros G Hpc. destruct (Inv_reachable sha evs) as (_ & _ & II & _).
  specialize (II _ _ G). unfold Inv.inst_inv in II.
  assert (L : Inv.loaded (w_lockhist (run evs init)) x).
  { destruct Hpc as [Hpc|[ph Hpc]]; rewrite Hpc in II; [exact II|].
    destruct ph; try exact II; destruct II as [L _]; exact L. }
  destruct L as [Hin E]. rewrite E. split; [exact Hin|reflexivity].
Qed.

(* ...and the checkpoint it is about to sign and commit (phases staging upload / compare-and-swap)
   commits to a leaf sequence that EXTENDS that tree, is well-formed (size, RFC 6962 root, leaf i
   carries index i) and has a strictly later timestamp *)
Theorem next_checkpoint_extends_committed_tree evs i x :
  get_inst (w_insts (run evs init)) i = Some x ->
  (i_pc x = PRound RStaging \/ i_pc x = PRound RCas) ->
  prefix (i_leaves x) (r_all (i_rctx x)) /\
  wfcp sha (r_new (i_rctx x)) (r_all (i_rctx x)) /\
  (cp_ts (i_tree x) < cp_ts (r_new (i_rctx x)))%Z /\
  In (i_tree x, i_leaves x) (w_lockhist (run evs init)).
Proof.
  intros G Hpc. destruct (Inv_reachable sha evs) as (_ & _ & II & _).
  specialize (II _ _ G). unfold Inv.inst_inv in II.
  destruct Hpc as [Hpc|Hpc]; rewrite Hpc in II; destruct II as [[Hin E] (P & W & T)];
    rewrite <- E in Hin; (split; [exact P|split; [exact W|split; [exact T|exact Hin]]]).
Qed.

Theorem lock_history_nodup evs : NoDup (map fst (w_lockhist (run evs init))).
Proof. apply (chain_nodup sha). apply (Inv_reachable sha evs). Qed.

Theorem lock_is_last evs :
  lock_last (w_lockhist (run evs init)) (w_lock (run evs init)).
Proof. destruct (Inv_reachable sha evs) as (_ & L & _). exact L. Qed.

(* ---------- C06: a refused compare-and-swap is fatal and acknowledges nothing ---------- *)
Lemma acks_of_pool_err w i p e a :
  In a (acks_of_pool w i p (fun _ _ => (None, Some e))) -> a_res a = None.
Proof.
  unfold acks_of_pool. generalize O. induction (pl_leaves p) as [|y l IH]; intros k H; [destruct H|].
  destruct H as [E|H]; [subst; reflexivity|eauto].
Qed.

Theorem cas_refused_is_fatal w i x f choice :
  get_inst (w_insts w) i = Some x -> i_pc x = PRound RCas ->
  (match w_lock w with Some c => cp_eqb c (i_lockcp x) | None => false end) = false ->
  let w' := fst (step w (EvStep i f choice)) in
  w_lockhist w' = w_lockhist w /\ w_lock w' = w_lock w /\ w_store w' = w_store w /\
  (exists x', get_inst (w_insts w') i = Some x' /\ i_pc x' = PStopped /\ i_closed x' = Some EFatal) /\
  (forall a, In a (w_acks w') -> In a (w_acks w) \/ a_res a = None).
Proof.
  intros G Hpc Hcan. cbn [Model.step]. rewrite G, Hpc. unfold step_round. rewrite Hcan. cbn [andb].
  unfold end_round, fail_pool.
  cbn [fst w_lockhist w_lock w_store w_insts w_acks add_acks set_i].
  repeat split.
  - eexists. rewrite get_set_same. split; [reflexivity|]. split; reflexivity.
  - intros a Ha. rewrite <- app_assoc in Ha. apply in_app_or in Ha. destruct Ha as [Ha|Ha]; [auto|].
    right. apply in_app_or in Ha. destruct Ha as [Ha|Ha]; eapply acks_of_pool_err; eauto.
Qed.

(* a log is never created over an existing one *)
Theorem create_over_existing_refused w i x f c0 :
  get_inst (w_insts w) i = Some x -> i_pc x = PCreate 2 -> w_lock w = Some c0 ->
  let w' := fst (step w (EvStep i f [])) in
  w_lock w' = Some c0 /\ w_lockhist w' = w_lockhist w /\ w_store w' = w_store w /\
  exists x', get_inst (w_insts w') i = Some x' /\ i_pc x' = PNone.
Proof.
  intros G Hpc El. cbn [Model.step]. rewrite G, Hpc. unfold step_create. rewrite El. cbn [andb fst].
  cbn [w_lock w_lockhist w_store w_insts set_i]. repeat split; try assumption.
  eexists. rewrite get_set_same. split; reflexivity.
Qed.

(* start-up refusals: decision table of LoadLog's comparison of the two checkpoints *)
Theorem load_refuses_bad_storage_checkpoint w i x f p :
  get_inst (w_insts w) i = Some x -> i_pc x = PLoad LPub ->
  lookup (w_store w) k_checkpoint = Some (OC p) ->
  (cp_size (i_lockcp x) < cp_size p                                             (* storage ahead *)
   \/ (cp_size p = cp_size (i_lockcp x) /\ cp_root p <> cp_root (i_lockcp x))   (* same size, other root *)
   \/ cp_key p <> c_key (i_cfg x) \/ cp_origin p <> c_name (i_cfg x)          (* foreign key or name *)
   \/ cp_ext p <> []) ->
  let w' := fst (step w (EvStep i f [])) in
  exists x', get_inst (w_insts w') i = Some x' /\ i_pc x' = PNone.
Proof.
  intros G Hpc Hl Hbad. cbn [Model.step]. rewrite G, Hpc. unfold step_load, fetch.
  assert (FAIL : forall why o, exists x', get_inst (w_insts (fst (load_fail w i x why o))) i = Some x' /\ i_pc x' = PNone).
  { intros. unfold load_fail. cbn [fst w_insts set_i]. eexists. rewrite get_set_same. split; reflexivity. }
  destruct (succeeded f); [|apply FAIL]. rewrite Hl.
  unfold open_checkpoint.
  destruct (negb (cp_key p =? c_key (i_cfg x)) || negb (bytes_eqb (cp_origin p) (c_name (i_cfg x)))) eqn:E1; [apply FAIL|].
  apply orb_false_iff in E1. destruct E1 as [E1 E1']. apply negb_false_iff in E1, E1'.
  apply N.eqb_eq in E1. apply bytes_eqb_eq in E1'.
  destruct (w_now w <? cp_ts p)%Z; [apply FAIL|].
  destruct (negb (bytes_eqb (cp_ext p) [])) eqn:E2; [apply FAIL|].
  apply negb_false_iff in E2. apply bytes_eqb_eq in E2.
  destruct Hbad as [H|[[H1 H2]|[H|[H|H]]]]; try contradiction.
  - destruct ((cp_size p =? cp_size (i_lockcp x)) && negb (bytes_eqb (cp_root p) (cp_root (i_lockcp x)))); [apply FAIL|].
    destruct (N.ltb_spec (cp_size (i_lockcp x)) (cp_size p)); [apply FAIL|lia].
  - rewrite H1, N.eqb_refl. cbn [andb].
    destruct (bytes_eqb (cp_root p) (cp_root (i_lockcp x))) eqn:E3; [apply bytes_eqb_eq in E3; contradiction|].
    apply FAIL.
Qed.

(* ---------- C17: admission control ---------- *)
Notation admission := (admission sha).
Notation ckey := (ckey sha).

Definition full (c : cfg) (p : pool) : bool :=
  (0 <? c_poolsize c) && (c_poolsize c <=? N.of_nat (length (pl_leaves p))).

Definition fresh_key (p inseq : pool) (cache : list (bytes * (N * Z))) (e : entry) : Prop :=
  in_pool sha p (ckey e) = None /\ in_pool sha inseq (ckey e) = None /\ cache_get cache (ckey e) = None.

Lemma length_replace_nth {A} (l : list A) n x : length (replace_nth l n x) = length l.
Proof. revert n; induction l as [|y r IH]; intros [|n]; cbn; auto. Qed.

(* the pool never grows beyond the configured size (0 = unbounded) *)
Theorem pool_bounded c closed p inseq cache e low victim wid :
  0 < c_poolsize c -> N.of_nat (length (pl_leaves p)) <= c_poolsize c ->
  N.of_nat (length (pl_leaves (fst (admission c closed p inseq cache e low victim wid)))) <= c_poolsize c.
Proof.
  intros Hpos Hlen. unfold Model.admission.
  destruct closed; [assumption|].
  destruct (in_pool sha p (ckey e)); [assumption|].
  destruct (in_pool sha inseq (ckey e)); [assumption|].
  destruct (cache_get cache (ckey e)) as [[idx ts]|]; [assumption|].
  destruct ((0 <? c_poolsize c) && (c_poolsize c <=? N.of_nat (length (pl_leaves p)))) eqn:Ef.
  - destruct low; [assumption|].
    destruct (lows p); [assumption|].
    destruct (nth_error (pl_leaves p) _); [|assumption].
    cbn [fst pl_leaves]. rewrite length_replace_nth. assumption.
  - cbn [fst pl_leaves]. rewrite app_length. cbn [length].
    apply andb_false_iff in Ef. destruct Ef as [Ef|Ef]; lia.
Qed.

Theorem full_low_rejected c p inseq cache e victim wid :
  full c p = true -> fresh_key p inseq cache e ->
  admission c None p inseq cache e true victim wid = (p, ARateLimited).
Proof.
  unfold full, fresh_key. intros Hf (H1 & H2 & H3). unfold Model.admission. rewrite H1, H2, H3, Hf. reflexivity.
Qed.

Theorem full_high_no_low_rejected c p inseq cache e victim wid :
  full c p = true -> fresh_key p inseq cache e -> lows p = [] ->
  admission c None p inseq cache e false victim wid = (p, ARateLimited).
Proof.
  unfold full, fresh_key. intros Hf (H1 & H2 & H3) Hl. unfold Model.admission. rewrite H1, H2, H3, Hf, Hl. reflexivity.
Qed.

Lemma lows_spec p v : In v (lows p) <-> exists x, nth_error (pl_leaves p) v = Some x /\ p_low x = true.
Proof.
  unfold lows.
  assert (G : forall l k v, In v ((fix go (l : list pend) (k : nat) {struct l} : list nat :=
               match l with [] => [] | x :: r => if p_low x then k :: go r (S k) else go r (S k) end) l k)
             <-> exists x, (k <= v)%nat /\ nth_error l (v - k) = Some x /\ p_low x = true).
  { induction l as [|y r IH]; intros k v0.
    - split; [intros []|]. intros [x [_ [H _]]]. destruct (v0 - k)%nat; discriminate.
    - destruct (p_low y) eqn:Ey.
      + split.
        * intros [E|H]; [subst; exists y; rewrite Nat.sub_diag; auto|].
          apply IH in H. destruct H as [x (Hk & Hn & Hl)]. exists x. split; [lia|].
          replace (v0 - k)%nat with (S (v0 - S k)) by lia. auto.
        * intros [x (Hk & Hn & Hl)]. destruct (Nat.eq_dec k v0) as [->|N]; [left; reflexivity|].
          right. apply IH. exists x. split; [lia|].
          replace (v0 - k)%nat with (S (v0 - S k)) in Hn by lia. auto.
      + split.
        * intro H. apply IH in H. destruct H as [x (Hk & Hn & Hl)]. exists x. split; [lia|].
          replace (v0 - k)%nat with (S (v0 - S k)) by lia. auto.
        * intros [x (Hk & Hn & Hl)]. apply IH.
          destruct (Nat.eq_dec k v0) as [->|N].
          { rewrite Nat.sub_diag in Hn. cbn in Hn. inversion Hn; subst. congruence. }
          exists x. split; [lia|]. replace (v0 - k)%nat with (S (v0 - S k)) in Hn by lia. auto. }
  rewrite G. split.
  - intros [x (_ & Hn & Hl)]. rewrite Nat.sub_0_r in Hn. eauto.
  - intros [x [Hn Hl]]. exists x. rewrite Nat.sub_0_r. split; [lia|auto].
Qed.

(* a high-priority submission to a full pool evicts exactly one pending low-priority entry,
   takes its slot, and leaves everything else in place *)
Theorem full_high_evicts_one_low c p inseq cache e victim wid :
  full c p = true -> fresh_key p inseq cache e -> lows p <> [] ->
  exists v old,
    In v (lows p) /\ nth_error (pl_leaves p) v = Some old /\ p_low old = true /\
    admission c None p inseq cache e false victim wid =
      (mkPool (replace_nth (pl_leaves p) v (mkPend e false wid))
              ((ckey (p_entry old), p_wid old) :: pl_evicted p),
       AEvicting wid (p_wid old)).
Proof.
  unfold full, fresh_key. intros Hf (H1 & H2 & H3) Hl. unfold Model.admission. rewrite H1, H2, H3, Hf.
  destruct (lows p) as [|l0 ls] eqn:El; [contradiction|].
  set (v := if existsb (Nat.eqb victim) (l0 :: ls) then victim else l0).
  assert (Hv : In v (lows p)).
  { rewrite El. unfold v. destruct (existsb (Nat.eqb victim) (l0 :: ls)) eqn:Ex; [|left; reflexivity].
    apply existsb_exists in Ex. destruct Ex as [y [Hy Ey]]. apply Nat.eqb_eq in Ey. subst. assumption. }
  destruct (proj1 (lows_spec p v) Hv) as [old [Hn Hlow]].
  exists v, old. rewrite Hn. split; [rewrite <- El; exact Hv|]. split; [reflexivity|]. split; [assumption|reflexivity].
Qed.

(* after the sequencer stopped every submission fails with the stop error and changes nothing *)
Theorem closed_rejects c er p inseq cache e low victim wid :
  admission c (Some er) p inseq cache e low victim wid = (p, AClosed er).
Proof. reflexivity. Qed.

End T.
