(* Ctlog/GenProofs.v — the builder terms GENERATED from the Go source (Gen/Builders.v, rewritten by
   /verif/translate on every check run) are the hand-written model's. *)
From SL Require Import Base.Bytes Base.Cryptobyte Gen.Builders Ctlog.Model.
From Coq Require Import String.
Open Scope N_scope.

(* internal/ctlog/ctlog.go computeCacheHash builds exactly the model's cache_preimage *)
Lemma gen_ctlog_cache_key_is_model cert pre ikh :
  gen_ctlog_cache_key cert pre ikh = cache_preimage cert pre ikh.
Proof. unfold gen_ctlog_cache_key, cache_preimage. destruct pre; reflexivity. Qed.

(* cmd/recompute-cache's private copy builds the same term *)
Lemma gen_recompute_cache_key_is_model cert pre ikh :
  gen_recompute_cache_key cert pre ikh = cache_preimage cert pre ikh.
Proof. unfold gen_recompute_cache_key, cache_preimage. destruct pre; reflexivity. Qed.

Lemma cache_key_copies_agree cert pre ikh :
  gen_recompute_cache_key cert pre ikh = gen_ctlog_cache_key cert pre ikh.
Proof.
  transitivity (cache_preimage cert pre ikh);
    [apply gen_recompute_cache_key_is_model|symmetry; apply gen_ctlog_cache_key_is_model].
Qed.

(* both return SHA-256 of the built bytes (the model: ckey = sha of the preimage) *)
Lemma cache_key_return_wrappers :
  gen_ctlog_cache_key_returns = "cacheHash(sha256.Sum256(b.BytesOrPanic()))"%string /\
  gen_recompute_cache_key_returns = "cacheHash(sha256.Sum256(b.BytesOrPanic()))"%string.
Proof. split; reflexivity. Qed.

(* hence the dedup key of the model is the hash of what either copy builds *)
Lemma ckey_of_generated (sha : bytes -> bytes) e :
  ckey sha e = match gen_recompute_cache_key (e_cert e) (e_pre e) (e_ikh e) with Some b => sha b | None => [] end.
Proof. unfold ckey. pose proof (gen_recompute_cache_key_is_model (e_cert e) (e_pre e) (e_ikh e)) as H. destruct (e_pre e); rewrite H || reflexivity; reflexivity. Qed.
