(* Ctlog/Frame.v — an event of instance j changes no other slot of the instance table; hence a
   stopped instance stays stopped (and its pool closed) through every history that does not re-create
   its slot *)
From SL Require Import Base.BytesProofs Ctlog.Model Ctlog.Spec Ctlog.Inv Ctlog.InvStep Ctlog.Stop.
Open Scope N_scope.

Section F.
Variable sha : bytes -> bytes.
Notation step := (step sha).
Notation run := (run sha).

Lemma end_round_insts w i x res w1 o :
  end_round sha w i x res = (w1, o) -> exists x1, w_insts w1 = set_inst (w_insts w) i x1.
Proof. intro E. apply end_round_frame in E. destruct E as (_ & _ & _ & x1 & E & _). eauto. Qed.

Lemma after_apply_insts w i x w1 o :
  after_apply w i x = (w1, o) -> exists x1, w_insts w1 = set_inst (w_insts w) i x1.
Proof. unfold after_apply. destruct (_ =? _); intro E; inversion E; subst; cbn [set_i w_insts]; eauto. Qed.

Ltac helper :=
  match goal with
  | |- context[after_apply ?a ?b ?c] =>
    let E := fresh "E" in destruct (after_apply a b c) as [? ?] eqn:E;
    apply after_apply_insts in E; destruct E as (? & E)
  | |- context[world_upload ?a ?b ?c ?d ?e ?f] =>
    let E := fresh "E" in destruct (world_upload a b c d e f) as [[? ?] ?] eqn:E;
    apply upload_frame in E; destruct E as (_ & _ & E & _)
  | |- context[end_round sha ?a ?b ?c ?d] =>
    let E := fresh "E" in destruct (end_round sha a b c d) as [? ?] eqn:E;
    apply end_round_insts in E; destruct E as (? & E)
  | |- context[fail_pool ?a ?b ?c ?d] =>
    let E := fresh "E" in destruct (fail_pool a b c d) as [? ?] eqn:E;
    apply fail_pool_frame in E; destruct E as (_ & _ & E & _)
  | |- context[upload_issuers sha ?a ?b ?c ?d ?e] =>
    let E := fresh "E" in destruct (upload_issuers sha a b c d e) as [[[? ?] ?] ?] eqn:E;
    apply upload_issuers_frame in E; destruct E as (_ & _ & E & _)
  end.

Ltac brk :=
  repeat (first
    [ progress cbn [fst snd w_insts set_i add_acks set_store]
    | helper
    | match goal with
      | |- context[let '(_, _) := ?e in _] => destruct e eqn:?
      | |- context[match ?x with _ => _ end] => destruct x eqn:?
      end ]).

Ltac fin :=
  repeat (first
    [ rewrite get_set_other by congruence
    | match goal with H : w_insts ?a = _ |- context[w_insts ?a] => rewrite H end
    | progress cbn [fst snd w_insts set_i add_acks set_store]
    | match goal with |- context[if ?b then _ else _] => destruct b end ]);
  reflexivity.

Definition option_nat_dec (o : option nat) (i : nat) : {o = Some i} + {o <> Some i}.
Proof. destruct o as [j|]; [destruct (Nat.eq_dec j i); [left; congruence|right; congruence]|right; discriminate]. Defined.

Definition same_others (w w' : world) (j : nat) : Prop :=
  forall i, i <> j -> get_inst (w_insts w') i = get_inst (w_insts w) i.

Lemma step_create_only w j x k f : same_others w (fst (step_create sha w j x k f)) j.
Proof. unfold step_create. intros i H. brk; fin. Qed.

Lemma step_load_only w j x ph f ch : same_others w (fst (step_load sha w j x ph f ch)) j.
Proof. unfold step_load, load_fail. intros i H. brk; fin. Qed.

Lemma step_clock_only w j x : same_others w (fst (step_clock sha w j x)) j.
Proof. unfold step_clock. intros i H. brk; fin. Qed.

Lemma step_round_only w j x ph f ch : same_others w (fst (step_round sha w j x ph f ch)) j.
Proof.
  unfold step_round. intros i H. destruct ph; try (apply step_clock_only; assumption); brk; fin.
Qed.

Lemma step_submit_only w j x e low v fs : same_others w (fst (step_submit sha w j x e low v fs)) j.
Proof. unfold Model.step_submit. intros i H. brk; fin. Qed.

Lemma step_recompute_only w j x key lim : same_others w (fst (step_recompute sha w j x key lim)) j.
Proof. unfold step_recompute, set_cache. intros i H. brk; fin. Qed.


(* the instance an event belongs to *)
Definition ev_inst (e : ev) : option nat :=
  match e with
  | EvClock _ | EvTamper _ _ => None
  | EvCreate j _ | EvStart j _ _ | EvStep j _ _ | EvSubmit j _ _ _ _ | EvTick j | EvCrash j | EvStop j _
  | EvCacheDrop j _ | EvRecompute j _ _ => Some j
  end.

Theorem step_touches_one_slot w e i :
  ev_inst e <> Some i -> get_inst (w_insts (fst (step w e))) i = get_inst (w_insts w) i.
Proof.
  intro H. destruct e; cbn [ev_inst] in H; cbn [Model.step];
    try (match goal with |- context[match get_inst (w_insts w) ?j with _ => _ end] => destruct (get_inst (w_insts w) j) as [y|] eqn:G end);
    cbn [fst w_insts set_i]; try reflexivity;
    try (rewrite get_set_other by congruence; reflexivity).
  - (* EvStep *) destruct (i_pc y); cbn [fst]; try reflexivity.
    + apply step_create_only. congruence.
    + apply step_load_only. congruence.
    + apply step_round_only. congruence.
  - (* EvSubmit *) destruct (i_pc y); cbn [fst]; try reflexivity; apply step_submit_only; congruence.
  - (* EvTick *) unfold step_tick. destruct (i_pc y); cbn [fst w_insts set_i]; try reflexivity.
    rewrite get_set_other by congruence. reflexivity.
  - (* EvStop *) destruct (i_pc y); cbn [fst]; try reflexivity.
    match goal with |- context[fail_pool ?a ?b ?c ?d] =>
      destruct (fail_pool a b c d) as [w1 o1] eqn:E; apply fail_pool_frame in E; destruct E as (_ & _ & E & _) end.
    cbn [fst]. rewrite E. cbn [w_insts set_i]. rewrite get_set_other by congruence. reflexivity.
  - (* EvTamper *) destruct o; reflexivity.
  - (* EvRecompute *) apply step_recompute_only. congruence.
Qed.

(* events that put a NEW instance into slot i (the harness never reuses a slot) or crash it *)
Definition replaces (e : ev) (i : nat) : bool :=
  match e with
  | EvCreate j _ | EvStart j _ _ | EvCrash j => Nat.eqb j i
  | _ => false
  end.

Definition stopped_with (w : world) (i : nat) (er : errc) (t : cp) : Prop :=
  exists x, get_inst (w_insts w) i = Some x /\ i_pc x = PStopped /\ i_closed x = Some er /\ i_tree x = t.

Theorem stopped_step w e i er t :
  stopped_with w i er t -> replaces e i = false -> stopped_with (fst (step w e)) i er t.
Proof.
  intros (x & G & Hpc & Hc & Ht) R.
  destruct (option_nat_dec (ev_inst e) i) as [E|N].
  2:{ exists x. rewrite step_touches_one_slot by assumption. auto. }
  destruct (stopped_instance_is_inert sha w i x er G Hpc Hc) as (S1 & S2 & S3 & S4).
  destruct e as [now|j c|j c keep|j f ch|j en low vic fs|j|j|j why|j keep|k ob|j key lim]; cbn [ev_inst] in E; inversion E; subst j; cbn [replaces] in R;
    try (rewrite Nat.eqb_refl in R; discriminate).
  - rewrite S1. exists x. auto.
  - destruct (S4 en low vic fs) as (_ & _ & _ & (x' & G' & P' & C' & _ & T') & _). exists x'. repeat split; try assumption. congruence.
  - rewrite S2. exists x. auto.
  - rewrite S3. exists x. auto.
  - unfold stopped_with. cbn [Model.step]. rewrite G. cbn [fst w_insts set_i]. eexists. rewrite get_set_same. cbn. auto.
  - unfold stopped_with. cbn [Model.step]. rewrite G. unfold step_recompute, set_cache.
    repeat (match goal with
            | |- context[match ?a with _ => _ end] => destruct a eqn:?
            | |- context[let '(_, _) := ?a in _] => destruct a eqn:?
            end; cbn [fst w_insts set_i]);
      try (exists x; auto; fail); eexists; rewrite get_set_same; cbn; auto.
Qed.

(* C17, over whole histories: once the sequencer of instance i has stopped with error er on tree t, the
   instance is in exactly that state after ANY further events (of any instance, faults, tampering)
   that do not put a new instance into its slot *)
Theorem stopped_forever evs : forall w i er t,
  stopped_with w i er t -> forallb (fun e => negb (replaces e i)) evs = true -> stopped_with (run evs w) i er t.
Proof.
  induction evs as [|e r IH]; intros w i er t S F; [exact S|].
  cbn [forallb] in F. apply andb_prop in F. destruct F as [F1 F2].
  cbn [Model.run fold_left]. apply IH; [|assumption].
  apply stopped_step; [assumption|]. destruct (replaces e i); [discriminate|reflexivity].
Qed.

End F.
