(* Ctlog/Stop.v — C17, the stop clause: when RunSequencer returns (its context is cancelled, or the
   read-only date has passed at a tick) every pending submitter gets exactly one outcome, the
   error of the stop, and from then on the instance is inert: its ticks and steps do nothing, every
   submission fails, and nothing it does touches the lock store (no further checkpoint is signed). *)
From SL Require Import Base.BytesProofs Ctlog.Model Ctlog.Spec Ctlog.Inv Ctlog.InvStep Ctlog.Inv2Step Ctlog.Theorems.
From Coq Require Import ZifyN ZifyNat ZifyBool.
Open Scope N_scope.

Section S.
Variable sha : bytes -> bytes.
Notation step := (step sha).

Definition stop_err (why : stop_why) : errc :=
  match why with SCancel => ECanceled | SSunset => ESunset end.

Lemma acks_of_pool_fail_shape w i p e :
  map (fun a => (a_wid a, a_res a, a_err a)) (acks_of_pool w i p (fun _ _ => (None, Some e))) =
  map (fun y => (p_wid y, None, Some e)) (pl_leaves p).
Proof.
  unfold acks_of_pool. generalize O. induction (pl_leaves p) as [|y l IH]; intro k; [reflexivity|].
  cbn [map]. f_equal. apply IH.
Qed.

(* the stop itself: exactly one failed outcome per pending submitter, in pool order; the instance is
   stopped, its pool is closed with the error of the stop; lock store, lock history, object storage
   and the published history are untouched *)
Theorem stop_fails_all_pending w i x why :
  get_inst (w_insts w) i = Some x -> i_pc x = PIdle ->
  let w' := fst (step w (EvStop i why)) in
  let o := snd (step w (EvStop i why)) in
  w_lock w' = w_lock w /\ w_lockhist w' = w_lockhist w /\ w_store w' = w_store w /\ w_pubhist w' = w_pubhist w /\
  (exists x', get_inst (w_insts w') i = Some x' /\ i_pc x' = PStopped /\ i_closed x' = Some (stop_err why) /\
              pl_leaves (i_pool x') = [] /\ pl_leaves (i_inseq x') = [] /\
              i_tree x' = i_tree x /\ i_lockcp x' = i_lockcp x) /\
  o = map (fun y => ObsAck (p_wid y) None (Some (stop_err why))) (pl_leaves (i_pool x)) /\
  (forall a, In a (w_acks w') -> In a (w_acks w) \/ (a_res a = None /\ a_err a = Some (stop_err why))).
Proof.
  intros G Hpc. cbn [Model.step]. rewrite G, Hpc. unfold fail_pool.
  cbn [fst snd w_lock w_lockhist w_store w_pubhist w_insts w_acks add_acks set_i].
  change (match why with SCancel => ECanceled | SSunset => ESunset end) with (stop_err why).
  repeat split.
  - eexists. rewrite get_set_same. cbn. repeat split; reflexivity.
  - unfold obs_of_acks.
    match goal with |- map _ ?L = _ => pose proof (acks_of_pool_fail_shape
       (set_i w i (mkInst (i_cfg x) PStopped (i_tree x) (i_lockcp x) (i_leaves x) empty_pool empty_pool
                          (Some (stop_err why)) (i_issuers x) (i_cache x) (i_rctx x) (i_pub x))) i (i_pool x) (stop_err why)) as H;
       revert H; generalize L end.
    generalize (pl_leaves (i_pool x)). intros l a. revert l.
    induction a as [|a0 a IH]; intros [|y l] H; cbn [map] in *; try discriminate; [reflexivity|].
    injection H as H1 H2 H3 H4. rewrite H1, H2, H3. f_equal. apply IH. assumption.
  - intros a Ha. apply in_app_or in Ha. destruct Ha as [Ha|Ha]; [left; assumption|right].
    match type of Ha with In a ?L => assert (Hm : In (a_wid a, a_res a, a_err a) (map (fun a => (a_wid a, a_res a, a_err a)) L))
                                       by (apply in_map with (f := fun a => (a_wid a, a_res a, a_err a)); exact Ha) end.
    rewrite acks_of_pool_fail_shape in Hm. apply in_map_iff in Hm. destruct Hm as (y & Ey & _).
    inversion Ey. split; reflexivity.
Qed.

(* a stopped instance is inert *)
Theorem stopped_instance_is_inert w i x er :
  get_inst (w_insts w) i = Some x -> i_pc x = PStopped -> i_closed x = Some er ->
  (forall f ch, step w (EvStep i f ch) = (w, [ObsNote "step-ignored"])) /\
  step w (EvTick i) = (w, [ObsNote "tick-ignored"]) /\
  (forall why, step w (EvStop i why) = (w, [ObsNote "stop-ignored"])) /\
  (forall e low victim fs,
      let w' := fst (step w (EvSubmit i e low victim fs)) in
      w_lock w' = w_lock w /\ w_lockhist w' = w_lockhist w /\ w_pubhist w' = w_pubhist w /\
      (exists x', get_inst (w_insts w') i = Some x' /\ i_pc x' = PStopped /\ i_closed x' = Some er /\
                  i_pool x' = i_pool x /\ i_tree x' = i_tree x) /\
      (forall a, In a (w_acks w') -> In a (w_acks w) \/ (a_res a = None /\ a_err a <> None))).
Proof.
  intros G Hpc Hc. split; [|split; [|split]].
  - intros f ch. cbn [Model.step]. rewrite G, Hpc. reflexivity.
  - cbn [Model.step]. rewrite G. unfold step_tick. rewrite Hpc. reflexivity.
  - intro why. cbn [Model.step]. rewrite G, Hpc. reflexivity.
  - intros e low victim fs. cbn [Model.step]. rewrite G, Hpc. unfold Model.step_submit.
    destruct (upload_issuers sha w i (i_issuers x) (e_issuers e) fs) as [[[w1 known] ok] o] eqn:E.
    pose proof (upload_issuers_acks _ _ _ _ _ _ _ _ _ _ E) as Ea.
    apply upload_issuers_frame in E. destruct E as (A1 & A2 & A3 & A4).
    destruct ok; cbn [negb].
    + unfold admission. rewrite Hc.
      cbn [fst w_lock w_lockhist w_pubhist w_insts w_acks add_acks set_i].
      repeat split; try assumption.
      * eexists. rewrite get_set_same. cbn. repeat split; try reflexivity; assumption.
      * intros a Ha. rewrite Ea in Ha. apply in_app_or in Ha. destruct Ha as [Ha|[Ha|[]]]; [left; assumption|right].
        subst a. cbn. split; [reflexivity|discriminate].
    + cbn [fst w_lock w_lockhist w_pubhist w_insts w_acks add_acks set_i].
      repeat split; try assumption.
      * eexists. rewrite get_set_same. cbn. repeat split; try reflexivity; assumption.
      * intros a Ha. rewrite Ea in Ha. apply in_app_or in Ha. destruct Ha as [Ha|[Ha|[]]]; [left; assumption|right].
        subst a. cbn. split; [reflexivity|discriminate].
Qed.

End S.
