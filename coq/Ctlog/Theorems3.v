(* Ctlog/Theorems3.v — consequences of the third invariant layer (C03 / C04): for every history
   without tampering and with fewer than 2^63 events, object storage is a complete, exact
   rendering of the committed leaf sequence.
   The bound on the number of events is what makes the sizes fit int64, the domain on which the
   object keys (tile paths, staging paths) are injective; it is discharged here by a counting
   invariant (every leaf list in the world is at most as long as the number of events so far).
   No assumption on the hash function is needed. *)
From SL Require Import Base.BytesProofs Merkle.TilesProofs Ctlog.Model Ctlog.Recompute Ctlog.Spec Ctlog.Inv Ctlog.InvStep
  Ctlog.Theorems Ctlog.Theorems2 Ctlog.Inv3 Ctlog.Inv3Step.
From Coq Require Import ZifyN ZifyNat ZifyBool.
Open Scope N_scope.

Section T.
Variable sha : bytes -> bytes.
Notation step := (step sha).
Notation run := (run sha).
Notation end_round := (end_round sha).
Notation step_create := (step_create sha).
Notation step_load := (step_load sha).
Notation step_round := (step_round sha).
Notation step_clock := (step_clock sha).
Notation step_submit := (step_submit sha).
Notation Inv := (Inv sha).
Notation Inv3 := (Inv3 sha).
Notation complete_exact := (complete_exact sha).
Notation exact := (exact sha).
Notation hash_tile_bytes := (hash_tile_bytes sha).
Notation n63 := 9223372036854775808%N.

Ltac fields := cbn [w_lockhist w_lock w_pubhist w_insts w_store w_acks set_i add_acks set_store fst snd] in *.

(* ================= the counting invariant ================= *)
Definition plen (p : pool) : nat := length (pl_leaves p).

Definition ibound (k : nat) (x : inst) : Prop :=
  let L := length (i_leaves x) in let P := plen (i_pool x) in let Q := plen (i_inseq x) in
  let R := length (r_all (i_rctx x)) in
  match i_pc x with
  | PIdle | PRound RClock => (L + P + Q <= k)%nat
  | PRound RStaging | PRound RCas => (L + P + Q <= k)%nat /\ (R + P <= k)%nat
  | PRound _ => (L + P <= k)%nat
  | _ => True
  end.

Definition Bound (k : nat) (w : world) : Prop :=
  (forall c ls, In (c, ls) (w_lockhist w) -> (length ls <= k)%nat) /\
  (forall i x, get_inst (w_insts w) i = Some x -> ibound k x).

Lemma ibound_mono k k' x : (k <= k')%nat -> ibound k x -> ibound k' x.
Proof.
  intro H. unfold ibound. destruct (i_pc x) as [|c|ph| |ph| |]; auto; try lia. destruct ph; lia.
Qed.

Lemma Bound_init : Bound 0 init.
Proof. split; cbn; [intros c ls []|discriminate]. Qed.

Lemma Bound_upd k k' w w' i x' e :
  Bound k w -> (k <= k')%nat -> w_lockhist w' = w_lockhist w ++ e ->
  (forall c ls, In (c, ls) e -> (length ls <= k')%nat) ->
  w_insts w' = set_inst (w_insts w) i x' -> ibound k' x' -> Bound k' w'.
Proof.
  intros [B1 B2] Hk Eh He Ei Hx. split.
  - rewrite Eh. intros c ls H. apply in_app_or in H. destruct H as [H|H]; [|eauto].
    apply B1 in H. lia.
  - rewrite Ei. intros j y G. destruct (Nat.eq_dec i j) as [->|N].
    + rewrite get_set_same in G. inversion G; subst. assumption.
    + rewrite get_set_other in G by assumption. eapply ibound_mono; eauto.
Qed.

Lemma Bound_same k w w' :
  Bound k w -> w_lockhist w' = w_lockhist w -> w_insts w' = w_insts w -> Bound (S k) w'.
Proof.
  intros [B1 B2] Eh Ei. split.
  - rewrite Eh. intros c ls H. apply B1 in H. lia.
  - rewrite Ei. intros j y G. eapply ibound_mono; [|eauto]. lia.
Qed.

Ltac bupd i X :=
  cbn [fst]; eapply Bound_upd with (i := i) (x' := X) (e := []);
  [eassumption | lia | rewrite app_nil_r; cbn [w_lockhist set_i]; congruence | intros ? ? []
  | cbn [w_insts set_i]; congruence | try exact I ].

Lemma end_round_frameB w i x res w1 o :
  end_round w i x res = (w1, o) ->
  w_lockhist w1 = w_lockhist w /\
  exists x1, w_insts w1 = set_inst (w_insts w) i x1 /\
    (i_pc x1 = PStopped \/
     (i_pc x1 = PIdle /\ i_leaves x1 = i_leaves x /\ i_pool x1 = i_pool x /\ i_inseq x1 = empty_pool)).
Proof.
  unfold Model.end_round. destruct res as [e|].
  - destruct e;
      repeat match goal with
             | |- context [fail_pool ?a ?b ?c ?d] =>
               let E := fresh "E" in destruct (fail_pool a b c d) as [? ?] eqn:E;
               apply fail_pool_frame3 in E; destruct E as (? & ? & ?)
             end;
      intro E0; inversion E0; subst; clear E0;
      cbn [w_lockhist w_store w_insts set_i add_acks] in *;
      (split; [congruence|]);
      eexists; (split; [etransitivity; [eassumption|]; try (etransitivity; [eassumption|]); reflexivity|]);
      cbn [i_leaves i_pc i_pool i_inseq]; try (left; reflexivity); right; repeat split; reflexivity.
  - intro E0; inversion E0; subst; clear E0. cbn [w_lockhist w_store w_insts set_i add_acks].
    split; [reflexivity|]. eexists. split; [reflexivity|]. cbn [i_leaves i_pc i_pool i_inseq].
    right. repeat split; reflexivity.
Qed.

Lemma end_round_bound k w0 w i x res e :
  Bound k w0 -> w_lockhist w = w_lockhist w0 ++ e ->
  (forall c ls, In (c, ls) e -> (length ls <= S k)%nat) -> w_insts w = w_insts w0 ->
  (length (i_leaves x) + plen (i_pool x) <= S k)%nat ->
  Bound (S k) (fst (end_round w i x res)).
Proof.
  intros B Eh He Ei Hx. destruct (end_round w i x res) as [w1 o] eqn:E. cbn [fst].
  apply end_round_frameB in E. destruct E as (A1 & x1 & A2 & A3).
  eapply Bound_upd with (i := i) (x' := x1) (e := e); try eassumption; try lia; try congruence.
  unfold ibound. destruct A3 as [->|(-> & E1 & E2 & E3)]; [exact I|].
  rewrite E1, E2, E3. cbn. lia.
Qed.

Lemma admission_len c closed p inseq cache e low victim wid :
  (plen (fst (admission sha c closed p inseq cache e low victim wid)) <= S (plen p))%nat.
Proof.
  unfold Model.admission, plen.
  destruct closed; [cbn; lia|].
  destruct (in_pool sha p (ckey sha e)); [cbn; lia|].
  destruct (in_pool sha inseq (ckey sha e)); [cbn; lia|].
  destruct (cache_get cache (ckey sha e)) as [[idx ts]|]; [cbn; lia|].
  destruct ((0 <? c_poolsize c) && (c_poolsize c <=? N.of_nat (length (pl_leaves p)))).
  - destruct low; [cbn; lia|].
    destruct (lows p); [cbn; lia|].
    destruct (nth_error (pl_leaves p) _); [|cbn; lia].
    cbn [fst pl_leaves]. rewrite length_replace_nth. lia.
  - cbn [fst pl_leaves]. rewrite app_length. cbn [length]. lia.
Qed.

Lemma step_round_bound k w i x ph f choice :
  Bound k w -> get_inst (w_insts w) i = Some x -> i_pc x = PRound ph ->
  Bound (S k) (fst (step_round w i x ph f choice)).
Proof.
  intros B G Hpc. pose proof B as [B1 B2]. pose proof (B2 _ _ G) as Hx.
  unfold ibound in Hx. rewrite Hpc in Hx.
  destruct ph.
  - (* clock *)
    unfold Model.step_round, Model.step_clock.
    destruct (w_now w <=? cp_ts (i_tree x))%Z.
    + destruct (fail_pool _ _ _ _) as [w1 o1] eqn:E1.
      destruct (fail_pool w1 _ _ _) as [w2 o2] eqn:E2.
      apply fail_pool_frame3 in E1. destruct E1 as (A1 & A2 & A3).
      apply fail_pool_frame3 in E2. destruct E2 as (C1 & C2 & C3). fields.
      eapply Bound_upd with (i := i) (e := []); try eassumption; try lia; fields.
      * rewrite app_nil_r. congruence.
      * intros ? ? [].
      * rewrite C3, A3. reflexivity.
      * exact I.
    + match goal with |- Bound _ (fst (set_i w i ?X, _)) => bupd i X end.
      unfold ibound.
      destruct (round_uploads _ _ _ _); cbn [i_pc i_leaves i_pool i_inseq i_rctx r_all];
        rewrite app_length, length_new_sleaves; unfold plen in *; lia.
  - (* staging *)
    unfold Model.step_round.
    destruct (world_upload _ _ _ _ _ _) as [[w1 ok] o] eqn:E.
    apply upload_frame in E. destruct E as (A1 & A2 & A3 & A4).
    destruct ok.
    + bupd i (upd_pc x (PRound RCas)). unfold ibound. cbn [i_pc upd_pc i_leaves i_pool i_inseq i_rctx]. lia.
    + destruct (end_round w1 i x (Some ENonFatal)) as [w2 o2] eqn:E2. cbn [fst].
      replace w2 with (fst (end_round w1 i x (Some ENonFatal))) by (rewrite E2; reflexivity).
      eapply end_round_bound with (e := []); try eassumption; rewrite ?app_nil_r; try congruence; try lia.
      intros ? ? [].
  - (* compare-and-swap *)
    unfold Model.step_round.
    set (can := match w_lock w with Some c => cp_eqb c (i_lockcp x) | None => false end).
    destruct can; cbn [andb].
    + destruct (applied f) eqn:Eap.
      * destruct (succeeded f).
        -- cbn [fst].
           match goal with |- Bound _ (set_i _ i ?X) =>
             eapply Bound_upd with (i := i) (x' := X) (e := [(r_new (i_rctx x), r_all (i_rctx x))]) end;
             try eassumption; try lia; fields; try reflexivity.
           ++ intros c ls [H|[]]. inversion H; subst. lia.
           ++ unfold ibound. destruct (r_ups (i_rctx x)); cbn [i_pc i_leaves i_pool]; lia.
        -- match goal with |- context [end_round ?a i x (Some EFatal)] => set (w1 := a) end.
           destruct (end_round w1 i x (Some EFatal)) as [w2 o2] eqn:E2. cbn [fst].
           replace w2 with (fst (end_round w1 i x (Some EFatal))) by (rewrite E2; reflexivity).
           eapply end_round_bound with (e := [(r_new (i_rctx x), r_all (i_rctx x))]); try eassumption;
             subst w1; fields; try reflexivity; try lia.
           intros c ls [H|[]]. inversion H; subst. lia.
      * assert (Esu : succeeded f = false) by (destruct f; cbn in *; congruence). rewrite Esu.
        destruct (end_round w i x (Some EFatal)) as [w2 o2] eqn:E2. cbn [fst].
        replace w2 with (fst (end_round w i x (Some EFatal))) by (rewrite E2; reflexivity).
        eapply end_round_bound with (e := []); try eassumption; rewrite ?app_nil_r; try reflexivity; try lia.
        intros ? ? [].
    + destruct (end_round w i x (Some EFatal)) as [w2 o2] eqn:E2. cbn [fst].
      replace w2 with (fst (end_round w i x (Some EFatal))) by (rewrite E2; reflexivity).
      eapply end_round_bound with (e := []); try eassumption; rewrite ?app_nil_r; try reflexivity; try lia.
      intros ? ? [].
  - (* tiles *)
    unfold Model.step_round.
    destruct (take_upload todo choice) as [[u rest]|]; [|cbn [fst]; eapply Bound_same; eauto].
    destruct (world_upload _ _ _ _ _ _) as [[w1 ok] o] eqn:E.
    apply upload_frame in E. destruct E as (A1 & A2 & A3 & A4).
    destruct rest as [|u' rest'].
    + destruct (failed || negb ok).
      * destruct (end_round w1 i x (Some EFatal)) as [w2 o2] eqn:E2. cbn [fst].
        replace w2 with (fst (end_round w1 i x (Some EFatal))) by (rewrite E2; reflexivity).
        eapply end_round_bound with (e := []); try eassumption; rewrite ?app_nil_r; try congruence; try lia.
        intros ? ? [].
      * bupd i (upd_pc x (PRound RCheckpoint)). unfold ibound. cbn [i_pc upd_pc i_leaves i_pool]. lia.
    + bupd i (upd_pc x (PRound (RTiles (u' :: rest') (failed || negb ok)))).
      unfold ibound. cbn [i_pc upd_pc i_leaves i_pool]. lia.
  - (* checkpoint *)
    unfold Model.step_round.
    destruct (world_upload _ _ _ _ _ _) as [[w1 ok] o] eqn:E.
    apply upload_frame in E. destruct E as (A1 & A2 & A3 & A4).
    destruct ok.
    + destruct (r_ups (i_rctx x)).
      * destruct (end_round w1 i x None) as [w2 o2] eqn:E2. cbn [fst].
        replace w2 with (fst (end_round w1 i x None)) by (rewrite E2; reflexivity).
        eapply end_round_bound with (e := []); try eassumption; rewrite ?app_nil_r; try congruence; try lia.
        intros ? ? [].
      * bupd i (upd_pc x (PRound RDiscard)). unfold ibound. cbn [i_pc upd_pc i_leaves i_pool]. lia.
    + destruct (end_round w1 i x (Some ENonFatal)) as [w2 o2] eqn:E2. cbn [fst].
      replace w2 with (fst (end_round w1 i x (Some ENonFatal))) by (rewrite E2; reflexivity).
      eapply end_round_bound with (e := []); try eassumption; rewrite ?app_nil_r; try congruence; try lia.
      intros ? ? [].
  - (* discard *)
    unfold Model.step_round.
    match goal with |- context [end_round ?a i x None] => set (w1 := a) end.
    destruct (end_round w1 i x None) as [w2 o2] eqn:E2. cbn [fst].
    replace w2 with (fst (end_round w1 i x None)) by (rewrite E2; reflexivity).
    eapply end_round_bound with (e := []); try eassumption; subst w1; fields; rewrite ?app_nil_r; try reflexivity; try lia.
    intros ? ? [].
Qed.

Lemma step_create_bound k w i x c f :
  Bound k w -> get_inst (w_insts w) i = Some x -> i_pc x = PCreate c ->
  Bound (S k) (fst (step_create w i x c f)).
Proof.
  intros B G Hpc. unfold Model.step_create.
  destruct c as [|[|[|[|c]]]].
  - match goal with |- context [if ?b then _ else _] => destruct b end.
    + bupd i (upd_pc x PNone).
    + bupd i (upd_pc x (PCreate 1)).
  - destruct (fetch w i k_checkpoint f) as [r o]. destruct r.
    + bupd i (upd_pc x PNone).
    + bupd i (upd_pc x (PCreate 2)).
  - set (c0 := mkCp (c_name (i_cfg x)) 0 (hempty sha) (w_now w) (c_key (i_cfg x)) []).
    destruct (w_lock w) as [lc|]; cbn [andb].
    + bupd i (upd_pc x PNone).
    + destruct (applied f) eqn:Eap.
      * destruct (succeeded f); cbn [fst];
          match goal with |- Bound _ (set_i _ i ?X) =>
            eapply Bound_upd with (i := i) (x' := X) (e := [(c0, [])]) end;
          try eassumption; try lia; fields; try reflexivity; try exact I;
          intros c1 l1 [H|[]]; inversion H; subst; cbn; lia.
      * assert (Esu : succeeded f = false) by (destruct f; cbn in *; congruence). rewrite Esu.
        bupd i (upd_pc x PNone).
  - destruct (world_upload _ _ _ _ _ _) as [[w1 ok] o] eqn:E.
    apply upload_frame in E. destruct E as (A1 & A2 & A3 & A4).
    destruct ok.
    + bupd i (upd_pc x (PCreate 4)).
    + bupd i (upd_pc x PNone).
  - destruct (world_upload _ _ _ _ _ _) as [[w1 ok] o] eqn:E.
    apply upload_frame in E. destruct E as (A1 & A2 & A3 & A4).
    destruct ok; bupd i (upd_pc x PNone).
Qed.

Lemma after_apply_bound k w0 w i x :
  Bound k w0 -> w_lockhist w = w_lockhist w0 -> w_insts w = w_insts w0 ->
  Bound (S k) (fst (after_apply w i x)).
Proof.
  intros B Eh Ei. unfold after_apply.
  destruct (cp_size (i_lockcp x) =? 0); cbn [fst].
  - eapply Bound_upd with (i := i) (x' := upd_pc x (PLoad LRoots)) (e := []); try eassumption; try lia; fields;
      rewrite ?app_nil_r; try congruence; [intros ? ? []|exact I].
  - eapply Bound_upd with (i := i) (x' := upd_pc x (PLoad (LEdge (rev (edge_tiles (cp_size (i_lockcp x))))))) (e := []);
      try eassumption; try lia; fields; rewrite ?app_nil_r; try congruence; [intros ? ? []|exact I].
Qed.

Lemma step_load_bound k w i x ph f choice :
  Bound k w -> get_inst (w_insts w) i = Some x -> i_pc x = PLoad ph ->
  Bound (S k) (fst (step_load w i x ph f choice)).
Proof.
  intros B G Hpc. pose proof B as [B1 B2].
  assert (FAIL : forall why o, Bound (S k) (fst (load_fail w i x why o))).
  { intros why o. unfold load_fail. bupd i (upd_pc x PNone). }
  unfold Model.step_load.
  destruct ph.
  - match goal with |- context [match ?r with Some _ => _ | None => load_fail _ _ _ _ _ end] => destruct r as [lc|] end;
      [|apply FAIL].
    destruct (open_checkpoint (i_cfg x) (w_now w) (OC lc)) as [[lc'|]|why]; try apply FAIL.
    bupd i (set_load x LPub lc' cp0).
  - destruct (fetch w i k_checkpoint f) as [r o]. destruct r as [ob|]; [|apply FAIL].
    destruct (open_checkpoint (i_cfg x) (w_now w) ob) as [[p|]|why]; try apply FAIL.
    repeat match goal with |- context [if ?b then _ else _] => destruct b end; try apply FAIL.
    + bupd i (set_load x LLegacy (i_lockcp x) p).
    + destruct (after_apply w i (set_load x LLock (i_lockcp x) p)) as [w1 o1] eqn:E1. cbn [fst].
      replace w1 with (fst (after_apply w i (set_load x LLock (i_lockcp x) p))) by (rewrite E1; reflexivity).
      eapply after_apply_bound; eauto.
  - destruct (fetch w i _ f) as [r o]. destruct r; [apply FAIL|].
    bupd i (upd_pc x (PLoad LStaging)).
  - destruct (fetch w i _ f) as [r o]. destruct r as [[b|c|ups]|]; try apply FAIL.
    destruct ups as [|u ups].
    + destruct (after_apply w i x) as [w1 o1] eqn:E1. cbn [fst].
      replace w1 with (fst (after_apply w i x)) by (rewrite E1; reflexivity).
      eapply after_apply_bound; eauto.
    + bupd i (upd_pc x (PLoad (LApply (u :: ups) false))).
  - destruct (take_upload todo choice) as [[u rest]|]; [|cbn [fst]; eapply Bound_same; eauto].
    destruct (world_upload _ _ _ _ _ _) as [[w1 ok] o] eqn:E.
    apply upload_frame in E. destruct E as (A1 & A2 & A3 & A4).
    destruct rest as [|u' rest'].
    + destruct (failed || negb ok).
      * unfold load_fail. bupd i (upd_pc x PNone).
      * destruct (after_apply w1 i x) as [w2 o2] eqn:E2. cbn [fst].
        replace w2 with (fst (after_apply w1 i x)) by (rewrite E2; reflexivity).
        eapply after_apply_bound; eauto.
    + bupd i (upd_pc x (PLoad (LApply (u' :: rest') (failed || negb ok)))).
  - destruct todo as [|t rest].
    + bupd i (upd_pc x (PLoad LData)).
    + destruct (fetch w i _ f) as [r o].
      destruct r as [[b|c|ups]|]; try apply FAIL.
      destruct (hist_leaves (w_lockhist w) (i_lockcp x)); try apply FAIL.
      destruct (bytes_eqb b _); try apply FAIL.
      bupd i (upd_pc x (PLoad (match rest with [] => LData | _ => LEdge rest end))).
      all: try (destruct rest; exact I).
  - destruct (fetch w i _ f) as [r o].
    destruct r as [[b|c|ups]|]; try apply FAIL.
    destruct (hist_leaves (w_lockhist w) (i_lockcp x)); try apply FAIL.
    destruct (bytes_eqb b _); try apply FAIL.
    bupd i (upd_pc x (PLoad LRoots)).
  - destruct (fetch w i k_roots f) as [r o].
    match goal with |- Bound _ (fst (set_i w i ?X, _)) => bupd i X end.
    unfold ibound. cbn [i_pc i_leaves i_pool i_inseq]. unfold plen. cbn [pl_leaves empty_pool length].
    destruct (hist_leaves (w_lockhist w) (i_lockcp x)) as [l|] eqn:Eh; [|cbn; lia].
    apply hist_leaves_in in Eh. apply B1 in Eh. lia.
Qed.

Lemma step_submit_bound k w i x e low victim fs :
  Bound k w -> get_inst (w_insts w) i = Some x ->
  Bound (S k) (fst (step_submit w i x e low victim fs)).
Proof.
  intros B G. pose proof B as [B1 B2]. pose proof (B2 _ _ G) as Hx.
  unfold Model.step_submit.
  destruct (upload_issuers sha w i (i_issuers x) (e_issuers e) fs) as [[[w1 known] ok] o] eqn:E.
  apply upload_issuers_frame in E. destruct E as (A1 & A2 & A3 & A4).
  destruct ok; cbn [negb].
  - pose proof (admission_len (i_cfg x) (i_closed x) (i_pool x) (i_inseq x) (i_cache x) e low victim (w_nextwid w)) as Hl.
    destruct (admission sha _ _ _ _ _ _ _ _ _) as [p' r]. cbn [fst] in Hl.
    assert (Hx2 : ibound (S k) (mkInst (i_cfg x) (i_pc x) (i_tree x) (i_lockcp x) (i_leaves x) p' (i_inseq x)
                                       (i_closed x) known (i_cache x) (i_rctx x) (i_pub x))).
    { unfold ibound in *. cbn [i_pc i_leaves i_pool i_inseq i_rctx].
      destruct (i_pc x) as [|c|ph| |ph| |]; auto; try lia. destruct ph; lia. }
    destruct r; cbn [fst];
      (eapply Bound_upd with (i := i) (e := []);
       [eassumption | lia | fields; rewrite app_nil_r; congruence | intros ? ? []
       | fields; rewrite A3; reflexivity | exact Hx2]).
  - cbn [fst].
    eapply Bound_upd with (i := i) (e := []);
      [eassumption | lia | fields; rewrite app_nil_r; congruence | intros ? ? []
      | fields; rewrite A3; reflexivity | ].
    eapply ibound_mono with (k := k); [lia|].
    unfold ibound in *. cbn [i_pc i_leaves i_pool i_inseq i_rctx]. exact Hx.
Qed.

Theorem Bound_step k w e : Bound k w -> Bound (S k) (fst (step w e)).
Proof.
  intro B. pose proof B as [B1 B2].
  assert (SAME : Bound (S k) w) by (eapply Bound_same; eauto).
  destruct e; unfold Model.step.
  - cbn [fst]. eapply Bound_same; eauto.
  - bupd i (upd_pc (inst0 c) (PCreate 0)).
  - match goal with |- Bound _ (fst (set_i w i ?X, _)) => bupd i X end.
  - destruct (get_inst (w_insts w) i) as [x|] eqn:G; [|exact SAME].
    destruct (i_pc x) eqn:Hpc; try exact SAME.
    + apply step_create_bound; assumption.
    + apply step_load_bound; assumption.
    + apply step_round_bound; assumption.
  - destruct (get_inst (w_insts w) i) as [x|] eqn:G; [|exact SAME].
    destruct (i_pc x); try exact SAME; apply step_submit_bound; assumption.
  - destruct (get_inst (w_insts w) i) as [x|] eqn:G; [|exact SAME].
    unfold step_tick. destruct (i_pc x) eqn:Hpc; try exact SAME.
    pose proof (B2 _ _ G) as Hx. unfold ibound in Hx. rewrite Hpc in Hx.
    match goal with |- Bound _ (fst (set_i w i ?X, _)) => bupd i X end.
    unfold ibound. cbn [i_pc i_leaves i_pool i_inseq]. unfold plen in *. cbn [pl_leaves empty_pool length]. lia.
  - destruct (get_inst (w_insts w) i) as [x|] eqn:G; [|exact SAME].
    bupd i (upd_pc x PDead).
  - destruct (get_inst (w_insts w) i) as [x|] eqn:G; [|exact SAME].
    destruct (i_pc x) eqn:Hpc; try exact SAME.
    destruct (fail_pool _ _ _ _) as [w1 o1] eqn:E1.
    apply fail_pool_frame3 in E1. destruct E1 as (A1 & A2 & A3). fields.
    eapply Bound_upd with (i := i) (e := []); try eassumption; try lia; fields; rewrite ?app_nil_r; try congruence.
    + intros ? ? [].
    + exact I.
  - destruct (get_inst (w_insts w) i) as [x|] eqn:G; [|exact SAME].
    match goal with |- Bound _ (fst (set_i w i ?X, _)) => bupd i X end.
    eapply ibound_mono with (k := k); [lia|]. pose proof (B2 _ _ G) as Hx.
    unfold ibound in *. cbn [i_pc i_leaves i_pool i_inseq i_rctx]. exact Hx.
  - destruct o; cbn [fst]; eapply Bound_same; eauto.
  - destruct (get_inst (w_insts w) i) as [x|] eqn:G; [|exact SAME].
    destruct (step_recompute_spec sha w i x key lim) as [E|(p & ls & c1 & why & _ & _ & _ & E)]; rewrite E; [exact SAME|].
    match goal with |- Bound _ (set_i w i ?X) => change (Bound (S k) (fst (set_i w i X, @nil obs))); bupd i X end.
    eapply ibound_mono with (k := k); [lia|]. pose proof (B2 _ _ G) as Hx.
    unfold ibound in *. cbn [i_pc i_leaves i_pool i_inseq i_rctx set_cache]. exact Hx.
Qed.

Lemma Bound_small k w : Bound k w -> N.of_nat k < n63 -> Small w.
Proof.
  intros [B1 B2] Hk. split.
  - intros c ls H. apply B1 in H. unfold len. lia.
  - intros i x G Hpc. pose proof (B2 _ _ G) as Hx. unfold ibound in Hx. unfold len.
    destruct Hpc as [Hpc|Hpc]; rewrite Hpc in Hx; lia.
Qed.

(* ================= reachability ================= *)
Definition no_tamper (evs : list ev) : Prop := Forall not_tamper evs.

Definition no_tamperb (evs : list ev) : bool :=
  forallb (fun e => match e with EvTamper _ _ => false | _ => true end) evs.

Lemma no_tamperb_ok evs : no_tamperb evs = true -> no_tamper evs.
Proof.
  unfold no_tamperb, no_tamper. rewrite forallb_forall, Forall_forall. intros H e Hin.
  specialize (H e Hin). destruct e; try exact I. discriminate.
Qed.

Lemma Inv3_run evs : forall k w, Inv w -> Bound k w -> Inv3 w -> no_tamper evs ->
  N.of_nat (k + length evs) < n63 -> Inv3 (run evs w).
Proof.
  induction evs as [|e r IH]; intros k w HI B HI3 NT Hk; cbn; [assumption|].
  inversion NT; subst.
  apply (IH (S k)).
  - apply Inv_step. assumption.
  - apply Bound_step. assumption.
  - apply Inv3_step; try assumption. eapply Bound_small; eauto. cbn [length] in Hk. lia.
  - assumption.
  - cbn [length] in Hk. lia.
Qed.

Theorem Inv3_reachable evs :
  no_tamper evs -> N.of_nat (length evs) < n63 -> Inv3 (run evs init).
Proof.
  intros NT Hk. apply (Inv3_run evs 0); auto using Inv_init, Bound_init, Inv3_init.
Qed.

(* ================= the statements in expanded form ================= *)
Definition G (w : world) : list sleaf := Gof (w_lockhist w).

(* T3, spelled out for the three kinds of tiles *)
Definition complete_exact_spec (s : store) (ls : list sleaf) : Prop :=
  (forall t, In t (tiles_needed (N.of_nat (length ls))) ->
     lookup s (hash_tile_path t) = Some (OB (hash_tile_bytes ls t))) /\
  (forall j, j * 256 < N.of_nat (length ls) ->
     let wd := N.min 256 (N.of_nat (length ls) - j * 256) in
     lookup s (data_tile_path j wd) = Some (OB (data_tile_bytes (slice ls (j * 256) wd))) /\
     lookup s (names_tile_path j wd) = Some (OB (names_tile_bytes (slice ls (j * 256) wd)))).

Lemma complete_exact_iff s ls : complete_exact s ls <-> complete_exact_spec s ls.
Proof.
  unfold Inv3.complete_exact, complete_exact_spec, len. split.
  - intro H. split.
    + intros t Ht. exact (H (TH t) Ht).
    + intros j Hj. split.
      * apply (H (TD j _)). cbn [tneeded]. auto.
      * apply (H (TN j _)). cbn [tneeded]. auto.
  - intros [H1 H2] [t|n w|n w]; cbn [tneeded tpath tcanon].
    + apply H1.
    + intros [Hn ->]. apply (H2 n Hn).
    + intros [Hn ->]. apply (H2 n Hn).
Qed.

(* C04: every tile of the published tree is present and exact *)
Theorem C04_complete_exact evs P ls :
  no_tamper evs -> N.of_nat (length evs) < n63 ->
  published (run evs init) = Some P -> In (P, ls) (w_lockhist (run evs init)) ->
  complete_exact_spec (w_store (run evs init)) ls.
Proof.
  intros NT Hk Hp Hin. apply complete_exact_iff.
  destruct (Inv3_reachable evs NT Hk) as (_ & _ & _ & T3 & _).
  pose proof (Inv_reachable sha evs) as (C & _).
  unfold published in Hp.
  destruct (lookup (w_store (run evs init)) k_checkpoint) as [[b|c|u]|] eqn:El; try discriminate.
  inversion Hp; subst c. destruct (T3 P El) as (ls' & Hin' & Cm).
  rewrite (chain_unique sha _ _ _ _ C Hin Hin'). exact Cm.
Qed.

(* C03: every tile of the tree an instance has loaded (or sequenced) is present and exact *)
Theorem C03_loaded_complete evs i x :
  no_tamper evs -> N.of_nat (length evs) < n63 ->
  get_inst (w_insts (run evs init)) i = Some x -> i_pc x = PIdle ->
  complete_exact_spec (w_store (run evs init)) (i_leaves x).
Proof.
  intros NT Hk Gx Hpc. apply complete_exact_iff.
  destruct (Inv3_reachable evs NT Hk) as (_ & _ & _ & _ & T4).
  specialize (T4 _ _ Gx). unfold Inv3.inst3 in T4. rewrite Hpc in T4. exact T4.
Qed.

(* C04: every tile object in the store, needed or not, is the canonical rendering of the
   committed leaf sequence and lies within it *)
Theorem C04_exact_everything evs :
  no_tamper evs -> N.of_nat (length evs) < n63 ->
  let w := run evs init in
  (forall t o, 1 <= tc_W t <= 256 -> tc_N t < n63 -> (Z.of_nat (tc_L t) < two63)%Z ->
     lookup (w_store w) (hash_tile_path t) = Some o ->
     o = OB (hash_tile_bytes (G w) t) /\
     (tc_N t * 256 + tc_W t) * 256 ^ N.of_nat (tc_L t) <= N.of_nat (length (G w))) /\
  (forall n wd o, 1 <= wd <= 256 -> n < n63 ->
     lookup (w_store w) (data_tile_path n wd) = Some o ->
     o = OB (data_tile_bytes (slice (G w) (n * 256) wd)) /\ n * 256 + wd <= N.of_nat (length (G w))) /\
  (forall n wd o, 1 <= wd <= 256 -> n < n63 ->
     lookup (w_store w) (names_tile_path n wd) = Some o ->
     o = OB (names_tile_bytes (slice (G w) (n * 256) wd)) /\ n * 256 + wd <= N.of_nat (length (G w))).
Proof.
  intros NT Hk w. destruct (Inv3_reachable evs NT Hk) as (T1 & _). fold w in T1. fold (G w) in T1.
  split; [|split].
  - intros t o H1 H2 H3 L. apply (T1 (TH t) o); [cbn [tvalid]; auto|exact L].
  - intros n wd o H1 H2 L. apply (T1 (TD n wd) o); [cbn [tvalid]; auto|exact L].
  - intros n wd o H1 H2 L. apply (T1 (TN n wd) o); [cbn [tvalid]; auto|exact L].
Qed.

(* T2: every staging object is a bundle of immutable uploads that address tiles of a tree of
   that size; and every committed tree is complete in the store or can be completed from its
   staging bundle (which is what LoadLog does after a crash) *)
Theorem C03_staging_bundles evs :
  no_tamper evs -> N.of_nat (length evs) < n63 ->
  let w := run evs init in
  (forall n root o, n < n63 -> lookup (w_store w) (staging_path n root) = Some o ->
     exists ls pre, N.of_nat (length ls) = n /\ root = mroot sha (leaf_hashes sha ls) /\
       prefix pre ls /\ complete_exact_spec (w_store w) pre /\
       o = OS (round_uploads sha ls (N.of_nat (length pre)) n)) /\
  (forall c ls, In (c, ls) (w_lockhist w) ->
     complete_exact_spec (w_store w) ls \/
     exists ups, lookup (w_store w) (staging_path (cp_size c) (cp_root c)) = Some (OS ups) /\
       exists ups0 pre, prefix pre ls /\ complete_exact_spec (w_store w) pre /\
         ups0 = round_uploads sha ls (N.of_nat (length pre)) (N.of_nat (length ls)) /\ kd_equiv ups0 ups).
Proof.
  intros NT Hk w. destruct (Inv3_reachable evs NT Hk) as (_ & T2 & TH & _). fold w in T2, TH.
  split.
  { intros n root o Hn L. destruct (T2 n root o Hn L) as (ls & ups & -> & El & Er & pre & P & Cp & ->).
    exists ls, pre. split; [exact El|]. split; [exact Er|]. split; [exact P|].
    split; [now apply complete_exact_iff|]. rewrite <- El. reflexivity. }
  intros c ls Hin. destruct (TH c ls Hin) as [Cm|(ups & L & ups0 & (pre & P & Cp & E) & K)].
  - left. now apply complete_exact_iff.
  - right. exists ups. split; [exact L|]. exists ups0, pre. split; [assumption|].
    split; [now apply complete_exact_iff|]. split; assumption.
Qed.

End T.

(* Why no collision-freeness premise of the form
     forall l1 l2, length l1 = length l2 -> mroot (leaf_hashes l1) = mroot (leaf_hashes l2) -> l1 = l2
   appears above: it is unsatisfiable for EVERY hash function, because the Merkle leaf hash does
   not cover the chain fingerprints, the pre-certificate, nor the names line of a sequenced leaf.
   (Two instances can indeed build different bundles under one staging key; what protects the
   store is the immutability of staging bundles and tiles, which is what Inv3Step.v uses.) *)
Theorem tree_hash_ignores_unhashed_fields (sha : bytes -> bytes) :
  ~ (forall l1 l2 : list sleaf, length l1 = length l2 ->
       mroot sha (leaf_hashes sha l1) = mroot sha (leaf_hashes sha l2) -> l1 = l2).
Proof.
  intro H.
  set (lf := mkLeaf [] false [] [] [] 0 false 0).
  specialize (H [mkSleaf lf []] [mkSleaf lf [x00]] eq_refl eq_refl). discriminate H.
Qed.

(* non-vacuity: the example history (create, load, rounds with a failing upload, a crash after the
   compare-and-swap, recovery through the staging bundle) satisfies the hypotheses; it has a
   published, committed checkpoint, and (after 22 events) an idle instance *)
From SL Require Import Ctlog.Example.
Example history1_hypotheses :
  no_tamper history1 /\ N.of_nat (length history1) < 9223372036854775808.
Proof. split; [apply no_tamperb_ok; vm_compute; reflexivity|vm_compute; reflexivity]. Qed.

Example history1_published :
  exists P ls, published world1 = Some P /\ In (P, ls) (w_lockhist world1).
Proof.
  vm_compute. eexists. eexists. split; [reflexivity|].
  repeat (try (left; reflexivity); right).
Qed.

Example history1_idle :
  exists x, get_inst (w_insts (run toy_sha (firstn 22 history1) init)) 0 = Some x /\ i_pc x = PIdle.
Proof. vm_compute. eexists. split; reflexivity. Qed.

Print Assumptions Inv3_reachable.
Print Assumptions C04_complete_exact.
Print Assumptions C03_loaded_complete.
Print Assumptions C04_exact_everything.
Print Assumptions C03_staging_bundles.
Print Assumptions tree_hash_ignores_unhashed_fields.
