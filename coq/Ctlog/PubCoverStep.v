(* Ctlog/PubCoverStep.v — every event but tampering preserves the invariant of Ctlog/PubCover.v,
   given the earlier invariant layers and at most one live instance. *)
From SL Require Import Base.BytesProofs Merkle.TilesProofs Ctlog.Model Ctlog.Recompute Ctlog.Spec Ctlog.Inv Ctlog.InvStep
  Ctlog.Inv2 Ctlog.Inv2Step Ctlog.PubMono Ctlog.Solo Ctlog.Inv3 Ctlog.Inv3Step Ctlog.PubCover.
From Coq Require Import ZifyN ZifyNat ZifyBool.
Open Scope N_scope.

Section P.
Variable sha : bytes -> bytes.
Notation step := (step sha).
Notation run := (run sha).
Notation end_round := (end_round sha).
Notation step_create := (step_create sha).
Notation step_load := (step_load sha).
Notation step_round := (step_round sha).
Notation step_clock := (step_clock sha).
Notation step_submit := (step_submit sha).
Notation Inv := (Inv sha).
Notation Inv2 := (Inv2 sha).
Notation SInv := (SInv).
Notation new_sleaves := (new_sleaves sha).

Ltac fields := cbn [w_lockhist w_lock w_pubhist w_insts w_store w_acks set_i add_acks set_store fst snd] in *.

Ltac split_apps :=
  repeat match goal with H : In _ (_ ++ _) |- _ => apply in_app_or in H; destruct H as [H|H] end.

(* ---------- the end of a round ---------- *)
Lemma end_round_err_pinv w i x e :
  PInv w -> get_inst (w_insts w) i = Some x -> PInv (fst (end_round w i x (Some e))).
Proof.
  intros HP G. pose proof HP as (_ & _ & _ & _ & K2 & _).
  unfold Model.end_round, fail_pool.
  destruct e; cbn [fst];
    (eapply PInv_upd with (i := i) (e := []);
     [eassumption | reflexivity | rewrite app_nil_r; reflexivity | reflexivity | exact I | discriminate
     | cbn [i_cache]; intros k idx ts Hin; eapply K2; eauto
     | cbn [w_acks add_acks set_i]; intros a Hin; split_apps;
       [left; assumption | right; apply ack_cov_none; eapply acks_of_pool_err; exact Hin ..] ]).
Qed.

Lemma end_round_ok_pinv w i x :
  PInv w -> get_inst (w_insts w) i = Some x ->
  published w = Some (i_tree x) ->
  (exists ls, In (i_tree x, ls) (w_lockhist w)) ->
  cp_size (i_tree x) = N.of_nat (length (i_leaves x)) ->
  i_leaves x = r_all (i_rctx x) ->
  (exists pre, i_leaves x = pre ++ new_sleaves (i_inseq x) (r_first (i_rctx x)) (r_ts (i_rctx x))
               /\ r_first (i_rctx x) = N.of_nat (length pre)) ->
  PInv (fst (end_round w i x None)).
Proof.
  intros HP G Hpub Hcom Hsz Eall (pre & El & Ef). pose proof HP as (_ & _ & _ & _ & K2 & _).
  assert (Hsz' : cp_size (i_tree x) = r_first (i_rctx x) + N.of_nat (length (pl_leaves (i_inseq x)))).
  { rewrite Hsz. rewrite El at 1. rewrite app_length, length_new_sleaves. lia. }
  unfold Model.end_round. cbn [fst].
  eapply PInv_upd with (i := i) (e := []);
    [eassumption | reflexivity | rewrite app_nil_r; reflexivity | reflexivity | exact I | discriminate | | ].
  - cbn [i_cache].
    match goal with |- context [if ?b then _ else _] => destruct b end; [intros k idx ts Hin; eapply K2; eauto|].
    intros k idx ts Hin. apply in_app_or in Hin. destruct Hin as [H|H]; [eapply K2; eauto|].
    apply in_map_iff in H. destruct H as (s & Es & Hs). inversion Es; subst; clear Es.
    exists (i_tree x). split; [exact Hpub|].
    rewrite <- Eall, El in Hs. rewrite Ef, Nat2N.id in Hs.
    rewrite skipn_app, skipn_all, Nat.sub_diag in Hs. cbn [app skipn] in Hs.
    apply In_nth_error in Hs. destruct Hs as [j Hj].
    rewrite new_sleaves_nth in Hj.
    destruct (nth_error (pl_leaves (i_inseq x)) j) as [y|] eqn:Ey; [|discriminate].
    cbn [option_map] in Hj. inversion Hj; subst s; clear Hj. cbn [sl_leaf leaf_of l_idx].
    rewrite N2Z.id.
    assert (j < length (pl_leaves (i_inseq x)))%nat by (apply nth_error_Some; congruence). lia.
  - cbn [w_acks w_lockhist add_acks set_i]. intros a Hin. apply in_app_or in Hin.
    destruct Hin as [H|H]; [left; assumption|right].
    pose proof (acks_of_pool_pub _ _ _ _ _ H) as Epub.
    apply acks_of_pool_ok in H. destruct H as (k & y & Hn & He & Hr).
    intros idx ts R. rewrite Hr in R. inversion R; subst idx ts; clear R.
    exists (i_tree x). split; [rewrite Epub; exact Hpub|]. split; [|exact Hcom].
    assert (k < length (pl_leaves (i_inseq x)))%nat by (apply nth_error_Some; congruence). lia.
Qed.

(* ---------- updates that keep the store ---------- *)
Lemma PInv_ext w w' e :
  PInv w -> w_store w' = w_store w -> w_lockhist w' = w_lockhist w ++ e -> w_insts w' = w_insts w ->
  w_acks w' = w_acks w -> PInv w'.
Proof.
  intros (S1 & S2 & I4 & K1 & K2 & K3) Es Eh Ei Ea.
  pose proof (published_store _ _ Es) as Ep.
  unfold PInv, covers. rewrite Es, Ei, Ea, Ep.
  split; [assumption|]. split; [|split; [assumption|split; [assumption|split; [assumption|]]]].
  - intros P HP. destruct (S2 P HP) as [ls L]. exists ls. rewrite Eh. apply in_or_app. auto.
  - intros a Hin. rewrite Eh. apply ack_cov_mono. auto.
Qed.

Lemma PInv_set_acks w i x x' l :
  PInv w -> get_inst (w_insts w) i = Some x -> i_cache x' = i_cache x -> inst4 x' ->
  (i_pc x' = PRound RDiscard -> published w = Some (i_tree x')) ->
  (forall a, In a l -> ack_cov (w_lockhist w) a) ->
  PInv (add_acks (set_i w i x') l).
Proof.
  intros HP G Ec H4 HK1 Hl. pose proof HP as (_ & _ & _ & _ & K2 & _).
  eapply PInv_upd with (i := i) (e := []);
    [eassumption | reflexivity | rewrite app_nil_r; reflexivity | reflexivity | assumption | assumption | | ].
  - rewrite Ec. intros k idx ts Hin. eapply K2; eauto.
  - cbn [w_acks w_lockhist add_acks set_i]. intros a Hin. apply in_app_or in Hin. destruct Hin; auto.
Qed.

Lemma PInv_set w i x x' :
  PInv w -> get_inst (w_insts w) i = Some x -> i_cache x' = i_cache x -> inst4 x' ->
  (i_pc x' = PRound RDiscard -> published w = Some (i_tree x')) ->
  PInv (set_i w i x').
Proof.
  intros HP G Ec H4 HK1.
  eapply PInv_same with (w := add_acks (set_i w i x') []); try reflexivity.
  - eapply PInv_set_acks; eauto. intros a [].
  - cbn [w_acks add_acks]. now rewrite app_nil_r.
Qed.

Ltac er_wrap :=
  match goal with
  | |- context [Model.end_round ?s ?a ?b ?c ?d] =>
    let E := fresh "E" in
    destruct (Model.end_round s a b c d) as [? ?] eqn:E; cbn [fst];
    match type of E with _ = (?w2, _) =>
      replace w2 with (fst (Model.end_round s a b c d)) by (rewrite E; reflexivity) end
  end.

(* ---------- a sequencing round ---------- *)
Lemma step_round_pinv w i x ph f choice :
  Inv w -> Inv2 w -> SInv w -> solo w -> PInv w ->
  get_inst (w_insts w) i = Some x -> i_pc x = PRound ph ->
  PInv (fst (step_round w i x ph f choice)).
Proof.
  intros HI HI2 HS So HP G Hpc.
  pose proof (inst_of_inv _ _ _ _ HI G) as Hx. unfold Inv.inst_inv in Hx. rewrite Hpc in Hx.
  pose proof (inst2_of _ _ _ _ HI2 G) as [_ Hr]. unfold Inv2.round2 in Hr. rewrite Hpc in Hr.
  pose proof HP as (S1 & S2 & I4 & K1 & K2 & K3).
  pose proof (I4 _ _ G) as H4. unfold inst4 in H4. rewrite Hpc in H4.
  destruct ph.
  - (* clock *)
    unfold Model.step_round, Model.step_clock.
    destruct (w_now w <=? cp_ts (i_tree x))%Z.
    + unfold fail_pool. cbn [fst].
      eapply PInv_upd with (i := i) (e := []);
        [eassumption | reflexivity | rewrite app_nil_r; reflexivity | reflexivity | exact I | discriminate
        | cbn [i_cache]; intros k idx ts Hin; eapply K2; eauto
        | cbn [w_acks add_acks set_i]; intros a Hin; split_apps;
          [left; assumption | right; apply ack_cov_none; eapply acks_of_pool_err; exact Hin ..] ].
    + cbn [fst].
      match goal with |- context [round_uploads ?s ?a ?b ?c] =>
        assert (Hn : nocp (round_uploads s a b c)) by (apply nocp_round_uploads; lia);
        destruct (round_uploads s a b c) end;
        (eapply PInv_set; [eassumption | eassumption | reflexivity
                          | unfold inst4; cbn [i_pc i_rctx r_ups]; exact Hn | discriminate]).
  - (* staging *)
    unfold Model.step_round.
    destruct (world_upload _ _ _ _ _ _) as [[w1 ok] o] eqn:E.
    assert (HP1 : PInv w1).
    { eapply PInv_upload_other; [exact HP|exact E|rewrite kclass_staging; discriminate|].
      intros ups Hu. inversion Hu; subst. exact H4. }
    pose proof (upload_frame _ _ _ _ _ _ _ _ _ E) as (A1 & A2 & A3 & A4).
    assert (G1 : get_inst (w_insts w1) i = Some x) by (rewrite A3; assumption).
    destruct ok.
    + cbn [fst]. eapply PInv_set; [exact HP1|exact G1|reflexivity|unfold inst4; cbn [i_pc upd_pc i_rctx]; exact H4|discriminate].
    + er_wrap. apply end_round_err_pinv; assumption.
  - (* compare-and-swap *)
    unfold Model.step_round.
    set (can := match w_lock w with Some c => cp_eqb c (i_lockcp x) | None => false end).
    destruct can; cbn [andb].
    + destruct (applied f) eqn:Eap.
      * destruct (succeeded f) eqn:Esu.
        -- cbn [fst].
           eapply PInv_upd with (i := i) (e := [(r_new (i_rctx x), r_all (i_rctx x))]);
             [exact HP | reflexivity | reflexivity | reflexivity | | | | ].
           ++ unfold inst4. destruct (r_ups (i_rctx x)) eqn:Eu; cbn [i_pc]; [exact I|]. exact H4.
           ++ destruct (r_ups (i_rctx x)); discriminate.
           ++ cbn [i_cache]. intros k idx ts Hin. eapply K2; eauto.
           ++ intros a Hin. left. exact Hin.
        -- match goal with |- context [end_round ?a i x (Some EFatal)] => set (w1 := a) end.
           assert (HP1 : PInv w1).
           { eapply PInv_ext with (w := w) (e := [(r_new (i_rctx x), r_all (i_rctx x))]); try eassumption; reflexivity. }
           er_wrap. apply end_round_err_pinv; assumption.
      * assert (Esu : succeeded f = false) by (destruct f; cbn in *; congruence). rewrite Esu. cbv iota.
        er_wrap. apply end_round_err_pinv; assumption.
    + er_wrap. apply end_round_err_pinv; assumption.
  - (* tile uploads *)
    unfold Model.step_round.
    destruct (take_upload todo choice) as [[u rest]|] eqn:T; [|exact HP].
    destruct (nocp_take _ _ _ _ H4 T) as [Hu Hrest].
    destruct (world_upload _ _ _ _ _ _) as [[w1 ok] o] eqn:E.
    assert (HP1 : PInv w1).
    { eapply PInv_upload_other; [exact HP|exact E|rewrite Hu; discriminate|].
      intros ups Hups. unfold opt_obj in Hups. discriminate. }
    pose proof (upload_frame _ _ _ _ _ _ _ _ _ E) as (A1 & A2 & A3 & A4).
    assert (G1 : get_inst (w_insts w1) i = Some x) by (rewrite A3; assumption).
    destruct rest as [|u' rest'].
    + destruct (failed || negb ok).
      * er_wrap. apply end_round_err_pinv; assumption.
      * cbn [fst]. eapply PInv_set; [exact HP1|exact G1|reflexivity|exact I|discriminate].
    + cbn [fst]. eapply PInv_set; [exact HP1|exact G1|reflexivity|unfold inst4; cbn [i_pc upd_pc]; exact Hrest|discriminate].
  - (* checkpoint upload *)
    destruct Hx as [[Lin Etree] R]. destruct Hr as [Eall Hpre].
    assert (Hl : w_lock w = Some (i_tree x)).
    { destruct HS as [B _]. rewrite Etree. apply (B i x); [assumption|]. unfold believes. rewrite Hpc. reflexivity. }
    unfold Model.step_round. cbv zeta. rewrite R.
    destruct (world_upload _ _ _ _ _ _) as [[w1 ok] o] eqn:E.
    pose proof (upload_frame _ _ _ _ _ _ _ _ _ E) as (A1 & A2 & A3 & A4).
    assert (G1 : get_inst (w_insts w1) i = Some x) by (rewrite A3; assumption).
    destruct (PInv_upload_cp sha w i x (i_tree x) f w1 ok o HI So HP G) as [HP1 Hpub]; try assumption.
    { unfold live. rewrite Hpc. reflexivity. }
    { rewrite Hpc. discriminate. }
    destruct ok.
    + specialize (Hpub eq_refl).
      destruct (r_ups (i_rctx x)).
      * er_wrap. apply end_round_ok_pinv; try assumption.
        -- exists (i_leaves x). rewrite A1, Etree. exact Lin.
        -- assert (W : wfcp sha (i_tree x) (i_leaves x)) by (eapply loaded_wf; eauto; split; assumption).
           destruct W as [W _]. exact W.
      * cbn [fst]. eapply PInv_set; [exact HP1|exact G1|reflexivity|exact I|]. intros _. cbn [i_tree upd_pc]. exact Hpub.
    + er_wrap. apply end_round_err_pinv; assumption.
  - (* discard *)
    destruct Hx as [[Lin Etree] R]. destruct Hr as [Eall Hpre].
    unfold Model.step_round.
    match goal with |- context [end_round ?a i x None] => set (w1 := a) end.
    assert (HP1 : PInv w1).
    { subst w1. eapply PInv_discard; [exact HP|]. destruct (applied f); [left|right]; reflexivity. }
    assert (G1 : get_inst (w_insts w1) i = Some x) by exact G.
    er_wrap. apply end_round_ok_pinv; try assumption.
    + destruct HP1 as (_ & _ & _ & K1' & _). eapply K1'; eauto.
    + exists (i_leaves x). subst w1. cbn [w_lockhist]. rewrite Etree. exact Lin.
    + assert (W : wfcp sha (i_tree x) (i_leaves x)) by (eapply loaded_wf; eauto; split; assumption).
      destruct W as [W _]. exact W.
Qed.

(* ---------- CreateLog ---------- *)
Lemma step_create_pinv w i x k f :
  Inv w -> SInv w -> solo w -> PInv w -> get_inst (w_insts w) i = Some x -> i_pc x = PCreate k ->
  PInv (fst (step_create w i x k f)).
Proof.
  intros HI HS So HP G Hpc. pose proof HP as (S1 & S2 & I4 & K1 & K2 & K3).
  unfold Model.step_create.
  destruct k as [|[|[|[|k]]]].
  - match goal with |- context [if ?b then _ else _] => destruct b end; cbn [fst];
      (eapply PInv_set; [exact HP|exact G|reflexivity|exact I|discriminate]).
  - destruct (fetch w i k_checkpoint f) as [r o]. destruct r; cbn [fst];
      (eapply PInv_set; [exact HP|exact G|reflexivity|exact I|discriminate]).
  - set (c0 := mkCp (c_name (i_cfg x)) 0 (hempty sha) (w_now w) (c_key (i_cfg x)) []).
    destruct (w_lock w) as [lc|] eqn:El; cbn [andb].
    + cbn [fst]. eapply PInv_set; [exact HP|exact G|reflexivity|exact I|discriminate].
    + destruct (applied f); destruct (succeeded f); cbn [fst];
        first [ eapply PInv_upd with (i := i) (e := [(c0, [])]);
                [exact HP | reflexivity | reflexivity | reflexivity | exact I | discriminate
                | cbn [i_cache upd_pc]; intros ? ? ? Hin; eapply K2; eauto | intros a Hin; left; exact Hin]
              | eapply PInv_upd with (i := i) (e := []);
                [exact HP | reflexivity | rewrite app_nil_r; reflexivity | reflexivity | exact I | discriminate
                | cbn [i_cache upd_pc]; intros ? ? ? Hin; eapply K2; eauto | intros a Hin; left; exact Hin] ].
  - (* upload of the first checkpoint *)
    assert (Hl : w_lock w = Some (i_tree x)).
    { destruct HS as [B _]. apply (B i x); [assumption|]. unfold believes. rewrite Hpc. reflexivity. }
    destruct (world_upload _ _ _ _ _ _) as [[w1 ok] o] eqn:E.
    pose proof (upload_frame _ _ _ _ _ _ _ _ _ E) as (A1 & A2 & A3 & A4).
    assert (G1 : get_inst (w_insts w1) i = Some x) by (rewrite A3; assumption).
    destruct (PInv_upload_cp sha w i x (i_tree x) f w1 ok o HI So HP G) as [HP1 _]; try assumption.
    { unfold live. rewrite Hpc. reflexivity. }
    { rewrite Hpc. discriminate. }
    destruct ok; cbn [fst]; (eapply PInv_set; [exact HP1|exact G1|reflexivity|exact I|discriminate]).
  - destruct (world_upload _ _ _ _ _ _) as [[w1 ok] o] eqn:E.
    assert (HP1 : PInv w1).
    { eapply PInv_upload_other; [exact HP|exact E|rewrite kclass_roots; discriminate|]. intros ups Hu. discriminate. }
    pose proof (upload_frame _ _ _ _ _ _ _ _ _ E) as (A1 & A2 & A3 & A4).
    assert (G1 : get_inst (w_insts w1) i = Some x) by (rewrite A3; assumption).
    destruct ok; cbn [fst]; (eapply PInv_set; [exact HP1|exact G1|reflexivity|exact I|discriminate]).
Qed.

(* ---------- LoadLog ---------- *)
Lemma after_apply_pinv w i x x0 :
  PInv w -> get_inst (w_insts w) i = Some x0 -> i_cache x = i_cache x0 ->
  PInv (fst (after_apply w i x)).
Proof.
  intros HP G Ec. unfold after_apply.
  destruct (cp_size (i_lockcp x) =? 0); cbn [fst];
    (eapply PInv_set; [exact HP|exact G|cbn [i_cache upd_pc]; exact Ec|exact I|discriminate]).
Qed.

Ltac aa_wrap :=
  match goal with
  | |- context [after_apply ?a ?b ?c] =>
    let E := fresh "E" in
    destruct (after_apply a b c) as [? ?] eqn:E; cbn [fst];
    match type of E with _ = (?w2, _) =>
      replace w2 with (fst (after_apply a b c)) by (rewrite E; reflexivity) end
  end.

Lemma fetch_lookup w i k f r o ob : fetch w i k f = (r, o) -> r = Some ob -> lookup (w_store w) k = Some ob.
Proof.
  unfold fetch. intro E. inversion E; subst; clear E. destruct (succeeded f); [auto|discriminate].
Qed.

Lemma step_load_pinv w i x ph f choice :
  PInv w -> get_inst (w_insts w) i = Some x -> i_pc x = PLoad ph ->
  PInv (fst (step_load w i x ph f choice)).
Proof.
  intros HP G Hpc. pose proof HP as (S1 & S2 & I4 & K1 & K2 & K3).
  pose proof (I4 _ _ G) as H4. unfold inst4 in H4. rewrite Hpc in H4.
  assert (FAIL : forall why o, PInv (fst (load_fail w i x why o))).
  { intros why o. unfold load_fail. cbn [fst]. eapply PInv_set; [exact HP|exact G|reflexivity|exact I|discriminate]. }
  assert (SET : forall X, i_cache X = i_cache x -> inst4 X -> i_pc X <> PRound RDiscard -> PInv (set_i w i X)).
  { intros X Ec HX Hn. eapply PInv_set; [exact HP|exact G|exact Ec|exact HX|]. intro; contradiction. }
  unfold Model.step_load.
  destruct ph.
  - match goal with |- context [match ?r with Some _ => _ | None => load_fail _ _ _ _ _ end] => destruct r as [lc|] end;
      [|apply FAIL].
    destruct (open_checkpoint (i_cfg x) (w_now w) (OC lc)) as [[lc'|]|why]; try apply FAIL.
    cbn [fst]. apply SET; [reflexivity|exact I|discriminate].
  - destruct (fetch w i k_checkpoint f) as [r o]. destruct r as [ob|]; [|apply FAIL].
    destruct (open_checkpoint (i_cfg x) (w_now w) ob) as [[p|]|why]; try apply FAIL.
    repeat match goal with |- context [if ?b then _ else _] => destruct b end; try apply FAIL.
    + cbn [fst]. apply SET; [reflexivity|exact I|discriminate].
    + aa_wrap. eapply after_apply_pinv; [exact HP|exact G|reflexivity].
  - destruct (fetch w i _ f) as [r o]. destruct r; [apply FAIL|].
    cbn [fst]. apply SET; [reflexivity|exact I|discriminate].
  - destruct (fetch w i _ f) as [r o] eqn:Ef. destruct r as [[b|c|ups]|]; try apply FAIL.
    pose proof (fetch_lookup _ _ _ _ _ _ _ Ef eq_refl) as Lk.
    destruct ups as [|u ups].
    + aa_wrap. eapply after_apply_pinv; [exact HP|exact G|reflexivity].
    + cbn [fst]. apply SET; [reflexivity| |discriminate]. unfold inst4. cbn [i_pc upd_pc]. eapply S1; eauto.
  - destruct (take_upload todo choice) as [[u rest]|] eqn:T; [|exact HP].
    destruct (nocp_take _ _ _ _ H4 T) as [Hu Hrest].
    destruct (world_upload _ _ _ _ _ _) as [[w1 ok] o] eqn:E.
    assert (HP1 : PInv w1).
    { eapply PInv_upload_other; [exact HP|exact E|rewrite Hu; discriminate|].
      intros ups Hups. unfold opt_obj in Hups. discriminate. }
    pose proof (upload_frame _ _ _ _ _ _ _ _ _ E) as (A1 & A2 & A3 & A4).
    assert (G1 : get_inst (w_insts w1) i = Some x) by (rewrite A3; assumption).
    destruct rest as [|u' rest'].
    + destruct (failed || negb ok).
      * unfold load_fail. cbn [fst]. eapply PInv_set; [exact HP1|exact G1|reflexivity|exact I|discriminate].
      * aa_wrap. eapply after_apply_pinv; [exact HP1|exact G1|reflexivity].
    + cbn [fst]. eapply PInv_set; [exact HP1|exact G1|reflexivity|unfold inst4; cbn [i_pc upd_pc]; exact Hrest|discriminate].
  - destruct todo as [|t rest].
    + cbn [fst]. apply SET; [reflexivity|exact I|discriminate].
    + destruct (fetch w i _ f) as [r o].
      destruct r as [[b|c|ups]|]; try apply FAIL.
      destruct (hist_leaves (w_lockhist w) (i_lockcp x)); try apply FAIL.
      destruct (bytes_eqb b _); try apply FAIL.
      cbn [fst]. apply SET; [reflexivity|destruct rest; exact I|destruct rest; discriminate].
  - destruct (fetch w i _ f) as [r o].
    destruct r as [[b|c|ups]|]; try apply FAIL.
    destruct (hist_leaves (w_lockhist w) (i_lockcp x)); try apply FAIL.
    destruct (bytes_eqb b _); try apply FAIL.
    cbn [fst]. apply SET; [reflexivity|exact I|discriminate].
  - destruct (fetch w i k_roots f) as [r o]. cbn [fst].
    apply SET; [reflexivity|exact I|discriminate].
Qed.

(* ---------- submissions ---------- *)
Lemma upload_issuers_pinv iss : forall w i known fs w' k' ok o,
  PInv w -> upload_issuers sha w i known iss fs = (w', k', ok, o) -> PInv w'.
Proof.
  induction iss as [|b r IH]; intros w i known fs w' k' ok o HP E; cbn [upload_issuers] in E.
  - inversion E; subst. assumption.
  - destruct (existsb _ known); [eapply IH; eauto|].
    destruct (fetch w i _ _) as [got o1].
    destruct got as [ob|].
    + destruct (obj_eqb ob (OB b)).
      * destruct (upload_issuers sha w i _ r _) as [[[w2 k2] ok2] o2] eqn:E2.
        inversion E; subst. eapply IH; eauto.
      * inversion E; subst. assumption.
    + destruct (world_upload _ _ _ _ _ _) as [[w1 ok1] o2] eqn:E1.
      assert (HP1 : PInv w1).
      { eapply PInv_upload_other; [exact HP|exact E1|rewrite kclass_issuer; discriminate|]. intros ups Hu. discriminate. }
      destruct ok1.
      * destruct (upload_issuers sha w1 i _ r _) as [[[w2 k2] ok2] o3] eqn:E2.
        inversion E; subst. eapply IH; eauto.
      * inversion E; subst. assumption.
Qed.

Lemma PInv_bump W n :
  PInv W -> PInv (mkWorld (w_store W) (w_lock W) (w_now W) (w_insts W) n (w_lockhist W) (w_pubhist W) (w_acks W) (w_discards W)).
Proof. intro H. eapply PInv_same; [exact H|reflexivity..]. Qed.

Lemma step_submit_pinv w i x e low victim fs :
  PInv w -> get_inst (w_insts w) i = Some x ->
  PInv (fst (step_submit w i x e low victim fs)).
Proof.
  intros HP G. unfold Model.step_submit.
  destruct (upload_issuers sha w i (i_issuers x) (e_issuers e) fs) as [[[w1 known] ok] o] eqn:E.
  pose proof (upload_issuers_pinv _ _ _ _ _ _ _ _ _ HP E) as HP1.
  apply upload_issuers_frame in E. destruct E as (A1 & A2 & A3 & A4).
  assert (G1 : get_inst (w_insts w1) i = Some x) by (rewrite A3; assumption).
  pose proof HP1 as (S1 & S2 & I4 & K1 & K2 & K3).
  pose proof (I4 _ _ G1) as H4.
  assert (SETA : forall X l, i_cache X = i_cache x -> i_pc X = i_pc x -> i_rctx X = i_rctx x -> i_tree X = i_tree x ->
                 (forall a, In a l -> ack_cov (w_lockhist w1) a) -> PInv (add_acks (set_i w1 i X) l)).
  { intros X l Ec Ep Er Et Hl. eapply PInv_set_acks; [exact HP1|exact G1|exact Ec| |  |exact Hl].
    - eapply inst4_core; [symmetry; exact Ep|symmetry; exact Er|exact H4].
    - rewrite Ep, Et. intro Hd. eapply K1; eauto. }
  assert (SET : forall X, i_cache X = i_cache x -> i_pc X = i_pc x -> i_rctx X = i_rctx x -> i_tree X = i_tree x ->
                PInv (set_i w1 i X)).
  { intros X Ec Ep Er Et. eapply PInv_same with (w := add_acks (set_i w1 i X) []); try reflexivity.
    - apply SETA; auto. intros a [].
    - cbn [w_acks add_acks]. now rewrite app_nil_r. }
  assert (NONE : forall a : ack, a_res a = None -> forall a0, In a0 [a] -> ack_cov (w_lockhist w1) a0).
  { intros a Ha a0 [<-|[]]. now apply ack_cov_none. }
  destruct ok; cbn [negb].
  - destruct (admission sha _ _ _ _ _ _ _ _ _) as [p' r] eqn:Ead.
    destruct r; cbn [fst]; apply PInv_bump;
      try (apply SET; reflexivity);
      try (apply SETA; try reflexivity; apply NONE; reflexivity).
    (* answered from the cache *)
    apply SETA; try reflexivity.
    intros a0 [<-|[]]. intros idx' ts' R. cbn [a_res] in R. inversion R; subst idx' ts'; clear R.
    cbn [a_pub].
    apply admission_cached in Ead.
    destruct (K2 _ _ _ _ _ G1 Ead) as (P & Hpub & Hlt).
    exists P. split; [exact Hpub|]. split; [exact Hlt|]. apply S2. exact Hpub.
  - cbn [fst]. apply PInv_bump. apply SETA; try reflexivity. apply NONE. reflexivity.
Qed.

(* ---------- every event but tampering ---------- *)
Theorem PInv_step w e :
  Inv w -> Inv2 w -> SInv w -> solo w -> not_tamper e -> PInv w -> PInv (fst (step w e)).
Proof.
  intros HI HI2 HS So NT HP. pose proof HP as (S1 & S2 & I4 & K1 & K2 & K3).
  destruct e; unfold Model.step.
  - (* clock *) cbn [fst]. eapply PInv_same; [exact HP|reflexivity..].
  - (* create *) cbn [fst].
    eapply PInv_upd with (i := i) (e := []);
      [exact HP | reflexivity | rewrite app_nil_r; reflexivity | reflexivity | exact I | discriminate
      | intros k idx ts [] | intros a Hin; left; exact Hin].
  - (* start: the cache file of instance [keepcache] is taken over *)
    cbn [fst].
    eapply PInv_upd with (i := i) (e := []);
      [exact HP | reflexivity | rewrite app_nil_r; reflexivity | reflexivity | exact I | discriminate
      | | intros a Hin; left; exact Hin].
    cbn [i_cache]. destruct keepcache as [j|]; [|intros k idx ts []].
    destruct (get_inst (w_insts w) j) as [y|] eqn:Gj; [|intros k idx ts []].
    intros k idx ts Hin. eapply K2; eauto.
  - (* step *)
    destruct (get_inst (w_insts w) i) as [x|] eqn:G; [|exact HP].
    destruct (i_pc x) eqn:Hpc; try exact HP.
    + apply step_create_pinv; assumption.
    + apply step_load_pinv; assumption.
    + apply step_round_pinv; assumption.
  - (* submit *)
    destruct (get_inst (w_insts w) i) as [x|] eqn:G; [|exact HP].
    destruct (i_pc x); try exact HP; apply step_submit_pinv; assumption.
  - (* tick *)
    destruct (get_inst (w_insts w) i) as [x|] eqn:G; [|exact HP].
    unfold step_tick. destruct (i_pc x) eqn:Hpc; try exact HP.
    cbn [fst]. eapply PInv_set; [exact HP|exact G|reflexivity|exact I|discriminate].
  - (* crash *)
    destruct (get_inst (w_insts w) i) as [x|] eqn:G; [|exact HP].
    cbn [fst]. eapply PInv_set; [exact HP|exact G|reflexivity|exact I|discriminate].
  - (* stop *)
    destruct (get_inst (w_insts w) i) as [x|] eqn:G; [|exact HP].
    destruct (i_pc x) eqn:Hpc; try exact HP.
    unfold fail_pool. cbn [fst].
    eapply PInv_set_acks; [exact HP|exact G|reflexivity|exact I|discriminate|].
    intros a Hin. apply ack_cov_none. eapply acks_of_pool_err; exact Hin.
  - (* cache loss / rollback *)
    destruct (get_inst (w_insts w) i) as [x|] eqn:G; [|exact HP].
    cbn [fst].
    eapply PInv_upd with (i := i) (e := []);
      [exact HP | reflexivity | rewrite app_nil_r; reflexivity | reflexivity | | | | intros a Hin; left; exact Hin].
    + eapply inst4_core; [| |exact (I4 _ _ G)]; reflexivity.
    + cbn [i_pc i_tree]. intro Hd. eapply K1; eauto.
    + cbn [i_cache]. intros k idx ts Hin. eapply K2; [exact G|]. eapply in_firstn; eauto.
  - (* tampering *) destruct NT.
  - (* recompute-cache: new rows name indexes below the size of the published checkpoint *)
    destruct (get_inst (w_insts w) i) as [x|] eqn:G; [|exact HP].
    destruct (step_recompute_spec sha w i x key lim) as [E|(p & ls & c1 & why & Hpub & Hh & Hl & E)]; rewrite E; [exact HP|].
    eapply PInv_upd with (i := i) (e := []);
      [exact HP | reflexivity | rewrite app_nil_r; reflexivity | reflexivity | | | | intros a Hin; left; exact Hin].
    + eapply inst4_core; [| |exact (I4 _ _ G)]; reflexivity.
    + cbn [i_pc i_tree set_cache]. intro Hd. eapply K1; eauto.
    + cbn [i_cache set_cache]. intros k idx ts Hin.
      destruct (rc_loop_in sha _ _ _ _ _ _ _ _ _ _ _ _ Hl Hin) as [H|H]; [eapply K2; eauto|].
      exists p. split; [exact Hpub|]. pose proof (rc_top_le (cp_size p)). lia.
Qed.

End P.
