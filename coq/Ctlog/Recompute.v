(* Ctlog/Recompute.v — frame lemma for the cmd/recompute-cache event: either nothing changes or
   only the dedup cache of one instance, and then it is the result of rc_loop over the leaf
   sequence of the published (hence committed) checkpoint. *)
From SL Require Import Base.BytesProofs Ctlog.Model.
From Coq Require Import ZifyN ZifyNat ZifyBool.
Ltac Zify.zify_post_hook ::= Z.div_mod_to_equations.
Open Scope N_scope.

Section R.
Variable sha : bytes -> bytes.

Lemma step_recompute_spec w i x key lim :
  fst (step_recompute sha w i x key lim) = w \/
  exists p ls c1 why, published w = Some p /\ hist_leaves (w_lockhist w) p = Some ls /\
    rc_loop sha (N.to_nat (rc_top (cp_size p) / 12800) + 2) (w_store w) ls (rc_top (cp_size p)) 0 lim (i_cache x) = (c1, why) /\
    fst (step_recompute sha w i x key lim) = set_i w i (set_cache x c1).
Proof.
  unfold step_recompute. destruct (published w) as [p|]; [|left; reflexivity].
  destruct (negb (cp_key p =? key)); [left; reflexivity|].
  destruct (hist_leaves (w_lockhist w) p) as [ls|] eqn:H; [|left; reflexivity].
  destruct (rc_loop sha _ _ _ _ _ _ _) as [c1 why] eqn:E.
  right. exists p, ls, c1, why. split; [reflexivity|]. split; [exact H|]. split; [exact E|reflexivity].
Qed.

(* every row after a run was there before or names an index below the bound *)
Lemma insert_ignore_in c k v r : In r (cache_insert_ignore c k v) -> In r c \/ r = (k, v).
Proof.
  unfold cache_insert_ignore. destruct (cache_get c k); [auto|].
  intro H. apply in_app_or in H. destruct H as [H|[H|[]]]; auto.
Qed.

Lemma recompute_entries_in : forall ents c pos c1 ok k idx ts,
  recompute_entries sha c ents pos = (c1, ok) -> In (k, (idx, ts)) c1 ->
  In (k, (idx, ts)) c \/ (pos <= idx /\ idx < pos + N.of_nat (length ents)).
Proof.
  induction ents as [|sl r IH]; intros c pos c1 ok k idx ts E Hin; cbn [recompute_entries] in E.
  - inversion E; subst. auto.
  - destruct (l_idx (sl_leaf sl) =? Z.of_N pos)%Z.
    + destruct (IH _ _ _ _ _ _ _ E Hin) as [H|H].
      * apply insert_ignore_in in H. destruct H as [H|H]; [auto|].
        inversion H; subst. right. cbn [length]. lia.
      * right. cbn [length]. lia.
    + inversion E; subst. auto.
Qed.

Lemma slice_length {A} (l : list A) from count : (length (slice l from count) <= N.to_nat count)%nat.
Proof. unfold slice. apply firstn_le_length. Qed.

Lemma rc_loop_in s ls top lim : forall fuel start c c1 why k idx ts,
  rc_loop sha fuel s ls top start lim c = (c1, why) -> In (k, (idx, ts)) c1 ->
  In (k, (idx, ts)) c \/ idx < top.
Proof.
  induction fuel as [|f IH]; intros start c c1 why k idx ts E Hin; cbn [rc_loop] in E.
  - inversion E; subst. auto.
  - destruct (top <=? start) eqn:Ets; [inversion E; subst; auto|].
    destruct (forallb _ _); [|inversion E; subst; auto].
    match type of E with context [recompute_entries sha c ?ents start] =>
      destruct (recompute_entries sha c ents start) as [c2 ok] eqn:E2;
      assert (H2 : forall k idx ts, In (k, (idx, ts)) c2 -> In (k, (idx, ts)) c \/ idx < top) end.
    { intros k0 i0 t0 H0. destruct (recompute_entries_in _ _ _ _ _ _ _ _ E2 H0) as [H|[Ha Hb]]; [auto|right].
      assert (Hl : (length (slice ls start (N.min top (start + 12800) - start)) <= N.to_nat (N.min top (start + 12800) - start))%nat)
        by apply slice_length.
      destruct lim as [m|].
      - rewrite firstn_length in Hb. lia.
      - lia. }
    destruct (negb ok); [inversion E; subst; auto|].
    destruct (match lim with Some m => m <? N.min top (start + 12800) | None => false end);
      [inversion E; subst; auto|].
    destruct (IH _ _ _ _ _ _ _ E Hin) as [H|H]; auto.
Qed.

Lemma rc_top_le n : rc_top n <= n.
Proof. unfold rc_top. destruct (n / 256 * 256 =? 0) eqn:E; lia. Qed.

End R.
