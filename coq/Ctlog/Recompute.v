(* Ctlog/Recompute.v — frame lemma for the cmd/recompute-cache event: either nothing changes or
   only the dedup cache of one instance, and then it is the result of rc_loop over the leaf
   sequence of the published (hence committed) checkpoint. *)
From SL Require Import Base.BytesProofs Ctlog.Model.
From Coq Require Import ZifyN ZifyNat ZifyBool.
Ltac Zify.zify_post_hook ::= Z.div_mod_to_equations.
Open Scope N_scope.

Section R.
Variable sha : bytes -> bytes.

Lemma step_recompute_spec w i x key lim :
  fst (step_recompute sha w i x key lim) = w \/
  exists p ls c1 why, published w = Some p /\ hist_leaves (w_lockhist w) p = Some ls /\
    rc_loop sha (N.to_nat (rc_top (cp_size p) / 12800) + 2) (w_store w) ls (rc_top (cp_size p)) 0 lim (i_cache x) = (c1, why) /\
    fst (step_recompute sha w i x key lim) = set_i w i (set_cache x c1).
Proof.
  unfold step_recompute. destruct (published w) as [p|]; [|left; reflexivity].
  destruct (negb (cp_key p =? key)); [left; reflexivity|].
  destruct (hist_leaves (w_lockhist w) p) as [ls|] eqn:H; [|left; reflexivity].
  destruct (rc_loop sha _ _ _ _ _ _ _) as [c1 why] eqn:E.
  right. exists p, ls, c1, why. split; [reflexivity|]. split; [exact H|]. split; [exact E|reflexivity].
Qed.

(* every row after a run was there before or names an index below the bound *)
Lemma insert_ignore_in c k v r : In r (cache_insert_ignore c k v) -> In r c \/ r = (k, v).
Proof.
  unfold cache_insert_ignore. destruct (cache_get c k); [auto|].
  intro H. apply in_app_or in H. destruct H as [H|[H|[]]]; auto.
Qed.

Lemma recompute_entries_in : forall ents c pos c1 ok k idx ts,
  recompute_entries sha c ents pos = (c1, ok) -> In (k, (idx, ts)) c1 ->
  In (k, (idx, ts)) c \/ (pos <= idx /\ idx < pos + N.of_nat (length ents)).
Proof.
  induction ents as [|sl r IH]; intros c pos c1 ok k idx ts E Hin; cbn [recompute_entries] in E.
  - inversion E; subst. auto.
  - destruct (l_idx (sl_leaf sl) =? Z.of_N pos)%Z.
    + destruct (IH _ _ _ _ _ _ _ E Hin) as [H|H].
      * apply insert_ignore_in in H. destruct H as [H|H]; [auto|].
        inversion H; subst. right. cbn [length]. lia.
      * right. cbn [length]. lia.
    + inversion E; subst. auto.
Qed.

Lemma slice_length {A} (l : list A) from count : (length (slice l from count) <= N.to_nat count)%nat.
Proof. unfold slice. apply firstn_le_length. Qed.

Lemma rc_loop_in s ls top lim : forall fuel start c c1 why k idx ts,
  rc_loop sha fuel s ls top start lim c = (c1, why) -> In (k, (idx, ts)) c1 ->
  In (k, (idx, ts)) c \/ idx < top.
Proof.
  induction fuel as [|f IH]; intros start c c1 why k idx ts E Hin; cbn [rc_loop] in E.
  - inversion E; subst. auto.
  - destruct (top <=? start) eqn:Ets; [inversion E; subst; auto|].
    destruct (forallb _ _); [|inversion E; subst; auto].
    match type of E with context [recompute_entries sha c ?ents start] =>
      destruct (recompute_entries sha c ents start) as [c2 ok] eqn:E2;
      assert (H2 : forall k idx ts, In (k, (idx, ts)) c2 -> In (k, (idx, ts)) c \/ idx < top) end.
    { intros k0 i0 t0 H0. destruct (recompute_entries_in _ _ _ _ _ _ _ _ E2 H0) as [H|[Ha Hb]]; [auto|right].
      assert (Hl : (length (slice ls start (N.min top (start + 12800) - start)) <= N.to_nat (N.min top (start + 12800) - start))%nat)
        by apply slice_length.
      destruct lim as [m|].
      - rewrite firstn_length in Hb. lia.
      - lia. }
    destruct (negb ok); [inversion E; subst; auto|].
    destruct (match lim with Some m => m <? N.min top (start + 12800) | None => false end);
      [inversion E; subst; auto|].
    destruct (IH _ _ _ _ _ _ _ E Hin) as [H|H]; auto.
Qed.

(* ---------- completeness of a run that ended with "ok": every entry below the bound has a row *)
Lemma cache_get_app c k r : cache_get c k <> None -> cache_get (c ++ [r]) k <> None.
Proof.
  induction c as [|[k' v] c IH]; cbn [cache_get app]; [congruence|].
  destruct (bytes_eqb k k'); [congruence|exact IH].
Qed.
Lemma cache_get_app_self c k v : cache_get (c ++ [(k, v)]) k <> None.
Proof.
  induction c as [|[k' v'] c IH]; cbn [cache_get app].
  - rewrite bytes_eqb_refl. congruence.
  - destruct (bytes_eqb k k'); [congruence|exact IH].
Qed.
Lemma insert_ignore_keeps c k v k0 : cache_get c k0 <> None -> cache_get (cache_insert_ignore c k v) k0 <> None.
Proof. unfold cache_insert_ignore. destruct (cache_get c k); [auto|apply cache_get_app]. Qed.
Lemma insert_ignore_self c k v : cache_get (cache_insert_ignore c k v) k <> None.
Proof.
  unfold cache_insert_ignore. destruct (cache_get c k) eqn:E; [congruence|apply cache_get_app_self].
Qed.

Lemma recompute_entries_keeps : forall ents c pos c1 ok k,
  recompute_entries sha c ents pos = (c1, ok) -> cache_get c k <> None -> cache_get c1 k <> None.
Proof.
  induction ents as [|sl r IH]; intros c pos c1 ok k E H; cbn [recompute_entries] in E.
  - inversion E; subst. exact H.
  - destruct (l_idx (sl_leaf sl) =? Z.of_N pos)%Z.
    + eapply IH; [exact E|]. apply insert_ignore_keeps. exact H.
    + inversion E; subst. exact H.
Qed.

Lemma recompute_entries_all : forall ents c pos c1,
  recompute_entries sha c ents pos = (c1, true) ->
  forall sl, In sl ents -> cache_get c1 (leaf_ckey sha (sl_leaf sl)) <> None.
Proof.
  induction ents as [|sl0 r IH]; intros c pos c1 E sl Hin; [destruct Hin|].
  cbn [recompute_entries] in E. destruct (l_idx (sl_leaf sl0) =? Z.of_N pos)%Z; [|discriminate].
  destruct Hin as [->|Hin].
  - eapply recompute_entries_keeps; [exact E|]. apply insert_ignore_self.
  - eapply IH; eauto.
Qed.

Lemma rc_loop_keeps s ls top : forall fuel start c c1 why k,
  rc_loop sha fuel s ls top start None c = (c1, why) -> cache_get c k <> None -> cache_get c1 k <> None.
Proof.
  induction fuel as [|f IH]; intros start c c1 why k E H; cbn [rc_loop] in E.
  - inversion E; subst. exact H.
  - destruct (top <=? start); [inversion E; subst; exact H|].
    destruct (forallb _ _); [|inversion E; subst; exact H].
    match type of E with context [recompute_entries sha c ?ents start] =>
      destruct (recompute_entries sha c ents start) as [c2 ok] eqn:E2 end.
    pose proof (recompute_entries_keeps _ _ _ _ _ k E2 H) as H2.
    destruct (negb ok); [inversion E; subst; exact H2|].
    eapply IH; [exact E|exact H2].
Qed.

Lemma nth_error_firstn_lt {A} (l : list A) : forall n j, (j < n)%nat -> nth_error (firstn n l) j = nth_error l j.
Proof.
  induction l as [|a l IH]; intros [|n] [|j] H; cbn; try lia; auto. apply IH. lia.
Qed.
Lemma nth_error_skipn_add {A} (l : list A) : forall k j, nth_error (skipn k l) j = nth_error l (k + j).
Proof. induction l as [|a l IH]; intros [|k] j; cbn; auto. destruct j; reflexivity. Qed.

Lemma rc_loop_all s ls top : top <= N.of_nat (length ls) ->
  forall fuel start c c1,
  rc_loop sha fuel s ls top start None c = (c1, "ok"%string) ->
  forall j sl, start <= N.of_nat j -> N.of_nat j < top -> nth_error ls j = Some sl ->
    cache_get c1 (leaf_ckey sha (sl_leaf sl)) <> None.
Proof.
  intros Hlen. induction fuel as [|f IH]; intros start c c1 E j sl Hs Ht Hn; cbn [rc_loop] in E.
  - inversion E.
  - destruct (top <=? start) eqn:Ets; [lia|].
    destruct (forallb _ _); [|inversion E].
    match type of E with context [recompute_entries sha c ?ents start] =>
      destruct (recompute_entries sha c ents start) as [c2 ok] eqn:E2 end.
    destruct ok; cbn [negb] in E; [|inversion E].
    destruct (N.of_nat j <? N.min top (start + 12800)) eqn:Ej.
    + eapply rc_loop_keeps; [exact E|].
      eapply recompute_entries_all; [exact E2|].
      apply nth_error_In with (n := (j - N.to_nat start)%nat).
      unfold slice. rewrite nth_error_firstn_lt by lia. rewrite nth_error_skipn_add.
      replace (N.to_nat start + (j - N.to_nat start))%nat with j by lia. exact Hn.
    + eapply IH; [exact E| |exact Ht|exact Hn]. lia.
Qed.

Lemma rc_top_le n : rc_top n <= n.
Proof. unfold rc_top. destruct (n / 256 * 256 =? 0) eqn:E; lia. Qed.

End R.
