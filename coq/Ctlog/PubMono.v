(* Ctlog/PubMono.v — the published history: each entry (c, k) of w_pubhist records that k
   checkpoints had been committed when c became readable. For ALL event lists the stamps k are
   non-decreasing and within the lock history. If, in addition, every upload of the checkpoint
   object carried the then-CURRENT lock value ([uploads_current]: true whenever one instance is
   live at a time; false in the known finding C06), the published history is append-only. *)
From SL Require Import Base.BytesProofs Ctlog.Model Ctlog.Recompute Ctlog.Spec Ctlog.Inv Ctlog.InvStep.
From Coq Require Import Sorting.Sorted.
Open Scope N_scope.

Section P.
Variable sha : bytes -> bytes.
Notation step := (step sha).
Notation run := (run sha).

(* [w'] extends [w]: commits appended; publications appended with stamps between the two lengths *)
Definition pext (w w' : world) : Prop :=
  (exists l, w_lockhist w' = w_lockhist w ++ l) /\
  (exists p, w_pubhist w' = w_pubhist w ++ p /\
             Forall (fun ck => (length (w_lockhist w) <= snd ck <= length (w_lockhist w'))%nat) p /\
             StronglySorted le (map snd p)).

Lemma pext_refl w : pext w w.
Proof.
  split; [exists []; now rewrite app_nil_r|].
  exists []. split; [now rewrite app_nil_r|]. split; constructor.
Qed.

Lemma sorted_app (a b : list nat) :
  StronglySorted le a -> StronglySorted le b -> (forall x y, In x a -> In y b -> (x <= y)%nat) ->
  StronglySorted le (a ++ b).
Proof.
  induction a as [|x a IH]; intros Sa Sb H; cbn; [assumption|].
  inversion Sa as [|? ? Sa' Fa]; subst. constructor.
  - apply IH; auto. intros; apply H; [right|]; assumption.
  - apply Forall_app. split; [assumption|]. apply Forall_forall. intros y Hy. apply H; [left; reflexivity|assumption].
Qed.

Lemma pext_trans a b c : pext a b -> pext b c -> pext a c.
Proof.
  intros [[l1 L1] [p1 (P1 & F1 & S1)]] [[l2 L2] [p2 (P2 & F2 & S2)]]. split.
  - exists (l1 ++ l2). rewrite L2, L1. now rewrite app_assoc.
  - exists (p1 ++ p2). split; [rewrite P2, P1; now rewrite app_assoc|]. split.
    + apply Forall_app. split.
      * eapply Forall_impl; [|exact F1]. cbn. intros ck [H1 H2]. split; [assumption|].
        rewrite L2, app_length. lia.
      * eapply Forall_impl; [|exact F2]. cbn. intros ck [H1 H2]. split; [|assumption].
        rewrite L1, app_length in H1. lia.
    + rewrite map_app. apply sorted_app; try assumption.
      intros x y Hx Hy. apply in_map_iff in Hx, Hy.
      destruct Hx as [[c1 k1] [E1 I1]], Hy as [[c2 k2] [E2 I2]]. cbn in E1, E2. subst.
      rewrite Forall_forall in F1, F2. specialize (F1 _ I1). specialize (F2 _ I2). cbn in *. lia.
Qed.

Lemma pext_same w w' : w_lockhist w' = w_lockhist w -> w_pubhist w' = w_pubhist w -> pext w w'.
Proof.
  intros L P. split; [exists []; rewrite L; now rewrite app_nil_r|].
  exists []. split; [rewrite P; now rewrite app_nil_r|]. split; constructor.
Qed.

Lemma pext_commit w w' l : w_lockhist w' = w_lockhist w ++ l -> w_pubhist w' = w_pubhist w -> pext w w'.
Proof.
  intros L P. split; [exists l; assumption|].
  exists []. split; [rewrite P; now rewrite app_nil_r|]. split; constructor.
Qed.

Lemma upload_pext w i k o opt f w1 ok ob : world_upload w i k o opt f = (w1, ok, ob) -> pext w w1.
Proof.
  intro E. apply upload_frame in E. destruct E as (A1 & A2 & A3 & [A4|[c [Eo A4]]]).
  - apply pext_same; assumption.
  - split; [exists []; rewrite A1; now rewrite app_nil_r|].
    exists [(c, length (w_lockhist w))]. split; [assumption|]. split.
    + constructor; [cbn; rewrite A1; lia|constructor].
    + cbn. constructor; constructor.
Qed.

Lemma fail_pool_pext w i p e w1 o : fail_pool w i p e = (w1, o) -> pext w w1.
Proof. unfold fail_pool. intro E; inversion E; subst. apply pext_same; reflexivity. Qed.

Lemma set_i_pext w i x : pext w (set_i w i x).
Proof. apply pext_same; reflexivity. Qed.

Lemma end_round_pext w i x res w1 o : end_round sha w i x res = (w1, o) -> pext w w1.
Proof.
  intro E. apply end_round_frame in E. destruct E as (A1 & A2 & A3 & _). apply pext_same; assumption.
Qed.

Lemma upload_issuers_pext iss : forall w i known fs w' k' ok o,
  upload_issuers sha w i known iss fs = (w', k', ok, o) -> pext w w'.
Proof.
  intros w i known fs w' k' ok o E. apply upload_issuers_frame in E. destruct E as (A1 & A2 & A3 & A4).
  apply pext_same; assumption.
Qed.

Ltac pext_done :=
  repeat match goal with
         | H : world_upload _ _ _ _ _ _ = _ |- _ => apply upload_pext in H
         | H : fail_pool _ _ _ _ = _ |- _ => apply fail_pool_pext in H
         | H : end_round _ _ _ _ _ = _ |- _ => apply end_round_pext in H
         | H : upload_issuers _ _ _ _ _ _ = _ |- _ => apply upload_issuers_pext in H
         end;
  cbn [fst];
  first [ apply pext_refl
        | apply set_i_pext
        | assumption
        | (eapply pext_trans; [eassumption|]; first [apply set_i_pext | apply pext_refl | assumption
             | (eapply pext_trans; [eassumption|]; first [apply set_i_pext | apply pext_refl | assumption])])
        | (apply pext_same; reflexivity)
        | (eapply pext_commit; reflexivity) ].

Ltac split_all :=
  repeat match goal with
         | |- context [let '(_, _) := ?x in _] => destruct x as [? ?] eqn:?
         | |- context [match ?x with _ => _ end] => destruct x eqn:?
         end.

Lemma step_create_pext w i x k f : pext w (fst (step_create sha w i x k f)).
Proof.
  unfold step_create, fetch. destruct k as [|[|[|[|k]]]]; split_all.
  all: try pext_done.
  all: try (cbn [fst]; eapply pext_trans; [|apply set_i_pext]; first [eapply pext_commit; reflexivity | apply pext_refl]).
Qed.

Lemma after_apply_pext w i x : pext w (fst (after_apply w i x)).
Proof. unfold after_apply. split_all. all: pext_done. Qed.

Lemma step_load_pext w i x ph f choice : pext w (fst (step_load sha w i x ph f choice)).
Proof.
  unfold step_load, fetch, load_fail.
  destruct ph; split_all; try pext_done;
    try (match goal with H : after_apply ?a ?b ?c = (?w1, _) |- pext _ ?w1 =>
           replace w1 with (fst (after_apply a b c)) by (rewrite H; reflexivity) end;
         first [apply after_apply_pext | (eapply pext_trans; [|apply after_apply_pext]; pext_done)]).
Qed.

Lemma step_clock_pext w i x : pext w (fst (step_clock sha w i x)).
Proof.
  unfold step_clock. split_all; try pext_done.
  all: repeat match goal with H : fail_pool _ _ _ _ = _ |- _ => apply fail_pool_pext in H end.
  all: cbn [fst]; eapply pext_trans; [apply set_i_pext|]; eauto using pext_trans.
Qed.

Lemma step_round_pext w i x ph f choice : pext w (fst (step_round sha w i x ph f choice)).
Proof.
  destruct ph; try apply step_clock_pext; unfold step_round; split_all; try pext_done.
  all: repeat match goal with H : end_round _ _ _ _ _ = _ |- _ => apply end_round_pext in H end; cbn [fst].
  all: try (eapply pext_trans; [|eassumption]; apply pext_same; reflexivity).
  all: try (eapply pext_trans; [|apply set_i_pext]; eapply pext_commit; reflexivity).
  all: try (match goal with H : pext (if ?b then _ else _) _ |- _ => destruct b end;
            (eapply pext_trans; [|eassumption]);
            first [eapply pext_commit; reflexivity | apply pext_refl]).
Qed.

Lemma step_submit_pext w i x e low victim fs : pext w (fst (step_submit sha w i x e low victim fs)).
Proof.
  unfold step_submit. split_all;
    repeat match goal with H : upload_issuers _ _ _ _ _ _ = _ |- _ => apply upload_issuers_pext in H end;
    cbn [fst];
    (eapply pext_trans; [eassumption|]); apply pext_same; reflexivity.
Qed.

Theorem step_pext w e : pext w (fst (step w e)).
Proof.
  destruct e; unfold Model.step; cbn [fst].
  - apply pext_same; reflexivity.
  - apply set_i_pext.
  - apply set_i_pext.
  - destruct (get_inst (w_insts w) i) as [x|]; [|apply pext_refl].
    destruct (i_pc x); try apply pext_refl.
    + apply step_create_pext.
    + apply step_load_pext.
    + apply step_round_pext.
  - destruct (get_inst (w_insts w) i) as [x|]; [|apply pext_refl].
    destruct (i_pc x); try apply pext_refl; apply step_submit_pext.
  - destruct (get_inst (w_insts w) i) as [x|]; [|apply pext_refl].
    unfold step_tick. destruct (i_pc x); try apply pext_refl. apply set_i_pext.
  - destruct (get_inst (w_insts w) i) as [x|]; [|apply pext_refl]. apply set_i_pext.
  - destruct (get_inst (w_insts w) i) as [x|]; [|apply pext_refl].
    destruct (i_pc x); try apply pext_refl.
    destruct (fail_pool _ _ _ _) as [w1 o1] eqn:E1. apply fail_pool_pext in E1. cbn [fst].
    eapply pext_trans; [apply set_i_pext|eassumption].
  - destruct (get_inst (w_insts w) i) as [x|]; [|apply pext_refl]. apply set_i_pext.
  - destruct o; apply pext_same; reflexivity.
  - destruct (get_inst (w_insts w) i) as [x|]; [|apply pext_refl].
    destruct (step_recompute_spec sha w i x key lim) as [E|(p & ls & c1 & why & _ & _ & _ & E)];
      rewrite E; [apply pext_refl|apply set_i_pext].
Qed.

Theorem run_pext evs : forall w, pext w (run evs w).
Proof.
  induction evs as [|e r IH]; intro w; cbn; [apply pext_refl|].
  eapply pext_trans; [apply step_pext|apply IH].
Qed.

(* every upload of the checkpoint object carried the then-current lock value *)
Definition uploads_current (w : world) : Prop :=
  forall c k, In (c, k) (w_pubhist w) ->
    exists ls, nth_error (w_lockhist w) (k - 1) = Some (c, ls) /\ (1 <= k)%nat.

Definition uploads_current_b (w : world) : bool :=
  forallb (fun ck => (1 <=? snd ck)%nat &&
                     match nth_error (w_lockhist w) (snd ck - 1) with
                     | Some (c', _) => cp_eqb (fst ck) c'
                     | None => false
                     end) (w_pubhist w).

Lemma uploads_current_b_sound w : uploads_current_b w = true -> uploads_current w.
Proof.
  unfold uploads_current_b, uploads_current. rewrite forallb_forall. intros H c k Hin.
  specialize (H _ Hin). cbn [fst snd] in H. apply andb_true_iff in H. destruct H as [H1 H2].
  destruct (nth_error (w_lockhist w) (k - 1)) as [[c' ls]|]; [|discriminate].
  apply cp_eqb_eq in H2. subst c'. exists ls. split; [reflexivity|]. apply Nat.leb_le. assumption.
Qed.

Lemma sorted_nth (l : list nat) : StronglySorted le l ->
  forall i j a b, (i < j)%nat -> nth_error l i = Some a -> nth_error l j = Some b -> (a <= b)%nat.
Proof.
  induction 1 as [|x l S IH F]; intros i j a b Hij Hi Hj.
  - destruct i; discriminate.
  - destruct j as [|j]; [lia|]. cbn in Hj. destruct i as [|i].
    + cbn in Hi. inversion Hi; subst. rewrite Forall_forall in F. apply F. eapply nth_error_In; eauto.
    + cbn in Hi. apply (IH i j a b); [lia|assumption|assumption].
Qed.

(* C01, third clause: under uploads_current the published history is append-only as well:
   of two published checkpoints the later one equals or extends the earlier one *)
Theorem published_history_append_only evs :
  let w := run evs init in
  uploads_current w ->
  forall i j c k c' k', (i < j)%nat ->
    nth_error (w_pubhist w) i = Some (c, k) -> nth_error (w_pubhist w) j = Some (c', k') ->
    c = c' \/
    (cp_size c <= cp_size c' /\ (cp_ts c < cp_ts c')%Z /\
     exists ls', In (c', ls') (w_lockhist w) /\
                 cp_root c = mroot sha (leaf_hashes sha (firstn (N.to_nat (cp_size c)) ls'))).
Proof.
  intros w UC i j c k c' k' Hij Hi Hj.
  destruct (run_pext evs init) as [_ [p (P & _ & S)]]. cbn in P. fold w in P.
  assert (Hk : (k <= k')%nat).
  { rewrite P in Hi, Hj.
    assert (Hi' : nth_error (map snd p) i = Some k) by (rewrite nth_error_map, Hi; reflexivity).
    assert (Hj' : nth_error (map snd p) j = Some k') by (rewrite nth_error_map, Hj; reflexivity).
    eapply sorted_nth; eauto. }
  destruct (UC c k (nth_error_In _ _ Hi)) as (ls & Hn & H1).
  destruct (UC c' k' (nth_error_In _ _ Hj)) as (ls' & Hn' & H1').
  destruct (Nat.eq_dec (k - 1) (k' - 1)) as [E|NE].
  - left. rewrite E in Hn. congruence.
  - right. pose proof (Inv_reachable sha evs) as (C & _). fold w in C.
    pose proof (chain_append_only sha _ C (k - 1)%nat (k' - 1)%nat c ls c' ls') as A.
    destruct A as (A1 & A2 & A3); [lia|assumption|assumption|].
    split; [assumption|]. split; [assumption|]. exists ls'. split; [eapply nth_error_In; eauto|assumption].
Qed.

End P.
