(* Ctlog/Mono.v — monotone ghost histories: acknowledgements are never retracted, and only
   staging bundles are ever discarded (by the log; tampering is a separate event) *)
From SL Require Import Base.BytesProofs Ctlog.Model Ctlog.Recompute.
Open Scope N_scope.

Section M.
Variable sha : bytes -> bytes.
Notation step := (step sha).
Notation run := (run sha).

Definition is_staging (d : bytes * option cp) : Prop := exists n root, fst d = staging_path n root.

Definition ext (w w' : world) : Prop :=
  (exists l, w_acks w' = w_acks w ++ l) /\
  (exists l, w_discards w' = w_discards w ++ l /\ Forall is_staging l).

Lemma ext_refl w : ext w w.
Proof. split; [exists []|exists []; split; [|constructor]]; now rewrite app_nil_r. Qed.

Lemma ext_trans a b c : ext a b -> ext b c -> ext a c.
Proof.
  intros [[l1 A1] [d1 [D1 F1]]] [[l2 A2] [d2 [D2 F2]]]. split.
  - exists (l1 ++ l2). rewrite A2, A1. now rewrite app_assoc.
  - exists (d1 ++ d2). split; [rewrite D2, D1; now rewrite app_assoc|apply Forall_app; auto].
Qed.

Lemma ext_same w w' : w_acks w' = w_acks w -> w_discards w' = w_discards w -> ext w w'.
Proof. intros A D. split; [exists []|exists []; split; [|constructor]]; rewrite ?A, ?D; now rewrite app_nil_r. Qed.

Lemma ext_acks w w' l : w_acks w' = w_acks w ++ l -> w_discards w' = w_discards w -> ext w w'.
Proof. intros A D. split; [exists l; assumption|exists []; split; [rewrite D; now rewrite app_nil_r|constructor]]. Qed.

Lemma upload_ext w i k o opt f w1 ok ob : world_upload w i k o opt f = (w1, ok, ob) -> ext w w1.
Proof.
  unfold world_upload. destruct (do_upload _ _ _ _ _) as [s' ok']. intro E; inversion E; subst.
  apply ext_same; reflexivity.
Qed.

Lemma fail_pool_ext w i p e w1 o : fail_pool w i p e = (w1, o) -> ext w w1.
Proof. unfold fail_pool. intro E; inversion E; subst. eapply ext_acks; reflexivity. Qed.

Lemma set_i_ext w i x : ext w (set_i w i x).
Proof. apply ext_same; reflexivity. Qed.

Lemma end_round_ext w i x res w1 o : end_round sha w i x res = (w1, o) -> ext w w1.
Proof.
  unfold end_round. destruct res as [e|].
  - destruct e;
      repeat match goal with
             | |- context [fail_pool ?a ?b ?c ?d] =>
               let E := fresh "E" in destruct (fail_pool a b c d) as [? ?] eqn:E; apply fail_pool_ext in E
             end;
      intro EE; inversion EE; subst; clear EE;
      repeat match goal with H : ext (set_i ?w _ _) _ |- _ => apply (ext_trans _ _ _ (set_i_ext w _ _)) in H end;
      eauto using ext_trans.
  - intro EE; inversion EE; subst. eapply ext_acks; reflexivity.
Qed.

Lemma upload_issuers_ext iss : forall w i known fs w' k' ok o,
  upload_issuers sha w i known iss fs = (w', k', ok, o) -> ext w w'.
Proof.
  induction iss as [|b r IH]; intros w i known fs w' k' ok o E; cbn [upload_issuers] in E.
  - inversion E; subst. apply ext_refl.
  - destruct (existsb _ known); [eapply IH; eauto|].
    destruct (fetch w i _ _) as [got o1].
    destruct got as [ob|].
    + destruct (obj_eqb ob (OB b)).
      * destruct (upload_issuers sha w i _ r _) as [[[w2 k2] ok2] o2] eqn:E2.
        inversion E; subst. eapply IH; eauto.
      * inversion E; subst. apply ext_refl.
    + destruct (world_upload _ _ _ _ _ _) as [[w1 ok1] o2] eqn:E1. apply upload_ext in E1.
      destruct ok1.
      * destruct (upload_issuers sha w1 i _ r _) as [[[w2 k2] ok2] o3] eqn:E2.
        inversion E; subst. apply IH in E2. eauto using ext_trans.
      * inversion E; subst. assumption.
Qed.

Ltac ext_done :=
  repeat match goal with
         | H : world_upload _ _ _ _ _ _ = _ |- _ => apply upload_ext in H
         | H : fail_pool _ _ _ _ = _ |- _ => apply fail_pool_ext in H
         | H : end_round _ _ _ _ _ = _ |- _ => apply end_round_ext in H
         | H : upload_issuers _ _ _ _ _ _ = _ |- _ => apply upload_issuers_ext in H
         end;
  cbn [fst];
  first [ apply ext_refl
        | apply set_i_ext
        | assumption
        | (eapply ext_trans; [eassumption|]; first [apply set_i_ext | apply ext_refl | assumption
             | (eapply ext_trans; [eassumption|]; first [apply set_i_ext | apply ext_refl | assumption])])
        | (apply ext_same; reflexivity)
        | (eapply ext_acks; reflexivity) ].

Ltac split_all :=
  repeat match goal with
         | |- context [let '(_, _) := ?x in _] => destruct x as [? ?] eqn:?
         | |- context [match ?x with _ => _ end] =>
           match type of x with
           | _ => destruct x eqn:?
           end
         end.

Lemma step_create_ext w i x k f : ext w (fst (step_create sha w i x k f)).
Proof.
  unfold step_create, fetch. destruct k as [|[|[|[|k]]]]; split_all.
  all: ext_done.
Qed.

Lemma after_apply_ext w i x : ext w (fst (after_apply w i x)).
Proof. unfold after_apply. split_all. all: ext_done. Qed.

Lemma step_load_ext w i x ph f choice : ext w (fst (step_load sha w i x ph f choice)).
Proof.
  unfold step_load, fetch, load_fail.
  destruct ph; split_all; try ext_done;
    try (match goal with H : after_apply ?a ?b ?c = (?w1, _) |- ext _ ?w1 =>
           replace w1 with (fst (after_apply a b c)) by (rewrite H; reflexivity) end;
         first [apply after_apply_ext | (eapply ext_trans; [|apply after_apply_ext]; ext_done)]).
Qed.

Lemma step_clock_ext w i x : ext w (fst (step_clock sha w i x)).
Proof.
  unfold step_clock. split_all; try ext_done.
  all: repeat match goal with H : fail_pool _ _ _ _ = _ |- _ => apply fail_pool_ext in H end.
  all: cbn [fst]; eapply ext_trans; [apply set_i_ext|]; eauto using ext_trans.
Qed.

Lemma step_round_ext w i x ph f choice : ext w (fst (step_round sha w i x ph f choice)).
Proof.
  destruct ph; try apply step_clock_ext; unfold step_round; split_all; try ext_done.
  (* compare-and-swap and discard build an intermediate world by hand *)
  all: repeat match goal with H : end_round _ _ _ _ _ = _ |- _ => apply end_round_ext in H end; cbn [fst].
  all: try (eapply ext_trans; [|eassumption]; apply ext_same; reflexivity).
  all: try (eapply ext_trans; [|eassumption]; split; [exists []; cbn; now rewrite app_nil_r|];
            eexists; split; [cbn [w_discards]; reflexivity|];
            constructor; [eexists; eexists; reflexivity|constructor]).
  all: try (match goal with H : ext (if ?b then _ else _) _ |- _ => destruct b end;
            (eapply ext_trans; [|eassumption]); apply ext_same; reflexivity).
Qed.

Lemma step_submit_ext w i x e low victim fs : ext w (fst (step_submit sha w i x e low victim fs)).
Proof.
  unfold step_submit. split_all;
    repeat match goal with H : upload_issuers _ _ _ _ _ _ = _ |- _ => apply upload_issuers_ext in H end;
    cbn [fst];
    (eapply ext_trans; [eassumption|]);
    first [ (apply ext_same; reflexivity) | (eapply ext_acks; reflexivity) ].
Qed.

Theorem step_ext w e : ext w (fst (step w e)).
Proof.
  destruct e; unfold Model.step; cbn [fst].
  - apply ext_same; reflexivity.
  - apply set_i_ext.
  - apply set_i_ext.
  - destruct (get_inst (w_insts w) i) as [x|]; [|apply ext_refl].
    destruct (i_pc x); try apply ext_refl.
    + apply step_create_ext.
    + apply step_load_ext.
    + apply step_round_ext.
  - destruct (get_inst (w_insts w) i) as [x|]; [|apply ext_refl].
    destruct (i_pc x); try apply ext_refl; apply step_submit_ext.
  - destruct (get_inst (w_insts w) i) as [x|]; [|apply ext_refl].
    unfold step_tick. destruct (i_pc x); try apply ext_refl. apply set_i_ext.
  - destruct (get_inst (w_insts w) i) as [x|]; [|apply ext_refl]. apply set_i_ext.
  - destruct (get_inst (w_insts w) i) as [x|]; [|apply ext_refl].
    destruct (i_pc x); try apply ext_refl.
    destruct (fail_pool _ _ _ _) as [w1 o1] eqn:E1. apply fail_pool_ext in E1. cbn [fst].
    eapply ext_trans; [apply set_i_ext|eassumption].
  - destruct (get_inst (w_insts w) i) as [x|]; [|apply ext_refl]. apply set_i_ext.
  - destruct o; apply ext_same; reflexivity.
  - destruct (get_inst (w_insts w) i) as [x|]; [|apply ext_refl].
    destruct (step_recompute_spec sha w i x key lim) as [E|(p & ls & c1 & why & _ & _ & _ & E)];
      rewrite E; [apply ext_refl|apply set_i_ext].
Qed.

Theorem run_ext evs : forall w, ext w (run evs w).
Proof.
  induction evs as [|e r IH]; intro w; cbn; [apply ext_refl|].
  eapply ext_trans; [apply step_ext|apply IH].
Qed.

(* acknowledgements are never retracted: whatever happens afterwards (crashes included) *)
Theorem acks_monotone evs more a :
  In a (w_acks (run evs init)) -> In a (w_acks (run (evs ++ more) init)).
Proof.
  intro H. unfold Model.run. rewrite fold_left_app.
  destruct (run_ext more (run evs init)) as [[l E] _].
  unfold Model.run in E. rewrite E. apply in_or_app. auto.
Qed.

(* nothing but staging bundles is ever discarded *)
Theorem only_staging_discarded evs d : In d (w_discards (run evs init)) -> is_staging d.
Proof.
  destruct (run_ext evs init) as [_ [l [E F]]]. cbn in E. rewrite E.
  intro H. rewrite Forall_forall in F. auto.
Qed.

End M.
