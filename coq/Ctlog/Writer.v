(* Ctlog/Writer.v — who can extend the lock history: only the compare-and-swap step of a running
   round (PRound RCas) and the Lock.Create step of CreateLog (PCreate 2). Everything else — loading,
   every other phase of a round, submissions, ticks, stops, crashes, tampering with object storage,
   the recompute tool — leaves the lock store and its history untouched. With Frame.stopped_forever: an
   instance whose sequencer has stopped never signs a checkpoint again. *)
From SL Require Import Base.BytesProofs Ctlog.Model Ctlog.Spec Ctlog.Inv Ctlog.InvStep Ctlog.Stop Ctlog.Frame.
Open Scope N_scope.

Section W.
Variable sha : bytes -> bytes.
Notation step := (step sha).

Lemma end_round_hist w i x res w1 o :
  end_round sha w i x res = (w1, o) -> w_lockhist w1 = w_lockhist w /\ w_lock w1 = w_lock w.
Proof. intro E. apply end_round_frame in E. destruct E as (A & B & _). auto. Qed.

Lemma after_apply_hist w i x w1 o :
  after_apply w i x = (w1, o) -> w_lockhist w1 = w_lockhist w /\ w_lock w1 = w_lock w.
Proof. unfold after_apply. destruct (_ =? _); intro E; inversion E; subst; cbn [set_i w_lockhist w_lock]; auto. Qed.

Ltac helper :=
  match goal with
  | |- context[after_apply ?a ?b ?c] =>
    let E := fresh "E" in destruct (after_apply a b c) as [? ?] eqn:E;
    apply after_apply_hist in E; destruct E as (? & ?)
  | |- context[world_upload ?a ?b ?c ?d ?e ?f] =>
    let E := fresh "E" in destruct (world_upload a b c d e f) as [[? ?] ?] eqn:E;
    apply upload_frame in E; destruct E as (? & ? & _ & _)
  | |- context[end_round sha ?a ?b ?c ?d] =>
    let E := fresh "E" in destruct (end_round sha a b c d) as [? ?] eqn:E;
    apply end_round_hist in E; destruct E as (? & ?)
  | |- context[fail_pool ?a ?b ?c ?d] =>
    let E := fresh "E" in destruct (fail_pool a b c d) as [? ?] eqn:E;
    apply fail_pool_frame in E; destruct E as (? & ? & _ & _)
  | |- context[upload_issuers sha ?a ?b ?c ?d ?e] =>
    let E := fresh "E" in destruct (upload_issuers sha a b c d e) as [[[? ?] ?] ?] eqn:E;
    apply upload_issuers_frame in E; destruct E as (? & ? & _ & _)
  end.

Ltac brk :=
  repeat (first
    [ progress cbn [fst snd w_lockhist w_lock set_i add_acks set_store]
    | helper
    | match goal with
      | |- context[let '(_, _) := ?e in _] => destruct e eqn:?
      | |- context[match ?x with _ => _ end] => destruct x eqn:?
      end ]).

Ltac fin :=
  repeat (first
    [ match goal with H : w_lockhist ?a = _ |- context[w_lockhist ?a] => rewrite H end
    | match goal with H : w_lock ?a = _ |- context[w_lock ?a] => rewrite H end
    | progress cbn [fst snd w_lockhist w_lock set_i add_acks set_store] ]);
  split; reflexivity.

Definition same_lock (w w' : world) : Prop := w_lockhist w' = w_lockhist w /\ w_lock w' = w_lock w.

Lemma step_load_lock w j x ph f ch : same_lock w (fst (step_load sha w j x ph f ch)).
Proof. unfold same_lock, step_load, load_fail. brk; fin. Qed.

Lemma step_clock_lock w j x : same_lock w (fst (step_clock sha w j x)).
Proof. unfold same_lock, step_clock. brk; fin. Qed.

Lemma step_round_lock w j x ph f ch : ph <> RCas -> same_lock w (fst (step_round sha w j x ph f ch)).
Proof.
  intro H. unfold step_round. destruct ph; try congruence; try (apply step_clock_lock); unfold same_lock; brk; fin.
Qed.

Lemma step_submit_lock w j x e low v fs : same_lock w (fst (step_submit sha w j x e low v fs)).
Proof. unfold same_lock, Model.step_submit. brk; fin. Qed.

Lemma step_recompute_lock w j x key lim : same_lock w (fst (step_recompute sha w j x key lim)).
Proof. unfold same_lock, step_recompute, set_cache. brk; fin. Qed.

Lemma step_create_lock w j x k f : k <> 2%nat -> same_lock w (fst (step_create sha w j x k f)).
Proof.
  intro H. unfold same_lock, step_create.
  destruct k as [|[|[|[|k]]]]; try congruence; brk; fin.
Qed.

(* the only writers of the lock store *)
Definition lock_writer (w : world) (e : ev) : Prop :=
  exists i x f ch, e = EvStep i f ch /\ get_inst (w_insts w) i = Some x /\
                   (i_pc x = PRound RCas \/ i_pc x = PCreate 2).

Theorem lock_changes_only_at_cas_or_create w e :
  same_lock w (fst (step w e)) \/ lock_writer w e.
Proof.
  destruct e as [now|j c|j c keep|j f ch|j en low vic fs|j|j|j why|j keep|k ob|j key lim]; cbn [Model.step];
    try (left; split; reflexivity).
  - (* EvStep *) destruct (get_inst (w_insts w) j) as [y|] eqn:G; [|left; split; reflexivity].
    destruct (i_pc y) as [|k|ph| |ph| |] eqn:P; try (left; split; reflexivity).
    + destruct (Nat.eq_dec k 2) as [->|N].
      * right. exists j, y, f, ch. auto.
      * left. apply step_create_lock. assumption.
    + left. apply step_load_lock.
    + destruct ph; try (left; apply step_round_lock; congruence). right. exists j, y, f, ch. auto.
  - destruct (get_inst (w_insts w) j) as [y|] eqn:G; [|left; split; reflexivity].
    destruct (i_pc y); try (left; split; reflexivity); left; apply step_submit_lock.
  - destruct (get_inst (w_insts w) j) as [y|] eqn:G; [|left; split; reflexivity].
    left. unfold step_tick. destruct (i_pc y); split; reflexivity.
  - destruct (get_inst (w_insts w) j) as [y|] eqn:G; left; split; reflexivity.
  - destruct (get_inst (w_insts w) j) as [y|] eqn:G; [|left; split; reflexivity].
    left. destruct (i_pc y); split; reflexivity.
  - destruct (get_inst (w_insts w) j) as [y|] eqn:G; left; split; reflexivity.
  - left. destruct ob; split; reflexivity.
  - destruct (get_inst (w_insts w) j) as [y|] eqn:G; [|left; split; reflexivity].
    left. apply step_recompute_lock.
Qed.

(* hence: an event of a stopped instance never writes the lock store *)
Corollary stopped_instance_never_writes w i er t e :
  stopped_with w i er t -> ev_inst e = Some i -> same_lock w (fst (step w e)).
Proof.
  intros (x & G & P & _) E.
  destruct (lock_changes_only_at_cas_or_create w e) as [S|(j & y & f & ch & -> & Gj & [Q|Q])]; [assumption| |];
    cbn [ev_inst] in E; inversion E; subst j; rewrite G in Gj; inversion Gj; subst y; rewrite P in Q; discriminate.
Qed.

End W.
