(* Ctlog/Theorems4.v — consequences of the fourth invariant layer (Ctlog/PubCover*.v): the main
   sentence of C02 for its own quantifier. For every history without tampering in which at most
   one instance is live at a time (submissions, rounds, any fault placement — including checkpoint
   uploads that fail after taking effect —, crashes, restarts with or without the old cache file,
   cache loss, clocks): whenever a submission is acknowledged with a leaf index and timestamp, the
   checkpoint readable from object storage at that moment already covers that index, was
   committed to the lock store, and the leaf it commits to at that index is the acknowledged
   entry. No assumption on the hash function, no bound on the length of the history. *)
From SL Require Import Base.BytesProofs Ctlog.Model Ctlog.Spec Ctlog.Inv Ctlog.InvStep Ctlog.Inv2 Ctlog.Inv2Step
  Ctlog.PubMono Ctlog.Solo Ctlog.Theorems2 Ctlog.Inv3Step Ctlog.Theorems3 Ctlog.PubCover Ctlog.PubCoverStep.
From Coq Require Import ZifyN ZifyNat ZifyBool.
Open Scope N_scope.

Section T.
Variable sha : bytes -> bytes.
Notation run := (run sha).
Notation step := (step sha).
Notation Inv := (Inv sha).
Notation Inv2 := (Inv2 sha).
Notation solo_run := (solo_run sha).
Notation ckey := (ckey sha).

Lemma PInv_run evs : forall w,
  Inv w -> Inv2 w -> SInv w -> PInv w -> no_tamper evs -> solo_run evs w -> PInv (run evs w).
Proof.
  induction evs as [|e r IH]; intros w HI HI2 HS HP NT So; cbn in *; [assumption|].
  inversion NT; subst. destruct So as [So1 So2].
  apply IH; try assumption.
  - apply Inv_step; assumption.
  - apply Inv2_step; assumption.
  - apply SInv_step; assumption.
  - apply PInv_step; assumption.
Qed.

Theorem PInv_reachable evs : no_tamper evs -> solo_run evs init -> PInv (run evs init).
Proof.
  intros NT So. apply PInv_run; auto using Inv_init, Inv2_init, SInv_init, PInv_init.
Qed.

(* C02, main sentence: an acknowledged index is covered by the checkpoint that was readable from
   object storage when the acknowledgement was released; that checkpoint had been committed *)
Theorem acks_covered_by_published evs :
  no_tamper evs -> solo_run evs init ->
  let w := run evs init in
  forall a idx ts, In a (w_acks w) -> a_res a = Some (idx, ts) ->
    exists P, a_pub a = Some P /\ idx < cp_size P /\ exists ls, In (P, ls) (w_lockhist w).
Proof.
  intros NT So w a idx ts Hin Hres.
  destruct (PInv_reachable evs NT So) as (_ & _ & _ & _ & _ & K3).
  exact (K3 a Hin idx ts Hres).
Qed.

(* ... and the leaf which that published checkpoint commits to at the acknowledged index is the
   acknowledged entry: same dedup identity, that timestamp, that leaf index *)
Theorem acks_covered_leaf evs :
  no_tamper evs -> solo_run evs init ->
  let w := run evs init in
  forall a idx ts, In a (w_acks w) -> a_res a = Some (idx, ts) ->
    exists P ls sl, a_pub a = Some P /\ idx < cp_size P /\ In (P, ls) (w_lockhist w) /\
      cp_size P = N.of_nat (length ls) /\ cp_root P = mroot sha (leaf_hashes sha ls) /\
      nth_error ls (N.to_nat idx) = Some sl /\
      leaf_ckey sha (sl_leaf sl) = ckey (a_entry a) /\ l_ts (sl_leaf sl) = ts /\ l_idx (sl_leaf sl) = Z.of_N idx.
Proof.
  intros NT So w a idx ts Hin Hres.
  destruct (acks_covered_by_published evs NT So a idx ts Hin Hres) as (P & Hp & Hlt & ls & Hl).
  pose proof (Inv_reachable sha evs) as (C & _).
  destruct (chain_wf sha _ _ _ C Hl) as (Sz & Rt & _).
  destruct (ack_names_committed_leaf sha evs a idx ts Hin Hres) as [_ H].
  destruct (H P ls Hl) as (sl & Hn & Hk & Ht & Hi); [lia|].
  exists P, ls, sl. repeat split; assumption.
Qed.

(* the same for the dedup cache: every row of every cache file names an index that the
   currently published checkpoint covers *)
Theorem cache_rows_covered_by_published evs i x k idx ts :
  no_tamper evs -> solo_run evs init ->
  let w := run evs init in
  get_inst (w_insts w) i = Some x -> In (k, (idx, ts)) (i_cache x) ->
  exists P, published w = Some P /\ idx < cp_size P.
Proof.
  intros NT So w G Hin.
  destruct (PInv_reachable evs NT So) as (_ & _ & _ & _ & K2 & _).
  exact (K2 i x k idx ts G Hin).
Qed.

(* the published checkpoint was committed (here from the store itself, not from the ghost
   publication history) *)
Theorem published_is_committed evs P :
  no_tamper evs -> solo_run evs init ->
  published (run evs init) = Some P -> exists ls, In (P, ls) (w_lockhist (run evs init)).
Proof.
  intros NT So Hp. destruct (PInv_reachable evs NT So) as (_ & S2 & _). auto.
Qed.

End T.

(* non-vacuity: the example history (failing checkpoint upload, crash after the compare-and-swap,
   recovery by a second instance) satisfies the hypotheses and has acknowledgements with results *)
From SL Require Import Ctlog.Example.
Example history1_solo_untampered : no_tamper history1 /\ Solo.solo_run toy_sha history1 init.
Proof. split; [apply no_tamperb_ok; vm_compute; reflexivity|apply solo_run_b_sound; vm_compute; reflexivity]. Qed.

Example history1_ack_covered :
  exists a P, In a (w_acks world1) /\ a_res a = Some (0%N, 20%Z) /\ a_pub a = Some P /\ cp_size P = 1%N.
Proof. vm_compute. eexists. eexists. split; [left; reflexivity|]. repeat split. Qed.

(* the hypothesis "one live instance at a time" cannot be dropped: with two live instances (the
   known finding under C06: a late checkpoint upload of an overtaken instance rolls the published
   checkpoint back) a resubmission answered from the dedup cache is acknowledged with an index
   that the readable checkpoint does not cover *)
Definition history_rollback_resubmit : list ev := history_rollback ++ [EvSubmit 1 (ent x32) false 0 []].

Theorem acks_covered_two_live_instances_refuted :
  exists a idx ts P,
    no_tamper history_rollback_resubmit /\
    In a (w_acks (run toy_sha history_rollback_resubmit init)) /\ a_res a = Some (idx, ts) /\
    a_pub a = Some P /\ cp_size P <= idx.
Proof.
  eexists. exists 1, 30%Z. eexists.
  split; [apply no_tamperb_ok; vm_compute; reflexivity|].
  vm_compute. split; [right; left; reflexivity|]. repeat split. discriminate.
Qed.

Print Assumptions PInv_reachable.
Print Assumptions acks_covered_by_published.
Print Assumptions acks_covered_leaf.
Print Assumptions cache_rows_covered_by_published.
Print Assumptions published_is_committed.
Print Assumptions acks_covered_two_live_instances_refuted.
