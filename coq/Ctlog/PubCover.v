(* Ctlog/PubCover.v — fourth invariant layer, for histories without tampering in which at most one
   instance is live at a time (crashes and restarts: C02's own quantifier): the checkpoint
   READABLE FROM OBJECT STORAGE covers every index that a dedup-cache row or an acknowledgement
   names. Definitions, store lemmas and the generic update lemmas; the preservation by every
   event is in Ctlog/PubCoverStep.v, the consequences in Ctlog/Theorems4.v.
     K0  staging bundles (in the store, in a round, in a recovering load) only address tiles,
         so nothing but an upload of the checkpoint object changes what [published] reads;
         the published checkpoint was committed to the lock store;
     K1  an instance about to discard its staging bundle sees its own tree published;
     K2  every dedup-cache row of every instance (live or not: a cache file may be taken over
         by a restarted instance) names an index below the published size;
     K3  every acknowledgement with a result names an index below the size of the checkpoint
         that was published when the acknowledgement was released, and that checkpoint was
         committed. *)
From SL Require Import Base.BytesProofs Merkle.TilesProofs Ctlog.Model Ctlog.Spec Ctlog.Inv Ctlog.InvStep
  Ctlog.Inv2 Ctlog.Inv2Step Ctlog.PubMono Ctlog.Solo Ctlog.Inv3.
From Coq Require Import ZifyN ZifyNat ZifyBool.
Open Scope N_scope.

Section P.
Variable sha : bytes -> bytes.
Notation Inv := (Inv sha).
Notation chain := (chain sha).
Notation wfcp := (wfcp sha).
Notation solo := (solo).

Ltac fields := cbn [w_lockhist w_lock w_pubhist w_insts w_store w_acks set_i add_acks set_store fst snd] in *.

(* ---------- definitions ---------- *)
(* a bundle of uploads that only addresses tiles *)
Definition nocp (ups : list upload) : Prop := forall u, In u ups -> kclass (u_key u) = 116.

(* the checkpoint readable from object storage covers index idx *)
Definition covers (w : world) (idx : N) : Prop := exists P, published w = Some P /\ idx < cp_size P.

Definition ack_cov (h : list (cp * list sleaf)) (a : ack) : Prop :=
  forall idx ts, a_res a = Some (idx, ts) ->
    exists P, a_pub a = Some P /\ idx < cp_size P /\ exists ls, In (P, ls) h.

Definition inst4 (x : inst) : Prop :=
  match i_pc x with
  | PRound RStaging | PRound RCas => nocp (r_ups (i_rctx x))
  | PRound (RTiles todo _) => nocp todo
  | PLoad (LApply todo _) => nocp todo
  | _ => True
  end.

Definition PInv (w : world) : Prop :=
  (forall k ups, lookup (w_store w) k = Some (OS ups) -> nocp ups)
  /\ (forall P, published w = Some P -> exists ls, In (P, ls) (w_lockhist w))
  /\ (forall i x, get_inst (w_insts w) i = Some x -> inst4 x)
  /\ (forall i x, get_inst (w_insts w) i = Some x -> i_pc x = PRound RDiscard -> published w = Some (i_tree x))
  /\ (forall i x k idx ts, get_inst (w_insts w) i = Some x -> In (k, (idx, ts)) (i_cache x) -> covers w idx)
  /\ (forall a, In a (w_acks w) -> ack_cov (w_lockhist w) a).

Lemma PInv_init : PInv init.
Proof.
  repeat split; cbn; try discriminate; try contradiction.
Qed.

Lemma published_store w w' : w_store w' = w_store w -> published w' = published w.
Proof. unfold published. intros ->. reflexivity. Qed.

Lemma covers_store w w' idx : w_store w' = w_store w -> covers w idx -> covers w' idx.
Proof. unfold covers. intros E. rewrite (published_store _ _ E). auto. Qed.

Lemma ack_cov_mono h e a : ack_cov h a -> ack_cov (h ++ e) a.
Proof.
  intros H idx ts R. destruct (H idx ts R) as (P & A & B & ls & L).
  exists P. split; [assumption|]. split; [assumption|]. exists ls. apply in_or_app. auto.
Qed.

Lemma ack_cov_none h a : a_res a = None -> ack_cov h a.
Proof. intros E idx ts R. congruence. Qed.

Lemma inst4_core x y : i_pc x = i_pc y -> i_rctx x = i_rctx y -> inst4 x -> inst4 y.
Proof. unfold inst4. intros -> ->. auto. Qed.

(* ---------- the generic update lemma: same store; the lock history grows by [e]; one instance is
   replaced; new acknowledgements are justified ---------- *)
Lemma PInv_upd w w' i x' e :
  PInv w -> w_store w' = w_store w -> w_lockhist w' = w_lockhist w ++ e ->
  w_insts w' = set_inst (w_insts w) i x' ->
  inst4 x' ->
  (i_pc x' = PRound RDiscard -> published w = Some (i_tree x')) ->
  (forall k idx ts, In (k, (idx, ts)) (i_cache x') -> covers w idx) ->
  (forall a, In a (w_acks w') -> In a (w_acks w) \/ ack_cov (w_lockhist w') a) ->
  PInv w'.
Proof.
  intros (S1 & S2 & I4 & K1 & K2 & K3) Es Eh Ei Hx HK1 HK2 Ha.
  pose proof (published_store _ _ Es) as Ep.
  split; [rewrite Es; exact S1|]. split; [|split; [|split; [|split]]].
  - intros P HP. rewrite Ep in HP. destruct (S2 P HP) as [ls L]. exists ls. rewrite Eh. apply in_or_app. auto.
  - rewrite Ei. intros j y G. destruct (Nat.eq_dec i j) as [->|N].
    + rewrite get_set_same in G. inversion G; subst. assumption.
    + rewrite get_set_other in G by assumption. eauto.
  - rewrite Ei, Ep. intros j y G Hpc. destruct (Nat.eq_dec i j) as [->|N].
    + rewrite get_set_same in G. inversion G; subst. auto.
    + rewrite get_set_other in G by assumption. eauto.
  - rewrite Ei. intros j y k idx ts G Hin. apply (covers_store w w' idx Es).
    destruct (Nat.eq_dec i j) as [->|N].
    + rewrite get_set_same in G. inversion G; subst. eauto.
    + rewrite get_set_other in G by assumption. eauto.
  - intros a Hin. destruct (Ha a Hin) as [H|H]; [|exact H]. rewrite Eh. apply ack_cov_mono. auto.
Qed.

(* nothing the invariant looks at changes *)
Lemma PInv_same w w' :
  PInv w -> w_store w' = w_store w -> w_lockhist w' = w_lockhist w -> w_insts w' = w_insts w ->
  w_acks w' = w_acks w -> PInv w'.
Proof.
  intros (S1 & S2 & I4 & K1 & K2 & K3) Es Eh Ei Ea.
  pose proof (published_store _ _ Es) as Ep.
  unfold PInv, covers. rewrite Es, Eh, Ei, Ea, Ep. repeat split; assumption.
Qed.

(* ---------- uploads ---------- *)
Lemma kclass_neq k k' : kclass k <> kclass k' -> k <> k'.
Proof. intros H E. apply H. now rewrite E. Qed.

(* an upload under a key other than "checkpoint" *)
Lemma PInv_upload_other w i k o opt f w1 ok ob :
  PInv w -> world_upload w i k o opt f = (w1, ok, ob) -> kclass k <> 99 ->
  (forall ups, o = OS ups -> nocp ups) -> PInv w1.
Proof.
  intros (S1 & S2 & I4 & K1 & K2 & K3) E Hk Ho.
  pose proof (upload_acks _ _ _ _ _ _ _ _ _ E) as Ea.
  pose proof (upload_store _ _ _ _ _ _ _ _ _ E) as D.
  apply upload_frame in E. destruct E as (A1 & A2 & A3 & A4).
  assert (Nk : k_checkpoint <> k) by (apply kclass_neq; rewrite kclass_checkpoint; congruence).
  assert (Ep : published w1 = published w).
  { unfold published. rewrite (do_upload_other _ _ _ _ _ _ _ _ D Nk). reflexivity. }
  unfold PInv, covers. rewrite A1, A3, Ea, Ep. split; [|repeat split; assumption].
  intros k0 ups L. destruct (do_upload_lookup _ _ _ _ _ _ _ _ _ D L) as [L'|[_ Eo]]; [eauto|].
  apply Ho. now symmetry.
Qed.

(* what an upload of the checkpoint object does to the store *)
Lemma upload_cp_store w i c f w1 ok ob :
  world_upload w i k_checkpoint (OC c) UCheckpoint f = (w1, ok, ob) ->
  w_store w1 = (if applied f then put (w_store w) k_checkpoint (OC c) else w_store w) /\ ok = succeeded f.
Proof.
  intro E. apply upload_store in E. unfold do_upload in E. cbn [immutable andb] in E.
  destruct (lookup (w_store w) k_checkpoint); inversion E; subst; auto.
Qed.

(* sizes along the lock chain: a committed checkpoint is no larger than the current lock value *)
Lemma committed_le_lock w P ls c :
  Inv w -> In (P, ls) (w_lockhist w) -> w_lock w = Some c -> cp_size P <= cp_size c.
Proof.
  intros (C & LL & _) Hin Hl. rewrite Hl in LL. destruct LL as (h' & ls' & Eh).
  rewrite Eh in Hin. apply in_app_or in Hin. destruct Hin as [Hin|[Hin|[]]].
  - apply In_nth_error in Hin. destruct Hin as [n Hn].
    assert (Hlt : (n < length h')%nat) by (apply nth_error_Some; congruence).
    destruct (chain_pairs sha _ C n (length h') P ls c ls') as (Pr & _ & [S1 _] & [S2 _]).
    + exact Hlt.
    + rewrite Eh, nth_error_app1 by assumption. exact Hn.
    + rewrite Eh, nth_error_app2, Nat.sub_diag by lia. reflexivity.
    + apply prefix_length in Pr. lia.
  - inversion Hin; subst. lia.
Qed.

Lemma lock_committed w c : Inv w -> w_lock w = Some c -> exists ls, In (c, ls) (w_lockhist w).
Proof.
  intros (_ & LL & _) Hl. rewrite Hl in LL. destruct LL as (h' & ls & Eh). exists ls. rewrite Eh.
  apply in_or_app. right. left. reflexivity.
Qed.

(* the upload of the checkpoint object by the only live instance, carrying the current lock value:
   whatever the fault, every index that was covered stays covered *)
Lemma PInv_upload_cp w i x c f w1 ok ob :
  Inv w -> solo w -> PInv w -> get_inst (w_insts w) i = Some x -> live x = true ->
  i_pc x <> PRound RDiscard -> w_lock w = Some c ->
  world_upload w i k_checkpoint (OC c) UCheckpoint f = (w1, ok, ob) ->
  PInv w1 /\ (ok = true -> published w1 = Some c).
Proof.
  intros HI So (S1 & S2 & I4 & K1 & K2 & K3) G Lx Npc Hl E.
  pose proof (upload_acks _ _ _ _ _ _ _ _ _ E) as Ea.
  destruct (upload_cp_store _ _ _ _ _ _ _ E) as [Es Eok].
  apply upload_frame in E. destruct E as (A1 & A2 & A3 & A4).
  destruct (applied f) eqn:Eap.
  - assert (Ep : published w1 = Some c).
    { unfold published. rewrite Es, lookup_put_same. reflexivity. }
    split; [|auto].
    unfold PInv. rewrite A1, A3, Ea. split; [|split; [|split; [|split; [|split]]]].
    + intros k ups L. rewrite Es in L.
      destruct (list_eq_dec Byte.byte_eq_dec k k_checkpoint) as [->|N].
      * rewrite lookup_put_same in L. discriminate.
      * rewrite lookup_put_other in L by assumption. eauto.
    + intros P HP. rewrite Ep in HP. inversion HP; subst. eapply lock_committed; eauto.
    + exact I4.
    + intros j y Gj Hpc. exfalso. apply Npc.
      assert (j = i) by (apply (So j i y x Gj G); [unfold live; rewrite Hpc; reflexivity|assumption]).
      subst j. congruence.
    + intros j y k idx ts Gj Hin. destruct (K2 j y k idx ts Gj Hin) as (P & HP & Hlt).
      exists c. split; [assumption|]. destruct (S2 P HP) as [ls L].
      pose proof (committed_le_lock _ _ _ _ HI L Hl). lia.
    + exact K3.
  - assert (Eok' : ok = false) by (rewrite Eok; destruct f; cbn in *; congruence).
    split; [|rewrite Eok'; discriminate].
    assert (Ep : published w1 = published w) by (apply published_store; assumption).
    unfold PInv, covers. rewrite A1, A3, Ea, Ep, Es. repeat split; assumption.
Qed.

(* Backend.Discard of a staging bundle *)
Lemma PInv_discard w n root s' d :
  PInv w -> s' = remove (w_store w) (staging_path n root) \/ s' = w_store w ->
  PInv (mkWorld s' (w_lock w) (w_now w) (w_insts w) (w_nextwid w) (w_lockhist w) (w_pubhist w) (w_acks w) d).
Proof.
  intros HP [-> | ->]; [|eapply PInv_same; eauto].
  destruct HP as (S1 & S2 & I4 & K1 & K2 & K3).
  assert (Nk : k_checkpoint <> staging_path n root) by (apply kclass_neq; rewrite kclass_checkpoint, kclass_staging; discriminate).
  match goal with |- PInv ?W => assert (Ep : published W = published w) end.
  { unfold published. cbn [w_store]. rewrite lookup_remove_other by assumption. reflexivity. }
  unfold PInv, covers. rewrite Ep. cbn [w_store w_lockhist w_insts w_acks].
  split; [|repeat split; assumption].
  intros k ups L. apply lookup_remove_some in L. eauto.
Qed.

(* ---------- bundles ---------- *)
Lemma nocp_nil : nocp [].
Proof. intros u []. Qed.

Lemma nocp_round_uploads all old new : old <= new -> nocp (round_uploads sha all old new).
Proof.
  intros Hle u Hu. apply round_uploads_spec in Hu; [|assumption].
  destruct Hu as (_ & a & _ & ->). cbn [u_key tup]. apply kclass_tpath.
Qed.

Lemma nocp_take todo choice u rest :
  nocp todo -> take_upload todo choice = Some (u, rest) -> kclass (u_key u) = 116 /\ nocp rest.
Proof.
  intros H T. destruct (take_upload_spec _ _ _ _ T) as (Hu & Hr & _). split; [auto|].
  intros v Hv. auto.
Qed.

(* ---------- acknowledgements of a pool ---------- *)
Lemma acks_of_pool_pub w i p res a : In a (acks_of_pool w i p res) -> a_pub a = published w.
Proof.
  unfold acks_of_pool. generalize O. induction (pl_leaves p) as [|y l IH]; intros k H; [destruct H|].
  destruct (res y k) as [ok er]. destruct H as [E|H]; [subst; reflexivity|eauto].
Qed.

End P.
