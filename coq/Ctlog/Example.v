(* Ctlog/Example.v — a concrete history (used for the non-vacuity Examples of Properties/C0x.v):
   create, load, submit one entry, two rounds of which the second has a failing checkpoint upload,
   a crash after the compare-and-swap of a third round, recovery by a new instance. *)
From SL Require Import Ctlog.Model.
Open Scope N_scope.

Definition toy_sha (b : bytes) : bytes := firstn 6 (b ++ [x01; x02; x03; x04; x05; x06]).
Definition cfg1 : cfg := mkCfg (s2b "example.com/log") 7 0.
Definition ent (n : byte) : entry := mkEntry [n; x41] false (zeros 32) [] [] [].
Definition ok (i : nat) : ev := EvStep i FOk [].
Definition okk (i : nat) (k : string) : ev := EvStep i FOk (s2b k).

Definition history1 : list ev :=
  [EvClock 10; EvCreate 0 cfg1; ok 0; ok 0; ok 0; ok 0; ok 0;
   EvStart 0 cfg1 None; ok 0; ok 0; ok 0;
   EvSubmit 0 (ent x31) false 0 [];
   EvTick 0; EvClock 20; ok 0 (* clock *); ok 0 (* staging *); ok 0 (* cas *);
   okk 0 "tile/data/000.p/1"; okk 0 "tile/names/000.p/1"; okk 0 "tile/0/000.p/1";
   ok 0 (* checkpoint *); ok 0 (* discard *);
   EvSubmit 0 (ent x32) false 0 [];
   EvTick 0; EvClock 30; ok 0; ok 0; ok 0;
   okk 0 "tile/data/000.p/2"; okk 0 "tile/names/000.p/2"; okk 0 "tile/0/000.p/2";
   EvStep 0 FFailNotApplied [] (* checkpoint upload fails: non-fatal *);
   EvSubmit 0 (ent x33) false 0 [];
   EvTick 0; EvClock 40; ok 0; ok 0; ok 0 (* cas done *);
   EvCrash 0;
   EvStart 1 cfg1 None; ok 1; ok 1; ok 1 (* legacy *); ok 1 (* staging *);
   okk 1 "tile/data/000.p/3"; okk 1 "tile/names/000.p/3"; okk 1 "tile/0/000.p/3";
   ok 1 (* edge *); ok 1 (* data *); ok 1 (* roots *);
   EvTick 1; EvClock 50; ok 1; ok 1; ok 1].

Definition world1 : world := run toy_sha history1 init.

(* The known finding under C06 (DESIGN.md 0.3), as an event list: instance 0 commits a
   checkpoint of size 1 to the lock store and is overtaken, before it uploads it, by instance 1,
   which recovers it from the staging bundle, commits and publishes size 2; the late upload of
   instance 0 then rolls the published checkpoint back. *)
Definition history_rollback : list ev :=
  [EvClock 10; EvCreate 0 cfg1; ok 0; ok 0; ok 0; ok 0; ok 0;
   EvStart 0 cfg1 None; ok 0; ok 0; ok 0;
   EvSubmit 0 (ent x31) false 0 [];
   EvTick 0; EvClock 20; ok 0 (* clock *); ok 0 (* staging *); ok 0 (* cas: size 1 committed *);
   (* instance 0 is now slow; instance 1 starts *)
   EvStart 1 cfg1 None; ok 1 (* lock *); ok 1 (* storage checkpoint: size 0 *); ok 1 (* legacy *); ok 1 (* staging *);
   okk 1 "tile/data/000.p/1"; okk 1 "tile/names/000.p/1"; okk 1 "tile/0/000.p/1";
   ok 1 (* edge *); ok 1 (* data *); ok 1 (* roots *);
   EvSubmit 1 (ent x32) false 0 [];
   EvTick 1; EvClock 30; ok 1; ok 1; ok 1 (* cas: size 2 *);
   okk 1 "tile/data/000.p/2"; okk 1 "tile/names/000.p/2"; okk 1 "tile/0/000.p/2";
   ok 1 (* checkpoint: size 2 published *); ok 1 (* discard *);
   (* instance 0 wakes up *)
   okk 0 "tile/data/000.p/1"; okk 0 "tile/names/000.p/1"; okk 0 "tile/0/000.p/1";
   ok 0 (* checkpoint: size 1 published over size 2 *)].

Definition world_rollback : world := run toy_sha history_rollback init.

(* cmd/recompute-cache: one entry is sequenced and published, the dedup cache is lost, the tool
   rebuilds it from the published tree. *)
Definition history_rc : list ev :=
  [EvClock 10; EvCreate 0 cfg1; ok 0; ok 0; ok 0; ok 0; ok 0;
   EvStart 0 cfg1 None; ok 0; ok 0; ok 0;
   EvSubmit 0 (ent x31) false 0 [];
   EvTick 0; EvClock 20; ok 0 (* clock *); ok 0 (* staging *); ok 0 (* cas *);
   okk 0 "tile/data/000.p/1"; okk 0 "tile/names/000.p/1"; okk 0 "tile/0/000.p/1";
   ok 0 (* checkpoint *); ok 0 (* discard *);
   EvCacheDrop 0 0].
Definition world_rc : world := run toy_sha history_rc init.

(* C17: the read-only date passes with one submitter pending: a log is created, started, one entry
   is pending, RunSequencer returns SunsetLogError. *)
Definition history_sunset : list ev :=
  [EvClock 10; EvCreate 0 cfg1; ok 0; ok 0; ok 0; ok 0; ok 0;
   EvStart 0 cfg1 None; ok 0; ok 0; ok 0;
   EvSubmit 0 (ent x31) false 0 []].
Definition world_sunset : world := run toy_sha history_sunset init.
