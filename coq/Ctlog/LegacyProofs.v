(* Ctlog/LegacyProofs.v — what can and what cannot be said about answers served from the legacy
   128-bit cache table. *)
From SL Require Import Base.BytesProofs Ctlog.Model Ctlog.Spec Ctlog.Inv2 Ctlog.Legacy.
Open Scope N_scope.

Section L.
Variable sha : bytes -> bytes.
Notation holds_at := (holds_at sha).
Notation ckey := (ckey sha).

(* without a legacy table (or with the fallback off) cacheGet is the plain lookup of the world model *)
Lemma cache_get2_plain c k :
  lc_flag c = false \/ lc_legacy c = None -> fst (cache_get2 c k) = cache_get (lc_256 c) k.
Proof.
  unfold cache_get2. intros [H|H]; destruct (cache_get (lc_256 c) k); try reflexivity;
    rewrite ?H; destruct (lc_flag c); try reflexivity; destruct (lc_legacy c); try reflexivity; discriminate.
Qed.

Lemma cache_get2_load_plain r k : fst (cache_get2 (lc_load r None) k) = cache_get r k.
Proof. apply cache_get2_plain. left. reflexivity. Qed.

(* a 256-bit row always wins *)
Lemma cache_get2_256_first c k v : cache_get (lc_256 c) k = Some v -> cache_get2 c k = (Some v, c).
Proof. unfold cache_get2. intros ->. reflexivity. Qed.

(* once the table is gone the first miss switches the fallback off, and nothing else changes *)
Lemma cache_get2_dropped c k :
  lc_legacy c = None -> fst (cache_get2 c k) = cache_get (lc_256 c) k /\
  lc_256 (snd (cache_get2 c k)) = lc_256 c /\ lc_legacy (snd (cache_get2 c k)) = None /\
  (cache_get (lc_256 c) k = None -> lc_flag (snd (cache_get2 c k)) = false).
Proof.
  intro H. unfold cache_get2. rewrite H.
  destruct (cache_get (lc_256 c) k) as [v|]; destruct (lc_flag c) eqn:F; cbn [fst snd lc_256 lc_legacy lc_flag];
    repeat split; auto; try discriminate.
Qed.

Lemma cache_get_in (c : rows) k v : cache_get c k = Some v -> In (k, v) c.
Proof.
  induction c as [|[k' v'] c IH]; cbn [cache_get]; [discriminate|].
  destruct (bytes_eqb k k') eqn:E.
  - intro H. inversion H; subst. apply bytes_eqb_eq in E. subst. left. reflexivity.
  - intro H. right. auto.
Qed.

(* legacy rows are sound up to truncation: each was the row of a committed entry *)
Definition legacy_ok (h : list (cp * list sleaf)) (l : rows) : Prop :=
  forall k16 idx ts, In (k16, (idx, ts)) l -> exists k, firstn 16 k = k16 /\ holds_at h k idx ts.

Lemma truncate_rows_ok h : forall r acc,
  cache_ok sha h r -> legacy_ok h acc -> legacy_ok h (truncate_rows r acc).
Proof.
  induction r as [|[k [idx ts]] r IH]; intros acc Hc Ha; cbn [truncate_rows]; [exact Ha|].
  apply IH.
  - intros k0 i0 t0 Hin. apply Hc. right. exact Hin.
  - destruct (cache_get acc (firstn 16 k)); [exact Ha|].
    intros k16 i0 t0 Hin. apply in_app_or in Hin. destruct Hin as [Hin|[Hin|[]]]; [eauto|].
    inversion Hin; subst. exists k. split; [reflexivity|]. apply Hc. left. reflexivity.
Qed.

Lemma truncated_rows_of_valid_cache h r : cache_ok sha h r -> legacy_ok h (truncate_rows r []).
Proof. intro H. apply truncate_rows_ok; [exact H|intros ? ? ? []]. Qed.

(* THE statement for legacy answers: the answer names an index that holds a committed entry whose
   256-bit dedup key agrees with the submitted entry's on the first 128 bits... *)
Theorem legacy_answer_truncated h c e idx ts :
  cache_ok sha h (lc_256 c) -> (forall l, lc_legacy c = Some l -> legacy_ok h l) ->
  fst (cache_get2 c (ckey e)) = Some (idx, ts) ->
  exists k, firstn 16 k = firstn 16 (ckey e) /\ holds_at h k idx ts.
Proof.
  intros Hc Hl. unfold cache_get2.
  destruct (cache_get (lc_256 c) (ckey e)) as [v|] eqn:E.
  - cbn [fst]. intro H. inversion H; subst. exists (ckey e). split; [reflexivity|].
    apply Hc. apply cache_get_in. exact E.
  - destruct (lc_flag c); [|discriminate].
    destruct (lc_legacy c) as [l|] eqn:El; [|discriminate].
    cbn [fst]. intro H. apply cache_get_in in H. exact (Hl l eq_refl _ _ _ H).
Qed.

(* ...hence it holds THAT entry whenever no committed entry collides with it on 128 bits *)
Theorem legacy_answer_sound h c e idx ts :
  cache_ok sha h (lc_256 c) -> (forall l, lc_legacy c = Some l -> legacy_ok h l) ->
  (forall k i t, holds_at h k i t -> firstn 16 k = firstn 16 (ckey e) -> k = ckey e) ->
  fst (cache_get2 c (ckey e)) = Some (idx, ts) -> holds_at h (ckey e) idx ts.
Proof.
  intros Hc Hl Hinj H. destruct (legacy_answer_truncated h c e idx ts Hc Hl H) as (k & Hk & Hh).
  rewrite <- (Hinj k idx ts Hh Hk). exact Hh.
Qed.

End L.

(* The collision-freedom premise is necessary: with a hash whose outputs share their first 16
   bytes for two different entries, the legacy table answers the second entry with the index of the
   first. (For SHA-256 such a pair is a 128-bit collision; the model cannot rule it out, and neither
   can the code: cache.go says so in its comment.) *)
Definition id_sha (b : bytes) : bytes := b.
Definition col_e1 : entry := mkEntry (repeat x41 11 ++ [x31]) false (zeros 32) [] [] [].
Definition col_e2 : entry := mkEntry (repeat x41 11 ++ [x32]) false (zeros 32) [] [] [].
Definition col_leaf : leaf := leaf_of id_sha col_e1 0 20.
Definition col_hist : list (cp * list sleaf) := [(cp0, [mkSleaf col_leaf []])].
Definition col_legacy : rows := truncate_rows [(ckey id_sha col_e1, (0, 20%Z))] [].
Definition col_cache : lcache := lc_load [] (Some col_legacy).

Theorem legacy_answer_refuted :
  cache_ok id_sha col_hist [(ckey id_sha col_e1, (0, 20%Z))] /\
  (forall l, lc_legacy col_cache = Some l -> legacy_ok id_sha col_hist l) /\
  fst (cache_get2 col_cache (ckey id_sha col_e2)) = Some (0, 20%Z) /\
  ~ holds_at id_sha col_hist (ckey id_sha col_e2) 0 20.
Proof.
  assert (C : cache_ok id_sha col_hist [(ckey id_sha col_e1, (0, 20%Z))]).
  { intros k idx ts [H|[]]. inversion H; subst.
    exists cp0, [mkSleaf col_leaf []], (mkSleaf col_leaf []).
    split; [left; reflexivity|]. split; [reflexivity|]. repeat split. }
  split; [exact C|]. split.
  - assert (L : legacy_ok id_sha col_hist col_legacy)
      by (unfold col_legacy; apply truncate_rows_ok; [exact C|intros ? ? ? []]).
    intros l Hl. assert (E : l = col_legacy)
      by (unfold col_cache, lc_load in Hl; cbn [lc_legacy] in Hl; congruence).
    rewrite E. exact L.
  - split; [vm_compute; reflexivity|].
    intros (c & ls & sl & Hin & Hn & Hk & _). destruct Hin as [Hin|[]]. inversion Hin; subst.
    cbn in Hn. inversion Hn; subst. vm_compute in Hk. discriminate.
Qed.
