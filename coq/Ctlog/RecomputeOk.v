(* Ctlog/RecomputeOk.v — on an untampered history a complete run of cmd/recompute-cache with the
   log's own key cannot fail: the published tree is complete and exact in storage (Inv3), every
   committed leaf carries its position (wfcp), and the fuel of the model's loop suffices. *)
From SL Require Import Base.BytesProofs Merkle.TilesProofs Ctlog.Model Ctlog.Recompute Ctlog.Spec Ctlog.Inv
  Ctlog.InvStep Ctlog.Inv2 Ctlog.Inv2Step Ctlog.Theorems2 Ctlog.Inv3 Ctlog.Inv3Step Ctlog.Theorems3.
From Coq Require Import ZifyN ZifyNat ZifyBool.
Ltac Zify.zify_post_hook ::= Z.div_mod_to_equations.
Open Scope N_scope.

Section R.
Variable sha : bytes -> bytes.
Notation complete_exact := (complete_exact sha).
Notation idx_ok := (idx_ok).

Lemma recompute_entries_idx_ok ls : idx_ok ls -> forall ents c pos,
  (forall j sl, nth_error ents j = Some sl -> nth_error ls (N.to_nat pos + j) = Some sl) ->
  exists c1, recompute_entries sha c ents pos = (c1, true).
Proof.
  intros Hi. induction ents as [|sl r IH]; intros c pos Hn; cbn [recompute_entries]; [eauto|].
  assert (E : (l_idx (sl_leaf sl) =? Z.of_N pos)%Z = true).
  { specialize (Hn O sl eq_refl). rewrite Nat.add_0_r in Hn. rewrite (Hi _ _ Hn). lia. }
  rewrite E. apply IH. intros j sl' Hj. specialize (Hn (S j) sl' Hj).
  replace (N.to_nat (pos + 1) + j)%nat with (N.to_nat pos + S j)%nat by lia. exact Hn.
Qed.

Lemma batch_tiles_ok s ls top : complete_exact s ls -> top <= len ls ->
  (top mod 256 = 0 \/ top = len ls) ->
  forall k ts, ts mod 256 = 0 -> forallb (rc_tile_ok s ls) (rc_batch_tiles k ts top) = true.
Proof.
  intros Hc Hle Hshape. induction k as [|k IH]; intros ts Hts; cbn [rc_batch_tiles forallb]; [reflexivity|].
  destruct (ts <? top) eqn:Elt; [|reflexivity]. cbn [forallb].
  rewrite IH by lia. rewrite Bool.andb_true_r.
  unfold rc_tile_ok. cbn [fst snd].
  assert (Hn : tneeded (len ls) (TD (ts / 256) (N.min 256 (top - ts)))).
  { cbn [tneeded]. split; [lia|]. destruct Hshape as [Hm|He]; lia. }
  specialize (Hc _ Hn). cbn [tpath tcanon] in Hc. rewrite Hc. apply bytes_eqb_refl.
Qed.

Lemma rc_loop_succeeds s ls top : complete_exact s ls -> idx_ok ls -> top <= len ls ->
  (top mod 256 = 0 \/ top = len ls) ->
  forall fuel start c, (start mod 256 = 0 \/ top <= start) ->
  (N.to_nat (if (top <=? start)%N then 0%N else ((top - start - 1) / 12800 + 1)%N) < fuel)%nat ->
  exists c1, rc_loop sha fuel s ls top start None c = (c1, "ok"%string).
Proof.
  intros Hc Hi Hle Hshape. induction fuel as [|f IH]; intros start c Hst Hf; [lia|].
  cbn [rc_loop]. destruct (top <=? start) eqn:Ets; [eauto|].
  assert (Hs : start mod 256 = 0) by (destruct Hst; [assumption|lia]).
  rewrite (batch_tiles_ok s ls top Hc Hle Hshape 50%nat start Hs).
  destruct (recompute_entries_idx_ok ls Hi (slice ls start (N.min top (start + 12800) - start)) c start) as [c2 E2].
  { intros j sl Hj. unfold slice in Hj. apply nth_error_firstn_some in Hj.
    rewrite nth_error_skipn_add in Hj. exact Hj. }
  rewrite E2. cbn [negb]. apply IH.
  - destruct (N.leb_spec top (start + 12800)); [right; lia|left; lia].
  - destruct (N.leb_spec top (start + 12800)).
    + replace (N.min top (start + 12800)) with top by lia. rewrite N.leb_refl. lia.
    + replace (N.min top (start + 12800)) with (start + 12800) by lia.
      destruct (top <=? start + 12800) eqn:E3; [lia|].
      assert ((top - (start + 12800) - 1) / 12800 + 1 = (top - start - 1) / 12800) by lia. lia.
Qed.

Lemma rc_top_shape n : rc_top n mod 256 = 0 \/ rc_top n = n.
Proof. unfold rc_top. destruct (n / 256 * 256 =? 0) eqn:E; [right; reflexivity|left; lia]. Qed.

(* the world-level statement *)
Theorem recompute_succeeds evs i x p :
  no_tamper evs -> N.of_nat (length evs) < n63 ->
  let w := run sha evs init in
  get_inst (w_insts w) i = Some x -> published w = Some p ->
  In (ObsNote "recompute-ok") (snd (step sha w (EvRecompute i (cp_key p) None))).
Proof.
  intros NT Hn w G Hpub.
  pose proof (Inv_reachable sha evs) as HI. fold w in HI. pose proof HI as (C & _).
  pose proof (Inv3_reachable sha evs NT Hn) as (_ & _ & _ & PO & _). fold w in PO.
  assert (Hlk : lookup (w_store w) k_checkpoint = Some (OC p)).
  { unfold published in Hpub. destruct (lookup (w_store w) k_checkpoint) as [[b|c0|u]|]; try discriminate.
    inversion Hpub; subst. reflexivity. }
  destruct (PO p Hlk) as (ls & Hin & Hce).
  destruct (hist_leaves_some _ _ _ Hin) as [ls' Hh].
  assert (ls' = ls) by (eapply chain_unique; [exact C|apply hist_leaves_in; exact Hh|exact Hin]). subst ls'.
  destruct (chain_wf sha _ _ _ C Hin) as (Hsz & _ & Hidx).
  unfold Model.step. rewrite G. unfold step_recompute. rewrite Hpub, N.eqb_refl. cbn [negb]. rewrite Hh.
  destruct (rc_loop_succeeds (w_store w) ls (rc_top (cp_size p)) Hce Hidx) with
    (fuel := (N.to_nat (rc_top (cp_size p) / 12800) + 2)%nat) (start := 0) (c := i_cache x) as [c1 E].
  - pose proof (rc_top_le (cp_size p)). unfold len. lia.
  - destruct (rc_top_shape (cp_size p)) as [H|H]; [left; exact H|right; unfold len; lia].
  - left. reflexivity.
  - destruct (rc_top (cp_size p) <=? 0) eqn:E0; [lia|]. rewrite N.sub_0_r. lia.
  - rewrite E. cbn [snd]. left. reflexivity.
Qed.

End R.
