(* Ctlog/Run.v — rendering of the sequencer model's observations, exactly as harness/seq prints
   the implementation's. Glue for the correspondence check; no property depends on it. *)
From SL Require Export Ctlog.Model.
Open Scope N_scope.

Section R.
Variable sha : bytes -> bytes.

Definition sp : byte := x20.
Definition words (l : list bytes) : bytes := join_with sp l.
Definition show_nat (n : nat) : bytes := dec (N.of_nat n).
Definition show_fault (f : fault) : bytes :=
  match f with FOk => s2b "ok" | FFailNotApplied => s2b "fail" | FFailApplied => s2b "failapplied" end.
Definition show_opt (o : uopt) : bytes :=
  match o with UHash => s2b "H" | UData => s2b "D" | UNames => s2b "N" | UStaging => s2b "S"
             | UIssuer => s2b "I" | UCheckpoint => s2b "C" | URoots => s2b "R" end.
Definition show_kind (k : opkind) : bytes :=
  match k with KUpload => s2b "upload" | KFetch => s2b "fetch" | KDiscard => s2b "discard"
             | KLockFetch => s2b "lockfetch" | KLockReplace => s2b "lockreplace" | KLockCreate => s2b "lockcreate" end.
Definition show_errc (e : errc) : bytes :=
  match e with EClosed => s2b "closed" | ERateLimit => s2b "ratelimit" | EEvicted => s2b "evicted"
             | EIssuer => s2b "issuer" | ENonFatal => s2b "nonfatal" | EFatal => s2b "fatal" | ECanceled => s2b "canceled" | ESunset => s2b "sunset" end.
Definition show_cp (c : cp) : bytes :=
  s2b "cp:" ++ hx (cp_origin c) ++ x3a :: dec (cp_size c) ++ x3a :: hx (cp_root c) ++ x3a :: decZ (cp_ts c)
  ++ x3a :: dec (cp_key c) ++ x3a :: hx (cp_ext c).
Definition ups_digest (ups : list upload) : bytes :=
  sha (concat (map (fun u => u_key u ++ x00 :: show_opt (u_opt u) ++ x00 :: sha (u_data u)) ups)).
Definition show_payload (o : option obj) : bytes :=
  match o with
  | None => [x2d]
  | Some (OB b) => hex (sha b)
  | Some (OC c) => show_cp c
  | Some (OS u) => s2b "S:" ++ dec (N.of_nat (length u)) ++ x3a :: hex (ups_digest u)
  end.
Definition show_key (k : bytes) : bytes := match k with [] => [x2d] | _ => k end.
Definition show_bool (b : bool) : bytes := if b then s2b "true" else s2b "false".

(* cache rows in leaf-index order (the harness reads them ORDER BY leaf_index), one line each *)
Fixpoint insert_row (r : bytes * (N * Z)) (l : list (bytes * (N * Z))) : list (bytes * (N * Z)) :=
  match l with
  | [] => [r]
  | h :: t => if fst (snd r) <=? fst (snd h) then r :: l else h :: insert_row r t
  end.
Definition sort_rows (l : list (bytes * (N * Z))) : list (bytes * (N * Z)) := fold_right insert_row [] l.
Definition show_rows (l : list (bytes * (N * Z))) : bytes :=
  concat (map (fun r => hx (fst r) ++ x3a :: dec (fst (snd r)) ++ x3a :: decZ (snd (snd r)) ++ [x0a]) l).

Definition show_obs (o : obs) : bytes :=
  match o with
  | ObsOp i k key opt pl f ok =>
    words [s2b "op"; show_nat i; show_kind k; show_key key; match opt with Some x => show_opt x | None => [x2d] end;
           show_payload pl; show_fault f; show_bool ok]
  | ObsCreate i r why => words [s2b "create"; show_nat i; match r with None => s2b "ok" | Some _ => s2b "err" end; s2b why]
  | ObsLoad i ok why => words [s2b "load"; show_nat i; if ok then s2b "ok" else s2b "fail"; s2b why]
  | ObsRound i r size root ts =>
    words [s2b "round"; show_nat i; match r with None => s2b "ok" | Some e => show_errc e end; dec size; hx root; decZ ts]
  | ObsSubmit i wid src =>
    (* a duplicate resolved against a pool shares the original's waiter: the harness cannot name it *)
    words [s2b "submit"; show_nat i; (if String.eqb src "pool" then [x2d] else dec wid); s2b src]
  | ObsAck wid (Some (idx, ts)) _ => words [s2b "ack"; dec wid; dec idx; decZ ts]
  | ObsAck wid None (Some e) => words [s2b "ack"; dec wid; s2b "err:" ++ show_errc e]
  | ObsAck wid None None => words [s2b "ack"; dec wid; s2b "err:?"]
  | ObsNote s => words [s2b "note"; s2b s]
  | ObsCache i rows =>
    words [s2b "cache"; show_nat i; dec (N.of_nat (length rows)); hex (sha (show_rows (sort_rows rows)))]
  end.

(* one event, rendered *)
Definition step_show (w : world) (e : ev) : world * list bytes :=
  let '(w1, o) := step sha w e in (w1, map show_obs o).

(* summary of the world after an event list (used as a final cross-check) *)
Definition show_world (w : world) : list bytes :=
  [words [s2b "lock"; match w_lock w with Some c => show_cp c | None => [x2d] end];
   words [s2b "pub"; match published w with Some c => show_cp c | None => [x2d] end];
   words [s2b "objects"; dec (N.of_nat (length (w_store w)))];
   words [s2b "lockhist"; dec (N.of_nat (length (w_lockhist w)))];
   words [s2b "pubhist"; dec (N.of_nat (length (w_pubhist w)))]].

Definition store_keys (w : world) : list bytes := map fst (w_store w).
Definition store_digest (w : world) (k : bytes) : bytes := show_payload (lookup (w_store w) k).

End R.
