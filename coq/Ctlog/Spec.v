(* Ctlog/Spec.v — what the sequencer properties say, as predicates over the model's world. *)
From SL Require Export Ctlog.Model.
From Coq Require Import Lia ZifyN ZifyNat.
Open Scope N_scope.

Section S.
Variable sha : bytes -> bytes.
Notation mroot := (mroot sha).
Notation leaf_hashes := (leaf_hashes sha).

Definition prefix {A} (a b : list A) : Prop := exists t, b = a ++ t.

(* every leaf carries its own position as leaf index *)
Definition idx_ok (ls : list sleaf) : Prop :=
  forall j sl, nth_error ls j = Some sl -> l_idx (sl_leaf sl) = Z.of_nat j.

(* a checkpoint value commits to a leaf sequence *)
Definition wfcp (c : cp) (ls : list sleaf) : Prop :=
  cp_size c = N.of_nat (length ls) /\ cp_root c = mroot (leaf_hashes ls) /\ idx_ok ls.

Lemma idx_ok_nil : idx_ok [].
Proof. intros [|j] sl H; discriminate. Qed.

Lemma new_sleaves_idx (p : pool) ts : forall first j sl,
  nth_error (new_sleaves sha p first ts) j = Some sl -> l_idx (sl_leaf sl) = Z.of_N (first + N.of_nat j).
Proof.
  unfold new_sleaves. generalize (pl_leaves p). intro l.
  induction l as [|x r IH]; intros first [|j] sl H; cbn in H; try discriminate.
  - inversion H; subst. cbn. f_equal. lia.
  - rewrite (IH _ _ _ H). f_equal. lia.
Qed.

Lemma idx_ok_app_new ls p ts :
  idx_ok ls -> idx_ok (ls ++ new_sleaves sha p (N.of_nat (length ls)) ts).
Proof.
  intros H j sl Hn. destruct (Nat.lt_ge_cases j (length ls)) as [L|L].
  - rewrite nth_error_app1 in Hn by exact L. auto.
  - rewrite nth_error_app2 in Hn by exact L. rewrite (new_sleaves_idx _ _ _ _ _ Hn). lia.
Qed.

(* adjacent-pairs form of "append-only history" *)
Fixpoint chain (h : list (cp * list sleaf)) : Prop :=
  match h with
  | [] => True
  | (c, ls) :: r =>
    wfcp c ls /\
    match r with
    | [] => True
    | (c', ls') :: _ => prefix ls ls' /\ (cp_ts c < cp_ts c')%Z
    end /\ chain r
  end.

(* the property text: every later checkpoint extends every earlier one *)
Definition append_only (h : list (cp * list sleaf)) : Prop :=
  forall i j c ls c' ls', (i < j)%nat ->
    nth_error h i = Some (c, ls) -> nth_error h j = Some (c', ls') ->
    cp_size c <= cp_size c' /\
    cp_root c = mroot (leaf_hashes (firstn (N.to_nat (cp_size c)) ls')) /\
    (cp_ts c < cp_ts c')%Z.

Definition committed (w : world) (c : cp) : Prop := exists ls, In (c, ls) (w_lockhist w).

End S.
