(* Ctlog/Spec.v — what the sequencer properties say, as predicates over the model's world. *)
From SL Require Export Ctlog.Model.
Open Scope N_scope.

Section S.
Variable sha : bytes -> bytes.
Notation mroot := (mroot sha).
Notation leaf_hashes := (leaf_hashes sha).

Definition prefix {A} (a b : list A) : Prop := exists t, b = a ++ t.

(* a checkpoint value commits to a leaf sequence *)
Definition wfcp (c : cp) (ls : list sleaf) : Prop :=
  cp_size c = N.of_nat (length ls) /\ cp_root c = mroot (leaf_hashes ls).

(* adjacent-pairs form of "append-only history" *)
Fixpoint chain (h : list (cp * list sleaf)) : Prop :=
  match h with
  | [] => True
  | (c, ls) :: r =>
    wfcp c ls /\
    match r with
    | [] => True
    | (c', ls') :: _ => prefix ls ls' /\ (cp_ts c < cp_ts c')%Z
    end /\ chain r
  end.

(* the property text: every later checkpoint extends every earlier one *)
Definition append_only (h : list (cp * list sleaf)) : Prop :=
  forall i j c ls c' ls', (i < j)%nat ->
    nth_error h i = Some (c, ls) -> nth_error h j = Some (c', ls') ->
    cp_size c <= cp_size c' /\
    cp_root c = mroot (leaf_hashes (firstn (N.to_nat (cp_size c)) ls')) /\
    (cp_ts c < cp_ts c')%Z.

Definition committed (w : world) (c : cp) : Prop := exists ls, In (c, ls) (w_lockhist w).

End S.
