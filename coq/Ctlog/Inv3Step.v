(* Ctlog/Inv3Step.v — every event except tampering preserves Inv3 (given the first invariant and the
   size bound [Small]); no assumption on the hash function is needed: a staging bundle that was
   written for another tree with the same (size, root) key can only be met after the committed
   tree has been completed, and then the immutability of tiles makes its application harmless *)
From SL Require Import Base.BytesProofs Merkle.TilesProofs Ctlog.Model Ctlog.Recompute Ctlog.Spec Ctlog.Inv Ctlog.InvStep
  Ctlog.Theorems2 Ctlog.Inv3.
From Coq Require Import ZifyN ZifyNat ZifyBool.
Open Scope N_scope.

Section I.
Variable sha : bytes -> bytes.
Notation mroot := (mroot sha).
Notation leaf_hashes := (leaf_hashes sha).
Notation wfcp := (wfcp sha).
Notation chain := (chain sha).
Notation step := (step sha).
Notation run := (run sha).
Notation end_round := (end_round sha).
Notation step_create := (step_create sha).
Notation step_load := (step_load sha).
Notation step_round := (step_round sha).
Notation step_clock := (step_clock sha).
Notation step_submit := (step_submit sha).
Notation Inv := (Inv sha).
Notation Inv3 := (Inv3 sha).
Notation inst3 := (inst3 sha).
Notation complete_exact := (complete_exact sha).
Notation bundle_for := (bundle_for sha).
Notation applying := (applying sha).
Notation covered := (covered sha).
Notation recoverable := (recoverable sha).
Notation good_for := (good_for sha).
Notation fresh := (fresh sha).
Notation sstep := (sstep sha).
Notation round_uploads := (round_uploads sha).
Notation n63 := 9223372036854775808%N.

Ltac fields := cbn [w_lockhist w_lock w_pubhist w_insts w_store w_acks set_i add_acks set_store fst snd] in *.

(* ---------- frames ---------- *)
Lemma fail_pool_frame3 w i p e w1 o :
  fail_pool w i p e = (w1, o) ->
  w_store w1 = w_store w /\ w_lockhist w1 = w_lockhist w /\ w_insts w1 = w_insts w.
Proof. unfold fail_pool. intro E. inversion E; subst. cbn. auto. Qed.

Lemma end_round_frame3 w i x res w1 o :
  end_round w i x res = (w1, o) ->
  w_store w1 = w_store w /\ w_lockhist w1 = w_lockhist w /\
  exists x1, w_insts w1 = set_inst (w_insts w) i x1 /\ i_leaves x1 = i_leaves x /\
    (i_pc x1 = PStopped \/ (i_pc x1 = PIdle /\ res <> Some EFatal)).
Proof.
  unfold Model.end_round. destruct res as [e|].
  - destruct e;
      repeat match goal with
             | |- context [fail_pool ?a ?b ?c ?d] =>
               let E := fresh "E" in destruct (fail_pool a b c d) as [? ?] eqn:E;
               apply fail_pool_frame3 in E; destruct E as (? & ? & ?)
             end;
      intro E0; inversion E0; subst; clear E0;
      cbn [w_lockhist w_store w_insts set_i add_acks] in *;
      (split; [congruence|]); (split; [congruence|]);
      eexists; (split; [etransitivity; [eassumption|]; try (etransitivity; [eassumption|]); reflexivity|]);
      cbn [i_leaves i_pc]; (split; [reflexivity|]); try (left; reflexivity); right; (split; [reflexivity|discriminate]).
  - intro E0; inversion E0; subst; clear E0. cbn [w_lockhist w_store w_insts set_i add_acks].
    repeat split; try reflexivity. eexists. split; [reflexivity|]. cbn [i_leaves i_pc].
    split; [reflexivity|]. right. split; [reflexivity|discriminate].
Qed.

Lemma upload_sstep w i k o opt f w1 ok ob h' :
  world_upload w i k o opt f = (w1, ok, ob) -> kclass k <> 115 ->
  (kclass k = 116 -> immutable opt = true /\ exists b, o = OB b) ->
  (sext (w_store w) (w_store w1) -> fresh (w_store w1) h' k o) ->
  sstep (w_store w) (w_store w1) h'.
Proof. intros E N K F. apply upload_store in E. eapply sstep_upload; eauto. Qed.

Lemma fetch_some w i k f ob o : fetch w i k f = (Some ob, o) -> lookup (w_store w) k = Some ob.
Proof. unfold fetch. destruct (succeeded f); intro E; inversion E; auto. Qed.

Lemma open_checkpoint_OC c now ob p : open_checkpoint c now ob = inl (Some p) -> ob = OC p.
Proof.
  unfold open_checkpoint. destruct ob as [b|y|u]; try discriminate.
  repeat match goal with |- context [if ?b then _ else _] => destruct b end; intro E; inversion E; reflexivity.
Qed.

Lemma small_hist_app h e : small_hist h -> small_hist e -> small_hist (h ++ e).
Proof. intros A B c ls H. apply in_app_or in H. destruct H; eauto. Qed.

(* ---------- generic updates ---------- *)
(* lock history unchanged *)
Lemma Inv3_up w w' i x' :
  Inv w -> Small w -> Inv3 w -> w_lockhist w' = w_lockhist w ->
  w_insts w' = set_inst (w_insts w) i x' ->
  sstep (w_store w) (w_store w') (w_lockhist w) ->
  inst3 (w_store w') (w_lockhist w) x' -> Inv3 w'.
Proof.
  intros (C & _) Sm HI3 Eh Ei S Hx. pose proof Sm as [Sm1 _].
  eapply Inv3_upd with (i := i) (x' := x') (e := []); try eassumption; rewrite ?Eh; try assumption.
  - now rewrite app_nil_r.
  - intros c ls [].
Qed.

(* nothing but the instance changes *)
Lemma Inv3_same w w' i x' :
  Inv w -> Small w -> Inv3 w -> w_lockhist w' = w_lockhist w -> w_store w' = w_store w ->
  w_insts w' = set_inst (w_insts w) i x' ->
  inst3 (w_store w) (w_lockhist w) x' -> Inv3 w'.
Proof.
  intros HI Sm HI3 Eh Es Ei Hx. eapply Inv3_up; try eassumption; rewrite Es; [apply sstep_refl|assumption].
Qed.

Ltac same3 i X :=
  cbn [fst]; eapply Inv3_same with (i := i) (x' := X);
  [eassumption | eassumption | eassumption | cbn [w_lockhist set_i]; congruence | cbn [w_store set_i]; congruence
  | cbn [w_insts set_i]; congruence | try exact I ].

Lemma end_round_inv3 w0 w i x res e :
  Inv3 w0 -> Small w0 -> chain (w_lockhist w) -> small_hist (w_lockhist w) ->
  w_lockhist w = w_lockhist w0 ++ e -> w_insts w = w_insts w0 ->
  sstep (w_store w0) (w_store w) (w_lockhist w) ->
  (forall c ls, In (c, ls) e -> recoverable (w_store w) c ls) ->
  (res <> Some EFatal -> complete_exact (w_store w) (i_leaves x)) ->
  Inv3 (fst (end_round w i x res)).
Proof.
  intros HI3 Sm C Sm' Eh Ei S He Hc.
  destruct (end_round w i x res) as [w1 o] eqn:E. cbn [fst].
  apply end_round_frame3 in E. destruct E as (A1 & A2 & x1 & A3 & A4 & A5).
  eapply Inv3_upd with (i := i) (x' := x1) (e := e); try eassumption; rewrite ?A1, ?A2; try assumption.
  - rewrite A3, Ei. reflexivity.
  - unfold Inv3.inst3. destruct A5 as [->|[-> N]]; [exact I|]. rewrite A4. auto.
Qed.

(* the common case: lock history unchanged *)
Lemma end_round_inv3' w0 w i x res :
  Inv w0 -> Inv3 w0 -> Small w0 -> w_lockhist w = w_lockhist w0 -> w_insts w = w_insts w0 ->
  sstep (w_store w0) (w_store w) (w_lockhist w0) ->
  (res <> Some EFatal -> complete_exact (w_store w) (i_leaves x)) ->
  Inv3 (fst (end_round w i x res)).
Proof.
  intros (C & _) HI3 Sm Eh Ei S Hc. pose proof Sm as [Sm1 _].
  eapply end_round_inv3 with (e := []); try eassumption; rewrite ?Eh, ?app_nil_r; try assumption; try reflexivity.
  intros c ls [].
Qed.

Lemma after_apply_inv3 w0 w i x ls :
  Inv w0 -> Small w0 -> Inv3 w0 -> w_lockhist w = w_lockhist w0 -> w_insts w = w_insts w0 ->
  sstep (w_store w0) (w_store w) (w_lockhist w0) ->
  In (i_lockcp x, ls) (w_lockhist w0) -> complete_exact (w_store w) ls ->
  Inv3 (fst (after_apply w i x)).
Proof.
  intros HI Sm HI3 Eh Ei S Hin Hc. unfold after_apply.
  destruct (cp_size (i_lockcp x) =? 0); cbn [fst].
  - eapply Inv3_up with (i := i) (x' := upd_pc x (PLoad LRoots)); try eassumption; fields; try congruence.
    all: try (unfold Inv3.inst3; cbn [i_pc upd_pc i_lockcp]; eauto).
  - eapply Inv3_up with (i := i) (x' := upd_pc x (PLoad (LEdge (rev (edge_tiles (cp_size (i_lockcp x)))))));
      try eassumption; fields; try congruence.
    all: try (unfold Inv3.inst3; cbn [i_pc upd_pc i_lockcp]; eauto).
Qed.

(* what an upload taken from a bundle that is being applied writes *)
Lemma applying_fresh s s' h' ls todo failed u c :
  applying s ls todo failed -> In u todo -> In (c, ls) h' -> len ls < n63 ->
  fresh s' h' (u_key u) (opt_obj u) /\ immutable (u_opt u) = true /\ exists b, opt_obj u = OB b.
Proof.
  intros (ups0 & B & Sub & _) Hu Hin Hs.
  destruct (Sub u Hu) as (Im & u0 & H0 & K1 & K2).
  destruct (bundle_in _ _ _ _ _ B H0) as (a & pre & P & Hn & ->).
  cbn [u_key u_data TilesProofs.tup] in K1, K2. unfold opt_obj. rewrite <- K1, <- K2.
  split; [|split; [assumption|eexists; reflexivity]].
  left. exists a, c, ls. split; [eapply tnew_valid; eauto|]. split; [assumption|].
  split; [eapply tnew_within; eauto|]. split; reflexivity.
Qed.

(* ---------- a round ---------- *)
Lemma step_clock_inv3 w i x :
  Inv w -> Small w -> Inv3 w -> get_inst (w_insts w) i = Some x -> i_pc x = PRound RClock ->
  Inv3 (fst (step_clock w i x)).
Proof.
  intros HI Sm HI3 G Hpc. pose proof (inst_of_inv _ _ _ _ HI G) as Hx.
  pose proof HI3 as (T1 & T2 & TH & T3 & T4). pose proof (T4 _ _ G) as Hx3.
  unfold Inv.inst_inv in Hx. unfold Inv3.inst3 in Hx3. rewrite Hpc in Hx, Hx3.
  unfold Model.step_clock.
  destruct (w_now w <=? cp_ts (i_tree x))%Z eqn:Ets.
  - destruct (fail_pool _ _ _ _) as [w1 o1] eqn:E1.
    destruct (fail_pool w1 _ _ _) as [w2 o2] eqn:E2.
    apply fail_pool_frame3 in E1. destruct E1 as (A1 & A2 & A3).
    apply fail_pool_frame3 in E2. destruct E2 as (B1 & B2 & B3). fields.
    eapply Inv3_same with (i := i); try eassumption; fields; try congruence.
    + rewrite B3, A3. reflexivity.
    + exact I.
  - cbn [fst].
    set (nl := new_sleaves sha (i_inseq x) (cp_size (i_tree x)) (w_now w)).
    match goal with |- Inv3 (set_i w i ?X) => eapply Inv3_same with (i := i) (x' := X) end;
      try eassumption; fields; try reflexivity.
    destruct (loaded_wf _ _ _ HI Hx) as [Sz _].
    assert (R : complete_exact (w_store w) (i_leaves x) /\
                round_uploads (i_leaves x ++ nl) (cp_size (i_tree x)) (cp_size (i_tree x) + N.of_nat (length nl))
                = round_uploads (i_leaves x ++ nl) (len (i_leaves x)) (len (i_leaves x ++ nl))).
    { split; [assumption|]. unfold len. rewrite app_length, Sz. f_equal. lia. }
    unfold Inv3.inst3.
    destruct (round_uploads (i_leaves x ++ nl) (cp_size (i_tree x)) (cp_size (i_tree x) + N.of_nat (length nl))) eqn:Er;
      cbn [i_pc i_rctx i_leaves r_all r_ups r_new cp_size].
    + destruct R as [R1 R2]. split; [assumption|]. split; [assumption|].
      split; [unfold len; rewrite app_length, Sz; lia|]. left. reflexivity.
    + exact R.
Qed.

Lemma step_round_inv3 w i x ph f choice :
  Inv w -> Small w -> Inv3 w -> get_inst (w_insts w) i = Some x -> i_pc x = PRound ph ->
  Inv3 (fst (step_round w i x ph f choice)).
Proof.
  intros HI Sm HI3 G Hpc. pose proof Sm as [Sm1 Sm2]. pose proof (inst_of_inv _ _ _ _ HI G) as Hx.
  pose proof HI3 as (T1 & T2 & TH & T3 & T4). pose proof (T4 _ _ G) as Hx3.
  pose proof HI as (C & LL & _).
  unfold Inv.inst_inv in Hx. unfold Inv3.inst3 in Hx3. rewrite Hpc in Hx, Hx3.
  destruct ph.
  - apply step_clock_inv3; assumption.
  - (* staging upload *)
    destruct Hx as [L (Pre & W & Ts)]. destruct Hx3 as [Cm Eu].
    destruct (wf_len _ _ _ W) as [Wsz Wrt].
    assert (B : bundle_for (w_store w) (r_all (i_rctx x)) (r_ups (i_rctx x))).
    { exists (i_leaves x). auto. }
    assert (Hs : cp_size (r_new (i_rctx x)) < n63) by (rewrite Wsz; eapply Sm2; eauto).
    unfold Model.step_round.
    destruct (world_upload _ _ _ _ _ _) as [[w1 ok] o] eqn:E.
    pose proof (upload_frame _ _ _ _ _ _ _ _ _ E) as (A1 & A2 & A3 & A4).
    pose proof (upload_store _ _ _ _ _ _ _ _ _ E) as D. cbn [immutable] in D.
    assert (S : sstep (w_store w) (w_store w1) (w_lockhist w)).
    { rewrite Wsz, Wrt in D. eapply sstep_staging; [exact D| |exact B]. rewrite <- Wsz. exact Hs. }
    pose proof S as [Ex _].
    destruct ok.
    + cbn [fst]. eapply Inv3_up with (i := i) (x' := upd_pc x (PRound RCas)); try eassumption; fields; try congruence.
      unfold Inv3.inst3. cbn [i_pc upd_pc i_leaves i_rctx].
      split; [eapply complete_mono; eauto|]. split; [assumption|]. split; [assumption|].
      right. left. exists (r_ups (i_rctx x)). split; [|apply kd_equiv_refl].
      unfold spath_of. eapply do_upload_ok. exact D.
    + destruct (end_round w1 i x (Some ENonFatal)) as [w2 o2] eqn:E2. cbn [fst].
      replace w2 with (fst (end_round w1 i x (Some ENonFatal))) by (rewrite E2; reflexivity).
      eapply end_round_inv3'; try eassumption. intros _. eapply complete_mono; eauto.
  - (* compare-and-swap *)
    destruct Hx as [L (Pre & W & Ts)]. destruct Hx3 as (Cm & Eu & Sz & D).
    assert (B : bundle_for (w_store w) (r_all (i_rctx x)) (r_ups (i_rctx x))).
    { exists (i_leaves x). auto. }
    assert (Hs : len (r_all (i_rctx x)) < n63) by (eapply Sm2; eauto).
    unfold Model.step_round.
    set (can := match w_lock w with Some c => cp_eqb c (i_lockcp x) | None => false end).
    set (r := i_rctx x) in *. set (ncp := r_new r) in *.
    destruct can eqn:Ecan; cbn [andb].
    + unfold can in Ecan. destruct (w_lock w) as [c|] eqn:El; [|discriminate].
      apply cp_eqb_eq in Ecan. subst c. cbn [lock_last] in LL. destruct LL as (h' & ls & Eh).
      destruct L as [Lin Etree].
      assert (ls = i_leaves x) by (eapply last_unique; eauto). subst ls.
      assert (C' : chain (w_lockhist w ++ [(ncp, r_all r)])).
      { rewrite Eh. apply chain_snoc; try assumption; [rewrite <- Eh; assumption|].
        rewrite <- Etree. assumption. }
      assert (Sm' : small_hist (w_lockhist w ++ [(ncp, r_all r)])).
      { apply small_hist_app; [assumption|]. intros c0 l0 [X|[]]. inversion X; subst. assumption. }
      (* the tree that is being committed can be completed *)
      assert (Rec : forall c0 l0, In (c0, l0) [(ncp, r_all r)] -> recoverable (w_store w) c0 l0).
      { intros c0 l0 [X|[]]. inversion X; subst c0 l0. clear X.
        pose proof (prefix_len _ _ Pre) as Hle.
        destruct D as [D|[(ups & Lk & K)|(c1 & l1 & Hin1 & Hl1)]].
        - left. rewrite Eu in D. apply round_uploads_nil in D; [|assumption].
          rewrite <- (prefix_same_length _ _ Pre); [assumption|unfold len in D; lia].
        - right. exists ups. split; [assumption|]. exists (r_ups r). auto.
        - left. pose proof (chain_in_prefix sha _ _ _ C Hin1) as P1. rewrite Eh, Gof_snoc in P1.
          apply prefix_len in P1.
          rewrite <- (prefix_same_length _ _ Pre); [assumption|unfold len in *; lia]. }
      destruct (applied f) eqn:Eap.
      * destruct (succeeded f) eqn:Esu.
        -- cbn [fst].
           match goal with |- Inv3 (set_i _ i ?X) =>
             eapply Inv3_upd with (i := i) (x' := X) (e := [(ncp, r_all r)]) end;
             try eassumption; fields; try reflexivity; try apply sstep_refl.
           unfold Inv3.inst3.
           destruct (r_ups r) eqn:Er; cbn [i_pc i_leaves i_rctx]; rewrite ?Er.
           ++ apply applying_done. apply applying_own. exact B.
           ++ apply applying_own. exact B.
        -- match goal with |- context [end_round ?a i x (Some EFatal)] => set (w1 := a) end.
           destruct (end_round w1 i x (Some EFatal)) as [w2 o2] eqn:E2. cbn [fst].
           replace w2 with (fst (end_round w1 i x (Some EFatal))) by (rewrite E2; reflexivity).
           eapply end_round_inv3 with (e := [(ncp, r_all r)]); try eassumption; subst w1; fields;
             try reflexivity; try apply sstep_refl; try assumption.
           all: try (intro X; contradiction).
      * assert (Esu : succeeded f = false) by (destruct f; cbn in *; congruence). rewrite Esu.
        destruct (end_round w i x (Some EFatal)) as [w2 o2] eqn:E2. cbn [fst].
        replace w2 with (fst (end_round w i x (Some EFatal))) by (rewrite E2; reflexivity).
        eapply end_round_inv3'; try eassumption; try reflexivity; try apply sstep_refl.
        all: try (intro X; contradiction).
    + destruct (end_round w i x (Some EFatal)) as [w2 o2] eqn:E2. cbn [fst].
      replace w2 with (fst (end_round w i x (Some EFatal))) by (rewrite E2; reflexivity).
      eapply end_round_inv3'; try eassumption; try reflexivity; try apply sstep_refl.
      all: try (intro X; contradiction).
  - (* tile uploads *)
    destruct Hx as [[Lin Etree] R].
    unfold Model.step_round.
    destruct (take_upload todo choice) as [[u rest]|] eqn:Et; [|exact HI3].
    destruct (take_upload_spec _ _ _ _ Et) as (Hu & _).
    destruct (world_upload _ _ _ _ _ _) as [[w1 ok] o] eqn:E.
    pose proof (upload_frame _ _ _ _ _ _ _ _ _ E) as (A1 & A2 & A3 & A4).
    destruct (applying_fresh (w_store w) (w_store w1) (w_lockhist w) _ _ _ u _ Hx3 Hu Lin (Sm1 _ _ Lin))
      as (Fr & Im & Ob).
    assert (S : sstep (w_store w) (w_store w1) (w_lockhist w)).
    { eapply upload_sstep; [exact E| | |]; [|intros _; split; assumption|intros _; exact Fr].
      pose proof Hx3 as (ups0 & B0 & Sub & _). destruct (Sub u Hu) as (_ & u0 & H0 & K1 & _).
      destruct (bundle_in _ _ _ _ _ B0 H0) as (a & pre & _ & _ & ->). cbn [u_key TilesProofs.tup] in K1.
      rewrite <- K1, kclass_tpath. discriminate. }
    pose proof S as [Ex _].
    pose proof (applying_step _ _ _ _ _ _ _ _ _ _ _ _ Hx3 Et (upload_store _ _ _ _ _ _ _ _ _ E) Ex) as A'.
    destruct rest as [|u' rest'].
    + destruct (failed || negb ok) eqn:Ef.
      * destruct (end_round w1 i x (Some EFatal)) as [w2 o2] eqn:E2. cbn [fst].
        replace w2 with (fst (end_round w1 i x (Some EFatal))) by (rewrite E2; reflexivity).
        eapply end_round_inv3'; try eassumption.
        all: try (intro X; contradiction).
      * cbn [fst]. eapply Inv3_up with (i := i) (x' := upd_pc x (PRound RCheckpoint)); try eassumption; fields; try congruence.
        all: try (unfold Inv3.inst3; cbn [i_pc upd_pc i_leaves]; eapply applying_done; eauto).
    + cbn [fst]. eapply Inv3_up with (i := i) (x' := upd_pc x (PRound (RTiles (u' :: rest') (failed || negb ok))));
        try eassumption; fields; try congruence.
      all: try (unfold Inv3.inst3; cbn [i_pc upd_pc i_leaves i_rctx]; exact A').
  - (* checkpoint upload *)
    destruct Hx as [[Lin Etree] R].
    unfold Model.step_round.
    destruct (world_upload _ _ _ _ _ _) as [[w1 ok] o] eqn:E.
    pose proof (upload_frame _ _ _ _ _ _ _ _ _ E) as (A1 & A2 & A3 & A4).
    assert (S : sstep (w_store w) (w_store w1) (w_lockhist w)).
    { eapply upload_sstep; [exact E| | |].
      - rewrite kclass_checkpoint. discriminate.
      - intro K. rewrite kclass_checkpoint in K. discriminate.
      - intro Ex. right. right. left. split; [reflexivity|].
        exists (r_new (i_rctx x)), (i_leaves x). split; [reflexivity|]. split; [rewrite R, Etree; assumption|].
        eapply complete_mono; eauto. }
    pose proof S as [Ex _].
    assert (Cm1 : complete_exact (w_store w1) (i_leaves x)) by (eapply complete_mono; eauto).
    destruct ok.
    + destruct (r_ups (i_rctx x)).
      * destruct (end_round w1 i x None) as [w2 o2] eqn:E2. cbn [fst].
        replace w2 with (fst (end_round w1 i x None)) by (rewrite E2; reflexivity).
        eapply end_round_inv3'; try eassumption. auto.
      * cbn [fst]. eapply Inv3_up with (i := i) (x' := upd_pc x (PRound RDiscard)); try eassumption; fields; try congruence.
    + destruct (end_round w1 i x (Some ENonFatal)) as [w2 o2] eqn:E2. cbn [fst].
      replace w2 with (fst (end_round w1 i x (Some ENonFatal))) by (rewrite E2; reflexivity).
      eapply end_round_inv3'; try eassumption. auto.
  - (* discard of the staging bundle *)
    destruct Hx as [[Lin Etree] R].
    unfold Model.step_round.
    match goal with |- context [end_round ?a i x None] => set (w1 := a) end.
    destruct (end_round w1 i x None) as [w2 o2] eqn:E2. cbn [fst].
    replace w2 with (fst (end_round w1 i x None)) by (rewrite E2; reflexivity).
    assert (S : sstep (w_store w) (w_store w1) (w_lockhist w)).
    { subst w1. fields. destruct (applied f); [|apply sstep_refl].
      apply (sstep_discard sha (w_store w) (r_new (i_rctx x)) (i_leaves x)); [|assumption].
      rewrite R, Etree. assumption. }
    pose proof S as [Ex _].
    eapply end_round_inv3'; try eassumption; subst w1; fields; try reflexivity.
    intros _. eapply complete_mono; eauto.
Qed.

(* ---------- CreateLog ---------- *)
Lemma step_create_inv3 w i x k f :
  Inv w -> Small w -> Inv3 w -> get_inst (w_insts w) i = Some x -> i_pc x = PCreate k ->
  Inv3 (fst (step_create w i x k f)).
Proof.
  intros HI Sm HI3 G Hpc. pose proof (inst_of_inv _ _ _ _ HI G) as Hx. pose proof Sm as [Sm1 Sm2].
  unfold Inv.inst_inv in Hx. rewrite Hpc in Hx.
  unfold Model.step_create.
  destruct k as [|[|[|[|k]]]].
  - match goal with |- context [if ?b then _ else _] => destruct b end.
    + same3 i (upd_pc x PNone).
    + same3 i (upd_pc x (PCreate 1)).
  - destruct (fetch w i k_checkpoint f) as [r o]. destruct r.
    + same3 i (upd_pc x PNone).
    + same3 i (upd_pc x (PCreate 2)).
  - set (c0 := mkCp (c_name (i_cfg x)) 0 (hempty sha) (w_now w) (c_key (i_cfg x)) []).
    destruct (w_lock w) as [lc|] eqn:El; cbn [andb].
    + same3 i (upd_pc x PNone).
    + pose proof HI as (C & LL & _). rewrite El in LL. cbn in LL.
      assert (C' : chain (w_lockhist w ++ [(c0, [])])).
      { rewrite LL. cbn [app]. apply chain_single. split; [reflexivity|]. split; [reflexivity|apply idx_ok_nil]. }
      assert (Sm' : small_hist (w_lockhist w ++ [(c0, [])])).
      { apply small_hist_app; [assumption|]. intros c1 l1 [X|[]]. inversion X; subst. reflexivity. }
      assert (Rec : forall c1 l1, In (c1, l1) [(c0, @nil sleaf)] -> recoverable (w_store w) c1 l1).
      { intros c1 l1 [X|[]]. inversion X; subst. left. apply complete_nil. }
      destruct (applied f) eqn:Eap.
      * destruct (succeeded f) eqn:Esu; cbn [fst];
          match goal with |- Inv3 (set_i _ i ?X) =>
            eapply Inv3_upd with (i := i) (x' := X) (e := [(c0, [])]) end;
          try eassumption; fields; try reflexivity; try apply sstep_refl; exact I.
      * assert (Esu : succeeded f = false) by (destruct f; cbn in *; congruence). rewrite Esu.
        same3 i (upd_pc x PNone).
  - destruct (world_upload _ _ _ _ _ _) as [[w1 ok] o] eqn:E.
    pose proof (upload_frame _ _ _ _ _ _ _ _ _ E) as (A1 & A2 & A3 & A4).
    assert (S : sstep (w_store w) (w_store w1) (w_lockhist w)).
    { eapply upload_sstep; [exact E| | |].
      - rewrite kclass_checkpoint. discriminate.
      - intro K. rewrite kclass_checkpoint in K. discriminate.
      - intro Ex. right. right. left. split; [reflexivity|].
        exists (i_tree x), []. split; [reflexivity|]. split; [apply Hx; lia|apply complete_nil]. }
    destruct ok; cbn [fst].
    + eapply Inv3_up with (i := i) (x' := upd_pc x (PCreate 4)); try eassumption; fields; try congruence. all: try exact I.
    + eapply Inv3_up with (i := i) (x' := upd_pc x PNone); try eassumption; fields; try congruence. all: try exact I.
  - destruct (world_upload _ _ _ _ _ _) as [[w1 ok] o] eqn:E.
    pose proof (upload_frame _ _ _ _ _ _ _ _ _ E) as (A1 & A2 & A3 & A4).
    assert (S : sstep (w_store w) (w_store w1) (w_lockhist w)).
    { eapply upload_sstep; [exact E| | |].
      - rewrite kclass_roots. discriminate.
      - intro K. rewrite kclass_roots in K. discriminate.
      - intro Ex. right. right. right. left. apply kclass_roots. }
    destruct ok; cbn [fst];
      (eapply Inv3_up with (i := i) (x' := upd_pc x PNone); try eassumption; fields; try congruence; try exact I).
Qed.

(* ---------- LoadLog ---------- *)
Lemma step_load_inv3 w i x ph f choice :
  Inv w -> Small w -> Inv3 w -> get_inst (w_insts w) i = Some x -> i_pc x = PLoad ph ->
  Inv3 (fst (step_load w i x ph f choice)).
Proof.
  intros HI Sm HI3 G Hpc. pose proof Sm as [Sm1 Sm2]. pose proof (inst_of_inv _ _ _ _ HI G) as Hx.
  pose proof HI3 as (T1 & T2 & TH & T3 & T4). pose proof (T4 _ _ G) as Hx3.
  pose proof HI as (C & _).
  unfold Inv.inst_inv in Hx. unfold Inv3.inst3 in Hx3. rewrite Hpc in Hx, Hx3.
  assert (FAIL : forall why o, Inv3 (fst (load_fail w i x why o))).
  { intros why o. unfold load_fail. same3 i (upd_pc x PNone). }
  unfold Model.step_load.
  destruct ph.
  - (* LLock *)
    match goal with |- context [match ?r with Some _ => _ | None => load_fail _ _ _ _ _ end] => destruct r as [lc|] end;
      [|apply FAIL].
    destruct (open_checkpoint (i_cfg x) (w_now w) (OC lc)) as [[lc'|]|why]; try apply FAIL.
    same3 i (set_load x LPub lc' cp0).
  - (* LPub *)
    destruct Hx as [ls' Hl].
    destruct (fetch w i k_checkpoint f) as [r o] eqn:Ef. destruct r as [ob|]; [|apply FAIL].
    apply fetch_some in Ef.
    destruct (open_checkpoint (i_cfg x) (w_now w) ob) as [[p|]|why] eqn:Eo; try apply FAIL.
    apply open_checkpoint_OC in Eo. subst ob.
    destruct ((cp_size p =? cp_size (i_lockcp x)) && negb (bytes_eqb (cp_root p) (cp_root (i_lockcp x)))) eqn:E1; [apply FAIL|].
    destruct (cp_size (i_lockcp x) <? cp_size p) eqn:E2; [apply FAIL|].
    destruct (cp_size p <? cp_size (i_lockcp x)) eqn:E3.
    + same3 i (set_load x LLegacy (i_lockcp x) p).
    + (* the published checkpoint has the size of the lock checkpoint: nothing to recover *)
      destruct (T3 p Ef) as (lsp & Hp & Cp).
      assert (lsp = ls').
      { destruct (wf_len _ _ _ (chain_wf sha _ _ _ C Hp)) as [Sp _].
        destruct (wf_len _ _ _ (chain_wf sha _ _ _ C Hl)) as [Sl _].
        eapply same_size_same_leaves; eauto. lia. }
      subst lsp.
      destruct (after_apply w i (set_load x LLock (i_lockcp x) p)) as [w1 o1] eqn:Ea. cbn [fst].
      replace w1 with (fst (after_apply w i (set_load x LLock (i_lockcp x) p))) by (rewrite Ea; reflexivity).
      eapply after_apply_inv3 with (ls := ls'); eauto. apply sstep_refl.
  - (* LLegacy *)
    destruct (fetch w i _ f) as [r o]. destruct r; [apply FAIL|].
    same3 i (upd_pc x (PLoad LStaging)).
  - (* LStaging *)
    destruct Hx as [ls' Hl].
    destruct (fetch w i _ f) as [r o] eqn:Ef. destruct r as [[b|c|ups]|]; try apply FAIL.
    apply fetch_some in Ef.
    destruct (wf_len _ _ _ (chain_wf sha _ _ _ C Hl)) as [Sl Rl].
    assert (Sh : shape (len ls') ups).
    { apply T2 in Ef; [|rewrite Sl; eauto]. destruct Ef as (ls0 & ups' & Eu & L0 & _ & B0). inversion Eu; subst ups'.
      rewrite <- Sl, <- L0. eapply bundle_shape; eauto. }
    assert (A : covered (w_store w) ls' ups \/ applying (w_store w) ls' ups false).
    { destruct (TH _ _ Hl) as [Cm|(ups1 & L1 & G1)].
      - left. split; assumption.
      - right. unfold spath_of in L1. rewrite Ef in L1. inversion L1; subst ups1.
        apply applying_start; assumption. }
    destruct ups as [|u ups].
    + destruct (after_apply w i x) as [w1 o1] eqn:Ea. cbn [fst].
      replace w1 with (fst (after_apply w i x)) by (rewrite Ea; reflexivity).
      eapply after_apply_inv3 with (ls := ls'); eauto; [apply sstep_refl|].
      destruct A as [[Cm _]|A]; [assumption|eapply applying_done; eauto].
    + same3 i (upd_pc x (PLoad (LApply (u :: ups) false))).
      all: try (unfold Inv3.inst3; cbn [i_pc upd_pc i_lockcp]; eauto).
  - (* LApply *)
    destruct Hx as [ls0 Hl0]. destruct Hx3 as (ls & Hl & A).
    destruct (take_upload todo choice) as [[u rest]|] eqn:Et; [|exact HI3].
    destruct (take_upload_spec _ _ _ _ Et) as (Hu & _).
    destruct (world_upload _ _ _ _ _ _) as [[w1 ok] o] eqn:E.
    pose proof (upload_frame _ _ _ _ _ _ _ _ _ E) as (A1 & A2 & A3 & A4).
    pose proof (upload_store _ _ _ _ _ _ _ _ _ E) as D.
    assert (SA : sstep (w_store w) (w_store w1) (w_lockhist w) /\
                 (covered (w_store w1) ls rest \/ applying (w_store w1) ls rest (failed || negb ok))).
    { destruct A as [Cv|A].
      - (* the tree is complete already: the upload meets an existing immutable object *)
        pose proof Cv as [Cm Sub]. destruct (Sub u Hu) as (Im & a & Hn & Ek).
        rewrite Im in D. unfold opt_obj in D.
        pose proof (do_upload_present _ _ _ _ _ _ _ D (eq_trans (f_equal _ Ek) (Cm a Hn))) as Same.
        split; [apply sstep_noop; exact Same|]. left.
        eapply covered_mono; [|eapply covered_step; eauto]. intros k0 o0 _ H0. now rewrite Same.
      - destruct (applying_fresh (w_store w) (w_store w1) (w_lockhist w) _ _ _ u _ A Hu Hl (Sm1 _ _ Hl))
          as (Fr & Im & Ob).
        assert (S : sstep (w_store w) (w_store w1) (w_lockhist w)).
        { eapply upload_sstep; [exact E| | |]; [|intros _; split; assumption|intros _; exact Fr].
          destruct A as (ups0 & B0 & Sub & _). destruct (Sub u Hu) as (_ & u0 & H0 & K1 & _).
          destruct (bundle_in _ _ _ _ _ B0 H0) as (a & pre & _ & _ & ->). cbn [u_key TilesProofs.tup] in K1.
          rewrite <- K1, kclass_tpath. discriminate. }
        split; [assumption|]. right. destruct S as [Ex _].
        eapply applying_step; eauto. }
    destruct SA as [S A']. pose proof S as [Ex _].
    destruct rest as [|u' rest'].
    + destruct (failed || negb ok) eqn:Efl.
      * unfold load_fail. cbn [fst].
        eapply Inv3_up with (i := i) (x' := upd_pc x PNone); try eassumption; fields; try congruence. all: try exact I.
      * destruct (after_apply w1 i x) as [w2 o2] eqn:Ea. cbn [fst].
        replace w2 with (fst (after_apply w1 i x)) by (rewrite Ea; reflexivity).
        eapply after_apply_inv3 with (ls := ls); eauto.
        destruct A' as [[Cm _]|A']; [assumption|eapply applying_done; eauto].
    + cbn [fst]. eapply Inv3_up with (i := i) (x' := upd_pc x (PLoad (LApply (u' :: rest') (failed || negb ok))));
        try eassumption; fields; try congruence.
      all: try (unfold Inv3.inst3; cbn [i_pc upd_pc i_lockcp]; eauto).
  - (* LEdge *)
    destruct todo as [|t rest].
    + same3 i (upd_pc x (PLoad LData)).
      all: try (unfold Inv3.inst3; cbn [i_pc upd_pc i_lockcp]; exact Hx3).
    + destruct (fetch w i _ f) as [r o].
      destruct r as [[b|c|ups]|]; try apply FAIL.
      destruct (hist_leaves (w_lockhist w) (i_lockcp x)); try apply FAIL.
      destruct (bytes_eqb b _); try apply FAIL.
      same3 i (upd_pc x (PLoad (match rest with [] => LData | _ => LEdge rest end))).
      all: try (unfold Inv3.inst3; cbn [i_pc upd_pc i_lockcp]; destruct rest; exact Hx3).
  - (* LData *)
    destruct (fetch w i _ f) as [r o].
    destruct r as [[b|c|ups]|]; try apply FAIL.
    destruct (hist_leaves (w_lockhist w) (i_lockcp x)); try apply FAIL.
    destruct (bytes_eqb b _); try apply FAIL.
    same3 i (upd_pc x (PLoad LRoots)).
    all: try (unfold Inv3.inst3; cbn [i_pc upd_pc i_lockcp]; exact Hx3).
  - (* LRoots: the instance is loaded *)
    destruct (fetch w i k_roots f) as [r o]. cbn [fst].
    destruct Hx3 as (ls & Hl & Cm).
    match goal with |- Inv3 (set_i w i ?X) => eapply Inv3_same with (i := i) (x' := X) end;
      try eassumption; fields; try reflexivity.
    unfold Inv3.inst3. cbn [i_pc i_leaves].
    destruct (hist_leaves (w_lockhist w) (i_lockcp x)) as [l|] eqn:Eh; [|apply complete_nil].
    apply hist_leaves_in in Eh. rewrite (chain_unique sha _ _ _ _ C Eh Hl). exact Cm.
Qed.

(* ---------- submissions: only issuer objects are written ---------- *)
Definition istep (s s' : store) : Prop := forall k, kclass k <> 105 -> lookup s' k = lookup s k.

Lemma istep_sstep s s' h' : istep s s' -> sstep s s' h'.
Proof.
  intro H. split; [|split].
  - intros k o K L. rewrite H; [assumption|]. rewrite K. discriminate.
  - intros k o L. destruct (N.eq_dec (kclass k) 105) as [K|K].
    + right. right. right. right. right. assumption.
    + left. now rewrite <- H.
  - apply stg_same. intros k K. apply H. rewrite K. discriminate.
Qed.

Lemma upload_issuers_istep iss : forall w i known fs w' k' ok o,
  upload_issuers sha w i known iss fs = (w', k', ok, o) -> istep (w_store w) (w_store w').
Proof.
  induction iss as [|b r IH]; intros w i known fs w' k' ok o E; cbn [upload_issuers] in E.
  - inversion E; subst. intros k _. reflexivity.
  - destruct (existsb _ known); [eapply IH; eauto|].
    destruct (fetch w i _ _) as [got o1].
    destruct got as [ob|].
    + destruct (obj_eqb ob (OB b)).
      * destruct (upload_issuers sha w i _ r _) as [[[w2 k2] ok2] o2] eqn:E2.
        inversion E; subst. eapply IH; eauto.
      * inversion E; subst. intros k _. reflexivity.
    + destruct (world_upload _ _ _ _ _ _) as [[w1 ok1] o2] eqn:E1.
      assert (S1 : istep (w_store w) (w_store w1)).
      { apply upload_store in E1. intros k0 K0. eapply do_upload_other; [exact E1|].
        intro X. rewrite X, kclass_issuer in K0. contradiction. }
      destruct ok1.
      * destruct (upload_issuers sha w1 i _ r _) as [[[w2 k2] ok2] o3] eqn:E2.
        inversion E; subst. apply IH in E2. intros k0 K0. rewrite E2, S1 by assumption. reflexivity.
      * inversion E; subst. exact S1.
Qed.

Lemma step_submit_inv3 w i x e low victim fs :
  Inv w -> Small w -> Inv3 w -> get_inst (w_insts w) i = Some x ->
  Inv3 (fst (step_submit w i x e low victim fs)).
Proof.
  intros HI Sm HI3 G. pose proof HI3 as (T1 & T2 & TH & T3 & T4). pose proof (T4 _ _ G) as Hx3.
  pose proof Sm as [Sm1 Sm2]. pose proof HI as (C & _).
  unfold Model.step_submit.
  destruct (upload_issuers sha w i (i_issuers x) (e_issuers e) fs) as [[[w1 known] ok] o] eqn:E.
  pose proof (upload_issuers_istep _ _ _ _ _ _ _ _ _ E) as S.
  apply upload_issuers_frame in E. destruct E as (A1 & A2 & A3 & A4).
  pose proof (istep_sstep _ _ (w_lockhist w) S) as S'.
  assert (Hx1 : inst3 (w_store w1) (w_lockhist w) x).
  { rewrite <- (app_nil_r (w_lockhist w)). eapply inst3_keep; rewrite ?app_nil_r; eauto. }
  destruct ok; cbn [negb].
  - destruct (admission sha _ _ _ _ _ _ _ _ _) as [p' r].
    destruct r; cbn [fst];
      (eapply Inv3_up with (i := i); [eassumption | eassumption | eassumption | fields; congruence
        | fields; rewrite A3; reflexivity | fields; assumption
        | fields; eapply inst3_core; [| | | |exact Hx1]; reflexivity]).
  - cbn [fst].
    eapply Inv3_up with (i := i); [eassumption | eassumption | eassumption | fields; congruence
        | fields; rewrite A3; reflexivity | fields; assumption
        | fields; eapply inst3_core; [| | | |exact Hx1]; reflexivity].
Qed.

(* ---------- every event but tampering ---------- *)
Definition not_tamper (e : ev) : Prop := match e with EvTamper _ _ => False | _ => True end.

Theorem Inv3_step w e : Inv w -> Small w -> Inv3 w -> not_tamper e -> Inv3 (fst (step w e)).
Proof.
  intros HI Sm HI3 NT. pose proof HI3 as (T1 & T2 & TH & T3 & T4).
  destruct e; unfold Model.step.
  - (* clock *) exact HI3.
  - (* create *) same3 i (upd_pc (inst0 c) (PCreate 0)).
  - (* start *) match goal with |- Inv3 (fst (set_i w i ?X, _)) => same3 i X end.
  - (* step *)
    destruct (get_inst (w_insts w) i) as [x|] eqn:G; [|exact HI3].
    destruct (i_pc x) eqn:Hpc; try exact HI3.
    + apply step_create_inv3; assumption.
    + apply step_load_inv3; assumption.
    + apply step_round_inv3; assumption.
  - (* submit *)
    destruct (get_inst (w_insts w) i) as [x|] eqn:G; [|exact HI3].
    destruct (i_pc x); try exact HI3; apply step_submit_inv3; assumption.
  - (* tick *)
    destruct (get_inst (w_insts w) i) as [x|] eqn:G; [|exact HI3].
    unfold step_tick. destruct (i_pc x) eqn:Hpc; try exact HI3.
    pose proof (T4 _ _ G) as Hx3. unfold Inv3.inst3 in Hx3. rewrite Hpc in Hx3.
    match goal with |- Inv3 (fst (set_i w i ?X, _)) => same3 i X end. all: try exact Hx3.
  - (* crash *)
    destruct (get_inst (w_insts w) i) as [x|] eqn:G; [|exact HI3].
    same3 i (upd_pc x PDead).
  - (* stop *)
    destruct (get_inst (w_insts w) i) as [x|] eqn:G; [|exact HI3].
    destruct (i_pc x) eqn:Hpc; try exact HI3.
    destruct (fail_pool _ _ _ _) as [w1 o1] eqn:E1.
    apply fail_pool_frame3 in E1. destruct E1 as (A1 & A2 & A3). fields.
    eapply Inv3_same with (i := i); try eassumption; fields; try congruence. all: try exact I.
  - (* cache loss *)
    destruct (get_inst (w_insts w) i) as [x|] eqn:G; [|exact HI3].
    match goal with |- Inv3 (fst (set_i w i ?X, _)) => same3 i X end.
    all: try (eapply inst3_core; [| | | |exact (T4 _ _ G)]; reflexivity).
  - destruct NT.
  - (* recompute-cache *)
    destruct (get_inst (w_insts w) i) as [x|] eqn:G; [|exact HI3].
    destruct (step_recompute_spec sha w i x key lim) as [E|(p & ls & c1 & why & _ & _ & _ & E)]; rewrite E; [exact HI3|].
    match goal with |- Inv3 (set_i w i ?X) => change (Inv3 (fst (set_i w i X, @nil obs))); same3 i X end.
    all: try (eapply inst3_core; [| | | |exact (T4 _ _ G)]; reflexivity).
Qed.

End I.
