(* Ctlog/Inv2Step.v — every event preserves Inv2 (given the first invariant) *)
From SL Require Import Base.BytesProofs Ctlog.Model Ctlog.Recompute Ctlog.Spec Ctlog.Inv Ctlog.InvStep Ctlog.Inv2.
From Coq Require Import ZifyN ZifyNat ZifyBool.
Open Scope N_scope.

Section I.
Variable sha : bytes -> bytes.
Notation step := (step sha).
Notation run := (run sha).
Notation end_round := (end_round sha).
Notation step_create := (step_create sha).
Notation step_load := (step_load sha).
Notation step_round := (step_round sha).
Notation step_clock := (step_clock sha).
Notation step_submit := (step_submit sha).
Notation Inv := (Inv sha).
Notation Inv2 := (Inv2 sha).
Notation inst2 := (inst2 sha).
Notation round2 := (round2 sha).
Notation cache_ok := (cache_ok sha).
Notation ack_ok := (ack_ok sha).
Notation holds_at := (holds_at sha).
Notation ckey := (ckey sha).
Notation new_sleaves := (new_sleaves sha).

Ltac fields := cbn [w_lockhist w_lock w_pubhist w_insts w_store w_acks set_i add_acks set_store fst snd] in *.

(* an update that keeps the cache, leaves the instance outside the tracked round phases (or in
   a phase whose facts are given) and only adds failed acknowledgements *)
Lemma Inv2_trivial w w' i x x' ext :
  Inv2 w -> get_inst (w_insts w) i = Some x ->
  w_lockhist w' = w_lockhist w ++ ext -> w_insts w' = set_inst (w_insts w) i x' ->
  (forall a, In a (w_acks w') -> In a (w_acks w) \/ a_res a = None) ->
  i_cache x' = i_cache x -> round2 x' -> Inv2 w'.
Proof.
  intros HI2 G Eh Ei Ha Ec Hr.
  eapply Inv2_upd with (i := i) (ext := ext); try eassumption.
  - intros a Hin. destruct (Ha a Hin) as [H|H]; [auto|right; apply ack_ok_none; assumption].
  - split; [|assumption]. rewrite Ec, Eh. destruct (inst2_of _ _ _ _ HI2 G) as [Hc _].
    intros k idx ts Hk. apply holds_at_mono. eauto.
Qed.

Lemma Inv2_ext_only w w1 ext :
  Inv2 w -> w_lockhist w1 = w_lockhist w ++ ext -> w_insts w1 = w_insts w -> w_acks w1 = w_acks w -> Inv2 w1.
Proof.
  intros [A II] Eh Ei Ea. split.
  - rewrite Ea, Eh. intros a Hin. apply ack_ok_mono. auto.
  - rewrite Ei, Eh. intros j y G. apply inst2_mono. eauto.
Qed.

Ltac triv2 i X :=
  cbn [fst]; eapply Inv2_trivial with (i := i) (x' := X) (ext := []);
  [eassumption | eassumption | rewrite app_nil_r; cbn [w_lockhist set_i]; congruence
  | cbn [w_insts set_i]; congruence
  | cbn [w_acks set_i]; intros ? ?; left; congruence
  | reflexivity | try exact I ].

Lemma step_clock_inv2 w i x :
  Inv w -> Inv2 w -> get_inst (w_insts w) i = Some x -> i_pc x = PRound RClock ->
  Inv2 (fst (step_clock w i x)).
Proof.
  intros HI HI2 G Hpc. pose proof (inst_of_inv _ _ _ _ HI G) as Hx.
  unfold Inv.inst_inv in Hx. rewrite Hpc in Hx.
  unfold Model.step_clock.
  destruct (w_now w <=? cp_ts (i_tree x))%Z eqn:Ets.
  - destruct (fail_pool _ _ _ _) as [w1 o1] eqn:E1.
    destruct (fail_pool w1 _ _ _) as [w2 o2] eqn:E2.
    pose proof (fail_pool_frame _ _ _ _ _ _ E1) as (A1 & A2 & A3 & A4).
    pose proof (fail_pool_frame _ _ _ _ _ _ E2) as (B1 & B2 & B3 & B4). fields.
    eapply Inv2_trivial with (i := i) (ext := []); try eassumption; fields.
    + rewrite app_nil_r. congruence.
    + rewrite B3, A3. reflexivity.
    + intros a Hin. eapply fail_pool_acks in Hin; [|exact E2]. destruct Hin as [Hin|Hin]; [|auto].
      eapply fail_pool_acks in Hin; [|exact E1]. fields. assumption.
    + reflexivity.
    + exact I.
  - cbn [fst].
    eapply Inv2_trivial with (i := i) (ext := []); try eassumption; fields.
    + rewrite app_nil_r. reflexivity.
    + reflexivity.
    + intros a Hin. auto.
    + reflexivity.
    + destruct (loaded_wf _ _ _ HI Hx) as [Sz _].
      unfold Inv2.round2.
      destruct (round_uploads _ _ _ _); cbn [i_pc i_rctx i_leaves i_inseq r_all r_first r_ts];
        (split; [reflexivity|assumption]).
Qed.

Lemma step_round_inv2 w i x ph f choice :
  Inv w -> Inv2 w -> get_inst (w_insts w) i = Some x -> i_pc x = PRound ph ->
  Inv2 (fst (step_round w i x ph f choice)).
Proof.
  intros HI HI2 G Hpc. pose proof (inst_of_inv _ _ _ _ HI G) as Hx.
  pose proof (inst2_of _ _ _ _ HI2 G) as [Hc Hr].
  unfold Inv.inst_inv in Hx. unfold Inv2.round2 in Hr. rewrite Hpc in Hx, Hr.
  destruct ph.
  - apply step_clock_inv2; assumption.
  - (* staging *)
    unfold Model.step_round.
    destruct (world_upload _ _ _ _ _ _) as [[w1 ok] o] eqn:E.
    pose proof (upload_acks _ _ _ _ _ _ _ _ _ E) as Ea.
    apply upload_frame in E. destruct E as (A1 & A2 & A3 & A4).
    destruct ok.
    + triv2 i (upd_pc x (PRound RCas)). unfold Inv2.round2. cbn [i_pc upd_pc]. exact Hr.
    + destruct (end_round w1 i x (Some ENonFatal)) as [w2 o2] eqn:E2. cbn [fst].
      replace w2 with (fst (end_round w1 i x (Some ENonFatal))) by (rewrite E2; reflexivity).
      eapply end_round_err_inv2; eauto.
  - (* compare-and-swap *)
    destruct Hx as [L R]. destruct Hr as [Eall Ef].
    unfold Model.step_round.
    set (can := match w_lock w with Some c => cp_eqb c (i_lockcp x) | None => false end).
    destruct can; cbn [andb].
    + destruct (applied f) eqn:Eap.
      * destruct (succeeded f) eqn:Esu.
        -- cbn [fst].
           eapply Inv2_trivial with (i := i) (ext := [(r_new (i_rctx x), r_all (i_rctx x))]); try eassumption; fields;
             try reflexivity.
           ++ intros a Hin; auto.
           ++ unfold Inv2.round2.
              destruct (r_ups (i_rctx x)); cbn [i_pc i_rctx i_leaves i_inseq];
                (split; [reflexivity|exists (i_leaves x); split; assumption]).
        -- match goal with |- context [end_round ?a i x (Some EFatal)] => set (w1 := a) end.
           destruct (end_round w1 i x (Some EFatal)) as [w2 o2] eqn:E2. cbn [fst].
           replace w2 with (fst (end_round w1 i x (Some EFatal))) by (rewrite E2; reflexivity).
           assert (HI21 : Inv2 w1).
           { eapply Inv2_ext_only with (ext := [(r_new (i_rctx x), r_all (i_rctx x))]); try eassumption;
               subst w1; reflexivity. }
           eapply end_round_err_inv2 with (w0 := w1); eauto.
      * assert (Esu : succeeded f = false) by (destruct f; cbn in *; congruence). rewrite Esu.
        destruct (end_round w i x (Some EFatal)) as [w2 o2] eqn:E2. cbn [fst].
        replace w2 with (fst (end_round w i x (Some EFatal))) by (rewrite E2; reflexivity).
        eapply end_round_err_inv2; eauto.
    + destruct (end_round w i x (Some EFatal)) as [w2 o2] eqn:E2. cbn [fst].
      replace w2 with (fst (end_round w i x (Some EFatal))) by (rewrite E2; reflexivity).
      eapply end_round_err_inv2; eauto.
  - (* tile uploads *)
    unfold Model.step_round.
    destruct (take_upload todo choice) as [[u rest]|]; [|exact HI2].
    destruct (world_upload _ _ _ _ _ _) as [[w1 ok] o] eqn:E.
    pose proof (upload_acks _ _ _ _ _ _ _ _ _ E) as Ea.
    apply upload_frame in E. destruct E as (A1 & A2 & A3 & A4).
    destruct rest as [|u' rest'].
    + destruct (failed || negb ok).
      * destruct (end_round w1 i x (Some EFatal)) as [w2 o2] eqn:E2. cbn [fst].
        replace w2 with (fst (end_round w1 i x (Some EFatal))) by (rewrite E2; reflexivity).
        eapply end_round_err_inv2; eauto.
      * triv2 i (upd_pc x (PRound RCheckpoint)). unfold Inv2.round2. cbn [i_pc upd_pc]. exact Hr.
    + triv2 i (upd_pc x (PRound (RTiles (u' :: rest') (failed || negb ok)))).
      unfold Inv2.round2. cbn [i_pc upd_pc]. exact Hr.
  - (* checkpoint upload *)
    destruct Hx as [L R]. destruct Hr as [Eall Hpre].
    unfold Model.step_round.
    destruct (world_upload _ _ _ _ _ _) as [[w1 ok] o] eqn:E.
    pose proof (upload_acks _ _ _ _ _ _ _ _ _ E) as Ea.
    apply upload_frame in E. destruct E as (A1 & A2 & A3 & A4).
    destruct ok.
    + destruct (r_ups (i_rctx x)).
      * destruct (end_round w1 i x None) as [w2 o2] eqn:E2. cbn [fst].
        replace w2 with (fst (end_round w1 i x None)) by (rewrite E2; reflexivity).
        eapply end_round_ok_inv2; eauto.
      * triv2 i (upd_pc x (PRound RDiscard)). unfold Inv2.round2. cbn [i_pc upd_pc]. split; assumption.
    + destruct (end_round w1 i x (Some ENonFatal)) as [w2 o2] eqn:E2. cbn [fst].
      replace w2 with (fst (end_round w1 i x (Some ENonFatal))) by (rewrite E2; reflexivity).
      eapply end_round_err_inv2; eauto.
  - (* discard *)
    destruct Hx as [L R]. destruct Hr as [Eall Hpre].
    unfold Model.step_round.
    match goal with |- context [end_round ?a i x None] => set (w1 := a) end.
    destruct (end_round w1 i x None) as [w2 o2] eqn:E2. cbn [fst].
    replace w2 with (fst (end_round w1 i x None)) by (rewrite E2; reflexivity).
    eapply end_round_ok_inv2; eauto; subst w1; reflexivity.
Qed.

Lemma step_create_inv2 w i x k f :
  Inv2 w -> get_inst (w_insts w) i = Some x -> i_pc x = PCreate k ->
  Inv2 (fst (step_create w i x k f)).
Proof.
  intros HI2 G Hpc. unfold Model.step_create.
  destruct k as [|[|[|[|k]]]].
  - match goal with |- context [if ?b then _ else _] => destruct b end.
    + triv2 i (upd_pc x PNone).
    + triv2 i (upd_pc x (PCreate 1)).
  - destruct (fetch w i k_checkpoint f) as [r o]. destruct r.
    + triv2 i (upd_pc x PNone).
    + triv2 i (upd_pc x (PCreate 2)).
  - set (c0 := mkCp (c_name (i_cfg x)) 0 (hempty sha) (w_now w) (c_key (i_cfg x)) []).
    destruct (w_lock w) as [lc|] eqn:El; cbn [andb].
    + triv2 i (upd_pc x PNone).
    + destruct (applied f) eqn:Eap.
      * destruct (succeeded f) eqn:Esu; cbn [fst];
          (eapply Inv2_trivial with (i := i) (ext := [(c0, [])]); try eassumption; fields;
           [reflexivity | reflexivity | intros a Hin; auto | reflexivity | exact I]).
      * assert (Esu : succeeded f = false) by (destruct f; cbn in *; congruence). rewrite Esu.
        triv2 i (upd_pc x PNone).
  - destruct (world_upload _ _ _ _ _ _) as [[w1 ok] o] eqn:E.
    pose proof (upload_acks _ _ _ _ _ _ _ _ _ E) as Ea.
    apply upload_frame in E. destruct E as (A1 & A2 & A3 & A4).
    destruct ok.
    + triv2 i (upd_pc x (PCreate 4)).
    + triv2 i (upd_pc x PNone).
  - destruct (world_upload _ _ _ _ _ _) as [[w1 ok] o] eqn:E.
    pose proof (upload_acks _ _ _ _ _ _ _ _ _ E) as Ea.
    apply upload_frame in E. destruct E as (A1 & A2 & A3 & A4).
    destruct ok; triv2 i (upd_pc x PNone).
Qed.

Lemma after_apply_inv2 w0 w i x x0 :
  Inv2 w0 -> get_inst (w_insts w0) i = Some x0 -> i_cache x = i_cache x0 ->
  w_lockhist w = w_lockhist w0 -> w_insts w = w_insts w0 -> w_acks w = w_acks w0 ->
  Inv2 (fst (after_apply w i x)).
Proof.
  intros HI2 G Ec Eh Ei Ea. unfold after_apply.
  destruct (cp_size (i_lockcp x) =? 0); cbn [fst].
  - eapply Inv2_trivial with (i := i) (ext := []) (x' := upd_pc x (PLoad LRoots)); try eassumption; fields;
     [rewrite app_nil_r; assumption | rewrite Ei; reflexivity | intros a Hin; left; congruence | exact I].
  - eapply Inv2_trivial with (i := i) (ext := [])
      (x' := upd_pc x (PLoad (LEdge (rev (edge_tiles (cp_size (i_lockcp x))))))); try eassumption; fields;
     [rewrite app_nil_r; assumption | rewrite Ei; reflexivity | intros a Hin; left; congruence | exact I].
Qed.

Lemma step_load_inv2 w i x ph f choice :
  Inv2 w -> get_inst (w_insts w) i = Some x -> i_pc x = PLoad ph ->
  Inv2 (fst (step_load w i x ph f choice)).
Proof.
  intros HI2 G Hpc.
  assert (FAIL : forall why o, Inv2 (fst (load_fail w i x why o))).
  { intros why o. unfold load_fail. triv2 i (upd_pc x PNone). }
  unfold Model.step_load.
  destruct ph.
  - match goal with |- context [match ?r with Some _ => _ | None => load_fail _ _ _ _ _ end] => destruct r as [lc|] end;
      [|apply FAIL].
    destruct (open_checkpoint (i_cfg x) (w_now w) (OC lc)) as [[lc'|]|why]; try apply FAIL.
    triv2 i (set_load x LPub lc' cp0).
  - destruct (fetch w i k_checkpoint f) as [r o]. destruct r as [ob|]; [|apply FAIL].
    destruct (open_checkpoint (i_cfg x) (w_now w) ob) as [[p|]|why]; try apply FAIL.
    repeat match goal with |- context [if ?b then _ else _] => destruct b end; try apply FAIL.
    + triv2 i (set_load x LLegacy (i_lockcp x) p).
    + destruct (after_apply w i (set_load x LLock (i_lockcp x) p)) as [w1 o1] eqn:E1. cbn [fst].
      replace w1 with (fst (after_apply w i (set_load x LLock (i_lockcp x) p))) by (rewrite E1; reflexivity).
      eapply after_apply_inv2; eauto.
  - destruct (fetch w i _ f) as [r o]. destruct r; [apply FAIL|].
    triv2 i (upd_pc x (PLoad LStaging)).
  - destruct (fetch w i _ f) as [r o]. destruct r as [[b|c|ups]|]; try apply FAIL.
    destruct ups as [|u ups].
    + destruct (after_apply w i x) as [w1 o1] eqn:E1. cbn [fst].
      replace w1 with (fst (after_apply w i x)) by (rewrite E1; reflexivity).
      eapply after_apply_inv2; eauto.
    + triv2 i (upd_pc x (PLoad (LApply (u :: ups) false))).
  - destruct (take_upload todo choice) as [[u rest]|]; [|exact HI2].
    destruct (world_upload _ _ _ _ _ _) as [[w1 ok] o] eqn:E.
    pose proof (upload_acks _ _ _ _ _ _ _ _ _ E) as Ea.
    apply upload_frame in E. destruct E as (A1 & A2 & A3 & A4).
    destruct rest as [|u' rest'].
    + destruct (failed || negb ok).
      * unfold load_fail. triv2 i (upd_pc x PNone).
      * destruct (after_apply w1 i x) as [w2 o2] eqn:E2. cbn [fst].
        replace w2 with (fst (after_apply w1 i x)) by (rewrite E2; reflexivity).
        eapply after_apply_inv2; eauto.
    + triv2 i (upd_pc x (PLoad (LApply (u' :: rest') (failed || negb ok)))).
  - destruct todo as [|t rest].
    + triv2 i (upd_pc x (PLoad LData)).
    + destruct (fetch w i _ f) as [r o].
      destruct r as [[b|c|ups]|]; try apply FAIL.
      destruct (hist_leaves (w_lockhist w) (i_lockcp x)); try apply FAIL.
      destruct (bytes_eqb b _); try apply FAIL.
      triv2 i (upd_pc x (PLoad (match rest with [] => LData | _ => LEdge rest end))).
  - destruct (fetch w i _ f) as [r o].
    destruct r as [[b|c|ups]|]; try apply FAIL.
    destruct (hist_leaves (w_lockhist w) (i_lockcp x)); try apply FAIL.
    destruct (bytes_eqb b _); try apply FAIL.
    triv2 i (upd_pc x (PLoad LRoots)).
  - destruct (fetch w i k_roots f) as [r o].
    match goal with |- Inv2 (fst (set_i w i ?X, _)) => triv2 i X end.
Qed.

Lemma in_firstn {A} (x : A) n l : In x (firstn n l) -> In x l.
Proof. revert n; induction l as [|y l IH]; intros [|n] H; cbn in *; auto; try contradiction. destruct H; auto. right; eauto. Qed.

Lemma cache_get_in c k v : cache_get c k = Some v -> In (k, v) c.
Proof.
  induction c as [|[k' v'] r IH]; cbn; [discriminate|].
  destruct (bytes_eqb k k') eqn:E.
  - intro H; inversion H; subst. apply bytes_eqb_eq in E. subst. left. reflexivity.
  - intro H. right. auto.
Qed.

Lemma upload_issuers_acks iss : forall w i known fs w' k' ok o,
  upload_issuers sha w i known iss fs = (w', k', ok, o) -> w_acks w' = w_acks w.
Proof.
  induction iss as [|b r IH]; intros w i known fs w' k' ok o E; cbn [upload_issuers] in E.
  - inversion E; subst. reflexivity.
  - destruct (existsb _ known); [eapply IH; eauto|].
    destruct (fetch w i _ _) as [got o1].
    destruct got as [ob|].
    + destruct (obj_eqb ob (OB b)).
      * destruct (upload_issuers sha w i _ r _) as [[[w2 k2] ok2] o2] eqn:E2.
        inversion E; subst. eapply IH; eauto.
      * inversion E; subst. reflexivity.
    + destruct (world_upload _ _ _ _ _ _) as [[w1 ok1] o2] eqn:E1.
      apply upload_acks in E1.
      destruct ok1.
      * destruct (upload_issuers sha w1 i _ r _) as [[[w2 k2] ok2] o3] eqn:E2.
        inversion E; subst. apply IH in E2. congruence.
      * inversion E; subst. assumption.
Qed.

Lemma admission_cached c closed p inseq cache e low victim wid p' idx ts :
  admission sha c closed p inseq cache e low victim wid = (p', ACached idx ts) ->
  In (ckey e, (idx, ts)) cache.
Proof.
  unfold admission. destruct closed; [discriminate|].
  destruct (in_pool sha p (ckey e)); [discriminate|].
  destruct (in_pool sha inseq (ckey e)); [discriminate|].
  destruct (cache_get cache (ckey e)) as [[i0 t0]|] eqn:Ec.
  - intro H. inversion H; subst. now apply cache_get_in.
  - repeat match goal with |- context [if ?b then _ else _] => destruct b end;
      try discriminate; destruct (lows p); try discriminate; destruct (nth_error _ _); discriminate.
Qed.

Lemma step_submit_inv2 w i x e low victim fs :
  Inv2 w -> get_inst (w_insts w) i = Some x ->
  Inv2 (fst (step_submit w i x e low victim fs)).
Proof.
  intros HI2 G. pose proof (inst2_of _ _ _ _ HI2 G) as Hx2. destruct Hx2 as [Hc Hr].
  unfold Model.step_submit.
  destruct (upload_issuers sha w i (i_issuers x) (e_issuers e) fs) as [[[w1 known] ok] o] eqn:E.
  pose proof (upload_issuers_acks _ _ _ _ _ _ _ _ _ E) as Ea.
  apply upload_issuers_frame in E. destruct E as (A1 & A2 & A3 & A4).
  destruct ok; cbn [negb].
  - destruct (admission sha _ _ _ _ _ _ _ _ _) as [p' r] eqn:Ead.
    destruct r; cbn [fst];
      (eapply Inv2_upd with (i := i) (ext := []);
       [eassumption | fields; rewrite app_nil_r; congruence | fields; rewrite A3; reflexivity
       | fields; intros a Hin;
         try (left; congruence);
         (apply in_app_or in Hin; destruct Hin as [Hin|[Hin|[]]]; [left; congruence|]; right; subst a)
       | fields; rewrite A1; eapply inst2_core; [| | | | |split; [exact Hc|exact Hr]]; reflexivity]);
      try (apply ack_ok_none; reflexivity).
    (* answered from the cache *)
    unfold Inv2.ack_ok. cbn [a_res a_entry]. rewrite A1. apply Hc.
    eapply admission_cached; eauto.
  - cbn [fst].
    eapply Inv2_upd with (i := i) (ext := []);
      [eassumption | fields; rewrite app_nil_r; congruence | fields; rewrite A3; reflexivity
      | fields; intros a Hin; apply in_app_or in Hin; destruct Hin as [Hin|[Hin|[]]]; [left; congruence|];
        right; subst a; apply ack_ok_none; reflexivity
      | fields; rewrite A1; eapply inst2_core; [| | | | |split; [exact Hc|exact Hr]]; reflexivity].
Qed.

(* ---------- cmd/recompute-cache: every inserted row names the entry at that index of a
   committed tree ---------- *)
Lemma nth_error_firstn_some {A} (l : list A) : forall n j x, nth_error (firstn n l) j = Some x -> nth_error l j = Some x.
Proof.
  induction l as [|a l IH]; intros [|n] [|j] x H; cbn in *; try discriminate; auto. eapply IH; eauto.
Qed.
Lemma nth_error_skipn_eq {A} (l : list A) : forall k j, nth_error (skipn k l) j = nth_error l (k + j).
Proof.
  induction l as [|a l IH]; intros [|k] j; cbn; auto. destruct j; reflexivity.
Qed.

Lemma cache_ok_insert h c k idx ts :
  cache_ok h c -> holds_at h k idx ts -> cache_ok h (cache_insert_ignore c k (idx, ts)).
Proof.
  intros Hc Hh. unfold cache_insert_ignore. destruct (cache_get c k); [exact Hc|].
  intros k0 i0 t0 Hin. apply in_app_or in Hin. destruct Hin as [Hin|[Hin|[]]]; [eauto|].
  inversion Hin; subst. exact Hh.
Qed.

Lemma recompute_entries_ok h c0 ls0 : In (c0, ls0) h ->
  forall ents c pos c1 ok,
  cache_ok h c ->
  (forall j sl, nth_error ents j = Some sl -> nth_error ls0 (N.to_nat pos + j) = Some sl) ->
  recompute_entries sha c ents pos = (c1, ok) -> cache_ok h c1.
Proof.
  intros Hin. induction ents as [|sl r IH]; intros c pos c1 ok Hc Hn E; cbn [recompute_entries] in E.
  - inversion E; subst. exact Hc.
  - destruct (l_idx (sl_leaf sl) =? Z.of_N pos)%Z eqn:Ei.
    + eapply IH; [| |exact E].
      * apply cache_ok_insert; [exact Hc|].
        exists c0, ls0, sl. split; [exact Hin|]. split.
        { specialize (Hn O sl eq_refl). rewrite Nat.add_0_r in Hn. exact Hn. }
        split; [reflexivity|]. split; [reflexivity|]. lia.
      * intros j sl' Hj. specialize (Hn (S j) sl' Hj).
        replace (N.to_nat (pos + 1) + j)%nat with (N.to_nat pos + S j)%nat by lia. exact Hn.
    + inversion E; subst. exact Hc.
Qed.

Lemma rc_loop_ok h c0 ls0 s top lim : In (c0, ls0) h ->
  forall fuel start c c1 why, cache_ok h c ->
  rc_loop sha fuel s ls0 top start lim c = (c1, why) -> cache_ok h c1.
Proof.
  intros Hin. induction fuel as [|f IH]; intros start c c1 why Hc E; cbn [rc_loop] in E.
  - inversion E; subst. exact Hc.
  - destruct (top <=? start); [inversion E; subst; exact Hc|].
    destruct (forallb _ _); [|inversion E; subst; exact Hc].
    match type of E with context [recompute_entries sha c ?ents start] =>
      destruct (recompute_entries sha c ents start) as [c2 ok] eqn:E2;
      assert (Hc2 : cache_ok h c2) end.
    { eapply recompute_entries_ok; [exact Hin|exact Hc| |exact E2].
      intros j sl Hj.
      assert (Hs : nth_error (slice ls0 start (N.min top (start + 12800) - start)) j = Some sl).
      { destruct lim as [m|]; [eapply nth_error_firstn_some; exact Hj|exact Hj]. }
      unfold slice in Hs. apply nth_error_firstn_some in Hs. rewrite nth_error_skipn_eq in Hs. exact Hs. }
    destruct (negb ok); [inversion E; subst; exact Hc2|].
    destruct (match lim with Some m => m <? N.min top (start + 12800) | None => false end);
      [inversion E; subst; exact Hc2|].
    eapply IH; [exact Hc2|exact E].
Qed.

Theorem Inv2_step w e : Inv w -> Inv2 w -> Inv2 (fst (step w e)).
Proof.
  intros HI HI2. destruct e; unfold Model.step.
  - (* clock *) destruct HI2 as [A II]. split; assumption.
  - (* create *) cbn [fst].
    eapply Inv2_upd with (i := i) (ext := []); [eassumption|fields; now rewrite app_nil_r|reflexivity|auto|].
    split; [intros k idx ts []|exact I].
  - (* start: the cache file of instance [keepcache] is taken over *)
    cbn [fst].
    eapply Inv2_upd with (i := i) (ext := []); [eassumption|fields; now rewrite app_nil_r|reflexivity|auto|].
    split; [|exact I]. cbn [i_cache w_lockhist set_i].
    destruct keepcache as [j|]; [|intros k idx ts []].
    destruct (get_inst (w_insts w) j) as [y|] eqn:Gj; [|intros k idx ts []].
    destruct (inst2_of _ _ _ _ HI2 Gj) as [Hc _]. exact Hc.
  - (* step *)
    destruct (get_inst (w_insts w) i) as [x|] eqn:G; [|exact HI2].
    destruct (i_pc x) eqn:Hpc; try exact HI2.
    + apply step_create_inv2; assumption.
    + apply step_load_inv2; assumption.
    + apply step_round_inv2; assumption.
  - (* submit *)
    destruct (get_inst (w_insts w) i) as [x|] eqn:G; [|exact HI2].
    destruct (i_pc x); try exact HI2; apply step_submit_inv2; assumption.
  - (* tick *)
    destruct (get_inst (w_insts w) i) as [x|] eqn:G; [|exact HI2].
    unfold step_tick. destruct (i_pc x) eqn:Hpc; try exact HI2.
    match goal with |- Inv2 (fst (set_i w i ?X, _)) => triv2 i X end.
  - (* crash *)
    destruct (get_inst (w_insts w) i) as [x|] eqn:G; [|exact HI2].
    triv2 i (upd_pc x PDead).
  - (* stop *)
    destruct (get_inst (w_insts w) i) as [x|] eqn:G; [|exact HI2].
    destruct (i_pc x) eqn:Hpc; try exact HI2.
    destruct (fail_pool _ _ _ _) as [w1 o1] eqn:E1.
    pose proof (fail_pool_frame _ _ _ _ _ _ E1) as (A1 & A2 & A3 & A4). fields.
    eapply Inv2_trivial with (i := i) (ext := []); try eassumption; fields.
    + rewrite app_nil_r. congruence.
    + intros a Hin. eapply fail_pool_acks in Hin; [|exact E1]. fields. assumption.
    + reflexivity.
    + exact I.
  - (* cache loss / rollback *)
    destruct (get_inst (w_insts w) i) as [x|] eqn:G; [|exact HI2].
    destruct (inst2_of _ _ _ _ HI2 G) as [Hc Hr]. cbn [fst].
    eapply Inv2_upd with (i := i) (ext := []); [eassumption|fields; now rewrite app_nil_r|reflexivity|auto|].
    fields. split.
    + cbn [i_cache]. intros k0 idx ts Hin. apply Hc. eapply in_firstn; eauto.
    + unfold Inv2.round2 in *. cbn [i_pc i_rctx i_leaves i_inseq]. exact Hr.
  - (* tampering *)
    destruct HI2 as [A II]. destruct o; split; assumption.
  - (* recompute-cache *)
    destruct (get_inst (w_insts w) i) as [x|] eqn:G; [|exact HI2].
    destruct (step_recompute_spec sha w i x key lim) as [E|(p & ls & c1 & why & _ & Hh & Hl & E)]; rewrite E; [exact HI2|].
    destruct (inst2_of _ _ _ _ HI2 G) as [Hc Hr].
    eapply Inv2_upd with (i := i) (ext := []); [eassumption|fields; now rewrite app_nil_r|reflexivity|auto|].
    fields. split.
    + cbn [i_cache set_cache]. eapply rc_loop_ok; [apply hist_leaves_in; exact Hh|exact Hc|exact Hl].
    + unfold Inv2.round2 in *. cbn [i_pc i_rctx i_leaves i_inseq set_cache]. exact Hr.
Qed.

Theorem Inv2_run evs : forall w, Inv w -> Inv2 w -> Inv2 (run evs w).
Proof.
  induction evs as [|e r IH]; intros w HI HI2; cbn; [assumption|].
  apply IH; [apply Inv_step; assumption|apply Inv2_step; assumption].
Qed.

Theorem Inv2_reachable evs : Inv2 (run evs init).
Proof. apply Inv2_run; [apply Inv_init|apply Inv2_init]. Qed.

End I.
