(* Ctlog/Inv.v — the inductive invariant of the sequencer model and its preservation by every
   event (submissions, ticks, storage/lock operations with any fault, crashes, stops, cache loss,
   arbitrary tampering of object storage, any number of instances, any interleaving). *)
From SL Require Import Base.BytesProofs Ctlog.Model Ctlog.Spec.
From Coq Require Import ZifyN ZifyNat ZifyBool.
Open Scope N_scope.

Section I.
Variable sha : bytes -> bytes.
Notation mroot := (mroot sha).
Notation leaf_hashes := (leaf_hashes sha).
Notation wfcp := (wfcp sha).
Notation chain := (chain sha).
Notation step := (step sha).
Notation run := (run sha).
Notation end_round := (end_round sha).
Notation step_create := (step_create sha).
Notation step_load := (step_load sha).
Notation step_round := (step_round sha).
Notation step_clock := (step_clock sha).
Notation step_submit := (step_submit sha).

(* ---------- equality tests ---------- *)
Lemma cp_eqb_eq a b : cp_eqb a b = true -> a = b.
Proof.
  unfold cp_eqb. rewrite !andb_true_iff. intros [[[[[H1 H2] H3] H4] H5] H6].
  apply bytes_eqb_eq in H1, H3, H6. apply N.eqb_eq in H2, H5. apply Z.eqb_eq in H4.
  destruct a, b; cbn in *; subst; reflexivity.
Qed.

Lemma cp_eqb_refl a : cp_eqb a a = true.
Proof.
  unfold cp_eqb. rewrite !bytes_eqb_refl, !N.eqb_refl, Z.eqb_refl. reflexivity.
Qed.

(* ---------- chains ---------- *)
Lemma prefix_refl {A} (l : list A) : prefix l l.
Proof. exists []. now rewrite app_nil_r. Qed.

Lemma prefix_trans {A} (a b c : list A) : prefix a b -> prefix b c -> prefix a c.
Proof. intros [t ->] [u ->]. exists (t ++ u). now rewrite app_assoc. Qed.

Lemma prefix_length {A} (a b : list A) : prefix a b -> (length a <= length b)%nat.
Proof. intros [t ->]. rewrite app_length. lia. Qed.

Lemma prefix_firstn {A} (a b : list A) : prefix a b -> firstn (length a) b = a.
Proof. intros [t ->]. rewrite firstn_app, Nat.sub_diag, firstn_all, firstn_O, app_nil_r. reflexivity. Qed.

Lemma chain_app_inv h1 h2 : chain (h1 ++ h2) -> chain h1 /\ chain h2.
Proof.
  induction h1 as [|[c ls] r IH]; cbn [app]; intro H.
  - split; [exact I|assumption].
  - cbn [Spec.chain] in H. destruct H as (W & A & C). apply IH in C. destruct C as [C1 C2].
    split; [|assumption]. cbn [Spec.chain]. split; [assumption|]. split; [|assumption].
    destruct r as [|[c' ls'] r']; [exact I|]. exact A.
Qed.

Lemma chain_snoc h c ls c' ls' :
  chain (h ++ [(c, ls)]) -> wfcp c' ls' -> prefix ls ls' -> (cp_ts c < cp_ts c')%Z ->
  chain ((h ++ [(c, ls)]) ++ [(c', ls')]).
Proof.
  induction h as [|[c0 l0] r IH]; cbn [app]; intros H W P T.
  - cbn [Spec.chain] in *. destruct H as (W0 & _ & _).
    split; [assumption|]. split; [split; assumption|]. split; [assumption|]. split; exact I.
  - cbn [Spec.chain] in H. destruct H as (W0 & A & C).
    cbn [Spec.chain]. split; [assumption|]. split.
    + destruct r as [|[c1 l1] r']; cbn [app] in *; exact A.
    + apply IH; assumption.
Qed.

Lemma chain_single c ls : wfcp c ls -> chain [(c, ls)].
Proof. intro W. cbn. auto. Qed.

(* all elements of a chain are well-formed; later ones extend earlier ones *)
Lemma chain_wf h c ls : chain h -> In (c, ls) h -> wfcp c ls.
Proof.
  induction h as [|[c0 l0] r IH]; [intros _ []|].
  intros (W & _ & C) [E|I']; [inversion E; subst; exact W|auto].
Qed.

Lemma chain_head_lt h c ls c' ls' :
  chain ((c, ls) :: h) -> In (c', ls') h -> prefix ls ls' /\ (cp_ts c < cp_ts c')%Z.
Proof.
  revert c ls. induction h as [|[c1 l1] r IH]; intros c ls H I'; [destruct I'|].
  cbn [Spec.chain] in H. destruct H as (W & (P & T) & C).
  destruct I' as [E|I'].
  - inversion E; subst. auto.
  - destruct (IH c1 l1 C I') as [P' T']. split; [eapply prefix_trans; eauto|lia].
Qed.

Lemma chain_pairs h : chain h ->
  forall i j c ls c' ls', (i < j)%nat ->
    nth_error h i = Some (c, ls) -> nth_error h j = Some (c', ls') ->
    prefix ls ls' /\ (cp_ts c < cp_ts c')%Z /\ wfcp c ls /\ wfcp c' ls'.
Proof.
  induction h as [|[c0 l0] r IH]; intros C i j c ls c' ls' Hij Hi Hj.
  - destruct i; discriminate.
  - destruct j as [|j]; [lia|]. cbn [nth_error] in Hj.
    destruct i as [|i].
    + cbn in Hi. inversion Hi; subst.
      apply nth_error_In in Hj.
      destruct (chain_head_lt _ _ _ _ _ C Hj) as [P T].
      destruct C as (W & _ & C). split; [assumption|]. split; [assumption|]. split; [assumption|].
      eapply chain_wf; eauto.
    + cbn [nth_error] in Hi. destruct C as (_ & _ & C). apply (IH C i j); [lia|assumption|assumption].
Qed.

Theorem chain_append_only h : chain h -> append_only sha h.
Proof.
  intros C i j c ls c' ls' Hij Hi Hj.
  destruct (chain_pairs h C i j c ls c' ls' Hij Hi Hj) as (P & T & (S & R & _) & (S' & R' & _)).
  pose proof (prefix_length _ _ P) as Len.
  split; [lia|]. split; [|assumption].
  rewrite S, Nat2N.id, (prefix_firstn _ _ P). exact R.
Qed.

(* timestamps strictly increase, so a checkpoint value occurs once *)
Lemma chain_unique h c l1 l2 : chain h -> In (c, l1) h -> In (c, l2) h -> l1 = l2.
Proof.
  induction h as [|[c0 l0] r IH]; intros C I1 I2; [destruct I1|].
  destruct I1 as [E1|I1], I2 as [E2|I2].
  - congruence.
  - inversion E1; subst. destruct (chain_head_lt _ _ _ _ _ C I2) as [_ T]. lia.
  - inversion E2; subst. destruct (chain_head_lt _ _ _ _ _ C I1) as [_ T]. lia.
  - destruct C as (_ & _ & C). eauto.
Qed.

Lemma chain_nodup h : chain h -> NoDup (map fst h).
Proof.
  induction h as [|[c0 l0] r IH]; intro C; cbn [map fst]; constructor.
  - intro I'. apply in_map_iff in I'. destruct I' as [[c1 l1] [E I']]. cbn in E. subst c1.
    destruct (chain_head_lt _ _ _ _ _ C I') as [_ T]. lia.
  - destruct C as (_ & _ & C). auto.
Qed.

(* ---------- the invariant ---------- *)
Definition loaded (h : list (cp * list sleaf)) (x : inst) : Prop :=
  In (i_lockcp x, i_leaves x) h /\ i_tree x = i_lockcp x.

Definition rctx_ok (x : inst) : Prop :=
  prefix (i_leaves x) (r_all (i_rctx x)) /\ wfcp (r_new (i_rctx x)) (r_all (i_rctx x))
  /\ (cp_ts (i_tree x) < cp_ts (r_new (i_rctx x)))%Z.

Definition inst_inv (h : list (cp * list sleaf)) (x : inst) : Prop :=
  match i_pc x with
  | PNone | PDead | PStopped => True
  | PCreate k => (3 <= k)%nat -> In (i_tree x, []) h
  | PLoad LLock => True
  | PLoad _ => exists ls, In (i_lockcp x, ls) h
  | PIdle => loaded h x
  | PRound RClock => loaded h x
  | PRound RStaging | PRound RCas => loaded h x /\ rctx_ok x
  | PRound _ => loaded h x /\ r_new (i_rctx x) = i_tree x
  end.

Definition lock_last (h : list (cp * list sleaf)) (l : option cp) : Prop :=
  match l with None => h = [] | Some c => exists h' ls, h = h' ++ [(c, ls)] end.

Definition Inv (w : world) : Prop :=
  chain (w_lockhist w) /\ lock_last (w_lockhist w) (w_lock w)
  /\ (forall i x, get_inst (w_insts w) i = Some x -> inst_inv (w_lockhist w) x)
  /\ (forall c k, In (c, k) (w_pubhist w) -> exists ls, In (c, ls) (firstn k (w_lockhist w))).

Lemma Inv_init : Inv init.
Proof. repeat split; cbn; try discriminate; intros; contradiction. Qed.

Lemma inst_inv_mono h e x : inst_inv h x -> inst_inv (h ++ e) x.
Proof.
  unfold inst_inv, loaded. destruct (i_pc x) as [|k|ph| |ph| |]; auto.
  - intros H K. apply in_or_app. left. auto.
  - destruct ph; auto; intros [ls H]; exists ls; apply in_or_app; auto.
  - intros [H E]. split; [apply in_or_app; auto|assumption].
  - destruct ph; intros H.
    + destruct H as [H E]. split; [apply in_or_app; auto|assumption].
    + destruct H as [[H E] R]. split; [split; [apply in_or_app; auto|assumption]|assumption].
    + destruct H as [[H E] R]. split; [split; [apply in_or_app; auto|assumption]|assumption].
    + destruct H as [[H E] R]. split; [split; [apply in_or_app; auto|assumption]|assumption].
    + destruct H as [[H E] R]. split; [split; [apply in_or_app; auto|assumption]|assumption].
    + destruct H as [[H E] R]. split; [split; [apply in_or_app; auto|assumption]|assumption].
Qed.

(* inst_inv only looks at these fields *)
Lemma inst_inv_core h x y :
  i_pc x = i_pc y -> i_tree x = i_tree y -> i_lockcp x = i_lockcp y -> i_leaves x = i_leaves y ->
  i_rctx x = i_rctx y -> inst_inv h x -> inst_inv h y.
Proof.
  unfold inst_inv, loaded, rctx_ok. intros E1 E2 E3 E4 E5. rewrite E1, E2, E3, E4, E5. auto.
Qed.

Lemma get_set_same l i x : get_inst (set_inst l i x) i = Some x.
Proof.
  induction l as [|[j y] r IH]; cbn.
  - now rewrite Nat.eqb_refl.
  - destruct (Nat.eqb_spec i j); cbn.
    + now rewrite Nat.eqb_refl.
    + destruct (Nat.eqb_spec i j); [contradiction|assumption].
Qed.

Lemma get_set_other l i j x : i <> j -> get_inst (set_inst l i x) j = get_inst l j.
Proof.
  intro N. induction l as [|[k y] r IH]; cbn.
  - destruct (Nat.eqb_spec j i); [congruence|reflexivity].
  - destruct (Nat.eqb_spec i k); cbn.
    + subst k. destruct (Nat.eqb_spec j i); [congruence|reflexivity].
    + destruct (Nat.eqb_spec j k); [reflexivity|assumption].
Qed.

(* the generic preservation lemma: same lock history, one instance replaced, published
   checkpoints still all committed *)
Lemma Inv_upd w w' i x' :
  Inv w ->
  w_lockhist w' = w_lockhist w -> w_lock w' = w_lock w ->
  w_insts w' = set_inst (w_insts w) i x' ->
  (forall c k, In (c, k) (w_pubhist w') ->
     In (c, k) (w_pubhist w) \/ (k = length (w_lockhist w) /\ exists ls, In (c, ls) (w_lockhist w))) ->
  inst_inv (w_lockhist w) x' -> Inv w'.
Proof.
  intros (C & L & II & P) Eh El Ei Hp Hx. unfold Inv. rewrite Eh, El, Ei.
  split; [assumption|]. split; [assumption|]. split.
  - intros j y G. destruct (Nat.eq_dec i j) as [->|N].
    + rewrite get_set_same in G. inversion G; subst. assumption.
    + rewrite get_set_other in G by assumption. eauto.
  - intros c k Hc. destruct (Hp c k Hc) as [H|[-> H]]; auto. now rewrite firstn_all.
Qed.

Lemma in_firstn_app {A} (x : A) k h e : In x (firstn k h) -> In x (firstn k (h ++ e)).
Proof. intro H. rewrite firstn_app. apply in_or_app. auto. Qed.

(* the same with the lock history extended by one committed checkpoint *)
Lemma Inv_ext w w' i x' c ls :
  Inv w ->
  w_lockhist w' = w_lockhist w ++ [(c, ls)] -> w_lock w' = Some c -> chain (w_lockhist w') ->
  w_insts w' = set_inst (w_insts w) i x' ->
  w_pubhist w' = w_pubhist w ->
  inst_inv (w_lockhist w') x' -> Inv w'.
Proof.
  intros (C & L & II & P) Eh El Ch Ei Hp Hx. unfold Inv.
  split; [assumption|]. split; [rewrite El, Eh; cbn; eauto|]. split.
  - rewrite Ei. intros j y G. destruct (Nat.eq_dec i j) as [->|N].
    + rewrite get_set_same in G. inversion G; subst. assumption.
    + rewrite get_set_other in G by assumption. rewrite Eh. apply inst_inv_mono. eauto.
  - intros c0 k Hc. rewrite Hp in Hc. destruct (P c0 k Hc) as [l0 H0]. exists l0. rewrite Eh.
    now apply in_firstn_app.
Qed.

(* ---------- frame facts about the helper functions ---------- *)
Lemma upload_frame w i k o opt f w1 ok ob :
  world_upload w i k o opt f = (w1, ok, ob) ->
  w_lockhist w1 = w_lockhist w /\ w_lock w1 = w_lock w /\ w_insts w1 = w_insts w /\
  (w_pubhist w1 = w_pubhist w \/ exists c, o = OC c /\ w_pubhist w1 = w_pubhist w ++ [(c, length (w_lockhist w))]).
Proof.
  unfold world_upload. destruct (do_upload (w_store w) k o (immutable opt) f) as [s' ok'].
  intro E. inversion E; subst; clear E. cbn [w_lockhist w_lock w_insts w_pubhist].
  repeat split; try reflexivity.
  destruct o as [b|c|u]; auto.
  match goal with |- context [if ?b then _ else _] => destruct b end; [right; eauto|left; reflexivity].
Qed.

Lemma fail_pool_frame w i p e w1 o :
  fail_pool w i p e = (w1, o) ->
  w_lockhist w1 = w_lockhist w /\ w_lock w1 = w_lock w /\ w_insts w1 = w_insts w /\ w_pubhist w1 = w_pubhist w.
Proof. unfold fail_pool. intro E. inversion E; subst. cbn. auto. Qed.

Lemma pub_ok_of (w w1 : world) (o : obj) :
  (w_pubhist w1 = w_pubhist w \/ exists c, o = OC c /\ w_pubhist w1 = w_pubhist w ++ [(c, length (w_lockhist w))]) ->
  (forall c, o = OC c -> exists ls, In (c, ls) (w_lockhist w)) ->
  forall c k, In (c, k) (w_pubhist w1) ->
    In (c, k) (w_pubhist w) \/ (k = length (w_lockhist w) /\ exists ls, In (c, ls) (w_lockhist w)).
Proof.
  intros [E|[c0 [Eo E]]] Hc c k Hin; rewrite E in Hin; auto.
  apply in_app_or in Hin. destruct Hin as [H|[H|[]]]; auto. inversion H; subst. right. auto.
Qed.

Lemma end_round_frame w i x res w1 o :
  end_round w i x res = (w1, o) ->
  w_lockhist w1 = w_lockhist w /\ w_lock w1 = w_lock w /\ w_pubhist w1 = w_pubhist w /\
  exists x1, w_insts w1 = set_inst (w_insts w) i x1 /\ (i_pc x1 = PIdle \/ i_pc x1 = PStopped) /\
    i_tree x1 = i_tree x /\ i_lockcp x1 = i_lockcp x /\ i_leaves x1 = i_leaves x.
Proof.
  unfold end_round. destruct res as [e|].
  - destruct e;
      repeat match goal with
             | |- context [fail_pool ?a ?b ?c ?d] =>
               let E := fresh "E" in destruct (fail_pool a b c d) as [? ?] eqn:E;
               apply fail_pool_frame in E; destruct E as (? & ? & ? & ?)
             end;
      intro E0; inversion E0; subst; clear E0;
      cbn [w_lockhist w_lock w_pubhist w_insts set_i add_acks] in *;
      (split; [congruence|]); (split; [congruence|]); (split; [congruence|]);
      eexists; (split; [etransitivity; [eassumption|]; try (etransitivity; [eassumption|]); reflexivity|]);
      cbn; auto.
  - intro E0; inversion E0; subst; clear E0. cbn [w_lockhist w_lock w_pubhist w_insts set_i add_acks].
    repeat split; try reflexivity. eexists. split; [reflexivity|]. cbn. auto.
Qed.

Lemma inst_inv_after_round h x x1 :
  loaded h x -> (i_pc x1 = PIdle \/ i_pc x1 = PStopped) ->
  i_tree x1 = i_tree x -> i_lockcp x1 = i_lockcp x -> i_leaves x1 = i_leaves x -> inst_inv h x1.
Proof.
  intros [L E] [P|P] E1 E2 E3; unfold inst_inv, loaded; rewrite P; [|exact I].
  rewrite E1, E2, E3. auto.
Qed.

End I.
