(* Ctlog/Inv2.v — second invariant layer: every acknowledgement and every dedup-cache row names an
   index of a committed tree that really holds that entry (same dedup key, that timestamp, that
   index). With the chain invariant this stays true in every later committed tree. *)
From SL Require Import Base.BytesProofs Ctlog.Model Ctlog.Spec Ctlog.Inv Ctlog.InvStep.
From Coq Require Import ZifyN ZifyNat ZifyBool.
Open Scope N_scope.

Section I.
Variable sha : bytes -> bytes.
Notation step := (step sha).
Notation run := (run sha).
Notation end_round := (end_round sha).
Notation step_create := (step_create sha).
Notation step_load := (step_load sha).
Notation step_round := (step_round sha).
Notation step_clock := (step_clock sha).
Notation step_submit := (step_submit sha).
Notation Inv := (Inv sha).
Notation ckey := (ckey sha).
Notation new_sleaves := (new_sleaves sha).

Notation leaf_ckey := (leaf_ckey sha).

Lemma ckey_leaf_of e idx ts : leaf_ckey (leaf_of sha e idx ts) = ckey e.
Proof. reflexivity. Qed.

(* index idx of some committed tree holds an entry with dedup key k, timestamp ts, index idx *)
Definition holds_at (h : list (cp * list sleaf)) (k : bytes) (idx : N) (ts : Z) : Prop :=
  exists c ls sl, In (c, ls) h /\ nth_error ls (N.to_nat idx) = Some sl /\
    leaf_ckey (sl_leaf sl) = k /\ l_ts (sl_leaf sl) = ts /\ l_idx (sl_leaf sl) = Z.of_N idx.

Definition ack_ok (h : list (cp * list sleaf)) (a : ack) : Prop :=
  match a_res a with Some (idx, ts) => holds_at h (ckey (a_entry a)) idx ts | None => True end.

Definition cache_ok (h : list (cp * list sleaf)) (c : list (bytes * (N * Z))) : Prop :=
  forall k idx ts, In (k, (idx, ts)) c -> holds_at h k idx ts.

Definition round2 (x : inst) : Prop :=
  let r := i_rctx x in
  match i_pc x with
  | PRound RStaging | PRound RCas =>
    r_all r = i_leaves x ++ new_sleaves (i_inseq x) (r_first r) (r_ts r)
    /\ r_first r = N.of_nat (length (i_leaves x))
  | PRound (RTiles _ _) | PRound RCheckpoint | PRound RDiscard =>
    i_leaves x = r_all r /\
    exists pre, i_leaves x = pre ++ new_sleaves (i_inseq x) (r_first r) (r_ts r)
                /\ r_first r = N.of_nat (length pre)
  | _ => True
  end.

Definition inst2 (h : list (cp * list sleaf)) (x : inst) : Prop := cache_ok h (i_cache x) /\ round2 x.

Definition Inv2 (w : world) : Prop :=
  (forall a, In a (w_acks w) -> ack_ok (w_lockhist w) a)
  /\ (forall i x, get_inst (w_insts w) i = Some x -> inst2 (w_lockhist w) x).

Lemma Inv2_init : Inv2 init.
Proof. split; cbn; [intros a []|discriminate]. Qed.

Lemma holds_at_mono h e k idx ts : holds_at h k idx ts -> holds_at (h ++ e) k idx ts.
Proof. intros (c & ls & sl & H & R). exists c, ls, sl. split; [apply in_or_app; auto|assumption]. Qed.

Lemma ack_ok_mono h e a : ack_ok h a -> ack_ok (h ++ e) a.
Proof. unfold ack_ok. destruct (a_res a) as [[idx ts]|]; auto. apply holds_at_mono. Qed.

Lemma inst2_mono h e x : inst2 h x -> inst2 (h ++ e) x.
Proof. intros [C R]. split; [|assumption]. intros k idx ts H. apply holds_at_mono. eauto. Qed.

Lemma inst2_core h x y :
  i_pc x = i_pc y -> i_leaves x = i_leaves y -> i_inseq x = i_inseq y -> i_rctx x = i_rctx y ->
  i_cache x = i_cache y -> inst2 h x -> inst2 h y.
Proof. unfold inst2, round2. intros E1 E2 E3 E4 E5. rewrite E1, E2, E3, E4, E5. auto. Qed.

(* generic preservation: the lock history grows by [ext] (possibly nothing), one instance is
   replaced, new acknowledgements are justified *)
Lemma Inv2_upd w w' i x' ext :
  Inv2 w -> w_lockhist w' = w_lockhist w ++ ext ->
  w_insts w' = set_inst (w_insts w) i x' ->
  (forall a, In a (w_acks w') -> In a (w_acks w) \/ ack_ok (w_lockhist w') a) ->
  inst2 (w_lockhist w') x' -> Inv2 w'.
Proof.
  intros [A II] Eh Ei Ha Hx. split.
  - intros a Hin. destruct (Ha a Hin) as [H|H]; [|assumption]. rewrite Eh. apply ack_ok_mono. auto.
  - rewrite Ei. intros j y G. destruct (Nat.eq_dec i j) as [->|N].
    + rewrite get_set_same in G. inversion G; subst. assumption.
    + rewrite get_set_other in G by assumption. rewrite Eh. apply inst2_mono. eauto.
Qed.

Lemma inst2_of w i x : Inv2 w -> get_inst (w_insts w) i = Some x -> inst2 (w_lockhist w) x.
Proof. intros [_ II] G. eauto. Qed.

(* ---------- frames for acknowledgements ---------- *)
Lemma upload_acks w i k o opt f w1 ok ob :
  world_upload w i k o opt f = (w1, ok, ob) -> w_acks w1 = w_acks w.
Proof.
  unfold world_upload. destruct (do_upload _ _ _ _ _) as [s' ok']. intro E. inversion E; subst. reflexivity.
Qed.

Lemma acks_of_pool_err w i p e a :
  In a (acks_of_pool w i p (fun _ _ => (None, Some e))) -> a_res a = None.
Proof.
  unfold acks_of_pool. generalize O. induction (pl_leaves p) as [|y l IH]; intros k H; [destruct H|].
  destruct H as [E|H]; [subst; reflexivity|eauto].
Qed.

Lemma fail_pool_acks w i p e w1 o a :
  fail_pool w i p e = (w1, o) -> In a (w_acks w1) -> In a (w_acks w) \/ a_res a = None.
Proof.
  unfold fail_pool. intro E. inversion E; subst. cbn [w_acks add_acks]. intro H.
  apply in_app_or in H. destruct H as [H|H]; [auto|right; eapply acks_of_pool_err; eauto].
Qed.

Lemma ack_ok_none h a : a_res a = None -> ack_ok h a.
Proof. unfold ack_ok. intros ->. exact I. Qed.

(* ---------- the successful end of a round ---------- *)
Lemma new_sleaves_nth p first ts k :
  nth_error (new_sleaves p first ts) k =
  option_map (fun x => mkSleaf (leaf_of sha (p_entry x) (first + N.of_nat k) ts) (names_line (e_names (p_entry x)) ts))
             (nth_error (pl_leaves p) k).
Proof.
  unfold Model.new_sleaves. revert first k.
  induction (pl_leaves p) as [|y l IH]; intros first k.
  - destruct k; reflexivity.
  - destruct k as [|k]; cbn [nth_error option_map].
    + f_equal. f_equal. f_equal. lia.
    + rewrite IH. destruct (nth_error l k); cbn [option_map]; [|reflexivity].
      f_equal. f_equal. f_equal. lia.
Qed.

Lemma acks_of_pool_ok w i p first ts a :
  In a (acks_of_pool w i p (fun _ k => (Some (first + N.of_nat k, ts), None))) ->
  exists k x, nth_error (pl_leaves p) k = Some x /\ a_entry a = p_entry x
              /\ a_res a = Some (first + N.of_nat k, ts).
Proof.
  unfold acks_of_pool.
  assert (G : forall l k0 a,
    In a ((fix go (l : list pend) (k : nat) {struct l} : list ack :=
            match l with
            | [] => []
            | x :: r => let '(ok, er) := (Some (first + N.of_nat k, ts), @None errc) in
                        mkAck (p_wid x) i (p_entry x) ok er (published w) :: go r (S k)
            end) l k0) ->
    exists k x, nth_error l k = Some x /\ a_entry a = p_entry x /\ a_res a = Some (first + N.of_nat (k0 + k), ts)).
  { induction l as [|y l IH]; intros k0 a0 H; [destruct H|].
    destruct H as [E|H].
    - subst a0. exists O, y. cbn. rewrite Nat.add_0_r. auto.
    - apply IH in H. destruct H as (k & x & Hn & He & Hr). exists (S k), x. cbn [nth_error].
      split; [assumption|]. split; [assumption|]. rewrite Hr. f_equal. f_equal. lia. }
  intro H. apply G in H. destruct H as (k & x & Hn & He & Hr). exists k, x. auto.
Qed.

(* the k-th pending entry of the sequenced pool sits at index first+k of the instance's tree *)
Lemma holds_new h x pre k y :
  In (i_lockcp x, i_leaves x) h ->
  i_leaves x = pre ++ new_sleaves (i_inseq x) (r_first (i_rctx x)) (r_ts (i_rctx x)) ->
  r_first (i_rctx x) = N.of_nat (length pre) ->
  nth_error (pl_leaves (i_inseq x)) k = Some y ->
  holds_at h (ckey (p_entry y)) (r_first (i_rctx x) + N.of_nat k) (r_ts (i_rctx x)).
Proof.
  intros Hin El Ef Hn.
  exists (i_lockcp x), (i_leaves x),
    (mkSleaf (leaf_of sha (p_entry y) (r_first (i_rctx x) + N.of_nat k) (r_ts (i_rctx x))) (names_line (e_names (p_entry y)) (r_ts (i_rctx x)))).
  split; [assumption|]. split.
  - rewrite El. rewrite nth_error_app2 by lia.
    replace (N.to_nat (r_first (i_rctx x) + N.of_nat k) - length pre)%nat with k by lia.
    rewrite new_sleaves_nth, Hn. reflexivity.
  - cbn. auto.
Qed.

Lemma end_round_ok_inv2 w0 w i x :
  Inv w0 -> Inv2 w0 -> get_inst (w_insts w0) i = Some x ->
  w_lockhist w = w_lockhist w0 -> w_insts w = w_insts w0 -> w_acks w = w_acks w0 ->
  Inv.loaded (w_lockhist w0) x ->
  i_leaves x = r_all (i_rctx x) ->
  (exists pre, i_leaves x = pre ++ new_sleaves (i_inseq x) (r_first (i_rctx x)) (r_ts (i_rctx x))
               /\ r_first (i_rctx x) = N.of_nat (length pre)) ->
  Inv2 (fst (end_round w i x None)).
Proof.
  intros HI HI2 G Eh Ei Ea [Lin _] Eall (pre & El & Ef).
  pose proof (inst2_of _ _ _ HI2 G) as [Hc _].
  unfold Model.end_round. cbn [fst].
  eapply Inv2_upd with (i := i) (ext := []); [eassumption| | | |].
  - cbn [w_lockhist add_acks set_i]. rewrite Eh, app_nil_r. reflexivity.
  - cbn [w_insts add_acks set_i]. rewrite Ei. reflexivity.
  - cbn [w_acks w_lockhist add_acks set_i]. intros a Hin. apply in_app_or in Hin.
    destruct Hin as [H|H]; [left; congruence|]. right.
    apply acks_of_pool_ok in H. destruct H as (k & y & Hn & He & Hr).
    unfold ack_ok. rewrite Hr, He, Eh. eapply holds_new; eauto.
  - cbn [w_lockhist add_acks set_i]. rewrite Eh. split; [|exact I].
    cbn [i_cache].
    match goal with |- cache_ok _ (if ?b then _ else _) => destruct b end; [assumption|].
    intros k idx ts Hin. apply in_app_or in Hin. destruct Hin as [H|H]; [eauto|].
    apply in_map_iff in H. destruct H as (s & Es & Hs). inversion Es; subst; clear Es.
    rewrite <- Eall, El in Hs. rewrite Ef, Nat2N.id in Hs.
    rewrite skipn_app, skipn_all, Nat.sub_diag in Hs. cbn [app skipn] in Hs.
    apply In_nth_error in Hs. destruct Hs as [j Hj].
    rewrite new_sleaves_nth in Hj.
    destruct (nth_error (pl_leaves (i_inseq x)) j) as [y|] eqn:Ey; [|discriminate].
    cbn [option_map] in Hj. inversion Hj; subst s; clear Hj. cbn [sl_leaf leaf_of l_idx l_ts l_cert l_pre l_ikh].
    rewrite N2Z.id. rewrite <- Ef.
    pose proof (holds_new (w_lockhist w0) x pre j y Lin El Ef Ey) as H. exact H.
Qed.

(* a failed round, a stop, a crash: only error acknowledgements, the cache is kept *)
Lemma end_round_err_inv2 w0 w i x e :
  Inv2 w0 -> get_inst (w_insts w0) i = Some x ->
  w_lockhist w = w_lockhist w0 -> w_insts w = w_insts w0 -> w_acks w = w_acks w0 ->
  Inv2 (fst (end_round w i x (Some e))).
Proof.
  intros HI2 G Eh Ei Ea.
  pose proof (inst2_of _ _ _ HI2 G) as [Hc _].
  destruct (end_round w i x (Some e)) as [w1 o] eqn:E. cbn [fst].
  unfold Model.end_round in E.
  destruct e;
    repeat match type of E with
           | context [fail_pool ?a ?b ?c ?d] =>
             let F := fresh "F" in let w' := fresh "w" in let o' := fresh "o" in
             destruct (fail_pool a b c d) as [w' o'] eqn:F
           end;
    inversion E; subst; clear E;
    repeat match goal with
           | F : fail_pool _ _ _ _ = _ |- _ =>
             let A := fresh "A" in
             pose proof (fail_pool_frame _ _ _ _ _ _ F) as A;
             pose proof (fun a => fail_pool_acks _ _ _ _ _ _ a F);
             clear F
           end;
    (eapply Inv2_upd with (i := i) (ext := []);
     [eassumption
     | rewrite app_nil_r; cbn [w_lockhist set_i] in *; intuition congruence
     | cbn [w_insts set_i] in *; (intuition idtac);
       repeat match goal with H : w_insts _ = _ |- _ => rewrite H; clear H end; cbn [w_insts set_i]; rewrite ?Ei; reflexivity
     | | ]).
  all: try (split; [cbn [i_cache]; cbn [w_lockhist set_i] in *;
                    repeat match goal with H : _ /\ _ |- _ => destruct H end;
                    repeat match goal with H : w_lockhist _ = _ |- _ => rewrite H; clear H end;
                    cbn [w_lockhist set_i]; rewrite ?Eh; assumption | exact I]).
  all: intros a Hin;
       repeat match goal with
              | H : forall a, In a (w_acks ?w') -> _ |- _ =>
                match type of Hin with In a (w_acks w') => apply H in Hin; clear H end
              | Hin : _ \/ _ |- _ => destruct Hin as [Hin|Hin]
              end;
       try (right; apply ack_ok_none; assumption);
       cbn [w_acks set_i] in Hin; left; congruence.
Qed.

End I.
