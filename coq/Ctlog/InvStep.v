(* Ctlog/InvStep.v — every event preserves the invariant of Ctlog/Inv.v *)
From SL Require Import Base.BytesProofs Ctlog.Model Ctlog.Recompute Ctlog.Spec Ctlog.Inv.
From Coq Require Import ZifyN ZifyNat ZifyBool.
Open Scope N_scope.

Section I.
Variable sha : bytes -> bytes.
Notation mroot := (mroot sha).
Notation leaf_hashes := (leaf_hashes sha).
Notation wfcp := (wfcp sha).
Notation chain := (chain sha).
Notation step := (step sha).
Notation run := (run sha).
Notation end_round := (end_round sha).
Notation step_create := (step_create sha).
Notation step_load := (step_load sha).
Notation step_round := (step_round sha).
Notation step_clock := (step_clock sha).
Notation step_submit := (step_submit sha).
Notation Inv := (Inv sha).
Notation rctx_ok := (rctx_ok sha).
Notation inst_inv := (inst_inv sha).

Ltac upd_with i x1 :=
  eapply Inv_upd with (i := i) (x' := x1);
  [eassumption | cbn [w_lockhist set_i]; congruence | cbn [w_lock set_i]; congruence
  | cbn [w_insts set_i]; congruence | cbn [w_pubhist set_i]; try assumption | ].

Ltac fields := cbn [w_lockhist w_lock w_pubhist w_insts w_store set_i add_acks set_store fst snd] in *.

Lemma length_new_sleaves p first ts : length (new_sleaves sha p first ts) = length (pl_leaves p).
Proof.
  unfold new_sleaves. generalize first. induction (pl_leaves p) as [|a l IH]; intro k; cbn; [reflexivity|].
  now rewrite IH.
Qed.

Lemma inst_of_inv w i x : Inv w -> get_inst (w_insts w) i = Some x -> inst_inv (w_lockhist w) x.
Proof. intros (_ & _ & II & _) G. eauto. Qed.

Lemma loaded_wf w x : Inv w -> loaded (w_lockhist w) x -> wfcp (i_tree x) (i_leaves x).
Proof. intros (C & _) [L E]. rewrite E. eapply chain_wf; eauto. Qed.

Lemma step_clock_inv w i x :
  Inv w -> get_inst (w_insts w) i = Some x -> i_pc x = PRound RClock ->
  Inv (fst (step_clock w i x)).
Proof.
  intros HI G Hpc. pose proof (inst_of_inv _ _ _ HI G) as Hx.
  unfold Inv.inst_inv in Hx. rewrite Hpc in Hx.
  unfold Model.step_clock.
  destruct (w_now w <=? cp_ts (i_tree x))%Z eqn:Ets.
  - destruct (fail_pool _ _ _ _) as [w1 o1] eqn:E1.
    destruct (fail_pool w1 _ _ _) as [w2 o2] eqn:E2.
    apply fail_pool_frame in E1. destruct E1 as (A1 & A2 & A3 & A4).
    apply fail_pool_frame in E2. destruct E2 as (B1 & B2 & B3 & B4). fields.
    eapply Inv_upd with (i := i); try eassumption; fields; try congruence.
    + rewrite B3, A3. reflexivity.
    + intros c k Hc. left. congruence.
    + exact I.
  - fields.
    set (nl := new_sleaves sha (i_inseq x) (cp_size (i_tree x)) (w_now w)).
    eapply Inv_upd with (i := i); try eassumption; fields; try reflexivity.
    + intros c k Hc. auto.
    + destruct (loaded_wf _ _ HI Hx) as (Sz & Rt & Ix).
      assert (RO : Inv.loaded (w_lockhist w) x /\
                   prefix (i_leaves x) (i_leaves x ++ nl) /\
                   wfcp (mkCp (c_name (i_cfg x)) (cp_size (i_tree x) + N.of_nat (length nl))
                              (mroot (leaf_hashes (i_leaves x ++ nl))) (w_now w) (c_key (i_cfg x)) [])
                        (i_leaves x ++ nl) /\
                   (cp_ts (i_tree x) < w_now w)%Z).
      { split; [assumption|]. split; [exists nl; reflexivity|]. split; [|lia].
        split; cbn [cp_size cp_root]; [rewrite app_length; lia|]. split; [reflexivity|].
        subst nl. rewrite Sz. apply idx_ok_app_new. exact Ix. }
      destruct RO as (L & P & W & T).
      unfold Inv.inst_inv.
      destruct (round_uploads _ _ _ _); cbn [i_pc];
        (split; [exact L|]); unfold Inv.rctx_ok; cbn [i_rctx i_leaves i_tree r_all r_new cp_ts]; auto.
Qed.

(* after a failed/finished round: the instance keeps its tree *)
Lemma end_round_inv w0 w i x res :
  Inv w0 -> w_lockhist w = w_lockhist w0 -> w_lock w = w_lock w0 -> w_insts w = w_insts w0 ->
  (forall c k, In (c, k) (w_pubhist w) -> In (c, k) (w_pubhist w0) \/ (k = length (w_lockhist w0) /\ exists ls, In (c, ls) (w_lockhist w0))) ->
  Inv.loaded (w_lockhist w0) x ->
  Inv (fst (end_round w i x res)).
Proof.
  intros HI Eh El Ei Hp L.
  destruct (end_round w i x res) as [w1 o] eqn:E. fields.
  apply end_round_frame in E. destruct E as (A1 & A2 & A3 & x1 & A4 & Hpc & T1 & T2 & T3).
  eapply Inv_upd with (i := i) (x' := x1); try eassumption; try congruence.
  - intros c k Hc. rewrite A3 in Hc. auto.
  - eapply inst_inv_after_round; eauto.
Qed.

Lemma step_staging_inv w i x f choice :
  Inv w -> get_inst (w_insts w) i = Some x -> i_pc x = PRound RStaging ->
  Inv (fst (step_round w i x RStaging f choice)).
Proof.
  intros HI G Hpc. pose proof (inst_of_inv _ _ _ HI G) as Hx.
  unfold Inv.inst_inv in Hx. rewrite Hpc in Hx. destruct Hx as [L R].
  unfold Model.step_round.
  destruct (world_upload _ _ _ _ _ _) as [[w1 ok] o] eqn:E.
  apply upload_frame in E. destruct E as (A1 & A2 & A3 & A4).
  assert (Hp : forall c k, In (c, k) (w_pubhist w1) -> In (c, k) (w_pubhist w) \/ (k = length (w_lockhist w) /\ exists ls, In (c, ls) (w_lockhist w))).
  { eapply pub_ok_of; eauto. intros c Hc. discriminate. }
  destruct ok.
  - fields. upd_with i (upd_pc x (PRound RCas)).
    unfold Inv.inst_inv. cbn [i_pc upd_pc]. split; assumption.
  - destruct (end_round w1 i x (Some ENonFatal)) as [w2 o2] eqn:E2. fields.
    replace w2 with (fst (end_round w1 i x (Some ENonFatal))) by (rewrite E2; reflexivity).
    eapply end_round_inv; eauto.
Qed.

Lemma step_tiles_inv w i x todo failed f choice :
  Inv w -> get_inst (w_insts w) i = Some x -> i_pc x = PRound (RTiles todo failed) ->
  Inv (fst (step_round w i x (RTiles todo failed) f choice)).
Proof.
  intros HI G Hpc. pose proof (inst_of_inv _ _ _ HI G) as Hx.
  unfold Inv.inst_inv in Hx. rewrite Hpc in Hx. destruct Hx as [L R].
  unfold Model.step_round.
  destruct (take_upload todo choice) as [[u rest]|]; [|exact HI].
  destruct (world_upload _ _ _ _ _ _) as [[w1 ok] o] eqn:E.
  apply upload_frame in E. destruct E as (A1 & A2 & A3 & A4).
  assert (Hp : forall c k, In (c, k) (w_pubhist w1) -> In (c, k) (w_pubhist w) \/ (k = length (w_lockhist w) /\ exists ls, In (c, ls) (w_lockhist w))).
  { eapply pub_ok_of; eauto. intros c Hc. unfold opt_obj in Hc. discriminate. }
  destruct rest as [|u' rest'].
  - destruct (failed || negb ok).
    + destruct (end_round w1 i x (Some EFatal)) as [w2 o2] eqn:E2. fields.
      replace w2 with (fst (end_round w1 i x (Some EFatal))) by (rewrite E2; reflexivity).
      eapply end_round_inv; eauto.
    + fields. upd_with i (upd_pc x (PRound RCheckpoint)).
      unfold Inv.inst_inv. cbn [i_pc upd_pc]. split; assumption.
  - fields. upd_with i (upd_pc x (PRound (RTiles (u' :: rest') (failed || negb ok)))).
    unfold Inv.inst_inv. cbn [i_pc upd_pc]. split; assumption.
Qed.

Lemma step_checkpoint_inv w i x f choice :
  Inv w -> get_inst (w_insts w) i = Some x -> i_pc x = PRound RCheckpoint ->
  Inv (fst (step_round w i x RCheckpoint f choice)).
Proof.
  intros HI G Hpc. pose proof (inst_of_inv _ _ _ HI G) as Hx.
  unfold Inv.inst_inv in Hx. rewrite Hpc in Hx. destruct Hx as [L R].
  unfold Model.step_round.
  destruct (world_upload _ _ _ _ _ _) as [[w1 ok] o] eqn:E.
  apply upload_frame in E. destruct E as (A1 & A2 & A3 & A4).
  assert (Hp : forall c k, In (c, k) (w_pubhist w1) -> In (c, k) (w_pubhist w) \/ (k = length (w_lockhist w) /\ exists ls, In (c, ls) (w_lockhist w))).
  { eapply pub_ok_of; eauto. intros c Hc. inversion Hc; subst. rewrite R.
    destruct L as [L E]. rewrite E. eauto. }
  destruct ok.
  - destruct (r_ups (i_rctx x)).
    + destruct (end_round w1 i x None) as [w2 o2] eqn:E2. fields.
      replace w2 with (fst (end_round w1 i x None)) by (rewrite E2; reflexivity).
      eapply end_round_inv; eauto.
    + fields. upd_with i (upd_pc x (PRound RDiscard)).
      unfold Inv.inst_inv. cbn [i_pc upd_pc]. split; assumption.
  - destruct (end_round w1 i x (Some ENonFatal)) as [w2 o2] eqn:E2. fields.
    replace w2 with (fst (end_round w1 i x (Some ENonFatal))) by (rewrite E2; reflexivity).
    eapply end_round_inv; eauto.
Qed.

Lemma step_discard_inv w i x f choice :
  Inv w -> get_inst (w_insts w) i = Some x -> i_pc x = PRound RDiscard ->
  Inv (fst (step_round w i x RDiscard f choice)).
Proof.
  intros HI G Hpc. pose proof (inst_of_inv _ _ _ HI G) as Hx.
  unfold Inv.inst_inv in Hx. rewrite Hpc in Hx. destruct Hx as [L R].
  unfold Model.step_round.
  match goal with |- context [end_round ?a i x None] => set (w1 := a) end.
  destruct (end_round w1 i x None) as [w2 o2] eqn:E2. fields.
  replace w2 with (fst (end_round w1 i x None)) by (rewrite E2; reflexivity).
  eapply end_round_inv; eauto; subst w1; fields; auto.
Qed.

Lemma last_unique (h h' : list (cp * list sleaf)) c l1 l2 :
  chain h -> h = h' ++ [(c, l1)] -> In (c, l2) h -> l1 = l2.
Proof.
  intros C E I'. eapply chain_unique; eauto. rewrite E. apply in_or_app. right. left. reflexivity.
Qed.

Lemma step_cas_inv w i x f choice :
  Inv w -> get_inst (w_insts w) i = Some x -> i_pc x = PRound RCas ->
  Inv (fst (step_round w i x RCas f choice)).
Proof.
  intros HI G Hpc. pose proof (inst_of_inv _ _ _ HI G) as Hx.
  unfold Inv.inst_inv in Hx. rewrite Hpc in Hx. destruct Hx as [L R].
  unfold Model.step_round.
  set (can := match w_lock w with Some c => cp_eqb c (i_lockcp x) | None => false end).
  set (r := i_rctx x). set (ncp := r_new r).
  destruct can eqn:Ecan; cbn [andb].
  - (* the lock still holds the value this instance extends *)
    unfold can in Ecan. destruct (w_lock w) as [c|] eqn:El; [|discriminate].
    apply cp_eqb_eq in Ecan. subst c.
    pose proof HI as HI0. destruct HI0 as (C & LL & II & P). rewrite El in LL. destruct LL as (h' & ls & Eh).
    destruct L as [Lin Etree].
    assert (ls = i_leaves x) by (eapply last_unique; eauto). subst ls.
    destruct R as (Pre & W & T).
    assert (C' : chain (w_lockhist w ++ [(ncp, r_all r)])).
    { rewrite Eh. apply chain_snoc; try assumption; [rewrite <- Eh; assumption|].
      rewrite <- Etree. assumption. }
    destruct (applied f) eqn:Eap.
    + (* the replacement took effect *)
      destruct (succeeded f) eqn:Esu.
      * fields.
        eapply Inv_ext with (i := i) (c := ncp) (ls := r_all r); try eassumption; fields; try reflexivity.
        unfold Inv.inst_inv, Inv.loaded.
        destruct (r_ups r); cbn [i_pc i_lockcp i_leaves i_tree i_rctx];
          (split; [split; [apply in_or_app; right; left; reflexivity|reflexivity]|reflexivity]).
      * (* applied, but the caller saw an error: fatal *)
        match goal with |- context [end_round ?a i x (Some EFatal)] => set (w1 := a) end.
        destruct (end_round w1 i x (Some EFatal)) as [w2 o2] eqn:E2. fields.
        apply end_round_frame in E2. destruct E2 as (A1 & A2 & A3 & x1 & A4 & Hp1 & T1 & T2 & T3).
        subst w1. fields.
        eapply Inv_ext with (i := i) (c := ncp) (ls := r_all r) (x' := x1); try eassumption; try congruence.
        rewrite A1. apply inst_inv_mono.
        eapply inst_inv_after_round with (x := x); eauto. split; assumption.
    + (* not applied *)
      assert (succeeded f = false) by (destruct f; cbn in *; congruence).
      rewrite H.
      destruct (end_round w i x (Some EFatal)) as [w2 o2] eqn:E2. fields.
      replace w2 with (fst (end_round w i x (Some EFatal))) by (rewrite E2; reflexivity).
      eapply end_round_inv; eauto. split; assumption.
  - (* refused: somebody else extended the checkpoint *)
    destruct (end_round w i x (Some EFatal)) as [w2 o2] eqn:E2. fields.
    replace w2 with (fst (end_round w i x (Some EFatal))) by (rewrite E2; reflexivity).
    eapply end_round_inv; eauto.
Qed.

Lemma step_round_inv w i x ph f choice :
  Inv w -> get_inst (w_insts w) i = Some x -> i_pc x = PRound ph ->
  Inv (fst (step_round w i x ph f choice)).
Proof.
  intros HI G Hpc. destruct ph.
  - apply step_clock_inv; assumption.
  - apply step_staging_inv; assumption.
  - apply step_cas_inv; assumption.
  - apply step_tiles_inv; assumption.
  - apply step_checkpoint_inv; assumption.
  - apply step_discard_inv; assumption.
Qed.

(* ---------- CreateLog ---------- *)
Lemma open_checkpoint_same c now lc y : open_checkpoint c now (OC lc) = inl (Some y) -> y = lc.
Proof.
  unfold open_checkpoint.
  repeat match goal with |- context [if ?b then _ else _] => destruct b end; intro E; inversion E; reflexivity.
Qed.

Lemma mroot_nil : mroot (leaf_hashes []) = hempty sha.
Proof. reflexivity. Qed.

Lemma step_create_inv w i x k f :
  Inv w -> get_inst (w_insts w) i = Some x -> i_pc x = PCreate k ->
  Inv (fst (step_create w i x k f)).
Proof.
  intros HI G Hpc. pose proof (inst_of_inv _ _ _ HI G) as Hx.
  unfold Inv.inst_inv in Hx. rewrite Hpc in Hx.
  unfold Model.step_create.
  destruct k as [|[|[|[|k]]]].
  - (* Lock.Fetch *)
    match goal with |- context [if ?b then _ else _] => destruct b end; cbn [fst].
    + upd_with i (upd_pc x PNone). { intros c k Hc; auto. } exact I.
    + upd_with i (upd_pc x (PCreate 1)). { intros c k Hc; auto. } unfold Inv.inst_inv; cbn. lia.
  - destruct (fetch w i k_checkpoint f) as [r o]. destruct r; cbn [fst].
    + upd_with i (upd_pc x PNone). { intros c k Hc; auto. } exact I.
    + upd_with i (upd_pc x (PCreate 2)). { intros c k Hc; auto. } unfold Inv.inst_inv; cbn. lia.
  - (* Lock.Create *)
    set (c0 := mkCp (c_name (i_cfg x)) 0 (hempty sha) (w_now w) (c_key (i_cfg x)) []).
    destruct (w_lock w) as [lc|] eqn:El; cbn [andb].
    + (* a log exists: refused, nothing changes *)
      cbn [fst]. upd_with i (upd_pc x PNone). { intros c k Hc; auto. } exact I.
    + pose proof HI as HI0. destruct HI0 as (C & LL & II & P). rewrite El in LL. cbn in LL.
      assert (C' : chain (w_lockhist w ++ [(c0, [])])).
      { rewrite LL. cbn [app]. apply chain_single. split; [reflexivity|]. split; [reflexivity|apply idx_ok_nil]. }
      destruct (applied f) eqn:Eap.
      * destruct (succeeded f) eqn:Esu; cbn [fst].
        -- eapply Inv_ext with (i := i) (c := c0) (ls := []); try eassumption; fields; try reflexivity.
           ++ unfold Inv.inst_inv. cbn [i_pc i_tree]. intros _. apply in_or_app. right. left. reflexivity.
        -- eapply Inv_ext with (i := i) (c := c0) (ls := []) (x' := upd_pc x PNone); try eassumption; fields; try reflexivity.

      * assert (Esu : succeeded f = false) by (destruct f; cbn in *; congruence). rewrite Esu.
        cbn [fst]. upd_with i (upd_pc x PNone). { intros c k Hc; auto. } exact I.
  - (* upload of the first checkpoint *)
    destruct (world_upload _ _ _ _ _ _) as [[w1 ok] o] eqn:E.
    apply upload_frame in E. destruct E as (A1 & A2 & A3 & A4).
    assert (Hp : forall c k, In (c, k) (w_pubhist w1) -> In (c, k) (w_pubhist w) \/ (k = length (w_lockhist w) /\ exists ls, In (c, ls) (w_lockhist w))).
    { eapply pub_ok_of; eauto. intros c Hc. inversion Hc; subst. exists []. apply Hx. lia. }
    destruct ok; cbn [fst].
    + upd_with i (upd_pc x (PCreate 4)). unfold Inv.inst_inv. cbn [i_pc upd_pc i_tree]. intros _. apply Hx. lia.
    + upd_with i (upd_pc x PNone). exact I.
  - destruct (world_upload _ _ _ _ _ _) as [[w1 ok] o] eqn:E.
    apply upload_frame in E. destruct E as (A1 & A2 & A3 & A4).
    assert (Hp : forall c k, In (c, k) (w_pubhist w1) -> In (c, k) (w_pubhist w) \/ (k = length (w_lockhist w) /\ exists ls, In (c, ls) (w_lockhist w))).
    { eapply pub_ok_of; eauto. intros c Hc. discriminate. }
    destruct ok; cbn [fst]; upd_with i (upd_pc x PNone); exact I.
Qed.

(* ---------- LoadLog ---------- *)
Lemma hist_leaves_in h c ls : hist_leaves h c = Some ls -> In (c, ls) h.
Proof.
  induction h as [|[c' l'] r IH]; cbn; [discriminate|].
  destruct (cp_eqb c c') eqn:E.
  - intro X; inversion X; subst. apply cp_eqb_eq in E. subst. left. reflexivity.
  - intro X. right. auto.
Qed.

Lemma hist_leaves_some h c ls : In (c, ls) h -> exists ls', hist_leaves h c = Some ls'.
Proof.
  induction h as [|[c' l'] r IH]; cbn; [intros []|].
  intros [E|I'].
  - inversion E; subst. rewrite cp_eqb_refl. eauto.
  - destruct (cp_eqb c c'); eauto.
Qed.

Definition loading (h : list (cp * list sleaf)) (x' : inst) : Prop :=
  i_pc x' = PNone \/ ((exists ph, i_pc x' = PLoad ph) /\ exists ls, In (i_lockcp x', ls) h).

Lemma loading_inv h x' : loading h x' -> inst_inv h x'.
Proof.
  unfold loading, Inv.inst_inv. intros [E|[[ph E] [ls L]]]; rewrite E; [exact I|].
  destruct ph; eauto.
Qed.

Lemma after_apply_inv w0 w i x :
  Inv w0 -> w_lockhist w = w_lockhist w0 -> w_lock w = w_lock w0 -> w_insts w = w_insts w0 ->
  (forall c k, In (c, k) (w_pubhist w) -> In (c, k) (w_pubhist w0) \/ (k = length (w_lockhist w0) /\ exists ls, In (c, ls) (w_lockhist w0))) ->
  (exists ls, In (i_lockcp x, ls) (w_lockhist w0)) ->
  Inv (fst (after_apply w i x)).
Proof.
  intros HI Eh El Ei Hp L. unfold after_apply.
  destruct (cp_size (i_lockcp x) =? 0); cbn [fst].
  - upd_with i (upd_pc x (PLoad LRoots)). apply loading_inv. right. cbn. eauto.
  - upd_with i (upd_pc x (PLoad (LEdge (rev (edge_tiles (cp_size (i_lockcp x))))))).
    apply loading_inv. right. cbn. eauto.
Qed.

Lemma step_load_inv w i x ph f choice :
  Inv w -> get_inst (w_insts w) i = Some x -> i_pc x = PLoad ph ->
  Inv (fst (step_load w i x ph f choice)).
Proof.
  intros HI G Hpc. pose proof (inst_of_inv _ _ _ HI G) as Hx.
  unfold Inv.inst_inv in Hx. rewrite Hpc in Hx.
  assert (Hp0 : forall c k, In (c, k) (w_pubhist w) -> In (c, k) (w_pubhist w) \/ (k = length (w_lockhist w) /\ exists ls, In (c, ls) (w_lockhist w))) by auto.
  assert (FAIL : forall why o, Inv (fst (load_fail w i x why o))).
  { intros why o. unfold load_fail. cbn [fst]. upd_with i (upd_pc x PNone). exact I. }
  unfold Model.step_load.
  destruct ph.
  - (* LLock *)
    match goal with |- context [match ?r with Some _ => _ | None => load_fail _ _ _ _ _ end] => destruct r as [lc|] eqn:Er end;
      [|apply FAIL].
    destruct (open_checkpoint (i_cfg x) (w_now w) (OC lc)) as [[lc'|]|why] eqn:Eo; try apply FAIL.
    apply open_checkpoint_same in Eo. subst lc'.
    cbn [fst]. upd_with i (set_load x LPub lc cp0).
    apply loading_inv. right. cbn [set_load i_pc i_lockcp]. split; [eauto|].
    destruct (succeeded f); [|discriminate].
    destruct (w_lock w) as [l0|] eqn:El; [|discriminate].
    destruct (cp_key l0 =? c_key (i_cfg x)); [|discriminate]. inversion Er; subst l0.
    destruct HI as (_ & LL & _). rewrite El in LL. destruct LL as (h' & ls & Eh).
    exists ls. rewrite Eh. apply in_or_app. right. left. reflexivity.
  - (* LPub *)
    destruct (fetch w i k_checkpoint f) as [r o]. destruct r as [ob|]; [|apply FAIL].
    destruct (open_checkpoint (i_cfg x) (w_now w) ob) as [[p|]|why]; try apply FAIL.
    repeat match goal with |- context [if ?b then _ else _] => destruct b end; try apply FAIL.
    + cbn [fst]. upd_with i (set_load x LLegacy (i_lockcp x) p).
      apply loading_inv. right. cbn [set_load i_pc i_lockcp]. split; eauto.
    + destruct (after_apply w i (set_load x LLock (i_lockcp x) p)) as [w1 o1] eqn:E1. cbn [fst].
      replace w1 with (fst (after_apply w i (set_load x LLock (i_lockcp x) p))) by (rewrite E1; reflexivity).
      eapply after_apply_inv; eauto.
  - (* LLegacy *)
    destruct (fetch w i _ f) as [r o]. destruct r; [apply FAIL|].
    cbn [fst]. upd_with i (upd_pc x (PLoad LStaging)). apply loading_inv. right. cbn. split; eauto.
  - (* LStaging *)
    destruct (fetch w i _ f) as [r o]. destruct r as [[b|c|ups]|]; try apply FAIL.
    destruct ups as [|u ups].
    + destruct (after_apply w i x) as [w1 o1] eqn:E1. cbn [fst].
      replace w1 with (fst (after_apply w i x)) by (rewrite E1; reflexivity).
      eapply after_apply_inv; eauto.
    + cbn [fst]. upd_with i (upd_pc x (PLoad (LApply (u :: ups) false))). apply loading_inv. right. cbn. split; eauto.
  - (* LApply *)
    destruct (take_upload todo choice) as [[u rest]|]; [|exact HI].
    destruct (world_upload _ _ _ _ _ _) as [[w1 ok] o] eqn:E.
    apply upload_frame in E. destruct E as (A1 & A2 & A3 & A4).
    assert (Hp : forall c k, In (c, k) (w_pubhist w1) -> In (c, k) (w_pubhist w) \/ (k = length (w_lockhist w) /\ exists ls, In (c, ls) (w_lockhist w))).
    { eapply pub_ok_of; eauto. intros c Hc. unfold opt_obj in Hc. discriminate. }
    destruct rest as [|u' rest'].
    + destruct (failed || negb ok).
      * unfold load_fail. cbn [fst]. upd_with i (upd_pc x PNone). exact I.
      * destruct (after_apply w1 i x) as [w2 o2] eqn:E2. cbn [fst].
        replace w2 with (fst (after_apply w1 i x)) by (rewrite E2; reflexivity).
        eapply after_apply_inv; eauto.
    + cbn [fst]. upd_with i (upd_pc x (PLoad (LApply (u' :: rest') (failed || negb ok)))).
      apply loading_inv. right. cbn. split; eauto.
  - (* LEdge *)
    destruct todo as [|t rest].
    + cbn [fst]. upd_with i (upd_pc x (PLoad LData)). apply loading_inv. right. cbn. split; eauto.
    + destruct (fetch w i _ f) as [r o].
      destruct r as [[b|c|ups]|]; try apply FAIL.
      destruct (hist_leaves (w_lockhist w) (i_lockcp x)); try apply FAIL.
      destruct (bytes_eqb b _); try apply FAIL.
      cbn [fst]. upd_with i (upd_pc x (PLoad (match rest with [] => LData | _ => LEdge rest end))).
      apply loading_inv. right. cbn. split; eauto.
  - (* LData *)
    destruct (fetch w i _ f) as [r o].
    destruct r as [[b|c|ups]|]; try apply FAIL.
    destruct (hist_leaves (w_lockhist w) (i_lockcp x)); try apply FAIL.
    destruct (bytes_eqb b _); try apply FAIL.
    cbn [fst]. upd_with i (upd_pc x (PLoad LRoots)). apply loading_inv. right. cbn. split; eauto.
  - (* LRoots: the instance is loaded *)
    destruct (fetch w i k_roots f) as [r o]. cbn [fst].
    destruct Hx as [ls0 L0].
    destruct (hist_leaves_some _ _ _ L0) as [ls' Els]. rewrite Els.
    match goal with |- Inv (set_i w i ?X) => upd_with i X end.
    unfold Inv.inst_inv, Inv.loaded. cbn [i_pc i_lockcp i_leaves i_tree].
    split; [apply hist_leaves_in; assumption|reflexivity].
Qed.

(* ---------- submissions ---------- *)
Lemma upload_issuers_frame iss : forall w i known fs w' k' ok o,
  upload_issuers sha w i known iss fs = (w', k', ok, o) ->
  w_lockhist w' = w_lockhist w /\ w_lock w' = w_lock w /\ w_insts w' = w_insts w /\ w_pubhist w' = w_pubhist w.
Proof.
  induction iss as [|b r IH]; intros w i known fs w' k' ok o E; cbn [upload_issuers] in E.
  - inversion E; subst. auto.
  - destruct (existsb _ known); [eapply IH; eauto|].
    destruct (fetch w i _ _) as [got o1].
    destruct got as [ob|].
    + destruct (obj_eqb ob (OB b)).
      * destruct (upload_issuers sha w i _ r _) as [[[w2 k2] ok2] o2] eqn:E2.
        inversion E; subst. eapply IH; eauto.
      * inversion E; subst. auto.
    + destruct (world_upload _ _ _ _ _ _) as [[w1 ok1] o2] eqn:E1.
      apply upload_frame in E1. destruct E1 as (A1 & A2 & A3 & A4).
      assert (A5 : w_pubhist w1 = w_pubhist w) by (destruct A4 as [?|[c [X _]]]; [assumption|discriminate]).
      destruct ok1.
      * destruct (upload_issuers sha w1 i _ r _) as [[[w2 k2] ok2] o3] eqn:E2.
        inversion E; subst. apply IH in E2. destruct E2 as (B1 & B2 & B3 & B4).
        repeat split; congruence.
      * inversion E; subst. auto.
Qed.

Lemma step_submit_inv w i x e low victim fs :
  Inv w -> get_inst (w_insts w) i = Some x ->
  Inv (fst (step_submit w i x e low victim fs)).
Proof.
  intros HI G. pose proof (inst_of_inv _ _ _ HI G) as Hx.
  unfold Model.step_submit.
  destruct (upload_issuers sha w i (i_issuers x) (e_issuers e) fs) as [[[w1 known] ok] o] eqn:E.
  apply upload_issuers_frame in E. destruct E as (A1 & A2 & A3 & A4).
  assert (Hp : forall c k, In (c, k) (w_pubhist w1) -> In (c, k) (w_pubhist w) \/ (k = length (w_lockhist w) /\ exists ls, In (c, ls) (w_lockhist w)))
    by (intros c k Hc; left; congruence).
  destruct ok; cbn [negb].
  - destruct (admission sha _ _ _ _ _ _ _ _ _) as [p' r].
    destruct r; cbn [fst];
      (eapply Inv_upd with (i := i); [eassumption | fields; congruence | fields; congruence
        | fields; rewrite A3; reflexivity | fields; assumption
        | eapply inst_inv_core; [| | | | |exact Hx]; reflexivity]).
  - cbn [fst].
    eapply Inv_upd with (i := i); [eassumption | fields; congruence | fields; congruence
        | fields; rewrite A3; reflexivity | fields; assumption
        | eapply inst_inv_core; [| | | | |exact Hx]; reflexivity].
Qed.

(* ---------- every event ---------- *)
Theorem Inv_step w e : Inv w -> Inv (fst (step w e)).
Proof.
  intro HI. destruct e; unfold Model.step.
  - (* clock *) destruct HI as (C & L & II & P). repeat split; assumption.
  - (* create *) cbn [fst]. upd_with i (upd_pc (inst0 c) (PCreate 0)). { auto. } unfold Inv.inst_inv. cbn. lia.
  - (* start *) cbn [fst].
    match goal with |- Inv (set_i w i ?X) => upd_with i X end. { auto. } exact I.
  - (* step *)
    destruct (get_inst (w_insts w) i) as [x|] eqn:G; [|exact HI].
    destruct (i_pc x) eqn:Hpc; try exact HI.
    + apply step_create_inv; assumption.
    + apply step_load_inv; assumption.
    + apply step_round_inv; assumption.
  - (* submit *)
    destruct (get_inst (w_insts w) i) as [x|] eqn:G; [|exact HI].
    destruct (i_pc x); try exact HI; apply step_submit_inv; assumption.
  - (* tick *)
    destruct (get_inst (w_insts w) i) as [x|] eqn:G; [|exact HI].
    unfold step_tick. destruct (i_pc x) eqn:Hpc; try exact HI.
    cbn [fst]. pose proof (inst_of_inv _ _ _ HI G) as Hx. unfold Inv.inst_inv in Hx. rewrite Hpc in Hx.
    match goal with |- Inv (set_i w i ?X) => upd_with i X end. { auto. } exact Hx.
  - (* crash *)
    destruct (get_inst (w_insts w) i) as [x|] eqn:G; [|exact HI].
    cbn [fst]. upd_with i (upd_pc x PDead). { auto. } exact I.
  - (* stop *)
    destruct (get_inst (w_insts w) i) as [x|] eqn:G; [|exact HI].
    destruct (i_pc x) eqn:Hpc; try exact HI.
    destruct (fail_pool _ _ _ _) as [w1 o1] eqn:E1.
    apply fail_pool_frame in E1. destruct E1 as (A1 & A2 & A3 & A4). fields.
    eapply Inv_upd with (i := i); [eassumption|congruence|congruence|eassumption| |exact I].
    intros c k Hc. left. congruence.
  - (* cache loss *)
    destruct (get_inst (w_insts w) i) as [x|] eqn:G; [|exact HI].
    cbn [fst]. pose proof (inst_of_inv _ _ _ HI G) as Hx.
    match goal with |- Inv (set_i w i ?X) => upd_with i X end. { auto. }
    eapply inst_inv_core; [| | | | |exact Hx]; reflexivity.
  - (* tampering with object storage: the lock store and the instances are untouched *)
    destruct HI as (C & L & II & P). destruct o; repeat split; assumption.
  - (* recompute-cache *)
    destruct (get_inst (w_insts w) i) as [x|] eqn:G; [|exact HI].
    destruct (step_recompute_spec sha w i x key lim) as [E|(p & ls & c1 & why & _ & _ & _ & E)]; rewrite E; [exact HI|].
    pose proof (inst_of_inv _ _ _ HI G) as Hx.
    match goal with |- Inv (set_i w i ?X) => upd_with i X end. { auto. }
    eapply inst_inv_core; [| | | | |exact Hx]; reflexivity.
Qed.

Theorem Inv_run evs : forall w, Inv w -> Inv (run evs w).
Proof.
  induction evs as [|e r IH]; intros w HI; cbn; [assumption|].
  apply IH. apply Inv_step. assumption.
Qed.

Theorem Inv_reachable evs : Inv (run evs init).
Proof. apply Inv_run. apply Inv_init. Qed.

End I.
