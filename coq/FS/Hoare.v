(* FS/Hoare.v — a small program logic for the trace-recording state monad of FS/Model.v:
   `chain T s P R` says that P holds in every state reached by a prefix of the system-call
   trace T started in s, and that R relates every state to its successor. `mchain m s P R Post`
   lifts this to a monadic computation and adds a postcondition on result and final state.
   Also: inversion lemmas for the individual system calls. *)
From SL Require Import Base.Bytes Base.BytesProofs FS.Model FS.Lemmas.
From Coq Require Import Lia.
Import ListNotations.
Open Scope nat_scope.

Fixpoint chain (T : list sys) (s : fs) (P : fs -> Prop) (R : fs -> fs -> Prop) : Prop :=
  P s /\ match T with
         | [] => True
         | c :: T' => R s (exec1 c s) /\ chain T' (exec1 c s) P R
         end.

Lemma chain_head T s (P : fs -> Prop) (R : fs -> fs -> Prop) : chain T s P R -> P s.
Proof. destruct T; cbn; tauto. Qed.

Lemma chain_app T1 : forall T2 s (P : fs -> Prop) (R : fs -> fs -> Prop),
  chain T1 s P R -> chain T2 (exec T1 s) P R -> chain (T1 ++ T2) s P R.
Proof.
  induction T1 as [|c T IH]; intros T2 s P R H1 H2; cbn [app].
  - exact H2.
  - cbn in H1. destruct H1 as [Hp [Hr Hc]]. cbn. repeat split; auto.
Qed.

Lemma chain_prefix T : forall s (P : fs -> Prop) (R : fs -> fs -> Prop) k, chain T s P R -> P (exec (firstn k T) s).
Proof.
  induction T as [|c T IH]; intros s P R k H.
  - rewrite firstn_nil. cbn. apply (chain_head [] s P R H).
  - destruct k; cbn [firstn].
    + cbn. apply (chain_head _ _ _ _ H).
    + rewrite exec_cons. apply (IH _ P R). cbn in H. tauto.
Qed.

(* the step relation between any two prefixes, when R is reflexive and transitive *)
Lemma chain_between T : forall s (P : fs -> Prop) (R : fs -> fs -> Prop) j k,
  (forall x, R x x) -> (forall x y z, R x y -> R y z -> R x z) ->
  chain T s P R -> j <= k -> R (exec (firstn j T) s) (exec (firstn k T) s).
Proof.
  induction T as [|c T IH]; intros s P R j k Hrefl Htrans H Hjk.
  - rewrite !firstn_nil. apply Hrefl.
  - destruct j.
    + cbn [firstn]. rewrite exec_nil. destruct k; cbn [firstn].
      * apply Hrefl.
      * rewrite exec_cons. cbn in H. destruct H as [_ [Hr Hc]].
        apply Htrans with (exec1 c s); auto.
        specialize (IH (exec1 c s) P R 0 k Hrefl Htrans Hc ltac:(lia)).
        cbn [firstn] in IH. rewrite exec_nil in IH. exact IH.
    + destruct k; [lia|]. cbn [firstn]. rewrite !exec_cons.
      cbn in H. apply (IH _ P R); try tauto. lia.
Qed.

Definition mchain {A} (m : M A) (s : fs) (P : fs -> Prop) (R : fs -> fs -> Prop) (Post : A -> fs -> Prop) : Prop :=
  chain (trace_of (m s)) s P R /\ state_of (m s) = exec (trace_of (m s)) s /\ Post (result_of (m s)) (state_of (m s)).

Lemma mchain_ret {A} (a : A) s (P : fs -> Prop) (R : fs -> fs -> Prop) (Post : A -> fs -> Prop) : P s -> Post a s -> mchain (ret a) s P R Post.
Proof. intros Hp Hq. unfold mchain, ret, trace_of, state_of, result_of. cbn. auto. Qed.

Lemma mchain_bind {A B} (m : M A) (f : A -> M B) s (P : fs -> Prop) (R : fs -> fs -> Prop) (Q : A -> fs -> Prop) (Post : B -> fs -> Prop) :
  mchain m s P R Q ->
  (forall a s1, Q a s1 -> mchain (f a) s1 P R Post) ->
  mchain (bind m f) s P R Post.
Proof.
  unfold mchain, bind. intros [H1 [H2 H3]] Hf.
  destruct (m s) as [[a s1] t1] eqn:Em. unfold trace_of, state_of, result_of in *. cbn [fst snd] in *.
  specialize (Hf a s1 H3). destruct (f a s1) as [[b' s2] t2] eqn:Ef. cbn [fst snd] in *.
  destruct Hf as [G1 [G2 G3]]. subst s1. repeat split; auto.
  - apply chain_app; auto.
  - rewrite exec_app. exact G2.
Qed.

Lemma mchain_call c s (P : fs -> Prop) (R : fs -> fs -> Prop) (Post : option errno -> fs -> Prop) :
  P s -> R s (fst (step c s)) -> P (fst (step c s)) -> Post (snd (step c s)) (fst (step c s)) ->
  mchain (call c) s P R Post.
Proof.
  intros Hp Hr Hp' Hq. unfold mchain, call, trace_of, state_of, result_of.
  destruct (step c s) as [s' r] eqn:E. cbn in *. unfold exec1. rewrite E. cbn. repeat split; auto.
Qed.

Lemma mchain_stat p s (P : fs -> Prop) (R : fs -> fs -> Prop) (Post : wres -> fs -> Prop) :
  P s -> R s s -> Post (walk (dirs s) p) s -> mchain (stat p) s P R Post.
Proof.
  intros Hp Hr Hq. unfold mchain, stat, trace_of, state_of, result_of. cbn.
  assert (E : exec1 (SStat p) s = s).
  { unfold exec1. cbn. destruct (walk (dirs s) p); reflexivity. }
  rewrite E. repeat split; auto.
Qed.

Lemma mchain_weaken {A} (m : M A) s (P : fs -> Prop) (R : fs -> fs -> Prop) (Q Q' : A -> fs -> Prop) :
  mchain m s P R Q -> (forall a s', Q a s' -> Q' a s') -> mchain m s P R Q'.
Proof. unfold mchain. intros [H1 [H2 H3]] H. auto. Qed.

(* ---- inversion of the system calls ---- *)

Lemma step_fail_same c s : forall e, snd (step c s) = Some e -> fst (step c s) = s.
Proof.
  intros e. unfold step, ok, fail. destruct c; cbn [fst snd]; intros H;
  repeat match type of H with
         | context [match ?x with _ => _ end] => destruct x; cbn [fst snd] in *
         end; try discriminate; reflexivity.
Qed.

Lemma step_opendir s q fd :
  step (SOpenDir q fd) s =
  match walk (dirs s) q with
  | WDir => (bind_fd s fd (HDir q), None)
  | WFile _ => (s, Some ENOTDIR)
  | WErr e => (s, Some e)
  end.
Proof. reflexivity. Qed.

Lemma snoc_not_nil {A} (l : list A) (x : A) : l ++ [x] <> [].
Proof. destruct l; discriminate. Qed.

Lemma match_snoc {A B} (l : list A) (x : A) (u v : B) :
  match l ++ [x] with [] => u | _ :: _ => v end = v.
Proof. destruct l; reflexivity. Qed.

Lemma step_creat s d n fd :
  step (SCreat (d ++ [n]) fd) s =
  match walk_parent (dirs s) (d ++ [n]) with
  | Some e => (s, Some e)
  | None =>
    if too_long n then (s, Some ENAMETOOLONG) else
    match eget (dview (dirs s) d) n with
    | Some _ => (s, Some EEXIST)
    | None =>
      (mkFs (dpush (dirs s) d (OLink n (EFile (length (files s))))) (files s ++ [new_file])
            ((fd, HFile (length (files s))) :: fds s) (cap s), None)
    end
  end.
Proof.
  unfold step. cbv zeta. destruct (d ++ [n]) eqn:E.
  - exfalso. eapply snoc_not_nil; eauto.
  - rewrite <- E. rewrite parent_snoc, base_snoc. reflexivity.
Qed.

Lemma walk_parent_snoc ds d n :
  walk_parent ds (d ++ [n]) = match walk ds d with WDir => None | WFile _ => Some ENOTDIR | WErr e => Some e end.
Proof. unfold walk_parent. rewrite parent_snoc. reflexivity. Qed.

Lemma step_unlink s d n :
  step (SUnlink (d ++ [n])) s =
  match walk_parent (dirs s) (d ++ [n]) with
  | Some e => (s, Some e)
  | None =>
    if too_long n then (s, Some ENAMETOOLONG) else
    match eget (dview (dirs s) d) n with
    | None => (s, Some ENOENT)
    | Some EDir => (s, Some EISDIR)
    | Some (EFile i) =>
      if file_imm s i then (s, Some EPERM) else (set_dirs s (dpush (dirs s) d (OUnlink n)), None)
    end
  end.
Proof.
  unfold step. cbv zeta. destruct (d ++ [n]) eqn:E.
  - exfalso. eapply snoc_not_nil; eauto.
  - rewrite <- E. rewrite parent_snoc, base_snoc. reflexivity.
Qed.

Lemma step_rmdir s d n :
  step (SRmdir (d ++ [n])) s =
  match walk_parent (dirs s) (d ++ [n]) with
  | Some e => (s, Some e)
  | None =>
    if too_long n then (s, Some ENAMETOOLONG) else
    match eget (dview (dirs s) d) n with
    | None => (s, Some ENOENT)
    | Some (EFile _) => (s, Some ENOTDIR)
    | Some EDir =>
      match dview (dirs s) (d ++ [n]) with
      | [] => (set_dirs s (dpush (dirs s) d (OUnlink n)), None)
      | _ => (s, Some ENOTEMPTY)
      end
    end
  end.
Proof.
  unfold step. cbv zeta. destruct (d ++ [n]) eqn:E.
  - exfalso. eapply snoc_not_nil; eauto.
  - rewrite <- E. rewrite parent_snoc, base_snoc. reflexivity.
Qed.

Lemma step_mkdir s d n :
  step (SMkdir (d ++ [n])) s =
  match walk_parent (dirs s) (d ++ [n]) with
  | Some e => (s, Some e)
  | None =>
    if too_long n then (s, Some ENAMETOOLONG) else
    match eget (dview (dirs s) d) n with
    | Some _ => (s, Some EEXIST)
    | None => (set_dirs s (dpush (dupd (dirs s) (d ++ [n]) empty_dir) d (OLink n EDir)), None)
    end
  end.
Proof.
  unfold step. cbv zeta. destruct (d ++ [n]) eqn:E.
  - exfalso. eapply snoc_not_nil; eauto.
  - rewrite <- E. rewrite parent_snoc, base_snoc. reflexivity.
Qed.

(* rename inside one directory *)
Lemma step_rename_same s d a b :
  step (SRename (d ++ [a]) (d ++ [b])) s =
  match walk_parent (dirs s) (d ++ [a]) with
  | Some e => (s, Some e)
  | None =>
    if too_long a then (s, Some ENAMETOOLONG) else
    match eget (dview (dirs s) d) a with
    | None => (s, Some ENOENT)
    | Some EDir => (s, Some EINVAL)
    | Some (EFile i) =>
      if too_long b then (s, Some ENAMETOOLONG) else
      if file_imm s i then (s, Some EPERM) else
      match eget (dview (dirs s) d) b with
      | Some EDir => (s, Some EISDIR)
      | Some (EFile j) =>
        if file_imm s j then (s, Some EPERM) else (set_dirs s (dpush (dirs s) d (ORename a b i)), None)
      | None => (set_dirs s (dpush (dirs s) d (ORename a b i)), None)
      end
    end
  end.
Proof.
  unfold step. cbv zeta. destruct (d ++ [a]) eqn:Ea.
  - exfalso. eapply snoc_not_nil; eauto.
  - rewrite <- Ea. destruct (d ++ [b]) eqn:Eb.
    + exfalso. eapply snoc_not_nil; eauto.
    + rewrite <- Eb. rewrite !parent_snoc, !base_snoc, path_eqb_refl.
      rewrite !walk_parent_snoc.
      destruct (walk (dirs s) d); reflexivity.
Qed.
